"""C18 log window and live subscription.
model: coq/theories/LogBuf; theorems: coq/theories/Props/C18.v; harness: harness/cmd/c18"""
import json
import vcheck as V


def run(ctx):
    ok, log = V.build_coq()
    if not ok:
        ctx.broken_build("coq-build", log)
        ctx.write_evidence("proof", {"obligations": 0, "discharged": 0, "checker_cmd": "make -C coq",
                                     "trusted_base": V.TRUSTED_COMMON, "evaluations": 0}, [])
        return
    rep = V.props_report("C18")
    ok, binp, log = V.build_harness("c18")
    if not ok:
        ctx.broken_build("harness-build(-tags verif) against current /repo tree", log)
    nrand = 300 if ctx.tier == "quick" else 4000
    stats, res, bad_model, bad_mon = {}, {}, [], []
    cases = []
    if ok:
        args = [str(binp), "-out", str(ctx.rundir), "-seed", str(ctx.seed), "-n", str(nrand),
                "-corpus", str(V.VERIF / "corpus" / "C18")]
        if ctx.replay:
            rp = json.load(open(ctx.replay))
            cf = ctx.rundir / "replay_cases.json"
            cf.write_text(json.dumps(rp.get("cases", [rp.get("case")])))
            args = [str(binp), "-out", str(ctx.rundir), "-replay", str(cf)]
        rc, out = V.sh(args, timeout=600)
        if rc != 0:
            ctx.broken_build("harness-run", out)
        else:
            stats = json.loads(out.strip().splitlines()[-1])
            rc, res, raw = V.coq_eval(ctx.rundir / "cases_C18.v")
            cases = json.load(open(ctx.rundir / "cases_C18.json"))
            if rc != 0 or "r_bad_model" not in res or "r_bad_monitor" not in res:
                ctx.broken_build("coq-eval of observed cases", raw)
            else:
                bad_model, bad_mon = res["r_bad_model"], res["r_bad_monitor"]
    # ---- verdict (DESIGN 2.4)
    if bad_mon:
        # a concrete history on which the property's monitor is false on the implementation's output
        i = bad_mon[0]
        ctx.violation({"case": shrink_view(cases[i]), "cases": [cases[i]], "failing_case_indices": bad_mon[:50],
                       "monitor": "holds_C18 (coq/theories/LogBuf/Check.v)"},
                      "log buffer: window / length / follower stream differs from the specification on %d of %d histories; first: kind=%s panic=%r"
                      % (len(bad_mon), len(cases), cases[i]["kind"], cases[i].get("panic", "")))
    elif bad_model:
        i = bad_model[0]
        ctx.violation({"case": shrink_view(cases[i]), "cases": [cases[i]], "failing_case_indices": bad_model[:50],
                       "correspondence": "corr_LogBuf (model_ok, coq/theories/LogBuf/Check.v)",
                       "theorems_resting_on_it": rep["theorems"]},
                      "implementation left the model (correspondence corr_LogBuf broken) but the C18 monitor found no failing history",
                      no_input=True)
    if not rep["ok"]:
        ctx.broken_build("Props/C18.v does not compile", rep["log"])
    # ---- directed scenario for the known finding F29 lives in the websocket harness (C19/C18 thorough)
    nontrivial = sum(1 for c in cases if len(c["ops"]) >= 3 and any(o["k"] in ("range", "sub") for o in c["ops"]))
    distinct = len({json.dumps(c["ops"]) for c in cases if len(c["ops"]) >= 3 and any(o["k"] in ("range", "sub") for o in c["ops"])})
    cov = V.proof_coverage(rep, {
        "evaluations": len(cases),
        "distinct_nontrivial": distinct,
        "rule": "cases = corpus + exhaustive grid (buffer length 0..8 x offset,limit,tail in [-2,11]) + seeded random op sequences "
                "(write/subscribe/unsubscribe/close/range, bursts across the trimming point, extreme ints); non-trivial = >=3 ops and at least one range or subscribe; distinct by op list",
        "nontrivial_cases": nontrivial,
        "op_distribution": stats,
        "traces_validated_against_impl": len(cases) - len(bad_model),
        "exhaustive": False,
        "grid_exhaustive": "offset,limit in [-2,11]^2 and tail in [-2,11] for every buffer length 0..8",
        "samples": [shrink_view(c) for c in cases[9:11]] if len(cases) > 11 else [shrink_view(c) for c in cases[:1]],
        "model_mismatches": len(bad_model), "monitor_failures": len(bad_mon),
    })
    ctx.write_evidence("proof", cov, [
        "observers are in-process objects; the websocket follower (bounded channel) is modelled by write_enabled/deliver only (finding F29)",
        "Go int is 64-bit; the model uses Z (all values are clamped to [0,len] before arithmetic)",
        "atomicity of Write / GetLogsAndSubscribe rests on the buffer mutex (checked structurally under C20)"])


def shrink_view(c):
    v = dict(c)
    if len(v.get("ops", [])) > 40:
        v = dict(v, ops=v["ops"][:40] + [{"k": "... %d more" % (len(c["ops"]) - 40)}])
        for k in ("outs", "out_ok", "lens"):
            v[k] = v[k][:40]
    return v
