"""C09: supervisor-core property, decided on the Sup model (coq/theories/Sup, Props/C09.v) with the
controlled-scheduling harness (harness/cmd/sup).  See lib/supcheck.py."""
import supcheck


def run(ctx):
    supcheck.run(ctx, "C09", kinds="api,deps,shutdown,single,stopstart", n_quick=180, n_thorough=2000)
