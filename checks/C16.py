"""C16 loading is deterministic, applies defaults, gives each replica its own configuration.
model: coq/theories/Load; theorems: coq/theories/Props/C16.v; harness: harness/cmd/c16"""
import json
import vcheck as V

CLAUSES = [(1, "repeated loads of the same file differ"), (2, "name/namespace/replicas/launch-timeout defaults"),
           (4, "replica name / replica number"), (8, "command/working_dir/log_location/description not rendered with the replica's own variables"),
           (16, "probe field not rendered with the replica's own variables"), (32, "vars of the replica (PC_REPLICA_NUM) wrong"),
           (64, "a replica is missing or a key repeats")]


def clause_text(mask):
    return "; ".join(t for b, t in CLAUSES if mask & b) or "none"


def same_replica_num(case):
    """some process with several replicas whose replicas all carry the same PC_REPLICA_NUM (aliased Vars map)"""
    for o in case.get("obs", []):
        by = {}
        for p in o.get("Procs", []):
            num = [v for k, v in (p.get("Vars") or []) if k == "PC_REPLICA_NUM"]
            by.setdefault(p.get("Name"), []).append(num[0] if num else None)
        if any(len(v) > 1 and len(set(v)) == 1 for v in by.values()):
            return True
    return False


def classify(case, mask):
    """key of the defect class of a failing case: a different violation of C16 gets a different key"""
    procs = case["procs"]
    shared = [p["key"] for p in procs if p["replicas"] > 1 and (p.get("vars") or p.get("ready") or p.get("live"))]
    negative = [p["key"] for p in procs if p["replicas"] < 0]
    # F34: a negative count survives (clause 2) AND the entry has no replica name (clause 4)
    if negative and (mask & 2) and (mask & 4) and not (mask & 8):
        rest = mask & ~(2 | 4 | 64)
        if rest == 0 or (shared and (rest & 1) and rest & ~(1 | 16 | 32) == 0):
            return "F34:replicas<0-not-defaulted"
    # F4: which replica is rendered first depends on the map order, so the loads differ (clause 1) - or, when all
    # loads happened to use the same order, all replicas of a process report the same PC_REPLICA_NUM - and only probe
    # fields / vars are wrong
    if shared and (mask & ~(1 | 16 | 32)) == 0 and ((mask & 1) or same_replica_num(case)):
        return "F4:replicas-share-probes-and-vars"
    return "C16:clauses-%d" % mask


def view(c):
    v = {k: c[k] for k in ("kind", "gvars", "shell", "tui", "procs", "nloads", "yaml", "obs_count", "panic") if k in c}
    obs = []
    for o in c.get("obs", [])[:2]:
        obs.append({"Err": o.get("err", ""), "Shell": o.get("Shell"),
                    "Procs": [{k: p.get(k) for k in ("Key", "Name", "Namespace", "Replicas", "LT", "Num", "RName", "Command", "Wd", "Log",
                                                     "Desc", "Vars", "Ready", "Live")} for p in o.get("Procs", [])[:8]]})
    v["observed_first_projects"] = obs
    return v


def source_of(c):
    return {k: c[k] for k in ("kind", "gvars", "shell", "tui", "procs", "nloads") if k in c}


def run(ctx):
    ok, log = V.build_coq()
    if not ok:
        ctx.broken_build("coq-build", log)
        ctx.write_evidence("proof", {"obligations": 0, "discharged": 0, "checker_cmd": "make -C coq",
                                     "trusted_base": V.TRUSTED_COMMON, "evaluations": 0}, [])
        return
    rep = V.props_report("C16")
    ok, binp, log = V.build_harness("c16")
    if not ok:
        ctx.broken_build("harness-build(-tags verif) against current /repo tree", log)
    nrand = 60 if ctx.tier == "quick" else 1200
    nloads = 20
    stats, res, bad_model, bad_mon, diag = {}, {}, [], [], []
    cases = []
    if ok:
        shards = 1 if ctx.tier == "quick" else 12
        per = nrand // shards
        for sh in range(shards):
            outdir = ctx.rundir / ("s%d" % sh)
            outdir.mkdir(parents=True, exist_ok=True)
            args = [str(binp), "-out", str(outdir), "-seed", str(ctx.seed * 1000 + sh if shards > 1 else ctx.seed),
                    "-n", str(per), "-loads", str(nloads), "-corpus", str(V.VERIF / "corpus" / "C16")]
            if ctx.replay:
                rp = json.load(open(ctx.replay))
                cf = ctx.rundir / "replay_cases.json"
                cf.write_text(json.dumps(rp.get("cases", [rp.get("case")])))
                args = [str(binp), "-out", str(outdir), "-replay", str(cf), "-loads", str(nloads)]
            rc, out = V.sh(args, timeout=900)
            if rc != 0:
                ctx.broken_build("harness-run", out)
                break
            st = json.loads(out.strip().splitlines()[-1])
            for k, v in st.items():
                stats[k] = stats.get(k, 0) + v
            rc, res, raw = V.coq_eval(outdir / "cases_C16.v", timeout=2400)
            cs = json.load(open(outdir / "cases_C16.json"))
            if rc != 0 or any(k not in res for k in ("r_bad_model", "r_bad_monitor", "r_diag")):
                ctx.broken_build("coq-eval of observed cases", raw)
                break
            base = len(cases)
            cases += cs
            bad_model += [base + i for i in res["r_bad_model"]]
            bad_mon += [base + i for i in res["r_bad_monitor"]]
            diag += res["r_diag"]
            if ctx.replay:
                break
    # ---- verdict (DESIGN 2.4)
    reported = set()
    for i in bad_mon:
        # a file on which the property's monitor is false on what loader.Load returned
        mask = diag[i] if i < len(diag) else 0
        key = classify(cases[i], mask)
        if key in reported:
            continue
        reported.add(key)
        same = [j for j in bad_mon if classify(cases[j], diag[j]) == key]
        ctx.known_or_violation(key, {"case": view(cases[i]), "cases": [source_of(cases[i])], "failing_case_indices": same[:50],
                                     "failed_clauses": clause_text(mask),
                                     "monitor": "holds_C16 (coq/theories/Load/Check.v)"},
                               "loader.Load: %s on %d of %d files [%s]; first: kind=%s"
                               % (clause_text(mask), len(same), len(cases), key, cases[i]["kind"]))
    if bad_model and not bad_mon:
        i = bad_model[0]
        ctx.violation({"case": view(cases[i]), "cases": [source_of(cases[i])], "failing_case_indices": bad_model[:50],
                       "correspondence": "corr_Load (model_ok, coq/theories/Load/Check.v)",
                       "theorems_resting_on_it": rep["theorems"]},
                      "implementation left the model (correspondence corr_Load broken: some modelled field of some replica differs, "
                      "e.g. probe defaults, executable/args, exec-probe working dir) but the C16 monitor found no failing file",
                      no_input=True)
    if not rep["ok"]:
        ctx.broken_build("Props/C16.v does not compile", rep["log"])

    def nontrivial(c):
        return any(p["replicas"] > 1 for p in c["procs"]) and \
            any(s.get("v") for p in c["procs"] for f in ("command", "wd", "log", "desc") for s in (p.get(f) or []))
    nt = [c for c in cases if nontrivial(c)]
    distinct = len({json.dumps(source_of(c), sort_keys=True) for c in nt})
    cov = V.proof_coverage(rep, {
        "evaluations": len(cases),
        "loads_executed": stats.get("loads", 0),
        "replica_records_compared_per_load": stats.get("replica_records", 0),
        "distinct_nontrivial": distinct,
        "rule": "cases = corpus + 13 directed files (F4 exec/http probe, negative replicas, name clash, variable precedence, "
                "widths 9..101, executable/args) + seeded random files (1-4 processes, replicas in {unset,1,2,3,9..12,100..102,<0}, "
                "templates in command/working_dir/log_location/description/probe command/host/path/scheme/port, global and process vars, "
                "shadowing and missing names, exec/http/both probes); every file loaded %d times; non-trivial = some process with "
                "replicas > 1 and some {{.VAR}} in a process-level templated field; distinct by file description" % nloads,
        "nontrivial_cases": len(nt),
        "input_distribution": stats,
        "traces_validated_against_impl": len(cases) - len(bad_model),
        "exhaustive": False,
        "samples": [view(c) for c in cases[4:6]],
        "model_mismatches": len(bad_model), "monitor_failures": len(bad_mon),
    })
    ctx.write_evidence("proof", cov, [
        "text/template is modelled for the subset literal text + {{.NAME}} over a flat map of printed values (strings, ints, bools); "
        "the generator stays inside it (Model.in_subset is part of model_ok)",
        "ASCII strings; strings.TrimSpace/strconv.Atoi modelled for ASCII input",
        "merging of several files (C15), environment expansion (C17) and the validators are outside this model: one file per load, "
        "no '$' in the generated text, files pass validation",
        "math.Log10 gives the exact digit count for the replica counts exercised (9..12, 99..102 checked on every run)",
        "Go map iteration order is the only source of variation between loads; 20 loads per file sample it, the theorem covers all orders"])
