"""C19 REST API and client: faithful view of the runner, client errors never become 5xx.
model: coq/theories/Api; theorems: coq/theories/Props/C19.v; harness: harness/cmd/c19"""
import json
import vcheck as V


def world_replay(cases, i):
    """the request sequence of the failing case's world up to and including it"""
    w = cases[i]["world"]
    reqs = [c["req"] for c in cases[:i + 1] if c["world"] == w]
    return [{"world": w, "reqs": reqs}]


def view_case(c):
    return {k: c.get(k) for k in ("kind", "world", "idx", "req", "call", "res", "status", "body", "raw_body", "direct",
                                  "client", "alive", "arg_ok", "effect", "note", "body_class")}


def defect_class(c):
    """(key, text) of a monitor failure; key None = not a recognised class (plain violation)"""
    cl, res, op = c.get("client"), c.get("res"), c["req"]["op"]
    if cl and cl["k"] == "panic" and op == "logs":
        return ("client-getprocesslog-panic",
                "F30: PcClient.GetProcessLog panics (%r) instead of returning the runner's log window" % cl.get("s"))
    if cl and cl["k"] == "zero" and res and res["k"] == "err" and c["alive"] and c["arg_ok"] and c["effect"]:
        return ("client-ignores-status:" + op,
                "F10: the server answered %d %r but PcClient's %s returned a zero value and NO error"
                % (c["status"], res["err"], op))
    return (None, None)


def run(ctx):
    ok, log = V.build_coq()
    if not ok:
        ctx.broken_build("coq-build", log)
        ctx.write_evidence("proof", {"obligations": 0, "discharged": 0, "checker_cmd": "make -C coq",
                                     "trusted_base": V.TRUSTED_COMMON, "evaluations": 0}, [])
        return
    rep = V.props_report("C19")
    ok, binp, log = V.build_harness("c19")
    if not ok:
        ctx.broken_build("harness-build(-tags verif) against current /repo tree", log)
    worlds, length = (10, 60) if ctx.tier == "quick" else (120, 90)
    stats, res, bad_model, bad_mon, cases = {}, {}, [], [], []
    if ok:
        args = [str(binp), "-out", str(ctx.rundir), "-seed", str(ctx.seed), "-worlds", str(worlds), "-len", str(length),
                "-corpus", str(V.VERIF / "corpus" / "C19")]
        if ctx.replay:
            rp = json.load(open(ctx.replay))
            cf = ctx.rundir / "replay_worlds.json"
            cf.write_text(json.dumps(rp.get("worlds", [])))
            args = [str(binp), "-out", str(ctx.rundir), "-replay", str(cf)]
        rc, out = V.sh(args, timeout=1500)
        if rc != 0:
            prog = ctx.rundir / "progress_C19.json"
            if prog.exists():
                p = json.loads(prog.read_text())
                ctx.violation({"worlds": [p], "log": out[-6000:]},
                              "the process that hosts the server died or hung while serving the last request of this sequence (exit %d): %s"
                              % (rc, json.dumps(p["reqs"][-1])[:300]))
            else:
                ctx.broken_build("harness-run", out)
        else:
            stats = json.loads(out.strip().splitlines()[-1])
            rc, res, raw = V.coq_eval(ctx.rundir / "cases_C19.v")
            cases = json.load(open(ctx.rundir / "cases_C19.json"))
            if rc != 0 or "r_bad_model" not in res or "r_bad_monitor" not in res:
                ctx.broken_build("coq-eval of observed cases", raw)
            else:
                bad_model, bad_mon = res["r_bad_model"], res["r_bad_monitor"]
    # ---- verdict (DESIGN 2.4)
    seen = set()
    for i in bad_mon:
        c = cases[i]
        key, text = defect_class(c)
        if key is None:
            key = "monitor:%s:%s:%d" % (c["kind"], c["req"]["op"], c["status"])
            text = ("exchange violates C19 (holds_C19 false): op=%s via=%s status=%d alive=%s arg_ok=%s effect=%s%s"
                    % (c["req"]["op"], c["req"]["via"], c["status"], c["alive"], c["arg_ok"], c["effect"],
                       (" note:" + c["note"]) if c.get("note") else ""))
        if key in seen:
            continue
        seen.add(key)
        obj = {"case": view_case(c), "worlds": world_replay(cases, i),
               "failing_case_indices": [j for j in bad_mon][:50], "monitor": "holds_C19 (coq/theories/Api/Check.v)"}
        if key.startswith("monitor:"):
            ctx.violation(obj, text)
        else:
            ctx.known_or_violation(key, obj, text)
    live5xx = [i for i, c in enumerate(cases) if c["kind"] == "live" and c["status"] >= 500 and i not in bad_mon]
    if live5xx:
        i = live5xx[0]
        ctx.violation({"case": view_case(cases[i]), "worlds": world_replay(cases, i)},
                      "5xx from the live runner: op=%s status=%d" % (cases[i]["req"]["op"], cases[i]["status"]))
    only_model = [i for i in bad_model if i not in bad_mon]
    if only_model and not bad_mon:
        i = only_model[0]
        ctx.violation({"case": view_case(cases[i]), "worlds": world_replay(cases, i), "failing_case_indices": only_model[:50],
                       "correspondence": "corr_Api (model_ok, coq/theories/Api/Check.v)",
                       "theorems_resting_on_it": rep["theorems"]},
                      "implementation left the model (correspondence corr_Api broken: op=%s via=%s status=%d) but the C19 monitor found no failing exchange"
                      % (cases[i]["req"]["op"], cases[i]["req"]["via"], cases[i]["status"]), no_input=True)
    if not rep["ok"]:
        ctx.broken_build("Props/C19.v does not compile", rep["log"])
    # ---- the strict reading: error that accompanies a non-empty status map is not transported (207)
    dropped = [i for i, c in enumerate(cases) if c.get("client") and c["client"]["k"] == "map" and c.get("res")
               and c["res"]["k"] == "map" and c["res"].get("has_err") and c["res"].get("map")]
    if dropped:
        i = dropped[0]
        ctx.known_or_violation("client-207-drops-error", {"case": view_case(cases[i]), "worlds": world_replay(cases, i)},
                               "partial stop/update: the runner returned (map, error %r), the client returned (map, nil): the error is not transported by 207 (%d exchanges)"
                               % (cases[i]["res"]["err"], len(dropped)))
    # ---- directed scenarios (websocket route, client URL)
    for s in stats.get("scenarios", []):
        if s["key"] == "ws-follower-stalled":
            if s["reproduced"]:
                ctx.known_or_violation("ws-follower-stalled", {"scenario": s}, "F29: " + s["detail"])
                if not s.get("resumed_after_close"):
                    ctx.known_or_violation("ws-writer-stuck-after-follower-left", {"scenario": s},
                                           "the writer stays blocked (buffer mutex held) after the stalled follower disconnected: " + s["detail"])
        elif s["reproduced"]:
            ctx.known_or_violation(s["key"], {"scenario": s}, s["detail"])
    # ---- evidence
    cnt = stats.get("counts", {})

    def nontrivial(c):
        return c.get("call") is not None or c["status"] >= 400
    distinct = len({json.dumps([c["req"], c.get("res"), c["status"]], sort_keys=True) for c in cases if nontrivial(c)})
    cov = V.proof_coverage(rep, {
        "evaluations": len(cases),
        "distinct_nontrivial": distinct,
        "rule": "cases = corpus + fixed grids (every route x every result shape through a scripted runner, by HTTP and by PcClient; "
                "every numeric text x every numeric parameter position; every body text x every body route) + seeded random request "
                "sequences on live runners (all 18 routes, existing/unknown/odd names, mutating operations interleaved); "
                "non-trivial = reached the runner or was answered >= 400; distinct by (request, runner result, status)",
        "nontrivial_cases": sum(1 for c in cases if nontrivial(c)),
        "distribution": cnt,
        "scenarios": stats.get("scenarios", []),
        "traces_validated_against_impl": len(cases) - len(bad_model),
        "exhaustive": False,
        "grid_exhaustive": "18 routes x result shapes {error, value/ok, 6 map shapes} x {http, client}; 29 numeric texts x 6 positions; 29 body texts x 3 body routes",
        "samples": [view_case(c) for c in cases[40:42]] if len(cases) > 42 else [view_case(c) for c in cases[:1]],
        "model_mismatches": len(bad_model), "monitor_failures": len(bad_mon),
    })
    ctx.write_evidence("proof", cov, [
        "JSON codec (encoding/json, gin binding), gin routing and gorilla/websocket are modelled, not verified: values are compared as projected canonical JSON; volatile fields (age, system_time, pid, mem, cpu, upTime, startTime, memoryState contents) are projected away",
        "a numeric path parameter is classified by the harness (regexp ^[+-]?[0-9]+$ + big integer value); the model decides acceptance by the 64-bit range",
        "the runner's answers are arbitrary (history-dependent) in the theorems; GetProjectState's error branch (500) is excluded by hypothesis and checked never to occur on the live runner",
        "process names given to PcClient must not contain / ? # % (wf_call); the harness shows the breakage for such names as a known finding",
        "quiescence of the live runner is detected by polling a projected snapshot (6 equal polls)"])
