"""C20 concurrent API use: no data race, crash or deadlock (level: partial).
static : harness/cmd/c20 (lockset translator, regenerates Facts.v from the CURRENT source) + coq/theories/Lockset
         (lockset_race_free, order_deadlock_free) evaluated on Facts.v by vm_compute, per variable
dynamic: harness/cmd/c20dyn built with -race; concurrent API operation sets in child processes; race reports,
         runtime fatal errors and 20 s watchdog timeouts are mapped to (variable, function) via the fact table
verdict: an inconsistent (variable, function) fact, a bad lock-order pair, or a dynamic report that is not
         listed in known_findings.json => VIOLATION (replay = the fact / the report + operation set)"""
import json, os, re, time
import vcheck as V

PID = "C20"


def fn_short(sym):
    """github.com/.../src/app.(*ProjectRunner).GetProcessesState.func1 -> ProjectRunner.GetProcessesState"""
    s = sym.split("/")[-1]
    m = re.match(r"^\w+\.\(\*?(\w+)\)\.(\w+)", s)
    if m:
        return m.group(1) + "." + m.group(2)
    m = re.match(r"^\w+\.(\w+)", s)
    return m.group(1) if m else s


def run(ctx):
    t_start = time.time()
    ok, log = V.build_coq()
    if not ok:
        ctx.broken_build("coq-build", log)
        ctx.write_evidence("proof", {"obligations": 0, "discharged": 0, "checker_cmd": "make -C coq",
                                     "trusted_base": V.TRUSTED_COMMON, "evaluations": 0}, [])
        return
    rep = V.props_report(PID)
    if not rep["ok"]:
        ctx.broken_build("Props/C20.v does not compile", rep["log"])
    okT, tbin, logT = V.build_harness("c20")
    if not okT:
        ctx.broken_build("translator build (harness/cmd/c20)", logT)
    race_build = True
    okD, dbin, logD = V.build_harness("c20dyn", race=True)
    if not okD and ("cgo" in logD.lower() or "gcc" in logD.lower() or "-race" in logD):
        race_build = False
        okD, dbin, logD = V.build_harness("c20dyn", race=False)
    if not okD:
        ctx.broken_build("harness-build(-race -tags verif) of harness/cmd/c20dyn against the current tree", logD)

    facts, res, stats, selftest = {}, {}, {}, {}
    culprits, bad_order, bad_vars, ok_vars = [], [], [], []
    inst_closed = 0
    static_ok = False
    if okT:
        rc, out = V.sh([str(tbin), "-selftest", str(V.VERIF / "harness" / "cmd" / "c20" / "testdata")], timeout=300,
                       env=V.GOENV, cwd=V.VERIF / "harness")
        try:
            selftest = json.loads(out.strip().splitlines()[-1])
        except Exception:
            selftest = {"failed": -1}
        if rc != 0:
            ctx.broken_build("translator self-test (harness/cmd/c20/testdata)", out)
        rc, out = V.sh([str(tbin), "-repo", str(V.REPO), "-out", str(ctx.rundir)], timeout=600, env=V.GOENV)
        if rc != 0:
            ctx.broken_build("translator run on the current tree (type errors = the tree does not compile)", out)
        else:
            stats = json.loads(out.strip().splitlines()[-1])
            facts = json.load(open(ctx.rundir / "facts.json"))
            rc, res, raw = V.coq_eval(ctx.rundir / "Facts.v", timeout=600)
            need = ("r_bad_vars", "r_ok_vars", "r_culprits", "r_bad_order", "r_order_ok")
            if rc != 0 or any(k not in res for k in need):
                ctx.broken_build("coq-eval of the regenerated Facts.v", raw)
            else:
                static_ok = True
                inst_closed = raw.count("Closed under the global context")
                V_, F_, L_ = facts["Vars"], facts["Fns"], facts["Locks"]
                bad_vars = [V_[i] for i in res["r_bad_vars"]]
                ok_vars = [V_[i] for i in res["r_ok_vars"]]
                c = res["r_culprits"]
                culprits = [(V_[c[i]], F_[c[i + 1]]) for i in range(0, len(c), 2)]
                o = res["r_bad_order"]
                bad_order = [(L_[o[i]], L_[o[i + 1]], F_[o[i + 2]]) for i in range(0, len(o), 3)]
                if inst_closed < 2:
                    ctx.broken_build("instantiated theorems on Facts.v not closed", raw)

    # ------------------------------------------------------------------------------- static verdict
    reported = set()
    by_var = {}
    for f in facts.get("Facts", []):
        by_var.setdefault(f["Var"], []).append(f)
    culprit_set = set(culprits)
    for (v, fn) in culprits:
        key = "race:%s:%s" % (v, fn)
        mine = [f for f in by_var.get(v, []) if f["Fn"] == fn]
        others = [f for f in by_var.get(v, []) if f["Fn"] != fn and (f["Write"] or any(m["Write"] for m in mine))
                  and not any(set(f["Locks"]) & set(m["Locks"]) for m in mine)]
        what = ("lockset: %s is accessed in %s (%s; locks held: %s) without a lock in common with %d conflicting access(es), e.g. %s"
                % (v, fn, "/".join(sorted({"write" if m["Write"] else "read" for m in mine})),
                   sorted({l for m in mine for l in m["Locks"]}) or "none", len(others),
                   "; ".join("%s %s@%s locks=%s" % ("write" if f["Write"] else "read", f["Fn"], f["Sites"][0], f["Locks"] or "none")
                             for f in others[:2])))
        if not ctx.known_or_violation(key, {"kind": "lockset-fact", "variable": v, "function": fn, "accesses": mine,
                                            "conflicting": others[:10],
                                            "theorem": "C20_lockset_race_free needs var_ok for this variable"}, what):
            reported.add(key)
    for v in bad_vars:
        if not any(cv == v for cv, _ in culprits):
            ctx.violation({"kind": "lockset-fact", "variable": v, "accesses": by_var.get(v, [])},
                          "lockset: variable %s is inconsistent but no culprit was computed" % v, no_input=True)
    for (a, b, fn) in bad_order:
        key = "order:%s>%s:%s" % (a, b, fn)
        ctx.known_or_violation(key, {"kind": "lock-order", "held": a, "acquired": b, "function": fn,
                                     "order_facts": facts.get("Order", [])},
                               "lock order: %s is acquired while %s is held in %s, against the rank of the other acquisitions (cycle: potential deadlock%s)"
                               % (b, a, fn, "; the same mutex twice = self-deadlock" if a == b else ""))

    # ------------------------------------------------------------------------------- dynamic part
    runs, dstats, dyn_counts = [], {}, {"race": 0, "fatal": 0, "panic": 0, "timeout": 0, "childfail": 0}
    explained, unexplained = {}, []
    if okD and static_ok:
        n = 40 if ctx.tier == "quick" else 400
        args = [str(dbin), "-out", str(ctx.rundir), "-seed", str(ctx.seed), "-n", str(n), "-workers", "8"]
        if ctx.replay:
            rp = json.load(open(ctx.replay))
            rr = rp.get("runs")
            if rr:
                (ctx.rundir / "replay_runs.json").write_text(json.dumps(rr))
                args = [str(dbin), "-out", str(ctx.rundir), "-replay", str(ctx.rundir / "replay_runs.json")]
            else:
                args = None  # a static replay: the facts above were recomputed from the current tree
        if args:
            rc, out = V.sh(args, timeout=3000, env=dict(os.environ))
            if rc != 0:
                ctx.broken_build("dynamic harness run", out)
            else:
                dstats = json.loads(out.strip().splitlines()[-1])
                runs = json.load(open(ctx.rundir / "dyn_C20.json"))
        # corpus: minimised operation sets that reproduced the main findings, run first on every normal run
        if args and not ctx.replay:
            cf = V.VERIF / "corpus" / PID / "opsets.json"
            if cf.exists():
                (ctx.rundir / "corpus").mkdir(exist_ok=True)
                rc, out = V.sh([str(dbin), "-out", str(ctx.rundir / "corpus"), "-replay", str(cf), "-workers", "8"],
                               timeout=1200, env=dict(os.environ))
                if rc == 0:
                    runs = json.load(open(ctx.rundir / "corpus" / "dyn_C20.json")) + runs
        sites = facts.get("Sites", {})

        def cands(fr):
            if not fr:
                return None
            return sites.get("%s:%d" % (fr["file"], fr["line"]), [])

        for r in runs:
            for f in (r.get("findings") or []):
                dyn_counts[f["kind"]] = dyn_counts.get(f["kind"], 0) + 1
                robj = {"kind": "dynamic-" + f["kind"], "report": f, "runs": [{"ops": r["ops"], "seed": r["seed"]}]}
                if f["kind"] == "timeout":
                    m = re.match(r"call (\w+) did not return", f.get("msg") or "")
                    op = m.group(1) if m else "final-shutdown"
                    where = sorted({fn_short(x.split(" @ ")[0].split("(0x")[0]) for x in (f.get("stack") or [])} - {"ProjectRunner.Run"})
                    # a blockage that involves the completion latch (waitForCompletion) is the latch family of
                    # findings (F32/F26, covered by the Sup properties); a pure mutex blockage keeps its full signature
                    serving = {"Process.waitForStdOutErr", "Process.run"} & set(where)
                    if "Process.waitForCompletion" in where and serving:
                        # somebody waits on the completion latch of an instance whose command is still alive: the stop
                        # request was lost in the stop-vs-launch window (F20/F21), whichever call is the one waiting
                        key = "blocked-on-latch:command-alive-after-stop"
                    elif "Process.waitForCompletion" in where:
                        key = "blocked-on-latch:%s" % op
                    else:
                        key = "blocked:%s:%s" % (op, "+".join(sorted(set(where) - serving)) or "?")
                    if key not in reported and not ctx.known_or_violation(key, robj, "a call blocked for more than 20 s (blocked forever) while %s ran concurrently: %s; goroutines blocked in: %s"
                                                  % (r["ops"], f.get("msg"), where)):
                        reported.add(key)
                    continue
                if f["kind"] == "childfail":
                    ctx.violation(robj, "dynamic harness child failed: %s" % f.get("msg"), no_input=True)
                    continue
                ca, cb = cands(f.get("a")), cands(f.get("b"))
                fa = fn_short(f["a"]["func"]) if f.get("a") else "?"
                fb = fn_short(f["b"]["func"]) if f.get("b") else "?"
                if f["kind"] in ("fatal", "panic"):
                    cb = None
                va = {e["Var"] for e in (ca or [])}
                vb = {e["Var"] for e in (cb or [])}
                common = (va & vb) if (ca is not None and cb is not None and va and vb) else (va | vb)
                keys = []
                for v in sorted(common):
                    for e in (ca or []) + (cb or []):
                        if e["Var"] == v and (v, e["Fn"]) in culprit_set:
                            keys.append("race:%s:%s" % (v, e["Fn"]))
                        if e["Var"] == v and e.get("Exempt"):
                            keys.append("race-sync:%s:%s" % (v, e["Fn"]))
                # both accesses hold the same PER-INSTANCE mutex type according to the table and still race: the
                # variable's object is shared by two instances (type-level lock abstraction, see notes)
                for v in sorted(common):
                    for ea in (ca or []):
                        for eb in (cb or []):
                            sh = set(ea.get("Locks") or []) & set(eb.get("Locks") or [])
                            if ea["Var"] == v and eb["Var"] == v and any(not l.startswith("ProjectRunner.") for l in sh):
                                keys.append("race-shared-instance:%s" % v)
                keys = sorted(set(keys))
                label = ("%s, first repository frames %s | %s, during %s" %
                         (f.get("msg") or "data race (%s/%s)" % (f.get("a_kind"), f.get("b_kind")),
                          f.get("a") and "%s:%d" % (f["a"]["file"], f["a"]["line"]),
                          f.get("b") and "%s:%d" % (f["b"]["file"], f["b"]["line"]), r["ops"]))
                if keys:
                    # explained by the fact table: acceptable only through a listed known finding
                    known = [k for k in keys if ctx.is_known(k)]
                    if known:
                        for k in known[:1]:
                            ctx.known_or_violation(k, robj, label)
                        explained.setdefault(known[0], 0)
                        explained[known[0]] += 1
                    elif not (set(keys) & reported):
                        ctx.known_or_violation(keys[0], robj, "dynamic: " + label)
                        reported.add(keys[0])
                    else:
                        explained.setdefault(keys[0], 0)
                        explained[keys[0]] += 1
                else:
                    key = "dyn%s:%s|%s" % (f["kind"], *sorted([fa, fb]))
                    if ctx.is_known(key):
                        ctx.known_or_violation(key, robj, label)
                        explained[key] = explained.get(key, 0) + 1
                    elif key not in reported:
                        reported.add(key)
                        unexplained.append(key)
                        ctx.known_or_violation(key, robj, "dynamic report NOT predicted by the lockset table (translator gap or untracked state): " + label)

    # ------------------------------------------------------------------------------- evidence
    nsets = len(runs)
    cov = V.proof_coverage(rep, {
        "evaluations": len(facts.get("Facts", [])) + nsets,
        "distinct_nontrivial": len({(f["Var"], f["Fn"], f["Write"], tuple(f["Locks"])) for f in facts.get("Facts", [])})
                               + len({tuple(sorted(r["ops"])) for r in runs}),
        "rule": "static: every field access of ProjectRunner/Process/ProcessLogBuffer/PCLog/ProcessState/Project/ProjectState (+ProcessConfig.ReplicaName) "
                "in packages app, pclog, types that is reachable from an exported method, goroutine body or callback (complete for the packages; "
                "deduplicated by variable, function, kind, lock set); dynamic: operation sets = 13 directed pairs/triples + corpus + seeded random pairs/triples "
                "over 12 API operations, each in a child process under the race detector; non-trivial = every set (>= 2 concurrent calls against a project "
                "whose processes exit, restart and log); distinct by sorted operation names",
        "translator_stats": stats, "translator_selftest": selftest,
        "variables_consistent": len(ok_vars), "variables_inconsistent": len(bad_vars),
        "inconsistent_variable_function_pairs": len(culprits), "lock_order_pairs": len(facts.get("Order", [])),
        "lock_order_violations": len(bad_order), "order_ok": res.get("r_order_ok"),
        "instantiated_theorems_closed_on_Facts_v": inst_closed,
        "consistent_variables": ok_vars,
        "exempt_fields_by_annotation": facts.get("Exempt", {}),
        "race_detector_build": race_build,
        "dynamic_op_sets": nsets, "dynamic_stats": dstats, "dynamic_reports": dyn_counts,
        "dynamic_reports_explained_by_key": explained, "dynamic_reports_unexplained": unexplained,
        "traces_validated_against_impl": nsets,
        "exhaustive": False, "exhaustive_note": "static part: complete for the three packages; dynamic part: sampled",
        "samples": [{"fact": (facts.get("Facts") or [None])[0]},
                    {"run": {k: runs[0][k] for k in ("ops", "seed", "exit", "ms")} if runs else None,
                     "first_finding": (runs[0].get("findings") or [None])[0] if runs else None}],
        "trusted_base": V.TRUSTED_COMMON[:2] + [
            "the lockset translator harness/cmd/c20 (go/ast + go/types, rules in notes/C20.md, unit-tested on harness/cmd/c20/testdata on every run)",
            "the abstract thread semantics coq/theories/Lockset/Model.v (mutexes, interleaving); lockset discipline is sufficient for race freedom in it, the Go memory model is not modelled",
            "Go race detector and runtime (dynamic part), harness/fakecmd"],
    })
    ctx.write_evidence("proof", cov, [
        "PARTIAL: lockset discipline + acyclic lock order are sufficient conditions; channels, atomics, contexts, sync.Once/WaitGroup/Cond are synchronisation by annotation (exempt fields listed in the evidence)",
        "locks and variables are abstracted per struct type; a Process mutex guards only accesses through the same receiver variable; ProjectRunner is a singleton",
        "closures passed as call arguments are assumed to run synchronously in the callee; stored/returned closures and method values are entry points holding nothing",
        "ProcessConfig: only ReplicaName is tracked (other fields are written on private copies before the instance goroutine starts)",
        "blocking on latches/conditions (waitForCompletion, contexts) is not part of the deadlock theorem (covered by the Sup stuck-freedom properties)"])
