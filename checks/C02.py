"""C02: supervisor-core property, decided on the Sup model (coq/theories/Sup, Props/C02.v) with the
controlled-scheduling harness (harness/cmd/sup).  See lib/supcheck.py."""
import supcheck


def run(ctx):
    supcheck.run(ctx, "C02", kinds="single,deps,api", n_quick=140, n_thorough=1600)
