"""C08: supervisor-core property, decided on the Sup model (coq/theories/Sup, Props/C08.v) with the
controlled-scheduling harness (harness/cmd/sup).  See lib/supcheck.py."""
import supcheck


def run(ctx):
    supcheck.run(ctx, "C08", kinds="api,stopstart", n_quick=180, n_thorough=2000)
