"""C13 scaling: exactly n consistently named replicas, survivors undisturbed.
model: coq/theories/Replica; theorems: coq/theories/Props/C13.v; harness: harness/cmd/c13"""
import json
import vcheck as V

# monitor clause -> (result name in cases_C13.v, what it means in the words of the property)
CLAUSES = [
    ("init", "r_bad_init", "the loaded project itself is not the reference (replica rendered for another replica's number, maps out of step)"),
    ("error", "r_bad_error", "a request with n<1 / unknown name did not fail without changing anything, or a valid request failed"),
    ("names", "r_bad_names", "after a scale request the replicas are not numbered 0..n-1 with distinct names of uniform zero-padded width (bare name for n=1)"),
    ("config", "r_bad_config", "after a scale request the replica configurations differ from those of a fresh load with replicas: n (or are not rendered for their own replica number)"),
    ("maps", "r_bad_maps", "configuration / state / log / running-instance maps are out of step after a scale request"),
    ("kept", "r_bad_kept", "a replica that exists before and after was restarted or lost its log/state"),
    ("removed", "r_bad_removed", "a removed replica was not terminated (or something else was)"),
    ("added", "r_bad_added", "an added replica was not launched exactly once with a fresh log"),
    ("others", "r_bad_others", "another process was touched by the scale request"),
    ("quiet", "r_bad_quiet", "the supervisor did not settle after the request (replica without live command / orphan command)"),
]


def signature(case, clause):
    """input signature used in known-finding keys: which generator features the failing case has"""
    feats = []
    for p in case["procs"]:
        if p.get("bigvar"):
            feats.append("bigvar")
        if p.get("ext"):
            feats.append("ext")
    return clause + (":" + "+".join(sorted(set(feats))) if feats else "")


def view(c):
    """short form of a case for replay files / evidence"""
    steps = []
    for i, o in enumerate(c.get("steps", [])):
        steps.append({"req": c["reqs"][i], "err": o["err"], "errmsg": o.get("errmsg", ""), "quiet": o["quiet"],
                      "keys": [e["key"] for e in o["entries"]][:30], "statekeys": o["statekeys"][:30],
                      "stopped": o["stopped"][:12], "launched": o["launched"][:12]})
    return {"kind": c["kind"], "procs": c["procs"], "reqs": c["reqs"],
            "init_keys": [e["key"] for e in (c.get("init") or {}).get("entries", [])][:30], "steps": steps}


def first_diff(c):
    """human-readable first difference between observation and reference"""
    obs = [c["init"]] + c["steps"]
    for i, o in enumerate(obs):
        ks = [e["key"] for e in o["entries"]]
        for nm in ("statekeys", "logkeys", "runkeys", "apistates"):
            if o[nm] != ks:
                return "step %d: %s = %s but processes = %s" % (i, nm, o[nm][:14], ks[:14])
        ref = o.get("ref") or []
        for e, r in zip(o["entries"], ref):
            if (e["key"], e["num"], e["reps"], e["cfg"]) != (r["key"], r["num"], r["reps"], r["cfg"]) or e["rend"] != e["num"] or e["prend"] != e["num"]:
                return "step %d: replica %s: command=%r probe=%r num=%d reps=%d; fresh load: %s command=%r probe=%r num=%d reps=%d" % (
                    i, e["key"], e.get("command"), e.get("probe"), e["num"], e["reps"], r["key"], r.get("command"), r.get("probe"), r["num"], r["reps"])
        if len(ref) != len(o["entries"]):
            return "step %d: %d replicas/processes, a fresh load has %d (%s vs %s)" % (i, len(o["entries"]), len(ref), ks[:14], [r["key"] for r in ref][:14])
    return ""


def run(ctx):
    ok, log = V.build_coq()
    if not ok:
        ctx.broken_build("coq-build", log)
        ctx.write_evidence("proof", {"obligations": 0, "discharged": 0, "checker_cmd": "make -C coq",
                                     "trusted_base": V.TRUSTED_COMMON, "evaluations": 0}, [])
        return
    rep = V.props_report("C13")
    ok, binp, log = V.build_harness("c13")
    if not ok:
        ctx.broken_build("harness-build(-tags verif) against current /repo tree", log)
    nrand = 40 if ctx.tier == "quick" else 400
    stats, res, cases = {}, {}, []
    evaluated = False
    if ok:
        args = [str(binp), "-out", str(ctx.rundir), "-seed", str(ctx.seed), "-n", str(nrand),
                "-corpus", str(V.VERIF / "corpus" / "C13")]
        if ctx.tier == "thorough":
            args.append("-thorough")
        if ctx.replay:
            rp = json.load(open(ctx.replay))
            cf = ctx.rundir / "replay_cases.json"
            cf.write_text(json.dumps(rp.get("cases", [rp.get("case")])))
            args = [str(binp), "-out", str(ctx.rundir), "-replay", str(cf)]
        rc, out = V.sh(args, timeout=3000)
        if rc != 0:
            ctx.broken_build("harness-run", out)
        else:
            stats = json.loads(out.strip().splitlines()[-1])
            cases = json.load(open(ctx.rundir / "cases_C13.json"))
            # one coqc process per shard (bounded memory), a few at a time; indices are offset into `cases`
            from concurrent.futures import ThreadPoolExecutor
            shards = stats.get("shards", [])
            with ThreadPoolExecutor(max_workers=4) as ex:
                outs = list(ex.map(lambda k: V.coq_eval(ctx.rundir / ("cases_C13_%03d.v" % k), timeout=3000), range(len(shards))))
            evaluated = bool(shards)
            if not shards:
                ctx.broken_build("harness produced no cases", out)
            for k, (rc, r, raw) in enumerate(outs):
                if rc != 0 or "r_bad_model" not in r or "r_bad_monitor" not in r or (k == 0 and "r_bad_namecases" not in r):
                    ctx.broken_build("coq-eval of observed cases (shard %d)" % k, raw)
                    evaluated = False
                    break
                for name, idxs in r.items():
                    if isinstance(idxs, list):
                        res.setdefault(name, [])
                        res[name] += [i + (shards[k][0] if name != "r_bad_namecases" else 0) for i in idxs]
    bad_model = res.get("r_bad_model", []) if evaluated else []
    bad_mon = res.get("r_bad_monitor", []) if evaluated else []
    reported = set()
    if evaluated:
        # ---- 3. the monitor is false on a case: a concrete failing history, one report per clause and signature
        for clause, rname, what in CLAUSES:
            seen = set()
            for i in res.get(rname, []):
                key = "C13-" + signature(cases[i], clause)
                if key in seen:
                    continue
                seen.add(key)
                reported.add(i)
                ctx.known_or_violation(key, {"case": view(cases[i]), "cases": [cases[i]], "clause": clause,
                                             "failing_case_indices": res.get(rname, [])[:50],
                                             "monitor": "h_%s (coq/theories/Replica/Check.v)" % clause},
                                       "scaling: %s; %d of %d histories; first: kind=%s %s"
                                       % (what, len(res.get(rname, [])), len(cases), cases[i]["kind"], first_diff(cases[i])))
        in_clause = set(i for _, r, _ in CLAUSES for i in res.get(r, []))
        rest = [i for i in bad_mon if i not in in_clause]
        if rest:
            i = rest[0]
            ctx.violation({"case": view(cases[i]), "cases": [cases[i]], "failing_case_indices": rest[:50],
                           "monitor": "holds_C13 (coq/theories/Replica/Check.v)"},
                          "scaling: the C13 monitor is false on %d histories (length of observation list)" % len(rest))
        # the name function alone
        if res.get("r_bad_namecases"):
            ncs = json.load(open(ctx.rundir / "namecases_C13.json"))
            i = res["r_bad_namecases"][0]
            ctx.violation({"name_case": ncs[i], "failing": [ncs[j] for j in res["r_bad_namecases"][:20]],
                           "monitor": "replica_name_N (coq/theories/Replica/Model.v) vs CalculateReplicaName"},
                          "CalculateReplicaName(%r, replicas=%d, num=%d) = %r differs from the decimal zero-padded name of the model"
                          % (ncs[i]["base"], ncs[i]["reps"], ncs[i]["num"], ncs[i]["got"]))
        elif stats.get("name_function_mismatches_vs_integer_reference", 0):
            ctx.violation({"name_case": stats.get("name_function_first_mismatch")},
                          "CalculateReplicaName differs from the integer reference (width is not the number of decimal digits)")
        # ---- 4. the model disagrees although the monitor holds
        only_model = [i for i in bad_model if i not in bad_mon]
        if only_model:
            i = only_model[0]
            ctx.violation({"case": view(cases[i]), "cases": [cases[i]], "failing_case_indices": only_model[:50],
                           "correspondence": "corr_Replica (model_ok, coq/theories/Replica/Check.v)",
                           "theorems_resting_on_it": rep["theorems"]},
                          "implementation left the model (correspondence corr_Replica broken) but the C13 monitor found no failing history",
                          no_input=True)
        if stats.get("load_failed", 0):
            ctx.violation({"stats": stats}, "generated projects could not be loaded/run (%d)" % stats["load_failed"], no_input=True)
    if not rep["ok"]:
        ctx.broken_build("Props/C13.v does not compile", rep["log"])
    nontrivial = [c for c in cases if any(not s["err"] for s in c["steps"])]
    distinct = len({json.dumps([c["procs"], c["reqs"]], sort_keys=True) for c in nontrivial})
    cov = V.proof_coverage(rep, {
        "evaluations": len(cases),
        "requests_evaluated": stats.get("requests", 0),
        "distinct_nontrivial": distinct,
        "rule": "cases = corpus + directed error scenario + every ordered pair of counts (a -> b -> a) + seeded random projects "
                "(base names with '-', digits, '.', templates, exec/http probe, vars, dependency, replicated and single other processes) "
                "with <= 6 requests each over counts {1,2,3,9,10,11,12} (thorough: 99,100,101), targets = any current replica name / bare name / stale name / unknown name, n<1 mixed in; "
                "non-trivial = at least one successful request; distinct by (project, request list)",
        "nontrivial_cases": len(nontrivial),
        "input_distribution": stats,
        "traces_validated_against_impl": len(cases) - len(bad_model),
        "exhaustive": False,
        "name_function": "CalculateReplicaName compared in Go with an integer reference for every replicas in [-1, %s] (num 0, n-1, random) and at powers of ten up to 10^15-1; boundary points re-evaluated in Coq"
                         % ("3000000" if ctx.tier == "thorough" else "200000"),
        "samples": [view(c) for c in cases[1:3]],
        "model_mismatches": len(bad_model), "monitor_failures": len(bad_mon),
        "monitor_failures_by_clause": {c: len(res.get(r, [])) for c, r, _ in CLAUSES} if evaluated else {},
    })
    ctx.write_evidence("proof", cov, [
        "the model describes process-compose with fixes/D1..D3 and the cloneReplicas deep copy (F4) applied",
        "requests are issued one at a time and observed after the supervisor settled (free-running, scripted commander): concurrent scale requests are outside C13 (C20)",
        "template rendering, YAML/JSON codecs and the shell wrapping are inside the compared behaviour (digest of every replica configuration vs a fresh loader.Load), not inside the model",
        "base names for which names of different processes collide (process 'a' with replicas and a process literally named 'a-1') are excluded: hypothesis sep / cfg_ok",
        "math.Log10 width = number of decimal digits holds up to 10^15-1 (compared); beyond that float rounding may widen the padding (names stay distinct and uniform)"])
