"""C14 live project update converges to the new config with minimal disturbance.
model: coq/theories/Update; theorems: coq/theories/Props/C14.v; harness: harness/cmd/c14"""
import json
import vcheck as V

CODES = {
    1: "listing wrong (GetProcessesState / GetProcessInfo does not show exactly the processes of P')",
    2: "status map wrong (does not name exactly the added / removed / updated processes)",
    3: "a process without any change was disturbed (restarted or reported as updated)",
    4: "a process whose launch-relevant configuration changed was not replaced as required "
       "(old instance not stopped and ended first, or no new instance, or wrong launch parameters)",
    5: "a process with a cosmetic-only change (description/namespace/vars/x-extensions) was restarted",
    6: "a removed process was not terminated (or two live instances share a name)",
    7: "an added process was not launched as configured",
    8: "the stored configuration differs from P' on a launch-relevant field",
    9: "something happened to a name that is in neither project",
    10: "the project-level environment of P' is not applied (relaunch with the old one / no relaunch)",
    100: "the project-level shell of P' is not applied (process reported as updated but kept with the old executable)",
}
# findings that the faithful model contains; reported through known_findings.json (see notes/C14.md)
SHELL_CODE, SHELL_KEY = 100, "project-shell-not-applied"
KNOWN_KEYS = {5: "over-restart:cosmetic-only-change", 10: "project-environment-not-applied", SHELL_CODE: SHELL_KEY}


def harness_run(ctx, binp, args):
    rc, out = V.sh([str(binp), "-out", str(ctx.rundir)] + args, timeout=3000)
    if rc != 0:
        return None, out
    try:
        return json.loads(out.strip().splitlines()[-1]), out
    except Exception:
        return None, out


def evaluate(ctx):
    rc, res, raw = V.coq_eval(ctx.rundir / "cases_C14.v", timeout=3000)
    need = ["r_bad_cmp_model", "r_bad_cmp_monitor", "r_bad_model", "r_bad_monitor", "r_findings", "r_model_findings"]
    if rc != 0 or any(k not in res for k in need):
        return None, raw
    return res, raw


def by_case(flat, width):
    d = {}
    for i in range(0, len(flat) - width + 1, width):
        d.setdefault(flat[i], []).append(tuple(flat[i + 1:i + width]))
    return d


def situational_cases(ctx):
    """harness/cmd/c14f: update / removal of a process whose instance has not launched yet (Pending on a dependency) or
    sits in its restart back-off - situations the model-based harness does not reach (its commands never end).
    Test-level oracle = the property text; returns a dict for the evidence file."""
    ok, binp, log = V.build_harness("c14f")
    if not ok:
        ctx.broken_build("harness-build c14f (-tags verif) against current /repo tree", log)
        return {}
    d = ctx.rundir / "c14f"
    d.mkdir(exist_ok=True)
    rc, out = V.sh([str(binp), "-out", str(d)], timeout=600)
    if rc != 0:
        ctx.broken_build("c14f run", out)
        return {}
    cases = json.load(open(d / "cases_C14f.json"))
    bad = [c for c in cases if c.get("violations")]
    errs = [c for c in cases if c.get("err")]
    if bad:
        c = bad[0]
        ctx.violation({"kind": "update-of-a-not-yet-launched-instance", "case": c, "cases": bad,
                       "how_to_rerun": "build/bin/c14f -out <dir>"},
                      "live update (%s): %s (%d of %d situational cases)" % (c["kind"], c["violations"][0], len(bad), len(cases)))
    if errs:
        ctx.broken_build("c14f: %d situational cases could not be run" % len(errs), errs[0].get("err", ""))
    return {"situational_cases_pending_or_backoff": {"cases": len(cases), "violating": len(bad), "not_run": len(errs),
            "oracle": "the old configuration is never launched after the update / removal; the new one is (test-level, no theorem)"}}


def run(ctx):
    ok, log = V.build_coq()
    if not ok:
        ctx.broken_build("coq-build", log)
        ctx.write_evidence("proof", {"obligations": 0, "discharged": 0, "checker_cmd": "make -C coq",
                                     "trusted_base": V.TRUSTED_COMMON, "evaluations": 0}, [])
        return
    rep = V.props_report("C14")
    ok, binp, log = V.build_harness("c14")
    if not ok:
        ctx.broken_build("harness-build(-tags verif) against current /repo tree", log)
    quick = ctx.tier == "quick"
    ncmp, nrun = (150, 40) if quick else (3000, 500)
    stats, res, cases = {}, None, {"cmp": [], "run": []}
    flaky = 0
    if ok:
        if ctx.replay:
            rp = json.load(open(ctx.replay))
            cf = ctx.rundir / "replay_cases.json"
            cf.write_text(json.dumps(rp.get("cases", {"cmp": [], "run": []})))
            args = ["-replay", str(cf)]
        else:
            args = ["-seed", str(ctx.seed), "-ncmp", str(ncmp), "-nrun", str(nrun),
                    "-corpus", str(V.VERIF / "corpus" / "C14")]
        stats, out = harness_run(ctx, binp, args)
        if stats is None:
            ctx.broken_build("harness-run", out)
        else:
            res, raw = evaluate(ctx)
            cases = json.load(open(ctx.rundir / "cases_C14.json"))
            cases = {"cmp": cases.get("cmp") or [], "run": cases.get("run") or []}
            if res is None:
                ctx.broken_build("coq-eval of observed cases", raw)
    bad_cmp_model = bad_cmp_mon = bad_model = bad_mon = []
    findings, diag = {}, {}
    if res is not None:
        bad_cmp_model, bad_cmp_mon = res["r_bad_cmp_model"], res["r_bad_cmp_monitor"]
        bad_model, bad_mon = res["r_bad_model"], res["r_bad_monitor"]
        findings, diag = by_case(res["r_findings"], 4), by_case(res["r_model_findings"], 3)
        # ---- update cases that disagree are re-run once (free-running goroutines: keep scheduling noise out;
        #      a genuine regression reproduces)
        suspects = sorted(set(i for i in bad_model) |
                          set(i for i in bad_mon if any(c not in KNOWN_KEYS for (_, _, c) in findings.get(i, []))))
        if suspects and not ctx.replay:
            sub = ctx.rundir / "rerun"
            sub.mkdir(exist_ok=True)
            cf = sub / "cases.json"
            cf.write_text(json.dumps({"cmp": [], "run": [cases["run"][i] for i in suspects]}))
            rc, out = V.sh([str(binp), "-out", str(sub), "-replay", str(cf)], timeout=1200)
            if rc == 0:
                rc2, res2, _ = V.coq_eval(sub / "cases_C14.v", timeout=1200)
                if rc2 == 0 and "r_bad_model" in res2:
                    f2 = by_case(res2["r_findings"], 4)
                    again_model = {suspects[j] for j in res2["r_bad_model"]}
                    again_mon = {suspects[j] for j in res2["r_bad_monitor"]
                                 if any(c not in KNOWN_KEYS for (_, _, c) in f2.get(j, []))}
                    drop = [i for i in suspects if i not in again_model and i not in again_mon]
                    flaky = len(drop)
                    bad_model = [i for i in bad_model if i in again_model or i in again_mon]
                    bad_mon = [i for i in bad_mon if i not in drop]
                    for i in drop:
                        findings[i] = [f for f in findings.get(i, []) if f[2] in KNOWN_KEYS]
                        if not findings[i]:
                            findings.pop(i)
                    bad_mon = [i for i in bad_mon if i in findings]
                    if drop:
                        ctx.say("note: %d update case(s) disagreed once and agreed when re-run (scheduling noise): %s"
                                % (len(drop), drop[:10]))
    # ---- verdict (DESIGN 2.4)
    reported = False
    for cls, sel, text in (
            ("insensitive", lambda c: c["compare"], "reports EQUAL although a launch-relevant field differs"),
            ("oversensitive", lambda c: not c["compare"], "reports UNEQUAL although the two configurations are identical")):
        idx = [j for j in bad_cmp_mon if sel(cases["cmp"][j])]
        if not idx:
            continue
        c = cases["cmp"][idx[0]]
        ctx.violation({"case": c, "cases": {"cmp": [cases["cmp"][j] for j in idx[:20]], "run": []},
                       "failing_case_indices": idx[:50], "class": cls,
                       "monitor": "cmp_holds (coq/theories/Update/Check.v)"},
                      "ProcessConfig.Compare %s on %d of %d compared pairs; first: kind=%s settings a=%s b=%s%s "
                      "compare=%s fields differing=%s"
                      % (text, len(idx), len(cases["cmp"]), c["kind"], c["a"], c["b"],
                         " (b after a JSON round trip)" if c.get("json_round_trip_of_b") else "",
                         c["compare"], c.get("fields_differing")))
        reported = True
    # update cases: group by verdict code
    # F53: an update whose project-level shell differs from the one the supervisor was started with.  UpdateProcess
    # re-derives executable/args from the start-time shell, finds the process "equal" and keeps the old instance while
    # the status map says "updated".  Every verdict of such a step goes under the one key SHELL_KEY.
    def shell_changed(c, stp):
        st = c["steps"]
        return stp < len(st) and st[stp]["spec"].get("shell", 0) != st[0]["spec"].get("shell", 0)
    per_code = {}
    for i in bad_mon:
        for (stp, name, code) in findings.get(i, []):
            k = SHELL_CODE if shell_changed(cases["run"][i], stp) else code
            per_code.setdefault(k, []).append((i, stp, name))
    if ctx.is_known(SHELL_KEY):
        # the model replaces such a process (its Compare sees the new executable): the disagreement is the finding
        bad_model = [i for i in bad_model
                     if not any(shell_changed(cases["run"][i], s) for s in range(len(cases["run"][i]["steps"])))]
    for code in sorted(per_code):
        i, stp, name = per_code[code][0]
        c = cases["run"][i]
        obj = {"case": c, "cases": {"cmp": [], "run": [c]}, "failing_step": stp, "failing_name_id": name,
               "monitor": "holds_C14 / mon_name code %d (coq/theories/Update/Check.v)" % code,
               "occurrences": per_code[code][:30]}
        what = ("live update: %s; %d occurrence(s) in %d case(s); first: case kind=%s step %d (%s)"
                % (CODES.get(code, "code %d" % code), len(per_code[code]), len({x[0] for x in per_code[code]}),
                   c["kind"], stp, c["steps"][stp]["mode"] if stp < len(c["steps"]) else "?"))
        if code in KNOWN_KEYS:
            ctx.known_or_violation(KNOWN_KEYS[code], obj, what)
        else:
            ctx.violation(obj, what)
            reported = True
    unknown_mon = any(code not in KNOWN_KEYS for code in per_code) or bool(bad_cmp_mon)
    if not unknown_mon and (bad_model or bad_cmp_model):
        if bad_model:
            i = bad_model[0]
            c = cases["run"][i]
            obj = {"case": c, "cases": {"cmp": [], "run": [c]}, "model_disagrees_at(step,name_id)": diag.get(i, [])[:20]}
            first = "update case kind=%s" % c["kind"]
        else:
            i = bad_cmp_model[0]
            c = cases["cmp"][i]
            obj = {"case": c, "cases": {"cmp": [c], "run": []}}
            first = "Compare case kind=%s a=%s b=%s compare=%s" % (c["kind"], c["a"], c["b"], c["compare"])
        obj.update({"failing_case_indices": {"run": bad_model[:50], "cmp": bad_cmp_model[:50]},
                    "correspondence": "corr_Update (model_ok / cmp_model_ok, coq/theories/Update/Check.v)",
                    "theorems_resting_on_it": rep["theorems"]})
        ctx.violation(obj, "implementation left the model (correspondence corr_Update broken on %d update and %d Compare cases) "
                           "but the C14 monitor found no failing history; first: %s" % (len(bad_model), len(bad_cmp_model), first),
                      no_input=True)
    if not rep["ok"]:
        ctx.broken_build("Props/C14.v does not compile", rep["log"])
    # ---- evidence
    st = (stats or {}).get("stats", {})
    runs = cases.get("run", [])
    nontriv = [c for c in runs if len(c.get("out", [])) >= 3]
    distinct = len({json.dumps(c["steps"], sort_keys=True) for c in nontriv}) + \
        len({json.dumps([c["a"], c["b"], c.get("json_round_trip_of_b", False)], sort_keys=True) for c in cases.get("cmp", [])
             if c["a"] != c["b"] or c.get("json_round_trip_of_b")})
    modes = {}
    for c in runs:
        for s in c["steps"][:len(c.get("out", []))]:
            modes[s["mode"]] = modes.get(s["mode"], 0) + 1
    sample = []
    for c in runs:
        if c["kind"].startswith("random") and len(c.get("out", [])) >= 3:
            sample.append({"kind": c["kind"], "steps": c["steps"][:3],
                           "out": [{k: o.get(k) for k in ("status", "names", "alive", "registered")} for o in c["out"][:3]]})
            break
    cmps = [c for c in cases.get("cmp", []) if c["kind"].startswith("single:exe")][:1]
    sit = situational_cases(ctx) if ok and not ctx.replay else {}
    cov = V.proof_coverage(rep, {
        **sit,
        "evaluations": len(runs) + len(cases.get("cmp", [])),
        "distinct_nontrivial": distinct,
        "rule": "update cases = corpus + directed scenarios (one launch-relevant setting changed, per path direct/reload/REST; "
                "disable/enable; replicas; cosmetic change; project environment; repeated change; same project over all paths) "
                "+ seeded random projects of 2-5 processes x 1-4 updates (each process: unchanged / 1-3 settings changed / removed; "
                "new ones added; path chosen at random) + a final update that removes everything; non-trivial = at least 3 "
                "observed steps, distinct by step list.  Compare cases = every pair of values of every setting on both command "
                "forms (sensitivity table) + JSON round trips + random subsets of settings; non-trivial = the two sides differ "
                "or went through a JSON round trip",
        "update_cases": len(runs), "update_steps_observed": sum(len(c.get("out", [])) for c in runs),
        "update_steps_by_path": modes, "compare_cases": len(cases.get("cmp", [])),
        "harness_statistics": st,
        "sensitivity_table(setting -> pairs compared, pairs Compare called equal, fields that differed)": (stats or {}).get("sensitivity", {}),
        "same_json_but_DeepEqual_differs(field -> pairs)": (stats or {}).get("deepequal_distinguishes_same_json", {}),
        "traces_validated_against_impl": len(runs) - len(bad_model) + len(cases.get("cmp", [])) - len(bad_cmp_model),
        "exhaustive": False,
        "samples": sample + cmps,
        "model_mismatches": {"update": len(bad_model), "compare": len(bad_cmp_model)},
        "monitor_failures": {"update": len(bad_mon), "compare": len(bad_cmp_mon)},
        "monitor_failures_by_code": {str(k): len(v) for k, v in per_code.items()},
        "disagreements_not_reproduced_on_rerun": flaky,
    })
    ctx.write_evidence("proof", cov, [
        "free-running harness: commands are scripted (harness/fakecmd), stay alive until stopped and end at once when "
        "signalled; an update is issued only when the previous step is quiet (every non-deferred process of the project has "
        "a live command, 25 ms without event)",
        "dependencies are only of kind process_started; probes never fire (initial delay 3600 s); settings that would start "
        "real commands or shut the project down (shutdown.command, shutdown.timeout_seconds, exit_on_failure, is_daemon, "
        "is_elevated, log files) are exercised on Compare only",
        "Run() returning because an update left no running instance for a moment is ignored (the harness behaves like "
        "--keep-project); see notes/C14.md",
        "ScaleProcess inside UpdateProcess is a no-op for loader-built projects (argument in notes/C14.md); replica changes "
        "are exercised on the direct and REST paths",
        "field values are interned by their JSON encoding per field (what Compare distinguishes after fixes F9/F27); "
        "project-level settings other than the environment (shell, log length) are not varied"])


def shrink_view(c):
    return c
