"""C07 run plan: cycles / dangling dependencies rejected; topological order; selection = closure.
model: coq/theories/Graph; theorems: coq/theories/Props/C07.v; harness: harness/cmd/c07"""
import json
from concurrent.futures import ThreadPoolExecutor
import vcheck as V

F18_KEY = "depends_on-replicated"


def run(ctx):
    ok, log = V.build_coq()
    if not ok:
        ctx.broken_build("coq-build", log)
        ctx.write_evidence("proof", {"obligations": 0, "discharged": 0, "checker_cmd": "make -C coq",
                                     "trusted_base": V.TRUSTED_COMMON, "evaluations": 0}, [])
        return
    rep = V.props_report("C07")
    ok, binp, log = V.build_harness("c07")
    if not ok:
        ctx.broken_build("harness-build(-tags verif) against current /repo tree", log)
    thorough = ctx.tier == "thorough"
    nrand, maxn, shards = (6000, 4, 16) if thorough else (4000, 3, 4)
    stats, cases, bad_model, bad_mon, f18 = {}, [], [], [], []
    evaluated = False
    if ok:
        args = [str(binp), "-out", str(ctx.rundir), "-seed", str(ctx.seed), "-n", str(nrand), "-maxn", str(maxn),
                "-shards", str(shards), "-corpus", str(V.VERIF / "corpus" / "C07")]
        if ctx.replay:
            rp = json.load(open(ctx.replay))
            cf = ctx.rundir / "replay_cases.json"
            cf.write_text(json.dumps(rp.get("cases") or [rp.get("case")]))
            shards = 1
            args = [str(binp), "-out", str(ctx.rundir), "-replay", str(cf), "-shards", "1"]
        rc, out = V.sh(args, timeout=3000)
        if rc != 0:
            ctx.broken_build("harness-run", out)
        else:
            stats = json.loads(out.strip().splitlines()[-1])
            cases = json.load(open(ctx.rundir / "cases_C07.json"))
            sizes = stats["shard_sizes"]
            with ThreadPoolExecutor(max_workers=min(16, len(sizes))) as ex:
                results = list(ex.map(lambda j: V.coq_eval(ctx.rundir / ("cases_C07_%d.v" % j), timeout=2400),
                                      range(len(sizes))))
            off, evaluated = 0, True
            for j, (rc, res, raw) in enumerate(results):
                if rc != 0 or any(k not in res for k in ("r_bad_model", "r_bad_monitor", "r_f18")):
                    ctx.broken_build("coq-eval of observed cases (shard %d)" % j, raw)
                    evaluated = False
                    break
                bad_model += [off + i for i in res["r_bad_model"]]
                bad_mon += [off + i for i in res["r_bad_monitor"]]
                f18 += [off + i for i in res["r_f18"]]
                off += sizes[j]
            if stats.get("hang"):
                hung = [c for c in cases if c["obs"].get("hang")]
                ctx.violation({"case": hung[0], "cases": hung[:5]},
                              "Run() did not return within the harness timeout on %d case(s) (commands exit 0 at once)" % len(hung))
    # ---- verdict (DESIGN 2.4)
    f18set = set(f18)
    known_hits, unknown = [], []
    for i in bad_mon:
        (known_hits if i in f18set else unknown).append(i)
    if known_hits:
        i = known_hits[0]
        ctx.known_or_violation(F18_KEY, {"case": cases[i], "cases": [cases[i]], "failing_case_indices": known_hits[:50],
                                         "monitor": "holds_C07 / load_clause (coq/theories/Graph/Check.v)"},
                               "loading rejects an acyclic configuration whose depends_on names a replicated process "
                               "('is not defined'): %d of %d cases; first: %s" % (len(known_hits), len(cases), brief(cases[i])))
    if unknown:
        i = unknown[0]
        ctx.violation({"case": cases[i], "cases": [cases[i]], "failing_case_indices": unknown[:50],
                       "monitor": "holds_C07 (coq/theories/Graph/Check.v)"},
                      "run plan differs from the property text on %d of %d cases; first: %s"
                      % (len(unknown), len(cases), brief(cases[i])))
    elif bad_model:
        i = bad_model[0]
        ctx.violation({"case": cases[i], "cases": [cases[i]], "failing_case_indices": bad_model[:50],
                       "correspondence": "corr_Graph (model_ok, coq/theories/Graph/Check.v)",
                       "theorems_resting_on_it": rep["theorems"]},
                      "implementation left the model (correspondence corr_Graph broken) on %d cases but the C07 monitor "
                      "found no failing input; first: %s" % (len(bad_model), brief(cases[i])), no_input=True)
    if not rep["ok"]:
        ctx.broken_build("Props/C07.v does not compile", rep["log"])

    def nontrivial(c):
        ps = c["input"]["procs"]
        return len(ps) >= 2 and any(p["deps"] for p in ps)
    nt = [c for c in cases if nontrivial(c)]
    cov = V.proof_coverage(rep, {
        "evaluations": len(cases),
        "distinct_nontrivial": len({json.dumps(c["input"], sort_keys=True) for c in nt}),
        "rule": "cases = corpus + hand-written directed + EVERY digraph (self loops included) on 1..%d nodes through loader.Load "
                "+ for every acyclic one of them every non-empty requested subset x {deps, no-deps} (plain and random markings) "
                "+ seeded random configurations on 5..8 nodes (back edges, undefined names, replicas 1/2/3/10, replica-name "
                "dependencies, disabled/foreground/namespaces, namespace selection, strict, requests incl. replica and unknown names); "
                "non-trivial = >= 2 processes and at least one depends_on; distinct by input" % maxn,
        "nontrivial_cases": len(nt),
        "input_distribution": stats,
        "traces_validated_against_impl": (len(cases) - len(bad_model)) if evaluated else 0,
        "exhaustive": False,
        "grid_exhaustive": "all digraphs on <= %d nodes for the load verdict; all (acyclic digraph, requested subset, no-deps) on <= %d nodes for selection/order/launch set" % (maxn, maxn),
        "samples": cases[40:42] if len(cases) > 42 else cases[:1],
        "model_mismatches": len(bad_model), "monitor_failures": len(bad_mon),
        "monitor_failures_known_F18": len(known_hits),
    })
    ctx.write_evidence("proof", cov, [
        "Go map iteration order is modelled by an arbitrary oracle (theorems hold for every oracle that returns the same elements); "
        "the correspondence run therefore compares order-independent observables (verdict, key set, statuses, order as a set + the "
        "monitor's before-relation, launched set) and evaluates the model with the identity oracle",
        "replica names are supplied to the model by the harness (name-%0*d); their injectivity is C13's subject (hypothesis wf)",
        "commands are scripted (harness/fakecmd) and exit 0 at once; dependency condition process_completed",
        "finding F18 (dependency on a replicated process rejected as undefined) is in the model: C07_load_refuted / C07_load_partial",
        "a dependency on a process removed by the namespace admitter makes Run() fail as a whole (nothing is started): modelled, "
        "accepted by the monitor as 'needs a reason' (broken_dep)"])


def brief(c):
    i = c["input"]
    ps = ["%s%s%s%s%s->%s" % (p["name"], "*%d" % p["replicas"] if p.get("replicas", 0) > 1 else "",
                             "!d" if p.get("disabled") else "", "!f" if p.get("foreground") else "",
                             "@" + p["namespace"] if p.get("namespace") else "", ",".join(p["deps"]))
          for p in i["procs"]]
    o = c["obs"]
    return "kind=%s procs=[%s] nss=%s req=%s nodeps=%s strict=%s => load=%s runner_ok=%s order_err=%s order=%s launched=%s status=%s" % (
        c["kind"], " ".join(ps), i["nss"], i["req"], i.get("nodeps", False), i.get("strict", False), o["load"],
        o["runner_ok"], o["order_err"], o["order"], sorted(o["launched"]),
        {s["key"]: s["status"][0] for s in o["status"]})
