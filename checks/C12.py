"""C12: supervisor-core property, decided on the Sup model (coq/theories/Sup, Props/C12.v) with the
controlled-scheduling harness (harness/cmd/sup).  See lib/supcheck.py.

Plus fault cases the model has no event for (harness/cmd/c12f): the stop signal of a DEPENDENT cannot be delivered
(Commander.Stop returns an error, the command lives on for a while).  Free-running ordered shutdown over the real
ProjectRunner with fake commands; oracle = the property text (a dependency is signalled only when its dependents'
commands are no longer alive).  A test-level oracle, no theorem covers it."""
import json
import supcheck
import vcheck as V


def fault_cases(ctx):
    ok, binp, log = V.build_harness("c12f")
    if not ok:
        ctx.broken_build("harness-build c12f (-tags verif) against current /repo tree", log)
        return
    d = ctx.rundir / "c12f"
    d.mkdir(exist_ok=True)
    n = 12 if ctx.tier == "quick" else 60
    rc, out = V.sh([str(binp), "-out", str(d), "-n", str(n), "-seed", str(ctx.seed)], timeout=1200)
    if rc != 0:
        ctx.broken_build("c12f run", out)
        return
    cases = json.load(open(d / "cases_C12f.json"))
    bad = [c for c in cases if c.get("violations")]
    errs = [c for c in cases if c.get("err")]
    ctx.extra_cov = {"fault_cases_stop_error": {"cases": len(cases), "with_a_failing_stop": sum(1 for c in cases if c.get("fail_stop")),
                                                "violating": len(bad), "not_run": len(errs),
                                                "oracle": "dependency signalled only when no dependent command is alive (test-level, no theorem)"}}
    if bad:
        c = bad[0]
        ctx.violation({"kind": "ordered-shutdown-with-failing-stop", "case": c, "cases": bad[:20],
                       "how_to_rerun": "build/bin/c12f -out <dir> -seed %d -n %d" % (ctx.seed, n)},
                      "ordered shutdown, stop signal of a dependent not deliverable: %s (%d of %d fault cases)"
                      % (c["violations"][0], len(bad), len(cases)))
    if errs:
        ctx.broken_build("c12f: %d fault cases could not be run" % len(errs), errs[0].get("err", ""))


def run(ctx):
    fault_cases(ctx)
    supcheck.run(ctx, "C12", kinds="shutdown,deps,api,ordered", n_quick=160, n_thorough=1600)
