"""C11 output capture: every line a process writes reaches its log, once, in order.
model: coq/theories/Lines; theorems: coq/theories/Props/C11.v; harness: harness/cmd/c11"""
import base64, json, resource
from concurrent.futures import ThreadPoolExecutor
import vcheck as V

F5_KEY = "F5-unterminated-last-line-dropped-at-EOF(handleOutput)"


def b64(s):
    return base64.b64decode(s) if s else b""


def text_of(chunks):
    return b"".join(b64(c) for c in (chunks or []))


def has_unterminated_tail(proc):
    for a in proc["attempts"]:
        for k in ("out", "err"):
            t = text_of(a.get(k))
            if t and not t.endswith(b"\n"):
                return True
    return False


def view(case, pi=None):
    """human-readable projection of a case for replay files / evidence samples"""
    def show(bs):
        s = bs.decode("utf-8", "replace")
        return s if len(s) <= 120 else s[:60] + "...(%d bytes)..." % len(bs) + s[-30:]
    v = {k: case.get(k) for k in ("kind", "log_length", "file_mode", "flush_each_line", "no_metadata", "add_timestamp",
                                  "run_err", "timed_out")}
    v["procs"] = []
    for i, p in enumerate(case["procs"]):
        if pi is not None and i != pi:
            continue
        pv = {"name": p["name"], "policy": p["policy"], "max_restarts": p["max_restarts"], "real_cmd": p.get("real_cmd", "")[:200],
              "attempts": [{"stdout_chunks": [show(b64(c)) for c in (a.get("out") or [])][:12],
                            "stderr_chunks": [show(b64(c)) for c in (a.get("err") or [])][:12],
                            "code": a["code"], "exit_delay_us": a["delay_us"]} for a in p["attempts"]]}
        obs = (case.get("obs") or [])
        if i < len(obs):
            o = obs[i]
            pv["observed"] = {"launches": o["launches"], "memory_log": [show(b64(m)) for m in (o.get("mem") or [])][:40],
                              "file": [(r["proc"], "error" if r["err"] else "info", show(b64(r["msg"]))) for r in (o.get("file") or [])][:40]
                              if o.get("has_file") else None, "file_err": o.get("file_err", "")}
        v["procs"].append(pv)
    return v


def crash_line(out):
    for l in out.splitlines():
        if l.startswith("panic:") or l.startswith("fatal error:"):
            return l.strip()[:200]
    ls = out.strip().splitlines()
    return ls[-1].strip()[:200] if ls else "no output"


def inputs_only(case):
    c = {k: v for k, v in case.items() if k not in ("obs", "run_err", "wall_us", "timed_out")}
    return c


def run_shard(ctx, binp, k, args):
    """run the harness once and evaluate its cases in Coq; returns dict"""
    d = ctx.rundir / ("shard%d" % k)
    d.mkdir(parents=True, exist_ok=True)
    rc, out = V.sh([str(binp), "-out", str(d)] + args, timeout=1500)
    res = {"dir": d, "rc": rc, "out": out, "stats": {}, "cases": [], "index": [], "coq": None, "raw": ""}
    if rc != 0:
        infl = []
        for f in sorted((d / "inflight").glob("*.json")):
            try:
                infl += json.load(open(f))
            except Exception:
                pass
        res["inflight"] = infl
        return res
    res["stats"] = json.loads(out.strip().splitlines()[-1])
    js = json.load(open(d / "cases_C11.json"))
    res["cases"], res["index"] = js["cases"], js["index"]
    crc, cres, raw = V.coq_eval(d / "cases_C11.v", timeout=2400)
    res["raw"] = raw
    if crc == 0 and all(k in cres for k in ("r_bad_model", "r_bad_monitor", "r_bad_model_orig")):
        res["coq"] = cres
    return res


def run(ctx):
    # coqc parses long literal lists recursively: give it room (children inherit the limit)
    try:
        resource.setrlimit(resource.RLIMIT_STACK, (resource.RLIM_INFINITY, resource.RLIM_INFINITY))
    except Exception:
        pass
    ok, log = V.build_coq()
    if not ok:
        ctx.broken_build("coq-build", log)
        ctx.write_evidence("proof", {"obligations": 0, "discharged": 0, "checker_cmd": "make -C coq",
                                     "trusted_base": V.TRUSTED_COMMON, "evaluations": 0}, [])
        return
    rep = V.props_report("C11")
    ok, binp, log = V.build_harness("c11")
    if not ok:
        ctx.broken_build("harness-build(-tags verif) against current /repo tree", log)
    shards = []
    if ok:
        corpus = str(V.VERIF / "corpus" / "C11")
        if ctx.replay:
            rp = json.load(open(ctx.replay))
            cf = ctx.rundir / "replay_cases.json"
            cf.write_text(json.dumps([inputs_only(c) for c in rp.get("cases", [])]))
            plans = [["-replay", str(cf)]]
        elif ctx.tier == "quick":
            plans = [["-seed", str(ctx.seed), "-n", "250", "-grid", "3", "-nlong", "4", "-nreal", "4", "-corpus", corpus]]
        else:
            plans = [["-seed", str(ctx.seed), "-n", "300", "-grid", "5", "-nlong", "16", "-nreal", "40", "-corpus", corpus]]
            plans += [["-seed", str(ctx.seed * 1000 + k), "-n", "450", "-grid", "-1", "-nlong", "2", "-nreal", "0"] for k in range(1, 12)]
        with ThreadPoolExecutor(max_workers=6) as ex:
            shards = list(ex.map(lambda kp: run_shard(ctx, binp, kp[0], kp[1]), enumerate(plans)))

    # ---- collect
    cases, stats = [], {}
    bad_mon, bad_model, f5 = [], [], []      # entries: (case, proc index)
    n_ocases = 0
    for sh in shards:
        if sh["rc"] != 0:
            infl = sh.get("inflight") or []
            if infl:
                # the supervisor code crashed (panic in one of its goroutines) or hung while these inputs ran
                ctx.violation({"cases": [inputs_only(c) for c in infl], "case": view(infl[0]), "harness_output": sh["out"][-3000:]},
                              "the harness process died while running %d case(s) (panic/deadlock in the supervisor's output path?): %s"
                              % (len(infl), crash_line(sh["out"])))
            else:
                ctx.broken_build("harness-run", sh["out"])
            continue
        for k, v in sh["stats"].items():
            stats[k] = stats.get(k, 0) + v
        if sh["coq"] is None:
            ctx.broken_build("coq-eval of observed cases", sh["raw"])
            continue
        n_ocases += len(sh["index"])
        base = len(cases)
        cases += sh["cases"]
        orig_bad = set(sh["coq"]["r_bad_model_orig"])
        for i in sh["coq"]["r_bad_monitor"]:
            ci, pi = sh["index"][i]
            c = sh["cases"][ci]
            # finding F5: the observation is EXACTLY what the model of the unchanged reader predicts
            # (the unterminated last line of a stream is missing, nothing else differs)
            if i not in orig_bad and has_unterminated_tail(c["procs"][pi]):
                f5.append((c, pi))
            else:
                bad_mon.append((c, pi))
        mon = set(sh["coq"]["r_bad_monitor"])
        for i in sh["coq"]["r_bad_model"]:
            if i not in mon:
                ci, pi = sh["index"][i]
                bad_model.append((sh["cases"][ci], pi))

    # ---- verdict (DESIGN 2.4)
    if f5:
        c, pi = min(f5, key=lambda x: sum(len(text_of(a.get("out")) + text_of(a.get("err"))) for a in x[0]["procs"][x[1]]["attempts"]))
        ctx.known_or_violation(F5_KEY, {"case": view(c, pi), "cases": [inputs_only(c)], "failing_ocases": len(f5),
                                        "monitor": "holds_C11 (coq/theories/Lines/Check.v)",
                                        "explained_by": "model_orig_ok: Lines.Model.eof false (break on io.EOF drops the pending bytes)"},
                               "output capture: the last line of a stream is lost when it has no trailing newline "
                               "(Process.handleOutput breaks on io.EOF without handing over the line returned with it) "
                               "on %d of %d process runs; e.g. kind=%s" % (len(f5), n_ocases, c["kind"]))
    if bad_mon:
        c, pi = min(bad_mon, key=lambda x: sum(len(text_of(a.get("out")) + text_of(a.get("err"))) for a in x[0]["procs"][x[1]]["attempts"]))
        ctx.violation({"case": view(c, pi), "cases": [inputs_only(c)], "failing_ocases": len(bad_mon),
                       "monitor": "holds_C11 (coq/theories/Lines/Check.v)"},
                      "output capture: memory log / log file differs from the lines written (lost, duplicated, reordered, "
                      "altered line or wrong level / launch count) on %d of %d process runs; smallest: kind=%s file=%s flush=%s run_err=%r"
                      % (len(bad_mon), n_ocases, c["kind"], c["file_mode"], c["flush_each_line"], c.get("run_err", "")))
    elif bad_model and not f5:
        c, pi = bad_model[0]
        ctx.violation({"case": view(c, pi), "cases": [inputs_only(c)], "failing_ocases": len(bad_model),
                       "correspondence": "corr_Lines (model_ok, coq/theories/Lines/Check.v)",
                       "theorems_resting_on_it": rep["theorems"]},
                      "implementation left the model (correspondence corr_Lines broken) but the C11 monitor found no failing input",
                      no_input=True)
    if not rep["ok"]:
        ctx.broken_build("Props/C11.v does not compile", rep["log"])

    # ---- evidence
    def nontrivial(c):
        return any(len(p["attempts"]) > 1 or any(len(a.get("out") or []) + len(a.get("err") or []) >= 2 for a in p["attempts"])
                   for p in c["procs"])
    nt = [c for c in cases if nontrivial(c)]
    distinct = len({json.dumps([[(a.get("out"), a.get("err")) for a in p["attempts"]] for p in c["procs"]]) + c["file_mode"] for c in nt})
    samples = [view(c) for c in cases if c["kind"].startswith("random")][:2]
    cov = V.proof_coverage(rep, {
        "evaluations": n_ocases,
        "project_runs": len(cases),
        "distinct_nontrivial": distinct,
        "rule": "cases = corpus + exhaustive grid (every text over {a, newline} up to the grid length in EVERY chunking) + 100 kB-line cases "
                "+ real `sh -c printf` processes (no fake commander) + seeded random scripts (1-4 attempts, both streams, random chunkings "
                "incl. byte-by-byte / around 4096 / before+after newlines, missing final newline, bursts right before exit, "
                "per-process / unified / no file, flush_each_line, no_metadata, add_timestamp, log_length 1..150 and default); "
                "one evaluation = one process run compared in Coq (memory log + file); non-trivial = restarts or >= 2 chunks; distinct by script+file mode",
        "nontrivial_cases": len(nt),
        "input_distribution": stats,
        "traces_validated_against_impl": n_ocases - len(bad_model) - len(bad_mon) - len(f5),
        "exhaustive": False,
        "grid_exhaustive": "texts over {a,\\n} of length <= %d, every chunking" % (3 if ctx.tier == "quick" else 5),
        "samples": samples,
        "model_mismatches": len(bad_model), "monitor_failures": len(bad_mon), "F5_failures": len(f5),
    })
    ctx.write_evidence("proof", cov, [
        "PARTIAL for daemon processes (is_daemon): waitForStdOutErr gives up after launch_timeout_seconds and the handlers may outlive Close (C11_send_after_close_refuted); not modelled, not exercised",
        "tty / elevated / foreground processes, log rotation (lumberjack) and disable_json (console format) are outside the modelled configurations",
        "the file format is JSON: bytes that are not valid UTF-8 are replaced by zerolog (U+FFFD); byte-exactness of the FILE is claimed and tested for valid UTF-8 only (arbitrary bytes are tested against the memory log)",
        "PCLog operations are modelled as atomic steps; Send is assumed not to race with Close (holds for non-daemons: both handlers end before Wait/onProcessEnd; the unified logger closes after the wait group)",
        "bufio write-through is modelled at record granularity (before Close the file may end in a partial record; after Close it does not)",
        "pipe read errors other than io.EOF end the stream early (not modelled)",
        "reader chunk boundaries seen by bufio.Reader are not observed; the theorem makes them irrelevant (any chunking)"])
