"""C01: supervisor-core property, decided on the Sup model (coq/theories/Sup, Props/C01.v) with the
controlled-scheduling harness (harness/cmd/sup).  See lib/supcheck.py."""
import supcheck


def run(ctx):
    supcheck.run(ctx, "C01", kinds="deps,api,skipchain", n_quick=150, n_thorough=1600)
