"""C15 config merge: override wins, nothing the override does not mention is lost.
model: coq/theories/Merge; theorems: coq/theories/Props/C15.v; harness: harness/cmd/c15"""
import json
from concurrent.futures import ThreadPoolExecutor
import vcheck as V

F28_KEY = "zero-valued scalar in the later file"
RESULTS = ("r_bad_model", "r_bad_struct", "r_bad_struct_nz", "r_bad_env", "r_bad_extends")


def eval_shards(ctx, nshards, shard):
    """coqc every cases_C15_<k>.v (in parallel), merge the failing indices. returns (ok, merged, raw_of_first_failure)"""
    def one(k):
        return k, V.coq_eval(ctx.rundir / ("cases_C15_%d.v" % k), timeout=1200, mem_kb=6_000_000)
    merged = {r: [] for r in RESULTS}
    with ThreadPoolExecutor(max_workers=8) as ex:
        for k, (rc, res, raw) in sorted(ex.map(one, range(nshards))):
            if rc != 0 or any(r not in res for r in RESULTS) or "%nat" in raw:   # "%nat": numerals vcheck cannot read
                return False, merged, "shard %d: rc=%s\n%s" % (k, rc, raw[-4000:])
            for r in RESULTS:
                merged[r] += [k * shard + i for i in res[r]]
    return True, merged, ""


def run(ctx):
    ok, log = V.build_coq()
    if not ok:
        ctx.broken_build("coq-build", log)
        ctx.write_evidence("proof", {"obligations": 0, "discharged": 0, "checker_cmd": "make -C coq",
                                     "trusted_base": V.TRUSTED_COMMON, "evaluations": 0}, [])
        return
    rep = V.props_report("C15")
    ok, binp, log = V.build_harness("c15")
    if not ok:
        ctx.broken_build("harness-build(-tags verif) against current /repo tree", log)
    nrand = 800 if ctx.tier == "quick" else 6000
    stats, cases = {}, []
    res = {r: [] for r in RESULTS}
    evaluated = False
    if ok:
        args = [str(binp), "-out", str(ctx.rundir), "-seed", str(ctx.seed), "-n", str(nrand),
                "-corpus", str(V.VERIF / "corpus" / "C15")]
        if ctx.replay:
            rp = json.load(open(ctx.replay))
            cf = ctx.rundir / "replay_cases.json"
            cf.write_text(json.dumps(rp.get("cases", [rp.get("case")])))
            args = [str(binp), "-out", str(ctx.rundir), "-replay", str(cf)]
        rc, out = V.sh(args, timeout=1200)
        if rc != 0:
            ctx.broken_build("harness-run", out)
        else:
            stats = json.loads(out.strip().splitlines()[-1])
            cases = json.load(open(ctx.rundir / "cases_C15.json"))
            good, res, raw = eval_shards(ctx, stats["shards"], stats["shard_size"])
            if not good:
                ctx.broken_build("coq-eval of observed cases", raw)
            else:
                evaluated = True
    bad_model, bad_strict, bad_nz, bad_env, bad_ext = (res[r] for r in RESULTS)

    # ---- verdict (DESIGN 2.4)
    def rep_obj(i, extra):
        return dict({"case": view(cases[i]), "cases": [strip(cases[i])]}, **extra)

    # concrete configuration files on which a clause of the property text is false on the implementation's
    # output (and not only because of a zero-valued scalar, F28): one VIOLATION per clause
    clauses = [
        (bad_env, "holds_env (coq/theories/Merge/Check.v)",
         "environment: an entry of an earlier file whose key no later file sets is missing or altered, a later entry did not win, or an overridden / foreign entry is present"),
        (bad_nz, "holds_struct false (coq/theories/Merge/Check.v)",
         "options / maps / lists / nested records / process set: the merged value is not 'last file that sets it wins, everything else unchanged'"),
        (bad_ext, "holds_extends (coq/theories/Merge/Check.v)",
         "extends: Load([child extends base]) differs from the same chain named explicitly by more than working directories"),
    ]
    hard = sorted(set(bad_nz) | set(bad_ext) | set(bad_env))
    for bad, clause, text in clauses:
        if bad:
            i = bad[0]
            ctx.violation(rep_obj(i, {"failing_case_indices": bad[:50], "monitor": clause,
                                      "failing_kinds": sorted({cases[j]["kind"] for j in bad})[:20]}),
                          "config merge, %s: false on %d of %d loads; first: kind=%s files=%s"
                          % (text, len(bad), len(cases), cases[i]["kind"], cases[i]["load"]))
    soft = [i for i in bad_strict if i not in set(bad_nz)]
    if soft:
        # fails only when a mentioned zero value is required to win: finding F28
        i = soft[0]
        ctx.known_or_violation(F28_KEY, rep_obj(i, {"failing_case_indices": soft[:50],
                                                      "monitor": "holds_struct true (strict reading: a mentioned zero value replaces the earlier value)"}),
                               "config merge: a zero-valued scalar (false / 0 / \"\") set in a later file does not replace the earlier "
                               "value (mergo cannot override with an empty value) on %d of %d loads; first: kind=%s"
                               % (len(soft), len(cases), cases[i]["kind"]))
    if bad_model and not hard:
        i = bad_model[0]
        ctx.violation(rep_obj(i, {"failing_case_indices": bad_model[:50],
                                  "correspondence": "corr_Merge (model_ok, coq/theories/Merge/Check.v)",
                                  "theorems_resting_on_it": rep["theorems"]}),
                      "implementation left the model (correspondence corr_Merge broken) on %d loads but the C15 monitors found no failing input; first: kind=%s"
                      % (len(bad_model), cases[i]["kind"]), no_input=True)
    if not rep["ok"]:
        ctx.broken_build("Props/C15.v does not compile", rep["log"])

    # ---- evidence
    def nontrivial(c):
        fs = c["files"]
        if len(fs) < 2:
            return False
        names = [set(p["name"] for p in (f["cfg"].get("procs") or [])) for f in fs]
        overlap = any(names[a] & names[b] for a in range(len(fs)) for b in range(a + 1, len(fs)))
        envs = sum(1 for f in fs if f["cfg"].get("has_env"))
        return overlap or envs >= 2
    nt = [c for c in cases if nontrivial(c)]
    cov = V.proof_coverage(rep, {
        "evaluations": len(cases) if evaluated else 0,
        "distinct_nontrivial": len({json.dumps([c["files"], c["load"]], sort_keys=True) for c in nt}),
        "rule": "cases = corpus + directed scenarios (F2, F34, F28, nil/empty environment, maps/lists/pointers, extends) + seeded random "
                "scenarios: [base], [base, override], chains of 3-4 files, child-extends-base, child-extends-mid-extends-base, "
                "[first, child-extends-base]; YAML written with yaml.v2, loaded with loader.Load; non-trivial = at least 2 files with an "
                "overlapping process name or two environments; distinct by file contents + load order",
        "nontrivial_cases": len(nt),
        "input_distribution": stats,
        "traces_validated_against_impl": (len(cases) - len(bad_model)) if evaluated else 0,
        "exhaustive": False,
        "samples": [view(c) for c in (cases[:1] + cases[-1:])],
        "model_mismatches": len(bad_model), "monitor_failures_strict": len(bad_strict),
        "monitor_failures_nonzero_reading": len(bad_nz), "monitor_failures_environment": len(bad_env),
        "extends_twin_failures": len(bad_ext),
        "known_finding_F28_cases": len(soft),
    })
    ctx.write_evidence("proof", cov, [
        "values contain no '$' (environment expansion: C17) and no '{{' (templates: C16); is_elevated, num_port, x-* extensions and "
        "ProcessDependency extensions are outside the compared option set",
        "relative working directories are lexically clean, so filepath.Join(dir, wd) = dir + '/' + wd",
        "replicas in 0..3; each configured process is observed through its replica number 0",
        "process / variable / dependency names are compared through an identifier table kept by the harness",
        "the loader's post-processing (defaults of namespace, replicas, launch timeout, probes, shell, log_length) is modelled as [post] "
        "and shared by model and monitor; it is not the subject of C15",
        "finding F28 (zero-valued scalar in a later file cannot win) is in the model: C15_override_wins has the side condition is_zero v = false"])


def strip(c):
    return {k: c[k] for k in ("kind", "files", "load", "load2") if k in c}


def view(c):
    v = dict(c)
    s = json.dumps(v)
    if len(s) > 5000:
        v = {"kind": c["kind"], "load": c["load"], "note": "large case: see 'cases' for the full input",
             "obs_err": c.get("obs_err"), "val_err": c.get("val_err")}
    return v
