"""C10 Health probes: Ready only after success; threshold failures stop and restart.
model: coq/theories/Probe; theorems: coq/theories/Props/C10.v; harness: harness/cmd/c10
parts: v = ValidateAndSetDefaults, p = the real health.Prober in real time, h = process-level coupling"""
import json
from concurrent.futures import ThreadPoolExecutor
import vcheck as V

PARTS = ("v", "p", "h")
CLAUSES = {1: "ready-only-after-success", 2: "not-ready-after-failure", 3: "readiness-forgotten",
           4: "fatal-readiness-stop-relaunch", 5: "daemon-liveness-as-exit", 6: "malformed-observation"}


def run_harness(ctx, binp, outdir, extra):
    outdir.mkdir(parents=True, exist_ok=True)
    rc, out = V.sh([str(binp), "-out", str(outdir)] + extra, timeout=3000)
    if rc != 0:
        return None, None, out
    stats = json.loads(out.strip().splitlines()[-1])
    cases = json.load(open(outdir / "cases_C10.json"))
    cases = {p: (cases.get(p) or []) for p in PARTS}
    return stats, cases, out


def evaluate(outdir, stats):
    """coqc every shard; returns (ok, {part: {'model': [...], 'monitor': [...]}}, clauses_h, raw)"""
    n, size = stats["shards"], stats["shard_size"]

    def one(k):
        return k, V.coq_eval(outdir / ("cases_C10_%d.v" % k), timeout=2400)

    with ThreadPoolExecutor(max_workers=8) as ex:
        results = list(ex.map(one, range(n)))
    res = {p: {"model": [], "monitor": []} for p in PARTS}
    clauses = []
    for k, (rc, r, raw) in results:
        need = ["r_bad_model_" + p for p in PARTS] + ["r_bad_monitor_" + p for p in PARTS]
        if rc != 0 or any(x not in r for x in need):
            return False, res, clauses, raw
        for p in PARTS:
            off = k * size if p == "v" else 0
            res[p]["model"] += [off + i for i in r["r_bad_model_" + p]]
            res[p]["monitor"] += [off + i for i in r["r_bad_monitor_" + p]]
        if k == 0:
            clauses = r.get("r_clauses_h", [])
            if not isinstance(clauses, list):
                clauses = []
    return True, res, clauses, ""


def finding_key(case, clause):
    """defect class + input signature: another violation of the same property gets another key"""
    cfg = case.get("cfg") or {}
    return "%s:%s:%s:stopcode%s" % (CLAUSES.get(clause, "clause%d" % clause), cfg.get("policy"),
                                    "daemon" if cfg.get("daemon") else "process",
                                    "0" if cfg.get("stopcode") == 0 else "nonzero")


def describe(part, case, clause=0):
    if part == "v":
        return "ValidateAndSetDefaults(%s) via %s gave %s (twice: %s)" % (
            json.dumps(case.get("in")), case.get("via"), json.dumps(case.get("out")), json.dumps(case.get("out2")))
    if part == "p":
        return "health.Prober (failure_threshold %s, %s target) events %s gave callbacks [ok,fatal] %s" % (
            case["in"]["fail"], case.get("target"), case.get("evs"), case.get("pobs"))
    ops = [o for o in case.get("ops", []) if o.get("delivered")]
    return "clause %s: process %s: obs0 %s; delivered ops/observations %s" % (
        CLAUSES.get(clause, clause), json.dumps(case.get("cfg")), json.dumps(case.get("obs0")),
        json.dumps(list(zip(ops, case.get("obs", [])))))


def run(ctx):
    ok, log = V.build_coq()
    if not ok:
        ctx.broken_build("coq-build", log)
        ctx.write_evidence("proof", {"obligations": 0, "discharged": 0, "checker_cmd": "make -C coq",
                                     "trusted_base": V.TRUSTED_COMMON, "evaluations": 0}, [])
        return
    rep = V.props_report("C10")
    ok, binp, log = V.build_harness("c10")
    if not ok:
        ctx.broken_build("harness-build(-tags verif) against current /repo tree", log)
    stats, cases, res, clauses = {}, {p: [] for p in PARTS}, {p: {"model": [], "monitor": []} for p in PARTS}, []
    rerun_note = ""
    if ok:
        if ctx.replay:
            rp = json.load(open(ctx.replay))
            cf = ctx.rundir / "replay_cases.json"
            cf.write_text(json.dumps(rp.get("cases") or [rp.get("case")]))
            extra = ["-replay", str(cf), "-slow"]
        else:
            extra = ["-seed", str(ctx.seed), "-tier", ctx.tier, "-corpus", str(V.VERIF / "corpus" / "C10")]
        stats, cases, out = run_harness(ctx, binp, ctx.rundir, extra)
        if stats is None:
            ctx.broken_build("harness-run", out)
            cases = {p: [] for p in PARTS}
            stats = {}
        else:
            evok, res, clauses, raw = evaluate(ctx.rundir, stats)
            if not evok:
                ctx.broken_build("coq-eval of observed cases", raw)
            elif not ctx.replay:
                # free-running / real-time parts: re-run disagreeing scenarios once, sequentially and with
                # long settle windows, to keep scheduling noise out (DESIGN 2.4)
                for part in ("p", "h"):
                    idx = sorted(set(res[part]["model"]) | set(res[part]["monitor"]))
                    if not idx:
                        continue
                    sub = ctx.rundir / ("rerun_" + part)
                    sub.mkdir(exist_ok=True)
                    cf = sub / "in.json"
                    cf.write_text(json.dumps([cases[part][i] for i in idx[:40]]))
                    st2, cs2, out2 = run_harness(ctx, binp, sub, ["-replay", str(cf), "-slow"])
                    if st2 is None:
                        continue
                    ok2, res2, cl2, _ = evaluate(sub, st2)
                    if not ok2:
                        continue
                    keep_model = {idx[j] for j in res2[part]["model"]} | set(idx[40:]) & set(res[part]["model"])
                    keep_mon = {idx[j] for j in res2[part]["monitor"]} | set(idx[40:]) & set(res[part]["monitor"])
                    dropped = (set(res[part]["model"]) - keep_model) | (set(res[part]["monitor"]) - keep_mon)
                    if dropped:
                        rerun_note += "part %s: %d disagreement(s) did not reproduce in the sequential re-run %s; " % (
                            part, len(dropped), sorted(dropped)[:10])
                    for j, i in enumerate(idx[:40]):
                        cases[part][i] = cs2[part][j]
                        if part == "h" and i < len(clauses) and j < len(cl2):
                            clauses[i] = cl2[j]
                    res[part]["model"] = sorted(keep_model)
                    res[part]["monitor"] = sorted(keep_mon)
    # ---- verdict (DESIGN 2.4)
    unexplained_model = []
    for part in PARTS:
        bad_mon, bad_model = res[part]["monitor"], res[part]["model"]
        seen = set()
        for i in bad_mon:
            c = cases[part][i]
            clause = clauses[i] if part == "h" and i < len(clauses) else 0
            key = finding_key(c, clause) if part == "h" else part + ":" + c.get("kind", "")
            if key in seen:
                continue
            seen.add(key)
            if len(seen) > 4:
                break
            what = ("C10 monitor (holds_%s, coq/theories/Probe/Check.v) is false on %d of %d observed cases of part %s; %s"
                    % (part, len(bad_mon), len(cases[part]), part, describe(part, c, clause)))
            robj = {"case": c, "cases": [c], "part": part, "failing_case_indices": bad_mon[:50],
                    "monitor": "holds_%s" % part, "clause": CLAUSES.get(clause, "")}
            if part == "h":
                ctx.known_or_violation(key, robj, what)
            else:
                ctx.violation(robj, what)
        # model disagreements that are not already explained by a monitor failure on the same case
        unexplained_model += [(part, i) for i in bad_model if i not in set(bad_mon)]
    if unexplained_model and not ctx.violations:
        part, i = unexplained_model[0]
        c = cases[part][i]
        ctx.violation({"case": c, "cases": [c], "part": part,
                       "failing_case_indices": [j for (p, j) in unexplained_model if p == part][:50],
                       "correspondence": "corr_Probe_%s (model_ok_%s, coq/theories/Probe/Check.v)" % (part, part),
                       "theorems_resting_on_it": rep["theorems"]},
                      "implementation left the model (correspondence corr_Probe_%s broken on %d case(s)) but no C10 monitor "
                      "found a failing history; first: %s" % (part, len(unexplained_model), describe(part, c)),
                      no_input=True)
    if not rep["ok"]:
        ctx.broken_build("Props/C10.v does not compile", rep["log"])
    # ---- integrated scenarios (unmodified prober drives the unmodified process; test-level oracle = the property text:
    #      EVERY run of failure_threshold consecutive failures since the last (re)launch stops and relaunches the process)
    integ = [i for i in (stats.get("integrated") or []) if i]
    bad_int = [i for i in integ if not i.get("note") and i["launches"] < i["min_expected"]]
    if bad_int:
        i = bad_int[0]
        ctx.violation({"kind": "integrated-prober-process", "scenario": i, "scenarios": bad_int,
                       "how_to_rerun": "bin/check C10 quick (the integrated scenarios run on every normal run)"},
                      "readiness probe failing for ever, restart always, failure_threshold %d: after %.1f s the process was launched "
                      "only %d time(s) (status %s, restarts %d), at least %d expected - it is not stopped and relaunched again "
                      "after another failure_threshold consecutive failures"
                      % (i["threshold"], i["seconds"], i["launches"], i["status"], i["restarts"], i["min_expected"]))
    for i in integ:
        if i.get("note"):
            ctx.broken_build("integrated scenario could not run", i["note"])
    # ---- evidence
    allc = [(p, c) for p in PARTS for c in cases[p]]

    def nontrivial(p, c):
        if p == "v":
            i = c.get("in") or {}
            return any(i.get(k, 1) < 1 for k in ("period", "timeout", "succ", "fail")) or i.get("delay", 0) < 0 or bool(i.get("http"))
        if p == "p":
            return sum(1 for e in c.get("evs", []) if e in ("S", "F")) >= 3
        return sum(1 for o in c.get("ops", []) if o.get("delivered")) >= 2

    def sig(p, c):
        if p == "v":
            return json.dumps([p, c.get("via"), c.get("in")], sort_keys=True)
        if p == "p":
            return json.dumps([p, c["in"]["fail"], c.get("target"), c.get("evs")])
        return json.dumps([p, c.get("cfg"), [(o["k"], o.get("ok"), o.get("fatal"), o.get("code")) for o in c.get("ops", []) if o.get("delivered")]], sort_keys=True)

    nt = [(p, c) for (p, c) in allc if nontrivial(p, c)]
    nbad_model = sum(len(res[p]["model"]) for p in PARTS)
    samples = []
    for p in PARTS:
        pick = [c for c in cases[p] if nontrivial(p, c)]
        samples += pick[len(pick) // 2: len(pick) // 2 + 1]
    cov = V.proof_coverage(rep, {
        "evaluations": len(allc),
        "distinct_nontrivial": len({sig(p, c) for (p, c) in nt}),
        "nontrivial_cases": len(nt),
        "rule": "v: an illegal integer or an http probe in the input; p: >= 3 probe results in real time; "
                "h: >= 2 delivered events; distinct by (input, script)",
        "input_distribution": stats,
        "grid_exhaustive": "v: {-1,0,1,2}^5 for the five integers; 16 edge integers in every field; 38 port strings; "
                           "decimal ports 0..130, 65400..65700 (+150 random) in the quick tier, every port 0..70000 in the "
                           "thorough tier (and proved for all of 0..70000 by C10_decimal_ports); "
                           "p: thorough tier = every outcome sequence of length 5 for thresholds 1..3",
        "exhaustive": False,
        "samples": samples,
        "traces_validated_against_impl": len(allc) - nbad_model,
        "model_mismatches": {p: len(res[p]["model"]) for p in PARTS},
        "monitor_failures": {p: len(res[p]["monitor"]) for p in PARTS},
        "rerun_note": rerun_note,
    })
    ctx.write_evidence("proof", cov, [
        "part p: go-health's ticker and goroutine scheduling are exercised, not modelled; callbacks of consecutive checks "
        "(1 s apart) are assumed to arrive in order",
        "part h: free-running supervisor with harness/fakecmd commands; an observation is taken when (status, health, "
        "launches, signals, restarts) has been stable for 40 ms (Terminating: 240 ms); disagreements are re-run sequentially "
        "with 200 ms windows before being reported; probe results are delivered through Process.VerifReadinessResult / "
        "VerifLivenessResult only while the probers would be running (C10_silent_while_stopped)",
        "part h does not generate readiness probes on daemons nor StopProcess on daemons (model branches unvalidated there)",
        "Go int is 64-bit; the model uses Z; host/scheme/path strings are ASCII (strings.TrimSpace on other Unicode space is not modelled)",
        "exec probes run `test -f <file>` through bash; HTTP probes go to net/http/httptest servers on 127.0.0.1"])
