"""C04: supervisor-core property, decided on the Sup model (coq/theories/Sup, Props/C04.v) with the
controlled-scheduling harness (harness/cmd/sup).  See lib/supcheck.py."""
import supcheck


def run(ctx):
    supcheck.run(ctx, "C04", kinds="deps,shutdown,single,trigger,skipchain", n_quick=180, n_thorough=1600)
