"""C17 environment: expansion/escaping at load; precedence and injected variables at launch.
model: coq/theories/Env; theorems: coq/theories/Props/C17.v; harness: harness/cmd/c17"""
import json
from concurrent.futures import ThreadPoolExecutor
import vcheck as V

SENTINEL = "##PC_ENV_ESCAPED##"
INJECTED = ("PC_PROC_NAME", "PC_REPLICA_NUM")


def view(c):
    """a readable projection of one case for replay files / evidence samples"""
    if c["kind"] == "load":
        return {"kind": "load", "gen": c["gen"], "expansion_disabled": c.get("disabled", False),
                "dot_mode": c.get("dot_mode"), "env": c.get("env"), "dotenv": c.get("dotenv"),
                "file": "".join(s.get("lit", "") if s["f"] < 0 else c["fields"][s["f"]]["raw"] for s in c["segs"]),
                "fields": [{"where": f["where"], "raw": f["raw"], "loaded": f["obs"],
                            "tokens": f.get("toks")} for f in c["fields"]],
                "load_err": c.get("load_err", "")}
    eff = {}
    for e in c.get("obs_env") or []:
        if "=" in e and not e.startswith("PATH="):
            k, v = e.split("=", 1)
            eff[k] = v
    return {"kind": c["kind"], "gen": c["gen"], "process": c.get("name"), "replica_num": c.get("num"),
            "real_child": c.get("real", False),
            "inherited": [e for e in c.get("inh") or [] if not e.startswith("PATH=")],
            "global": c.get("glob"), "env_cmds": c.get("cmds"), "per_process": c.get("proc"),
            "working_dir": c.get("wd", ""), "observed_dir": c.get("obs_dir", ""),
            "observed_effective_env": eff, "launch_err": c.get("launch_err", "")}


def defines_injected(c):
    for layer in ("inh", "glob", "proc"):
        for e in c.get(layer) or []:
            if e.split("=", 1)[0] in INJECTED:
                return True
    return any(cs.get("ok") and cs["key"] in INJECTED for cs in c.get("cmds") or [])


def touches_sentinel(c):
    """the placeholder text of the unchanged loader (or ${$}) occurs in the file, in a value, or in the result"""
    texts = [v for _, v in c.get("full_env") or []] + [f["raw"] for f in c["fields"]] + [f["obs"] for f in c["fields"]]
    return any(SENTINEL in t for t in texts) or any("${$}" in f["raw"] for f in c["fields"])


def classify(c, orig_ok):
    """finding key of a failing case, or None.  A case is attributed to a listed defect only if the
    implementation behaves exactly like the model of the UNCHANGED code on it."""
    if not orig_ok:
        return None
    if c["kind"] == "load":
        if touches_sentinel(c) and not c.get("disabled"):
            return "F34-escape-placeholder-collision"
        if c.get("disabled") and any(f.get("key") and len(f.get("obs_keys") or []) > 1 for f in c["fields"]):
            return "F35-disabled-expansion-keeps-expanded-keys"
        return None
    if defines_injected(c):
        return "F16-injected-vars-overridden"
    return None


def run(ctx):
    ok, log = V.build_coq()
    if not ok:
        ctx.broken_build("coq-build", log)
        ctx.write_evidence("proof", {"obligations": 0, "discharged": 0, "checker_cmd": "make -C coq",
                                     "trusted_base": V.TRUSTED_COMMON, "evaluations": 0}, [])
        return
    rep = V.props_report("C17")
    ok, binp, log = V.build_harness("c17")
    if not ok:
        ctx.broken_build("harness-build(-tags verif) against current /repo tree", log)
    quick = ctx.tier == "quick"
    stats, res, bad_model, bad_orig, bad_mon, cases = {}, {}, [], [], [], []
    if ok:
        args = [str(binp), "-out", str(ctx.rundir), "-seed", str(ctx.seed),
                "-corpus", str(V.VERIF / "corpus" / "C17")]
        args += ["-nload", "300", "-nsweep", "300", "-nproj", "60", "-nreal", "6", "-grid", "3", "-shards", "8"] if quick else \
                ["-nload", "4000", "-nsweep", "4000", "-nproj", "700", "-nreal", "100", "-grid", "4", "-shards", "16"]
        if ctx.replay:
            rp = json.load(open(ctx.replay))
            cf = ctx.rundir / "replay_cases.json"
            cf.write_text(json.dumps(rp.get("cases", [rp.get("case")])))
            args = [str(binp), "-out", str(ctx.rundir), "-replay", str(cf)]
        rc, out = V.sh(args, timeout=1800)
        if rc != 0:
            ctx.broken_build("harness-run", out)
        else:
            stats = json.loads(out.strip().splitlines()[-1])
            cases = json.load(open(ctx.rundir / "cases_C17.json"))
            nsh = stats["shards"]   # case i lives in shard i % nsh at position i // nsh
            with ThreadPoolExecutor(max_workers=8) as ex:
                evals = list(ex.map(lambda k: V.coq_eval(ctx.rundir / ("cases_C17_%d.v" % k), timeout=1800), range(nsh)))
            names = ("r_bad_model", "r_bad_model_orig", "r_bad_monitor")
            for k, (rc, res, raw) in enumerate(evals):
                if rc != 0 or any(n not in res for n in names):
                    ctx.broken_build("coq-eval of observed cases (shard %d)" % k, raw)
                    bad_model, bad_orig, bad_mon = [], [], []
                    break
                bad_model += [j * nsh + k for j in res["r_bad_model"]]
                bad_orig += [j * nsh + k for j in res["r_bad_model_orig"]]
                bad_mon += [j * nsh + k for j in res["r_bad_monitor"]]
            bad_model.sort(); bad_orig.sort(); bad_mon.sort()
    # ---- verdict (DESIGN 2.4)
    orig_bad = set(bad_orig)
    if bad_mon:
        # concrete inputs on which the property's monitor is false on what the implementation produced
        groups = {}
        for i in bad_mon:
            groups.setdefault(classify(cases[i], i not in orig_bad), []).append(i)
        for key, idx in sorted(groups.items(), key=lambda kv: str(kv[0])):
            i = idx[0]
            c = cases[i]
            obj = {"case": view(c), "cases": [c], "failing_case_indices": idx[:50],
                   "monitor": "holds_C17 (coq/theories/Env/Check.v)"}
            if c["kind"] == "load":
                f0 = next((f for f in c["fields"] if f["raw"] != f["obs"] or c.get("disabled")), c["fields"][0])
                what = ("load-time expansion: a loaded value differs from `values substituted, $$ -> $, nothing when "
                        "disabled` on %d of %d cases; first: gen=%s disabled=%r e.g. %s %r loaded as %r %s"
                        % (len(idx), len(cases), c["gen"], c.get("disabled", False), f0["where"], f0["raw"], f0["obs"],
                           c.get("load_err", "")))
            else:
                v = view(c)
                what = ("launch environment: replica %s/%s does not receive its own PC_PROC_NAME/PC_REPLICA_NUM, the "
                        "layer precedence or its working directory on %d of %d cases; first: gen=%s sees PC_PROC_NAME=%r "
                        "PC_REPLICA_NUM=%r dir=%r %s"
                        % (c.get("name"), c.get("num"), len(idx), len(cases), c["gen"],
                           v["observed_effective_env"].get("PC_PROC_NAME"),
                           v["observed_effective_env"].get("PC_REPLICA_NUM"), c.get("obs_dir", ""), c.get("launch_err", "")))
            if key:
                ctx.known_or_violation(key, obj, what)
            else:
                ctx.violation(obj, what)
        # cases that follow neither the model of the repaired code nor the model of the unchanged code, although
        # the monitor accepts them, are not explained by any listed finding
        monset = set(bad_mon)
        unexplained = [i for i in bad_model if i in orig_bad and i not in monset]
        if unexplained:
            i = unexplained[0]
            ctx.violation({"case": view(cases[i]), "cases": [cases[i]], "failing_case_indices": unexplained[:50],
                           "correspondence": "corr_Env (model_ok, coq/theories/Env/Check.v)",
                           "theorems_resting_on_it": rep["theorems"]},
                          "implementation left the model (correspondence corr_Env broken) on %d further cases (first: kind=%s "
                          "gen=%s) on which the C17 monitor holds" % (len(unexplained), cases[i]["kind"], cases[i]["gen"]),
                          no_input=True)
    elif bad_model:
        i = bad_model[0]
        ctx.violation({"case": view(cases[i]), "cases": [cases[i]], "failing_case_indices": bad_model[:50],
                       "correspondence": "corr_Env (model_ok, coq/theories/Env/Check.v)",
                       "theorems_resting_on_it": rep["theorems"]},
                      "implementation left the model (correspondence corr_Env broken) on %d cases (first: kind=%s gen=%s %s) "
                      "but the C17 monitor found no failing input"
                      % (len(bad_model), cases[i]["kind"], cases[i]["gen"],
                         cases[i].get("load_err", "") or cases[i].get("launch_err", "")),
                      no_input=True)
    if not rep["ok"]:
        ctx.broken_build("Props/C17.v does not compile", rep["log"])

    def nontrivial(c):
        if c["kind"] == "load":
            return any(f["raw"] != f["obs"] for f in c["fields"]) or c.get("disabled", False)
        layers = [set(e.split("=", 1)[0] for e in (c.get(l) or []) if "=" in e and not e.startswith("PATH="))
                  for l in ("inh", "glob", "proc")]
        layers.append({cs["key"] for cs in c.get("cmds") or [] if cs.get("ok")})
        return any(layers[a] & layers[b] for a in range(4) for b in range(a + 1, 4)) or defines_injected(c)

    def sig(c):
        if c["kind"] == "load":
            return json.dumps([c.get("disabled"), c.get("full_env"), [f["raw"] for f in c["fields"]]])
        return json.dumps([c.get("name"), c.get("num"), [e for e in c.get("inh") or [] if not e.startswith("PATH=")],
                           c.get("glob"), c.get("cmds"), c.get("proc"), c.get("real")])
    nt = [c for c in cases if nontrivial(c)]
    samples = [view(c) for c in cases if c["gen"] in ("load-random", "project-fake")][:2]
    cov = V.proof_coverage(rep, {
        "evaluations": len(cases),
        "distinct_nontrivial": len({sig(c) for c in nt}),
        "rule": "cases = corpus + directed load cases (every token form, '$' at the end, '${}', '${', special one-character "
                "names, the old placeholder text) + exhaustive grid (for each of k keys incl. the two injected names: every "
                "subset of {inherited, global, per-process} defining it; k=3 quick, 4 thorough) + seeded random load files "
                "(tokens and malformed placements in values, commands, list items; .env modes none/default/files/off; "
                "expansion on/off) + random launch sweeps + loader-built projects with replicas / env_cmds run through the "
                "fake commander and through a real `env` child. non-trivial = load case where some value is changed by the "
                "expansion or expansion is disabled; launch case where two layers define the same key or a layer defines "
                "an injected name. distinct by input.",
        "nontrivial_cases": len(nt),
        "input_distribution": stats,
        "traces_validated_against_impl": len(cases) - len(bad_model),
        "exhaustive": False,
        "grid_exhaustive": "8^k layer-overlap patterns over k keys (k=%d)" % (3 if quick else 4),
        "samples": samples,
        "model_mismatches": len(bad_model), "monitor_failures": len(bad_mon),
        "cases_agreeing_with_model_of_unchanged_code": len(cases) - len(bad_orig),
    })
    ctx.write_evidence("proof", cov, [
        "the model describes process-compose AFTER fixes/F16-injected-env-last.diff and fixes/F34-escape-single-pass.diff; "
        "the unchanged code is modelled too (launch_env_orig, load_expand_sentinel) and refuted in Props/C17.v",
        "YAML decoding is outside the model: every generated scalar is a single-quoted scalar without quotes or line breaks, "
        "on which decoding is the identity; the model is applied to the whole file text",
        "godotenv is modelled as: a name already set in the process environment is kept, an earlier .env file wins",
        "os/exec semantics of duplicate keys (last entry wins, key = text before the first '=') is modelled by lookup_last "
        "and cross-checked by a real `env` child",
        "env_cmds run real shell commands whose trimmed output is predicted by the generator"])
