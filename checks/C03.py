"""C03: supervisor-core property, decided on the Sup model (coq/theories/Sup, Props/C03.v) with the
controlled-scheduling harness (harness/cmd/sup).  See lib/supcheck.py."""
import supcheck


def run(ctx):
    supcheck.run(ctx, "C03", kinds="shutdown,api,deps,stopstart,ordered", n_quick=180, n_thorough=1600)
