"""C06 OS-level stop: signal, process group, SIGKILL escalation, shutdown command.
model: coq/theories/StopPlan + coq/theories/OsTree; theorems: coq/theories/Props/C06.v; harness: harness/cmd/c06"""
import json, os
import vcheck as V

SCN_KEYS = ("kind", "via", "signal", "timeout", "parent_only", "cmd", "react", "tree", "tag")

# classes of the known finding F24 (faithful model contains them: OsTree *_refuted theorems)
FINDING_WHAT = {
    "F24a:no-timeout:signal-immune-member-survives":
        "no shutdown.timeout_seconds: a member that ignores the stop signal is never killed",
    "F24b:timeout:immune-member-without-output-pipe-survives":
        "timeout configured, but the launched pid died and the signal-immune member does not hold the output pipe: the escalation is cancelled",
    "F24c:parent_only:descendants-not-signalled":
        "parent_only: descendants of the launched pid get neither the signal nor the SIGKILL",
    "F24d:member-left-process-group":
        "a descendant that left the process group (setsid) is out of reach of kill(-pgid)",
}


def scenario_of(c):
    return {k: c[k] for k in SCN_KEYS if k in c and c[k] not in (None, "", [])}


def classify(c):
    """finding class of a case whose monitor is false although the model agrees with the implementation"""
    if c["kind"] == "fake" or not c.get("survivors"):
        return None
    if c.get("cmd") in ("ok", "okkill"):
        return None
    ingrp = c.get("in_group") or {}
    if any(not ingrp.get(str(m), True) for m in c["survivors"]):
        return "F24d:member-left-process-group"
    if c.get("parent_only") and not c.get("cmd"):
        return "F24c:parent_only:descendants-not-signalled"
    if c.get("cmd"):
        return None
    if c.get("timeout", 0) == 0:
        return "F24a:no-timeout:signal-immune-member-survives"
    return "F24b:timeout:immune-member-without-output-pipe-survives"


def view(c):
    v = {k: c[k] for k in c if k not in ("proc_env", "proc_dir") and c[k] not in (None, "", [], {})}
    return v


def run_harness(ctx, binp, outdir, extra):
    outdir.mkdir(parents=True, exist_ok=True)
    rc, out = V.sh([str(binp), "-out", str(outdir)] + extra, timeout=1500)
    if rc != 0:
        return None, None, None, "harness-run rc=%d\n%s" % (rc, out[-3000:])
    try:
        stats = json.loads(out.strip().splitlines()[-1])
    except Exception:
        return None, None, None, "harness-run: no statistics line\n" + out[-3000:]
    rc, res, raw = V.coq_eval(outdir / "cases_C06.v")
    if rc != 0 or "r_bad_model" not in res or "r_bad_monitor" not in res:
        return None, None, None, "coq-eval of observed cases\n" + raw[-3000:]
    cases = json.load(open(outdir / "cases_C06.json"))
    return stats, cases, res, None


def one_round(ctx, binp, tag, extra, pcbin):
    """one harness run + re-runs of disagreeing scenarios. returns (stats, cases, status, retried, rounds, err)"""
    stats, cases, res, err = run_harness(ctx, binp, ctx.rundir / tag, extra)
    if err:
        return {}, [], [], 0, 0, err
    bm, bo = set(res["r_bad_model"]), set(res["r_bad_monitor"])
    status = [dict(model_ok=i not in bm, monitor_ok=i not in bo) for i in range(len(cases))]
    retried, rounds = 0, 0
    # DESIGN 2.4: scenarios that disagree are re-run (alone, on a quiet machine the timings are tight)
    # before being reported: a genuine regression reproduces, scheduling noise does not.
    for attempt in (1, 2, 3):
        sus = [i for i, st in enumerate(status)
               if not st["model_ok"] or (not st["monitor_ok"] and classify(cases[i]) is None)]
        if not sus:
            break
        rounds = attempt
        rf = ctx.rundir / ("%s-retry%d.json" % (tag, attempt))
        rf.write_text(json.dumps([scenario_of(cases[i]) for i in sus]))
        ex = ["-replay", str(rf), "-par", "6"] + (["-pcbin", str(pcbin)] if pcbin else [])
        _, rcases, rres, err = run_harness(ctx, binp, ctx.rundir / ("%s-retry%d" % (tag, attempt)), ex)
        if err or len(rcases) != len(sus):
            break
        rbm, rbo = set(rres["r_bad_model"]), set(rres["r_bad_monitor"])
        for j, i in enumerate(sus):
            retried += 1
            st = dict(model_ok=j not in rbm, monitor_ok=j not in rbo, attempts=attempt + 1)
            better = st["model_ok"] and (st["monitor_ok"] or classify(rcases[j]) is not None)
            if better or attempt == 3:
                rcases[j]["id"] = cases[i]["id"]
                cases[i], status[i] = rcases[j], st
    return stats, cases, status, retried, rounds, None


def run(ctx):
    ok, log = V.build_coq()
    if not ok:
        ctx.broken_build("coq-build", log)
        ctx.write_evidence("proof", {"obligations": 0, "discharged": 0, "checker_cmd": "make -C coq",
                                     "trusted_base": V.TRUSTED_COMMON, "evaluations": 0}, [])
        return
    rep = V.props_report("C06")
    ok, binp, log = V.build_harness("c06")
    if not ok:
        ctx.broken_build("harness-build(-tags verif) against current /repo tree", log)
    thorough = ctx.tier == "thorough"
    stats, cases, status = {}, [], []
    retried, retry_rounds = 0, 0
    pcbin = None
    if ok:
        extra = ["-seed", str(ctx.seed), "-n", "150" if thorough else "30", "-tier", ctx.tier,
                 "-corpus", str(V.VERIF / "corpus" / "C06")]
        rp = json.load(open(ctx.replay)) if ctx.replay else None
        if thorough or (rp and any(c.get("kind") == "binary" for c in rp.get("cases", []))):
            pcbin = ctx.rundir / "process-compose"
            rc, out = V.sh(["go", "build", "-o", str(pcbin), "./src"], cwd=V.REPO, timeout=900, env=V.GOENV)
            if rc != 0:
                ctx.broken_build("go build of the process-compose binary", out)
                pcbin = None
            else:
                extra += ["-pcbin", str(pcbin)]
        if ctx.replay:
            cf = ctx.rundir / "replay_scenarios.json"
            cf.write_text(json.dumps([scenario_of(c) for c in rp.get("cases", [])]))
            extra = ["-replay", str(cf)] + (["-pcbin", str(pcbin)] if pcbin else [])
        rounds = [(ctx.seed, extra)]
        if thorough and not ctx.replay:
            # more seeds: other random parameters / trees / API choices (the grid is repeated each time)
            for k in range(1, 5):
                ex = list(extra)
                ex[ex.index("-seed") + 1] = str(ctx.seed + 1000 * k)
                ex = [x for x in ex if x not in ("-corpus", str(V.VERIF / "corpus" / "C06"))]
                rounds.append((ctx.seed + 1000 * k, ex))
        for rno, (rseed, ex) in enumerate(rounds):
            st_, cs_, status_, nretried, nrounds, err = one_round(ctx, binp, "r%d" % rno, ex, pcbin)
            if err:
                ctx.broken_build(err.split("\n")[0], err)
                break
            for k, v in st_.get("counts", {}).items():
                stats.setdefault("counts", {})[k] = stats.get("counts", {}).get(k, 0) + v
            for k in ("prep_phase_s", "fake_phase_s", "real_phase_s"):
                stats[k] = round(stats.get(k, 0) + st_.get(k, 0), 2)
            cases += cs_
            status += status_
            retried += nretried
            retry_rounds = max(retry_rounds, nrounds)
    # ---- verdict (DESIGN 2.4)
    bad_mon = [i for i, st in enumerate(status) if not st["monitor_ok"]]
    bad_model = [i for i, st in enumerate(status) if not st["model_ok"]]
    known_hits = {}
    reported = 0
    for i in bad_mon:
        c = cases[i]
        key = classify(c) if status[i]["model_ok"] else None
        replay = {"case": view(c), "cases": [scenario_of(c)], "monitor": "holds_C06 (coq/theories/StopPlan/Check.v)",
                  "model_agrees": status[i]["model_ok"]}
        if key:
            known_hits[key] = known_hits.get(key, 0) + 1
            if known_hits[key] > 1:
                continue  # one line / one replay per class is enough
            ctx.known_or_violation(key, replay,
                                   "descendants %r of the managed process are left alive after %s: %s (signal=%d timeout=%d parent_only=%s)"
                                   % (c["survivors"], c["via"], FINDING_WHAT[key], c["signal"], c["timeout"], c["parent_only"]))
        else:
            if reported < 5:
                ctx.violation(replay, describe(c))
            reported += 1
    for i, c in enumerate(cases):
        if c["kind"] == "binary" and not c.get("survivors") and not c.get("exited") and status[i]["monitor_ok"]:
            ctx.violation({"case": view(c), "cases": [scenario_of(c)]},
                          "the process-compose binary did not exit after %s although every managed process is dead" % c["via"])
    bmo = [i for i in bad_model if status[i]["monitor_ok"]]
    if bmo:
        i = bmo[0]
        ctx.violation({"case": view(cases[i]), "cases": [scenario_of(cases[j]) for j in bmo[:20]],
                       "failing_case_indices": bmo[:50],
                       "correspondence": "corr_StopPlan / corr_OsTree (model_ok, coq/theories/StopPlan/Check.v)",
                       "theorems_resting_on_it": rep["theorems"]},
                      "implementation left the model (correspondence broken on %d scenarios, first: %s) but the C06 monitor found no failing scenario"
                      % (len(bmo), json.dumps(scenario_of(cases[i]))), no_input=True)
    if not rep["ok"]:
        ctx.broken_build("Props/C06.v does not compile", rep["log"])
    herr = [c for c in cases if c.get("err")]
    # ---- evidence
    def sig_of(c):
        return json.dumps(scenario_of(c), sort_keys=True)
    nontrivial = [c for c in cases if c["kind"] != "fake" and len(c.get("tree") or []) >= 2 or
                  (c["kind"] == "fake" and (len(c.get("stops") or []) + len(c.get("runs") or [])) >= 2)]
    cov = V.proof_coverage(rep, {
        "evaluations": len(cases),
        "distinct_nontrivial": len({sig_of(c) for c in nontrivial}),
        "rule": "cases = corpus + full grid signal{0,1,2,9,15,31,32,64,-1} x parent_only x timeout{0,1,2} x reaction{dies, ignores, dies after 0.5 s} "
                "on the fake commander + shutdown.command {ok,fail,slow fail,hang} x timeout{0,1,2,-1} + seeded random parameters; "
                "real `sh` trees (named shapes + seeded random trees) x signals x timeout x parent_only x command; thorough: the built binary under "
                "SIGTERM/SIGINT/SIGHUP. non-trivial = fake case with >= 2 recorded actions (signal+SIGKILL or command+SIGKILL) or a real tree "
                "with >= 2 members; distinct by scenario",
        "nontrivial_cases": len(nontrivial),
        "input_distribution": stats.get("counts", {}),
        "timings_s": {k: stats.get(k) for k in ("prep_phase_s", "fake_phase_s", "real_phase_s")},
        "stop_calls_recorded": stats.get("counts", {}).get("stop_calls_recorded", 0),
        "real_process_members": stats.get("counts", {}).get("members", 0),
        "traces_validated_against_impl": len(cases) - len(bad_model),
        "exhaustive": False,
        "grid_exhaustive": "fake commander: 9 signals x 2 x 3 timeouts x 3 reactions = 162 cells, every run",
        "samples": [view(c) for c in (cases[3:4] + [c for c in cases if c["kind"] == "real"][1:2])],
        "model_mismatches": len(bad_model), "monitor_failures": len(bad_mon),
        "known_finding_hits": known_hits,
        "retried_scenarios": retried, "retry_rounds": retry_rounds,
        "harness_errors": [c["err"] for c in herr][:5],
        "slack_ms": cases[0]["slack_ms"] if cases else None,
    })
    ctx.write_evidence("proof", cov, [
        "PARTIAL level: kernel signal delivery, process groups (setpgid at launch, kill(-pgid)), default signal dispositions, "
        "EOF-on-pipe semantics and prompt delivery are ASSUMED by OsTree (coq/theories/OsTree/Model.v header); the real-process "
        "scenarios compare those assumptions with Linux on sampled trees only",
        "time: model times are ms after the stop request; observed times are accepted within slack_ms after the model time, never before "
        "(the lower bounds 'SIGKILL not before the timeout' are exact); disagreeing scenarios are re-run alone up to 3 times (machine load)",
        "is_tty (pty, own session), elevated and foreground (`run`) processes are launched without Setpgid and are outside the model",
        "Windows stopper (taskkill) is outside the model",
        "the stop of an instance that is not running (Pending, Completed) emits nothing and is covered by the Sup properties (C03/C08), not here"])


def describe(c):
    if c["kind"] == "fake":
        return ("stop of a scripted process (signal=%d timeout=%d parent_only=%s command=%r reaction=%s via %s): "
                "Stop calls %s, command runs %d, process ended at %s ms - contradicts the property monitor"
                % (c["signal"], c["timeout"], c["parent_only"], c.get("cmd", ""), c.get("react"), c["via"],
                   [(s["sig"], s["parent_only"], s["ms"]) for s in c["stops"]], len(c["runs"]), c["end_ms"]))
    return ("real process tree (signal=%d timeout=%d parent_only=%s command=%r via %s): survivors %r, recorded signals %r, deaths(ms) %r "
            "- contradicts the property monitor" % (c["signal"], c["timeout"], c["parent_only"], c.get("cmd", ""), c["via"],
                                                    c.get("survivors"), c.get("sigs"), c.get("deaths")))
