"""Shared machinery of the /verif checks (stdlib only).

A check plugin (checks/Cxx.py) defines  run(ctx)  and uses the helpers below:
  build_coq(), props_report(pid), build_harness(name), run_harness(...), coq_eval(vfile),
  ctx.violation(...), ctx.known_or_violation(...), ctx.write_evidence(...), ctx.finish()
"""
import fcntl, hashlib, json, os, re, shutil, subprocess, sys, time
from pathlib import Path

VERIF = Path(__file__).resolve().parent.parent
REPO = Path(os.environ.get("VERIF_REPO", "/repo"))
BUILD = VERIF / "build"
COQ = VERIF / "coq"
TAG = "verif"

GOENV = dict(os.environ, GOFLAGS="-mod=mod", GOPROXY="off", GOSUMDB="off", GOTOOLCHAIN="local",
             CGO_ENABLED=os.environ.get("CGO_ENABLED", "0"))


class lock:
    def __init__(self, name):
        BUILD.mkdir(exist_ok=True)
        self.path = BUILD / (name + ".lock")

    def __enter__(self):
        self.f = open(self.path, "w")
        fcntl.flock(self.f, fcntl.LOCK_EX)

    def __exit__(self, *a):
        fcntl.flock(self.f, fcntl.LOCK_UN)
        self.f.close()


def sh(cmd, cwd=None, timeout=None, env=None, mem_kb=None):
    """run a command, return (rc, stdout+stderr)"""
    pre = None
    if mem_kb:
        import resource
        def pre():
            resource.setrlimit(resource.RLIMIT_AS, (mem_kb * 1024, mem_kb * 1024))
    try:
        p = subprocess.run(cmd, cwd=cwd, timeout=timeout, env=env, stdout=subprocess.PIPE,
                           stderr=subprocess.STDOUT, text=True, preexec_fn=pre, shell=isinstance(cmd, str))
        return p.returncode, p.stdout
    except subprocess.TimeoutExpired as e:
        out = e.stdout.decode() if isinstance(e.stdout, bytes) else (e.stdout or "")
        return 124, out + "\n[timeout after %ss]" % timeout


# ----------------------------------------------------------------------------------------------- Coq
FORBIDDEN = re.compile(r"\b(Admitted|admit|Axiom|Axioms|Parameter|Parameters|Conjecture|Hypothesis|Variable)\b|"
                       r"Unset\s+Guard|bypass_check|type-in-type|impredicative-set|Admit Obligations")


def coq_sources():
    return sorted(p for p in (COQ / "theories").rglob("*.v"))


def gen_coqproject():
    """_CoqProject lists every theories/**/*.v (dependency order is coqdep's business)."""
    lines = ["-Q theories PC",
             "-arg -w -arg -notation-overridden,-deprecated-hint-without-locality,-deprecated-instance-without-locality,-deprecated-syntactic-definition"]
    lines += [str(p.relative_to(COQ)) for p in coq_sources()]
    txt = "\n".join(lines) + "\n"
    cp = COQ / "_CoqProject"
    if not cp.exists() or cp.read_text() != txt:
        cp.write_text(txt)
        return True
    return False


def grep_gate():
    """No Admitted/Axiom/... anywhere in the development (Section Variables/Hypotheses are allowed only
    inside sections; we simply do not use the words outside comments at all, except 'Context')."""
    bad = []
    for p in coq_sources():
        txt = p.read_text()
        txt = re.sub(r"\(\*.*?\*\)", " ", txt, flags=re.S)
        for i, line in enumerate(txt.splitlines(), 1):
            if FORBIDDEN.search(line):
                bad.append("%s:%d: %s" % (p.relative_to(VERIF), i, line.strip()))
    return bad


def build_coq(timeout=3000):
    """full .vo build (never -vos); incremental; returns (ok, log)"""
    with lock("coq"):
        changed = gen_coqproject()
        if changed or not (COQ / "Makefile").exists():
            rc, out = sh(["coq_makefile", "-f", "_CoqProject", "-o", "Makefile"], cwd=COQ, timeout=120)
            if rc != 0:
                return False, out
        rc, out = sh(["make", "-j16"], cwd=COQ, timeout=timeout)
        bad = grep_gate()
        if bad:
            return False, "forbidden vernacular in the development:\n" + "\n".join(bad)
        return rc == 0, out


def props_report(pid):
    """compile theories/Props/<pid>.v on its own and read what Print Assumptions says.
    returns dict(theorems=[..], closed=n, axioms=[..], ok=bool, log=str)"""
    src = COQ / "theories" / "Props" / (pid + ".v")
    txt = src.read_text()
    thms = re.findall(r"^\s*(?:Theorem|Corollary)\s+([A-Za-z0-9_']+)", txt, flags=re.M)
    out_dir = BUILD / "props" / pid
    out_dir.mkdir(parents=True, exist_ok=True)
    rc, out = sh(["coqc", "-Q", str(COQ / "theories"), "PC", "-o", str(out_dir / (pid + ".vo")), str(src)],
                 cwd=COQ, timeout=900, mem_kb=12_000_000)
    closed = out.count("Closed under the global context")
    axioms = []
    for m in re.finditer(r"Axioms:\s*(.*?)(?=\n\S|\Z)", out, flags=re.S):
        axioms += [l.strip() for l in m.group(1).splitlines() if l.strip()]
    rep = dict(theorems=thms, closed=closed, axioms=axioms, ok=(rc == 0), log=out[-4000:])
    if CURRENT_TIER == "thorough" and rc == 0:
        # thorough tier: re-check the property module and everything it depends on with Coq's independent checker
        rc2, out2 = sh(["coqchk", "-silent", "-o", "-Q", str(COQ / "theories"), "PC", "PC.Props." + pid],
                       cwd=COQ, timeout=3000, mem_kb=24_000_000)
        summ = [l.strip() for l in out2.splitlines() if l.strip().startswith("*")]
        clean = rc2 == 0 and all("<none>" in l for l in summ if not l.startswith("* Theory"))
        rep["coqchk"] = {"exit_code": rc2, "context_summary": summ, "clean": clean}
        if not clean:
            rep["ok"] = False
            rep["log"] = "coqchk PC.Props.%s: rc=%d\n%s" % (pid, rc2, out2[-3000:])
    return rep


def coq_eval(vfile, timeout=900, mem_kb=12_000_000):
    """coqc a generated cases file; returns (rc, {name: [ints]}, raw) for every 'r_name = [...]'"""
    vfile = Path(vfile)
    rc, out = sh(["coqc", "-Q", str(COQ / "theories"), "PC", str(vfile)], cwd=vfile.parent,
                 timeout=timeout, mem_kb=mem_kb)
    flat = re.sub(r"\s+", " ", out)
    res = {}
    for m in re.finditer(r"\b(r_[A-Za-z0-9_]+) = \[([^\]]*)\]", flat):
        body = m.group(2).strip()
        items = [x.strip() for x in re.split(r"[;\s]+", body) if x.strip()] if body else []
        vals = []
        for x in items:
            x = re.sub(r"%(nat|N|Z)$", "", x).strip("()")
            if not x.lstrip("-").isdigit():
                raise ValueError("coq_eval: cannot parse list element %r of %s" % (x, m.group(1)))
            vals.append(int(x))
        res[m.group(1)] = vals
    for m in re.finditer(r"\b(r_[A-Za-z0-9_]+) = (true|false|\d+)\b", flat):
        res.setdefault(m.group(1), m.group(2))
    return rc, res, out


# ------------------------------------------------------------------------------------------------ Go
def harness_gomod(repo):
    """go.mod of the harness = the repository's own requirements (so that module resolution never needs
    the network) + the repository itself, replaced by the working tree at `repo`."""
    src = (Path(repo) / "go.mod").read_text()
    src = re.sub(r"^module .*$", "module pcverif", src, count=1, flags=re.M)
    src = re.sub(r"^toolchain .*\n", "", src, flags=re.M)
    src += "\nrequire github.com/f1bonacc1/process-compose v0.0.0\n"
    src += "\nreplace github.com/f1bonacc1/process-compose => %s\n" % repo
    return src


def build_harness(name, race=False, timeout=900):
    """go build -tags verif ./cmd/<name> against the CURRENT tree of REPO. returns (ok, binary, log)"""
    with lock("go"):
        BUILD.mkdir(exist_ok=True)
        (BUILD / "bin").mkdir(exist_ok=True)
        (BUILD / "go.mod").write_text(harness_gomod(REPO))
        sums = (REPO / "go.sum").read_text()
        extra = VERIF / "harness" / "go.sum.extra"
        if extra.exists():
            sums += extra.read_text()
        (BUILD / "go.sum").write_text(sums)
        binp = BUILD / "bin" / (name + ("-race" if race else ""))
        cmd = ["go", "build", "-tags", TAG, "-modfile=" + str(BUILD / "go.mod"), "-o", str(binp)]
        env = dict(GOENV)
        if race:
            cmd.insert(2, "-race")
            env["CGO_ENABLED"] = "1"
        cmd.append("./cmd/" + name)
        rc, out = sh(cmd, cwd=VERIF / "harness", timeout=timeout, env=env)
        return rc == 0, binp, out


# ------------------------------------------------------------------------------------------- context
CURRENT_TIER = "quick"


class Ctx:
    def __init__(self, pid, tier, seed, replay=None):
        global CURRENT_TIER
        CURRENT_TIER = tier
        self.pid, self.tier, self.seed, self.replay = pid, tier, seed, replay
        self.t0 = time.time()
        self.rundir = BUILD / "run" / pid
        if self.rundir.exists():
            shutil.rmtree(self.rundir)
        self.rundir.mkdir(parents=True)
        (VERIF / "replays").mkdir(exist_ok=True)
        (VERIF / "evidence").mkdir(exist_ok=True)
        self.violations = 0
        self.known_printed = []
        self.lines = []
        kf = VERIF / "known_findings.json"
        self.findings = json.loads(kf.read_text())["findings"] if kf.exists() else []
        self._nrep = 0

    # -- reporting
    def say(self, msg):
        print(msg, flush=True)

    def replay_path(self, tag=""):
        self._nrep += 1
        return VERIF / "replays" / ("%s-%d-%d%s.json" % (self.pid, self.seed, self._nrep, tag))

    def violation(self, replay_obj, what, no_input=False):
        """report a violation; replay_obj is written to a fresh replay file"""
        p = self.replay_path()
        replay_obj = dict(replay_obj, property=self.pid, what=what, seed=self.seed,
                          replay_cmd="bin/check %s --replay %s" % (self.pid, p))
        p.write_text(json.dumps(replay_obj, indent=1))
        self.violations += 1
        self.say("VIOLATION property=%s replay=%s%s" % (self.pid, p, " no-failing-input-found" if no_input else ""))
        self.say("  " + what)

    def is_known(self, key):
        for f in self.findings:
            if f.get("property") == self.pid and f.get("status") == "known" and f.get("key") == key:
                return f
        return None

    def known_or_violation(self, key, replay_obj, what):
        """a finding shown against the real code: listed -> KNOWN-FINDING line, else VIOLATION"""
        f = self.is_known(key)
        if f:
            if key not in self.known_printed:
                self.known_printed.append(key)
                self.say("KNOWN-FINDING: property=%s %s [%s]" % (self.pid, f.get("what", what), key))
            return True
        self.violation(dict(replay_obj, finding_key=key), what)
        return False

    def broken_build(self, kind, log):
        self.violation({"kind": kind, "log": log[-6000:],
                        "theorems_at_stake": "coq/theories/Props/%s.v" % self.pid},
                       "%s: the property is no longer shown to hold (see log in replay file)" % kind, no_input=True)

    # -- evidence
    def write_evidence(self, level, coverage, assumptions):
        ev = {"property_id": self.pid, "tier": self.tier, "seed": self.seed, "level": level,
              "coverage": coverage, "assumptions": assumptions,
              "wall_s": round(time.time() - self.t0, 2), "violations": self.violations,
              "known_findings_reported": self.known_printed}
        (VERIF / "evidence" / (self.pid + ".json")).write_text(json.dumps(ev, indent=1) + "\n")

    def finish(self):
        sys.exit(1 if self.violations else 0)


TRUSTED_COMMON = [
    "Coq 8.16.1 kernel + coqc; vm_compute used to evaluate models on observed cases (no native_compute)",
    "no Axiom/Parameter/Admitted in the development (grep gate on every build); Print Assumptions of every property theorem re-read on every run",
    "hand-written Gallina model; tie to /repo = differential correspondence run by the Go harness built from /repo's current tree with -tags verif",
    "Go harness: generators, canonicalisers (projection to modelled observables) and the Gallina serialiser (harness/coqfmt)",
]


def proof_coverage(report, extra):
    """coverage keys for a proof-level evidence file"""
    cov = {"obligations": len(report["theorems"]),
           "discharged": report["closed"] + (len(report["theorems"]) - report["closed"] if report["ok"] and report["axioms"] else 0)
           if report["ok"] else 0,
           "theorems": report["theorems"],
           "axioms_reported_by_Print_Assumptions": report["axioms"] or ["none: every theorem 'Closed under the global context'"],
           "checker_cmd": "make -C /verif/coq (full .vo build) && coqc -Q coq/theories PC coq/theories/Props/<id>.v",
           "trusted_base": list(TRUSTED_COMMON)}
    if "coqchk" in report:
        cov["coqchk"] = report["coqchk"]
        cov["checker_cmd"] += " && coqchk -silent -o -Q coq/theories PC PC.Props.<id>"
    cov.update(extra)
    return cov
