"""Shared check for the supervisor-core properties (C01 C02 C03 C04 C05 C08 C09 C12).

One run = Coq build + Props/<pid>.v + sup harness (controlled scheduler over the real ProjectRunner built
from the current /repo tree with -tags verif) + replay of every recorded history through Sup.Model.accept
+ evaluation of the property monitor (Sup/Monitors.v) on every history, vm_compute.

Verdict (DESIGN 2.4):
  * monitor false on a history that went through none of the known check-then-act windows -> VIOLATION (replay = scenario + schedule)
  * monitor false on a history that went through a window listed in known_findings.json for this property -> KNOWN-FINDING
  * model rejects a history (correspondence corr_Sup broken), monitors fine -> VIOLATION ... no-failing-input-found
"""
import json, os, re
import vcheck as V

WINDOWS = ["zombie", "sdlag", "commit", "late", "sdspawn", "dup", "stale"]   # most significant bit first
# per-name attribution (Check.mon_run_wn) has one more bit in front: a stop execution on an instance that had ended
WINDOWS_NARROW = ["stalestop"] + WINDOWS
WINDOW_FINDING = {"stalestop": "F54", "commit": "F20/F21", "late": "F26", "sdspawn": "F22", "dup": "F25", "stale": "F32", "sdlag": "F37", "zombie": "F38"}


# C05 (an unsatisfied dependency => never launched) is the negative side of C01: the C01 monitor decides on its
# own, from the dependency's observed end and exit code, whether a launch was justified.
# C03x (Sup/Check.v): shutdown completeness judged by the observer's own facts instead of the reported snapshot
EXTRA_MONITORS = {"C05": ["C01"], "C03": ["C03x"]}


def win_names(code, names=WINDOWS):
    return [names[k] for k in range(len(names)) if code & (1 << (len(names) - 1 - k))]


def run(ctx, pid, kinds, n_quick, n_thorough, polite=60, extra_assumptions=()):
    ok, log = V.build_coq()
    if not ok:
        ctx.broken_build("coq-build", log)
        ctx.write_evidence("proof", {"obligations": 0, "discharged": 0, "checker_cmd": "make -C coq",
                                     "trusted_base": V.TRUSTED_COMMON, "evaluations": 0}, [])
        return
    rep = V.props_report(pid)
    if not rep["ok"]:
        ctx.broken_build("Props/%s.v does not compile" % pid, rep["log"])
    ok, binp, log = V.build_harness("sup")
    results, stats = [], {}
    rejected, bad, wcodes, badw = [], [], [], {}
    outside_thm = []
    if not ok:
        ctx.broken_build("harness-build(-tags verif) against current /repo tree (a missing trace point hook shows up here)", log)
    else:
        n = n_quick if ctx.tier == "quick" else n_thorough
        shards = 1 if ctx.tier == "quick" else 8
        per = (n + shards - 1) // shards
        for sh in range(shards):
            d = ctx.rundir / ("s%d" % sh)
            d.mkdir()
            args = [str(binp), "-out", str(d), "-seed", str(ctx.seed * 1000 + sh + 37 * int(pid[1:])), "-n", str(per),
                    "-kinds", kinds, "-polite", str(polite)]
            if sh == 0:
                args += ["-corpus", str(V.VERIF / "corpus" / "SUP")]
            if ctx.replay:
                rp = json.load(open(ctx.replay))
                cf = d / "replay.json"
                cf.write_text(json.dumps(rp.get("scenarios", [rp.get("scenario")])))
                args = [str(binp), "-out", str(d), "-replay", str(cf)]
            rc, out = V.sh(args, timeout=1200)
            if rc != 0:
                ctx.broken_build("harness-run", out)
                continue
            st = json.loads(out.strip().splitlines()[-1])
            for k, v in st.items():
                stats[k] = stats.get(k, 0) + v
            rc, res, raw = V.coq_eval(d / "cases_SUP.v", timeout=2400)
            key = "r_bad_" + pid
            if rc != 0 or "r_rejected" not in res or key not in res or "r_windows" not in res:
                ctx.broken_build("coq-eval of recorded histories", raw)
                continue
            base = len(results)
            results += json.load(open(d / "cases_SUP.json"))
            rejected += [base + i for i in res["r_rejected"]]
            bad += [base + i for i in res[key]]
            for i, w in zip(res[key], res.get("r_badw_" + pid, [])):
                badw[base + i] = w
            for extra in EXTRA_MONITORS.get(pid, []):
                # a history that violates the companion monitor is a violation of this property as well
                for i, w in zip(res.get("r_bad_" + extra, []), res.get("r_badw_" + extra, [])):
                    if base + i not in badw:
                        bad.append(base + i)
                        badw[base + i] = w
            wcodes += res["r_windows"]
            if "r_thm_" + pid in res:
                outside_thm += [base + i for i in res["r_thm_" + pid]]
            if ctx.replay:
                break
    # ---- classify
    crashed = [i for i, r in enumerate(results) if r.get("crashed")]
    unexplained, explained = [], {}
    for i in bad:
        # only windows the history went through BEFORE the violating event can explain the violation
        wn = win_names(badw[i], WINDOWS_NARROW) if i in badw else (win_names(wcodes[i]) if i < len(wcodes) else [])
        hit = [w for w in wn if ctx.is_known("window:" + w)]
        if hit:
            explained.setdefault(hit[0], []).append(i)
        else:
            unexplained.append(i)

    def replay_obj(i):
        r = results[i]
        sc = dict(r["scenario"], choices=r.get("choices", []))
        # the complete recorded history goes into the replay file: `build/bin/sup -project <replay> -out <dir>` re-projects
        # it to cases_SUP.v, so the exact history can be re-evaluated even when a re-run schedules differently
        return {"scenario": sc, "scenarios": [sc], "windows": win_names(wcodes[i]) if i < len(wcodes) else [],
                "histories": [r], "n_events": len(r.get("events") or [])}

    if unexplained:
        i = unexplained[0]
        ctx.violation(dict(replay_obj(i), failing_histories=unexplained[:50], monitor="holds_%s (coq/theories/Sup/Monitors.v)" % pid),
                      "%s monitor is false on %d recorded histories that went through none of the listed windows; first: scenario kind=%s calls=%s"
                      % (pid, len(unexplained), results[i]["scenario"]["kind"], results[i]["scenario"]["calls"]))
    for w, idxs in explained.items():
        ctx.known_or_violation("window:" + w, replay_obj(idxs[0]),
                               "%s monitor false in the %s window (%s) on %d histories" % (pid, w, WINDOW_FINDING[w], len(idxs)))
    for i in crashed:
        msg = results[i]["crashed"]
        key = "crash:" + ("nil-command-stop" if "stopProcess" in msg and "nil pointer" in msg else "other")
        if results[i]["scenario"].get("polite") or not ctx.is_known(key):
            ctx.violation(dict(replay_obj(i), crash=msg[:3000]), "the supervisor crashed under scenario kind=%s: %s"
                          % (results[i]["scenario"]["kind"], msg[:200]))
        else:
            ctx.known_or_violation(key, replay_obj(i), "supervisor crash: " + msg[:120])
    # ---- liveness at quiescence (C03: a shutdown call never returns; C04: Run() / an instance waits for ever
    #      although no command is alive).  Decided by the scheduler: nothing enabled, something unfinished.
    hangs = []
    if pid in ("C03", "C04"):
        for i, r in enumerate(results):
            if not r.get("quiescent") or r.get("alive_at_end"):
                continue
            bi, bt = r.get("blocked_insts") or [], r.get("blocked_threads") or []
            calls = r["scenario"]["calls"]
            sd_blocked = [c for c in bt if c < len(calls) and calls[c]["op"] == "shutdown"]
            if (pid == "C04" and (bi or bt)) or (pid == "C03" and sd_blocked):
                hangs.append(i)
    hang_unexpl = []
    for i in hangs:
        wn = win_names(wcodes[i]) if i < len(wcodes) else []
        hit = [w for w in wn if ctx.is_known("window:" + w)]
        if hit:
            explained.setdefault(hit[0], []).append(i)
            ctx.known_or_violation("window:" + hit[0], replay_obj(i), "%s: blocked for ever at quiescence in the %s window" % (pid, hit[0]))
        else:
            hang_unexpl.append(i)
    if hang_unexpl:
        i = hang_unexpl[0]
        r = results[i]
        ctx.violation(dict(replay_obj(i), blocked_instances=[r["inst_names"].get(str(k), k) for k in (r.get("blocked_insts") or [])],
                           blocked_calls=[r["scenario"]["calls"][c] for c in (r.get("blocked_threads") or []) if c < len(r["scenario"]["calls"])],
                           hanging_histories=hang_unexpl[:50]),
                      "%s: at quiescence (nothing enabled, no command alive) %d histories have unfinished instances / calls: %s never returns or an instance waits for ever"
                      % (pid, len(hang_unexpl), "a shutdown call" if pid == "C03" else "Run()"))
    # ---- C02, timing clause: a back-off wait ended "elapsed" while the harness held its timer at one hour
    early = [i for i, r in enumerate(results) if r.get("early_backoff")] if pid == "C02" else []
    if early:
        i = early[0]
        r = results[i]
        ctx.violation(dict(replay_obj(i), early_backoff_instances=[r["inst_names"].get(str(k), k) for k in r["early_backoff"]],
                           histories=early[:50]),
                      "C02: on %d histories a process was relaunched although its back-off had not elapsed (the harness gives a held "
                      "back-off a one-hour timer through the back-off seam; the wait still ended by 'elapsed'); first: scenario kind=%s"
                      % (len(early), r["scenario"]["kind"]))
    if rejected and not unexplained and not hang_unexpl and not early:
        i = rejected[0]
        ctx.violation(dict(replay_obj(i), rejected_histories=rejected[:50], correspondence="corr_Sup (Sup.Model.accept on the recorded history)",
                           theorems_resting_on_it=rep["theorems"]),
                      "implementation left the Sup model on %d histories (correspondence corr_Sup broken) but the %s monitor found no failing history outside the known windows"
                      % (len(rejected), pid), no_input=True)
    # ---- evidence
    nontriv = [r for r in results if len(r.get("events") or []) >= 30]
    distinct = len({json.dumps(r["scenario"]["procs"], sort_keys=True) + json.dumps(r.get("choices")) for r in nontriv})
    sample = []
    for r in results[:400]:
        if r.get("events") and len(r["events"]) < 160 and r["scenario"]["kind"] not in ("", None) and not r["scenario"].get("note"):
            sample = [{"scenario": r["scenario"], "schedule": r["choices"][:40],
                       "history_head": [[e["th"], e["label"], e["inst"], e.get("args")] for e in r["events"][:40]]}]
            break
    win_hist = {}
    for c in wcodes:
        for w in win_names(c):
            win_hist[w] = win_hist.get(w, 0) + 1
    cov = V.proof_coverage(rep, {
        "evaluations": len(results),
        "distinct_nontrivial": distinct,
        "rule": "scenario = random project (1-4 processes, the five dependency conditions, policies, exit_on_*, probes, ready lines, start failures, bad dirs) + scripted command behaviour + API calls; "
                "schedule = seeded random walk of the controlled scheduler (adversarial) or polite (stays out of the known windows); corpus of past failures first; "
                "non-trivial = history of >= 30 trace events; distinct by (project, schedule)",
        "traces_validated_against_impl": len(results) - len(rejected) - len(crashed),
        "histories_rejected_by_model": len(rejected),
        "monitor_failures": len(bad), "monitor_failures_outside_windows": len(unexplained),
        "early_backoff_histories": len(early),
        "quiescent_histories": sum(1 for r in results if r.get("quiescent")), "hangs_at_quiescence": len(hangs),
        "histories_through_known_windows": win_hist,
        "histories_outside_the_main_theorems_side_conditions": len(outside_thm) if pid in ("C12",) else "not evaluated",
        "harness_stats": stats,
        "exhaustive": False,
        "samples": sample or [{"note": "no short history in this run"}],
    })
    cov.update(getattr(ctx, "extra_cov", {}))
    cov["trusted_base"] += [
        "controlled scheduler (harness/sched): one SUT goroutine runs at a time between trace points; quiescence decided from runtime.Stack",
        "reduction assumption: the code between two consecutive trace points of a thread is atomic w.r.t. other threads (DESIGN 2.3); Go's mutex/cond/channel/context semantics",
        "fake commander (harness/fakecmd) in place of OS processes; trace-point hooks in /repo/src/app (build tag verif)"]
    ctx.write_evidence("proof", cov, list(extra_assumptions) + [
        "daemon / tty / elevated / foreground processes and shutdown commands/timeouts are outside the Sup model (C06 covers the stop procedure)",
        "known check-then-act windows are listed in known_findings.json; a monitor failure inside a listed window is reported as KNOWN-FINDING, outside as VIOLATION"])
