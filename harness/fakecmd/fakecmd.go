// Package fakecmd provides a scripted command.Commander that is installed through the verif commander
// seam (app.VerifHooks.Commander): no OS process exists; launch, output, exit code and the reaction to
// stop signals are controlled and observed by the harness.
package fakecmd

import (
	"errors"
	"io"
	"sync"
	"sync/atomic"

	"github.com/f1bonacc1/process-compose/src/app"
	"github.com/f1bonacc1/process-compose/src/command"
)

type Signal struct {
	Sig        int
	ParentOnly bool
	Seq        int64
}

// Cmd is one launch attempt of one process instance.
type Cmd struct {
	F          *Factory
	Proc       *app.Process
	Name       string
	Executable string
	Args       []string
	Env        []string
	Dir        string
	Seq        int64 // global launch sequence number
	pid        int

	mu       sync.Mutex
	started  bool
	exited   bool
	code     int
	signals  []Signal
	exitCh   chan struct{}
	outR     *io.PipeReader
	outW     *io.PipeWriter
	errR     *io.PipeReader
	errW     *io.PipeWriter
	StartErr error // set by OnNew to make Start() fail
}

// Factory creates commands and keeps every command ever created.
type Factory struct {
	mu   sync.Mutex
	Cmds []*Cmd
	seq  atomic.Int64
	// OnNew is called when the supervisor asks for a commander (before SetEnv/SetDir/Start).
	OnNew func(c *Cmd)
	// OnStart is called inside Start() after the command is marked started (not when StartErr != nil).
	OnStart func(c *Cmd)
	// OnStop is called for every Stop(sig, parentOnly); the default reaction (nil) is to exit with -1.
	OnStop func(c *Cmd, sig int, parentOnly bool)
	// StopErr, when set, decides the error that Stop returns (after OnStop / the default reaction ran); nil = no error.
	// A command whose Stop "fails" is typically left alive by OnStop (e.g. EPERM on a process of another user).
	StopErr func(c *Cmd, sig int, parentOnly bool) error
	// Event receives "launch"(ok), "wait_enter", "wait_return", "exit_code"(code), "signal"(sig,parentOnly).
	Event func(c *Cmd, label string, args ...interface{})
}

func NewFactory() *Factory { return &Factory{} }

func (f *Factory) Install() {
	app.SetVerifHooks(&app.VerifHooks{Commander: f.New})
}

func (f *Factory) event(c *Cmd, label string, args ...interface{}) {
	if f.Event != nil {
		f.Event(c, label, args...)
	}
}

func (f *Factory) New(p *app.Process) commander {
	c := &Cmd{F: f, Proc: p, Name: p.VerifName(), Executable: p.VerifExecutable(),
		Args: append([]string{}, p.VerifArgs()...), exitCh: make(chan struct{})}
	c.Seq = f.seq.Add(1)
	c.pid = 100000 + int(c.Seq)
	c.outR, c.outW = io.Pipe()
	c.errR, c.errW = io.Pipe()
	f.mu.Lock()
	f.Cmds = append(f.Cmds, c)
	f.mu.Unlock()
	if f.OnNew != nil {
		f.OnNew(c)
	}
	return c
}

// All returns a snapshot of every command created so far.
func (f *Factory) All() []*Cmd {
	f.mu.Lock()
	defer f.mu.Unlock()
	return append([]*Cmd{}, f.Cmds...)
}

// ByName returns the commands launched for a replica name, in launch order.
func (f *Factory) ByName(name string) []*Cmd {
	var r []*Cmd
	for _, c := range f.All() {
		if c.Name == name {
			r = append(r, c)
		}
	}
	return r
}

// ---- harness side ----

// WriteOut / WriteErr write raw bytes to the command's stdout / stderr (blocks until consumed).
func (c *Cmd) WriteOut(b []byte) { _, _ = c.outW.Write(b) }
func (c *Cmd) WriteErr(b []byte) { _, _ = c.errW.Write(b) }

// Exit ends the command with the given exit code (closing its output streams first, as the kernel does).
func (c *Cmd) Exit(code int) {
	c.mu.Lock()
	if c.exited || !c.started {
		c.mu.Unlock()
		return
	}
	c.exited = true
	c.code = code
	c.mu.Unlock()
	_ = c.outW.Close()
	_ = c.errW.Close()
	close(c.exitCh)
}

func (c *Cmd) Alive() bool {
	c.mu.Lock()
	defer c.mu.Unlock()
	return c.started && !c.exited
}
func (c *Cmd) WasStarted() bool {
	c.mu.Lock()
	defer c.mu.Unlock()
	return c.started
}
func (c *Cmd) Signals() []Signal {
	c.mu.Lock()
	defer c.mu.Unlock()
	return append([]Signal{}, c.signals...)
}
func (c *Cmd) Code() int {
	c.mu.Lock()
	defer c.mu.Unlock()
	return c.code
}

// ---- command.Commander ----

type commander = command.Commander

func (c *Cmd) Stop(sig int, parentOnly bool) error {
	c.mu.Lock()
	c.signals = append(c.signals, Signal{Sig: sig, ParentOnly: parentOnly, Seq: c.F.seq.Add(1)})
	c.mu.Unlock()
	c.F.event(c, "signal", sig, parentOnly)
	if c.F.OnStop != nil {
		c.F.OnStop(c, sig, parentOnly)
	} else {
		c.Exit(-1)
	}
	if c.F.StopErr != nil {
		return c.F.StopErr(c, sig, parentOnly)
	}
	return nil
}
func (c *Cmd) SetCmdArgs() {}
func (c *Cmd) Start() error {
	if c.StartErr != nil {
		c.F.event(c, "launch", false)
		return c.StartErr
	}
	c.mu.Lock()
	c.started = true
	c.mu.Unlock()
	c.F.event(c, "launch", true)
	if c.F.OnStart != nil {
		c.F.OnStart(c)
	}
	return nil
}
func (c *Cmd) Run() error {
	if err := c.Start(); err != nil {
		return err
	}
	return c.Wait()
}
func (c *Cmd) Wait() error {
	c.F.event(c, "wait_enter")
	<-c.exitCh
	c.F.event(c, "wait_return", c.Code())
	if c.Code() != 0 {
		return errors.New("exit status")
	}
	return nil
}
func (c *Cmd) ExitCode() int {
	c.F.event(c, "exit_code", c.Code())
	return c.Code()
}
func (c *Cmd) Pid() int                           { return c.pid }
func (c *Cmd) StdoutPipe() (io.ReadCloser, error) { return c.outR, nil }
func (c *Cmd) StderrPipe() (io.ReadCloser, error) { return c.errR, nil }
func (c *Cmd) StdinPipe() (io.WriteCloser, error) { return nopWC{}, nil }
func (c *Cmd) AttachIo()                          {}
func (c *Cmd) SetEnv(env []string)                { c.Env = append([]string{}, env...) }
func (c *Cmd) SetDir(dir string)                  { c.Dir = dir }
func (c *Cmd) Output() ([]byte, error)            { return nil, nil }

type nopWC struct{}

func (nopWC) Write(p []byte) (int, error) { return len(p), nil }
func (nopWC) Close() error                { return nil }
