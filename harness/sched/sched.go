// Package sched is the controlled scheduler of the supervisor harness (DESIGN 2.3).
//
// Every trace point (TP) of a verif-tagged build of process-compose ends up in Sched.Point: the event is
// appended to one global log and, for labels in the parking set, the calling goroutine is parked until the
// scheduler releases it.  The scheduler lets one SUT goroutine run at a time: after each action it waits
// for quiescence (every other goroutine is parked at a TP or blocked in a Go synchronisation primitive,
// decided by parsing runtime.Stack(all)) and then chooses the next action.
package sched

import (
	"bytes"
	"fmt"
	"runtime"
	"strconv"
	"strings"
	"sync"
	"time"

	"github.com/f1bonacc1/process-compose/src/app"
	"pcverif/fakecmd"
)

type Event struct {
	Seq   int           `json:"seq"`
	Th    int           `json:"th"`    // small thread number
	Label string        `json:"label"` // TP label
	Inst  int           `json:"inst"`  // instance the event is about (0 = none)
	Own   bool          `json:"own"`   // the calling thread is the goroutine of instance Inst
	Args  []interface{} `json:"args"`  // normalised: bool, int, string, []int
}

type parked struct {
	ch    chan struct{}
	label string
	inst  int
	seq   int
}

type Sched struct {
	mu       sync.Mutex
	Events   []Event
	threads  map[int64]int        // goroutine id -> thread number
	thInst   map[int]int          // thread number -> instance whose goroutine it is
	insts    map[*app.Process]int // process object -> instance id
	InstName map[int]string
	InstProc map[int]*app.Process
	parkedT  map[int]*parked
	parkSet  map[string]bool
	expectTP map[int]bool   // thread released into a timed wait: treat as running until its next TP
	Hold     map[int]bool   // instance -> the next back-off wait is held (1h) instead of elapsing
	lastBack map[int]int    // instance -> seconds of the last getBackoff() call
	stage    map[int]string // thread -> "stop" (inside stopProcess) | "spawnloop" (inside Run's spawn loop) | ""
	lastTrue map[int]bool   // thread -> first argument of its last TP was the boolean true
	sdThread map[int]bool   // thread -> inside ShutDownProject between shutdown_begin and shutdown_end
	inFlight int            // API calls begun and not returned (Run counts until run_spawned)
	Free     bool           // free-running mode: nothing parks
	selfG    int64
	F        *fakecmd.Factory
	Warnings []string
	// instances whose back-off wait ended by "elapsed" while the harness was holding its timer at one hour
	EarlyBackoff []int
	nextTh       int
	nextInst     int
	MaxWaitMs    int
}

var ParkLabels = []string{"spawn", "inst_begin", "dep_wait", "dep_done", "run_checked", "started", "wait_return", "restart_decision",
	"backoff_wait", "backoff_elapsed", "backoff_cancelled", "proc_end", "proc_ended", "skip", "run_returned",
	"inst_done", "inst_exit", "stop_enter", "stop_running", "stop_pending", "stop_return", "start_checked",
	"stop_checked", "restart_checked", "restart_stopped", "shutdown_call", "shutdown_begin", "shutdown_end",
	"shutdown_unlocked", "lookup_mid", "ordered_go", "exit_trigger", "exit_code_set", "run_spawned", "run_return", "api_begin", "api_return"}

func New() *Sched {
	s := &Sched{threads: map[int64]int{}, thInst: map[int]int{}, insts: map[*app.Process]int{},
		InstName: map[int]string{}, InstProc: map[int]*app.Process{}, parkedT: map[int]*parked{},
		parkSet: map[string]bool{}, expectTP: map[int]bool{}, Hold: map[int]bool{}, lastBack: map[int]int{}, stage: map[int]string{}, sdThread: map[int]bool{}, lastTrue: map[int]bool{}, MaxWaitMs: 4000}
	for _, l := range ParkLabels {
		s.parkSet[l] = true
	}
	s.selfG = goid()
	s.F = fakecmd.NewFactory()
	s.F.Event = func(c *fakecmd.Cmd, label string, args ...interface{}) { s.Point(c.Proc, nil, label, args) }
	app.SetVerifHooks(&app.VerifHooks{Commander: s.F.New, Point: s.Point, Backoff: s.backoff})
	return s
}

func goid() int64 {
	var buf [64]byte
	n := runtime.Stack(buf[:], false)
	// "goroutine 123 [running]:"
	f := bytes.Fields(buf[:n])
	id, _ := strconv.ParseInt(string(f[1]), 10, 64)
	return id
}

func (s *Sched) backoff(p *app.Process, seconds int) (time.Duration, bool) {
	s.mu.Lock()
	defer s.mu.Unlock()
	if i, ok := s.insts[p]; ok {
		s.lastBack[i] = seconds
		if s.Hold[i] {
			return time.Hour, true
		}
	}
	return 20 * time.Microsecond, true
}

func (s *Sched) thread(g int64) int {
	th, ok := s.threads[g]
	if !ok {
		s.nextTh++
		th = s.nextTh
		s.threads[g] = th
	}
	return th
}

// Point is the TP sink installed into the supervisor.
func (s *Sched) Point(p *app.Process, _ *app.ProjectRunner, label string, args []interface{}) {
	g := goid()
	s.mu.Lock()
	th := s.thread(g)
	inst := 0
	if p != nil {
		var ok bool
		inst, ok = s.insts[p]
		if !ok {
			s.nextInst++
			inst = s.nextInst
			s.insts[p] = inst
			s.InstName[inst] = p.VerifName()
			s.InstProc[inst] = p
			s.Events = append(s.Events, Event{Seq: len(s.Events), Th: th, Label: "new_inst", Inst: inst})
		}
	}
	if label == "inst_begin" {
		s.thInst[th] = inst
	}
	own := false
	if ti, ok := s.thInst[th]; ok {
		if inst == 0 {
			inst = ti
			own = true
		} else if inst == ti {
			own = true
		}
	}
	norm := make([]interface{}, 0, len(args))
	for _, a := range args {
		switch v := a.(type) {
		case *app.Process:
			if v == nil {
				norm = append(norm, 0)
			} else if i, ok := s.insts[v]; ok {
				norm = append(norm, i)
			} else {
				norm = append(norm, -1)
			}
		case nil:
			norm = append(norm, 0)
		case []string:
			norm = append(norm, append([]string{}, v...))
		case []*app.Process:
			l := make([]int, 0, len(v))
			for _, q := range v {
				l = append(l, s.insts[q])
			}
			norm = append(norm, l)
		default:
			norm = append(norm, v)
		}
	}
	if label == "backoff_wait" {
		norm = append(norm, s.lastBack[inst])
	}
	if label == "backoff_elapsed" && s.Hold[inst] {
		// the harness gave this back-off a one-hour timer (seam verifBackoff) and the scenario lasts seconds: the wait
		// ended although neither the timer can have fired nor a stop cancelled it - a relaunch sooner than the back-off
		s.EarlyBackoff = append(s.EarlyBackoff, inst)
	}
	if label == "backoff_cancelled" || label == "backoff_elapsed" {
		delete(s.Hold, inst)
	}
	switch label {
	case "stop_enter":
		s.stage[th] = "stop"
	case "stop_return":
		if s.sdThread[th] {
			s.stage[th] = "shutdown"
		} else {
			delete(s.stage, th)
		}
	case "shutdown_begin":
		s.sdThread[th] = true
		s.stage[th] = "shutdown"
	case "shutdown_end":
		delete(s.sdThread, th)
		delete(s.stage, th)
	case "api_begin_np":
		if len(norm) > 1 && norm[1] == "run" {
			s.stage[th] = "spawnloop"
			s.inFlight++
		}
	case "run_spawned":
		delete(s.stage, th)
		s.inFlight--
	case "api_begin":
		s.inFlight++
	case "api_return":
		if len(norm) > 0 {
			if id, ok := norm[0].(int); !ok || id != 0 {
				s.inFlight--
			}
		}
	}
	s.lastTrue[th] = len(norm) > 0 && norm[0] == true
	delete(s.expectTP, th)
	ev := Event{Seq: len(s.Events), Th: th, Label: label, Inst: inst, Own: own, Args: norm}
	s.Events = append(s.Events, ev)
	if s.Free || !s.parkSet[label] || g == s.selfG {
		s.mu.Unlock()
		return
	}
	pk := &parked{ch: make(chan struct{}), label: label, inst: inst, seq: ev.Seq}
	s.parkedT[th] = pk
	s.mu.Unlock()
	<-pk.ch
}

// Log appends a harness-side (environment) event from the scheduler goroutine.
func (s *Sched) Log(label string, inst int, args ...interface{}) {
	s.mu.Lock()
	s.Events = append(s.Events, Event{Seq: len(s.Events), Th: 0, Label: label, Inst: inst, Args: args})
	s.mu.Unlock()
}

// Parked returns the currently parked threads (thread number -> label, instance).
type ParkedInfo struct {
	Th    int
	Label string
	Inst  int
}

func (s *Sched) Parked() []ParkedInfo {
	s.mu.Lock()
	defer s.mu.Unlock()
	r := make([]ParkedInfo, 0, len(s.parkedT))
	for th, p := range s.parkedT {
		r = append(r, ParkedInfo{th, p.label, p.inst})
	}
	// deterministic order
	for i := 1; i < len(r); i++ {
		for j := i; j > 0 && r[j].Th < r[j-1].Th; j-- {
			r[j], r[j-1] = r[j-1], r[j]
		}
	}
	return r
}

// Release lets a parked thread run (up to its next parking TP or blocking operation).
func (s *Sched) Release(th int, timed bool) {
	s.mu.Lock()
	p := s.parkedT[th]
	delete(s.parkedT, th)
	if timed {
		s.expectTP[th] = true
	}
	if p != nil {
		s.Events = append(s.Events, Event{Seq: len(s.Events), Th: th, Label: "resume", Inst: p.inst})
	}
	s.mu.Unlock()
	if p != nil {
		close(p.ch)
	}
}

// ReleaseAll releases every parked thread and switches to free-running mode (used at scenario teardown).
func (s *Sched) ReleaseAll() {
	s.mu.Lock()
	s.Free = true
	ps := s.parkedT
	s.parkedT = map[int]*parked{}
	s.mu.Unlock()
	for _, p := range ps {
		close(p.ch)
	}
}

var blockedStates = map[string]bool{
	"chan receive": true, "chan send": true, "select": true, "sync.Cond.Wait": true, "sync.Mutex.Lock": true,
	"sync.RWMutex.Lock": true, "sync.RWMutex.RLock": true, "semacquire": true, "sync.WaitGroup.Wait": true,
	"chan receive (nil chan)": true, "chan send (nil chan)": true, "select (no cases)": true, "IO wait": true,
	"finalizer wait": true, "GC worker (idle)": true, "GC sweep wait": true, "GC scavenge wait": true,
	"force gc (idle)": true, "debug call": false,
}

// quiescentOnce inspects all goroutines once.
func (s *Sched) quiescentOnce(buf []byte) (bool, string) {
	n := runtime.Stack(buf, true)
	for n == len(buf) {
		buf = make([]byte, 2*len(buf))
		n = runtime.Stack(buf, true)
	}
	s.mu.Lock()
	nexp := len(s.expectTP)
	s.mu.Unlock()
	if nexp > 0 {
		return false, "thread in timed wait"
	}
	blocks := strings.Split(string(buf[:n]), "\n\n")
	for _, b := range blocks {
		if !strings.HasPrefix(b, "goroutine ") {
			continue
		}
		nl := strings.IndexByte(b, '\n')
		head := b
		if nl >= 0 {
			head = b[:nl]
		}
		// goroutine 12 [chan receive, 2 minutes]:
		sp := strings.IndexByte(head[10:], ' ')
		id, _ := strconv.ParseInt(head[10:10+sp], 10, 64)
		if id == s.selfG {
			continue
		}
		lb := strings.IndexByte(head, '[')
		rb := strings.LastIndexByte(head, ']')
		if lb < 0 || rb < lb {
			continue
		}
		st := head[lb+1 : rb]
		if c := strings.IndexByte(st, ','); c >= 0 {
			st = st[:c]
		}
		if blockedStates[st] {
			continue
		}
		if st == "sleep" && strings.Contains(b, "health.(*Prober).Start") {
			continue // initial delay of a (never firing) real prober
		}
		return false, st
	}
	return true, ""
}

// WaitQuiescent blocks until every SUT goroutine is parked or blocked.
func (s *Sched) WaitQuiescent() bool {
	buf := make([]byte, 1<<18)
	deadline := time.Now().Add(time.Duration(s.MaxWaitMs) * time.Millisecond)
	stable := 0
	for {
		ok, why := s.quiescentOnce(buf)
		if ok {
			stable++
			if stable >= 2 {
				return true
			}
			runtime.Gosched()
			continue
		}
		stable = 0
		if time.Now().After(deadline) {
			s.mu.Lock()
			s.Warnings = append(s.Warnings, fmt.Sprintf("no quiescence after %d ms (%s) at event %d", s.MaxWaitMs, why, len(s.Events)))
			s.mu.Unlock()
			return false
		}
		runtime.Gosched()
		time.Sleep(20 * time.Microsecond)
	}
}

// Go runs f as an API-call thread; "api_begin"/"api_return" events bracket it.
func (s *Sched) Go(callID int, op string, name string, f func() string) {
	go func() {
		s.Point(nil, nil, "api_begin", []interface{}{callID, op, name})
		res := f()
		s.Point(nil, nil, "api_return", []interface{}{callID, res})
	}()
}

func (s *Sched) Snapshot() []Event {
	s.mu.Lock()
	defer s.mu.Unlock()
	return append([]Event{}, s.Events...)
}

func (s *Sched) SetHold(inst int, hold bool) {
	s.mu.Lock()
	s.Hold[inst] = hold
	s.mu.Unlock()
}

// InstOf returns the instance id of a process object (0 if it has not been seen at a TP yet).
func (s *Sched) InstOf(p *app.Process) int {
	s.mu.Lock()
	defer s.mu.Unlock()
	return s.insts[p]
}

// GoNoPark is Go without parking at api_begin (used for Run(), whose first segment creates the registries).
func (s *Sched) GoNoPark(callID int, op string, name string, f func() string) {
	go func() {
		s.Point(nil, nil, "api_begin_np", []interface{}{callID, op, name})
		res := f()
		s.Point(nil, nil, "api_return", []interface{}{callID, res})
	}()
}

func (s *Sched) ThreadStages() map[int]string {
	s.mu.Lock()
	defer s.mu.Unlock()
	r := map[int]string{}
	for k, v := range s.stage {
		r[k] = v
	}
	return r
}

func (s *Sched) LastArgTrue(th int) bool {
	s.mu.Lock()
	defer s.mu.Unlock()
	return s.lastTrue[th]
}

func (s *Sched) CallsInFlight() int {
	s.mu.Lock()
	defer s.mu.Unlock()
	return s.inFlight
}

// ShutdownActive reports whether some thread is inside ShutDownProject (between shutdown_begin and shutdown_end).
func (s *Sched) ShutdownActive() bool {
	s.mu.Lock()
	defer s.mu.Unlock()
	return len(s.sdThread) > 0
}

// SnapshotTaken: some ShutDownProject call has computed its shutdown order (shutdown_order logged).
func (s *Sched) SnapshotTaken() bool {
	s.mu.Lock()
	defer s.mu.Unlock()
	for i := len(s.Events) - 1; i >= 0; i-- {
		if s.Events[i].Label == "shutdown_order" {
			return true
		}
	}
	return false
}

// ParkAlso adds a label to the parking set.
func (s *Sched) ParkAlso(label string) {
	s.mu.Lock()
	s.parkSet[label] = true
	s.mu.Unlock()
}
