module pcverif

go 1.22.0


require (
	dario.cat/mergo v1.0.1
	github.com/InVisionApp/go-health/v2 v2.1.4
	github.com/adrg/xdg v0.5.3
	github.com/cakturk/go-netstat v0.0.0-20200220111822-e5b49efee7a5
	github.com/creack/pty v1.1.24
	github.com/f1bonacc1/glippy v0.0.0-20230614190937-e7ca07f99f6f
	github.com/fatih/color v1.18.0
	github.com/gdamore/tcell/v2 v2.7.4
	github.com/gin-gonic/gin v1.10.0
	github.com/gorilla/websocket v1.5.3
	github.com/joho/godotenv v1.5.1
	github.com/rivo/tview v0.0.0-20241103174730-c76f7879f592
	github.com/shirou/gopsutil/v4 v4.24.11
	github.com/spf13/cobra v1.8.1
	github.com/spf13/pflag v1.0.5
	github.com/swaggo/swag v1.16.4
	golang.org/x/term v0.27.0
	gopkg.in/natefinch/lumberjack.v2 v2.2.1
	gopkg.in/yaml.v2 v2.4.0
	gopkg.in/yaml.v3 v3.0.1
)

replace github.com/InVisionApp/go-health/v2 => github.com/f1bonacc1/go-health/v2 v2.1.4

replace github.com/cakturk/go-netstat => github.com/f1bonacc1/netstat v0.0.0-20230714090734-adb3fa07cab7

require (
	github.com/InVisionApp/go-logger v1.0.1 // indirect
	github.com/KyleBanks/depth v1.2.1 // indirect
	github.com/bytedance/sonic v1.12.5 // indirect
	github.com/bytedance/sonic/loader v0.2.1 // indirect
	github.com/cloudwego/base64x v0.1.4 // indirect
	github.com/cloudwego/iasm v0.2.0 // indirect
	github.com/cpuguy83/go-md2man/v2 v2.0.4 // indirect
	github.com/ebitengine/purego v0.8.1 // indirect
	github.com/gabriel-vasile/mimetype v1.4.7 // indirect
	github.com/gdamore/encoding v1.0.1 // indirect
	github.com/gin-contrib/sse v0.1.0 // indirect
	github.com/go-ole/go-ole v1.2.6 // indirect
	github.com/go-openapi/jsonpointer v0.21.0 // indirect
	github.com/go-openapi/jsonreference v0.21.0 // indirect
	github.com/go-openapi/spec v0.21.0 // indirect
	github.com/go-openapi/swag v0.23.0 // indirect
	github.com/go-playground/locales v0.14.1 // indirect
	github.com/go-playground/universal-translator v0.18.1 // indirect
	github.com/go-playground/validator/v10 v10.23.0 // indirect
	github.com/goccy/go-json v0.10.4 // indirect
	github.com/inconshreveable/mousetrap v1.1.0 // indirect
	github.com/jezek/xgb v1.1.1 // indirect
	github.com/josharian/intern v1.0.0 // indirect
	github.com/json-iterator/go v1.1.12 // indirect
	github.com/klauspost/cpuid/v2 v2.2.9 // indirect
	github.com/leodido/go-urn v1.4.0 // indirect
	github.com/lucasb-eyer/go-colorful v1.2.0 // indirect
	github.com/lufia/plan9stats v0.0.0-20211012122336-39d0f177ccd0 // indirect
	github.com/mailru/easyjson v0.9.0 // indirect
	github.com/mattn/go-runewidth v0.0.16 // indirect
	github.com/modern-go/concurrent v0.0.0-20180306012644-bacd9c7ef1dd // indirect
	github.com/modern-go/reflect2 v1.0.2 // indirect
	github.com/pelletier/go-toml/v2 v2.2.3 // indirect
	github.com/power-devops/perfstat v0.0.0-20210106213030-5aafc221ea8c // indirect
	github.com/rivo/uniseg v0.4.7 // indirect
	github.com/russross/blackfriday/v2 v2.1.0 // indirect
	github.com/tklauser/go-sysconf v0.3.12 // indirect
	github.com/tklauser/numcpus v0.6.1 // indirect
	github.com/twitchyliquid64/golang-asm v0.15.1 // indirect
	github.com/ugorji/go/codec v1.2.12 // indirect
	github.com/yusufpapurcu/wmi v1.2.4 // indirect
	golang.org/x/arch v0.12.0 // indirect
	golang.org/x/crypto v0.31.0 // indirect
	golang.org/x/net v0.33.0 // indirect
	golang.org/x/text v0.21.0 // indirect
	golang.org/x/tools v0.28.0 // indirect
	google.golang.org/protobuf v1.35.2 // indirect
)

require (
	github.com/mattn/go-colorable v0.1.13 // indirect
	github.com/mattn/go-isatty v0.0.20 // indirect
	github.com/rs/zerolog v1.33.0
	github.com/swaggo/files v1.0.1
	github.com/swaggo/gin-swagger v1.6.0
	golang.org/x/sys v0.28.0 // indirect
)

require github.com/f1bonacc1/process-compose v0.0.0

replace github.com/f1bonacc1/process-compose => /repo
