module pcverif

go 1.22.0

require github.com/f1bonacc1/process-compose v0.0.0

replace github.com/f1bonacc1/process-compose => /repo

replace github.com/InVisionApp/go-health/v2 => github.com/f1bonacc1/go-health/v2 v2.1.4

replace github.com/cakturk/go-netstat => github.com/f1bonacc1/netstat v0.0.0-20230714090734-adb3fa07cab7
