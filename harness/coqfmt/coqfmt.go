// Package coqfmt serialises Go values as Gallina terms for the generated cases_*.v files.
package coqfmt

import (
	"fmt"
	"strings"
)

func N(v uint64) string { return fmt.Sprintf("%d%%N", v) }

func Nat(v int) string { return fmt.Sprintf("%d%%nat", v) }

func Z(v int64) string {
	if v < 0 {
		return fmt.Sprintf("(%d)%%Z", v)
	}
	return fmt.Sprintf("%d%%Z", v)
}

func Bool(b bool) string {
	if b {
		return "true"
	}
	return "false"
}

func List(items []string) string {
	if len(items) == 0 {
		return "[]"
	}
	return "[" + strings.Join(items, "; ") + "]"
}

func ListN(vs []uint64) string {
	items := make([]string, len(vs))
	for i, v := range vs {
		items[i] = N(v)
	}
	return List(items)
}

func ListNat(vs []int) string {
	items := make([]string, len(vs))
	for i, v := range vs {
		items[i] = Nat(v)
	}
	return List(items)
}

func Some(s string) string { return "(Some " + s + ")" }

func OptListN(vs []uint64, ok bool) string {
	if !ok {
		return "None"
	}
	return Some(ListN(vs))
}

func Pair(a, b string) string { return "(" + a + ", " + b + ")" }

// Bytes renders a byte string as list N.
func Bytes(s string) string {
	items := make([]string, len(s))
	for i := 0; i < len(s); i++ {
		items[i] = fmt.Sprintf("%d%%N", s[i])
	}
	return List(items)
}
