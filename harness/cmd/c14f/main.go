// c14f: situations for C14 that the model-based harness (cmd/c14) does not reach because its commands never end: an
// update / removal of a process whose instance has NOT launched yet (it is Pending on a depends_on condition) or sits
// in its restart back-off.  Free running, real loader + ProjectRunner.UpdateProject, fake commands.  Oracle = the
// property text: a changed process has its old instance terminated and a new one launched with the NEW configuration
// (so the old configuration is never launched again), a removed process is terminated and never launched again.
//
//	c14f -out <dir>
package main

import (
	"encoding/json"
	"flag"
	"fmt"
	"os"
	"path/filepath"
	"strings"
	"sync"
	"time"

	"github.com/f1bonacc1/process-compose/src/app"
	"github.com/f1bonacc1/process-compose/src/loader"
	"github.com/f1bonacc1/process-compose/src/types"
	"github.com/rs/zerolog"
	"pcverif/fakecmd"
)

type Launch struct {
	Name string   `json:"name"`
	Args []string `json:"args"`
	AtMs int64    `json:"at_ms"`
}

type Case struct {
	Kind       string            `json:"kind"`
	Before     string            `json:"project_before"`
	After      string            `json:"project_after"`
	Status     map[string]string `json:"status"`
	Launches   []Launch          `json:"launches_after_update"`
	Violations []string          `json:"violations"`
	Err        string            `json:"err,omitempty"`
}

func load(dir, name, y string) (*types.Project, error) {
	f := filepath.Join(dir, name)
	if err := os.WriteFile(f, []byte(y), 0o644); err != nil {
		return nil, err
	}
	return loader.Load(&loader.LoaderOptions{FileNames: []string{f}, IsInternalLoader: true})
}

// waiting: "pending" (p waits for dep to complete) or "backoff" (p exits at once and waits 1 h to restart)
func runCase(dir string, waiting string, change string) *Case {
	c := &Case{Kind: waiting + "/" + change}
	pOld, pNew := "echo OLD", "echo NEW"
	depPart := "  dep:\n    command: \"dep\"\n"
	procP := func(cmd string) string {
		s := "  p:\n    command: \"" + cmd + "\"\n"
		if waiting == "pending" {
			s += "    depends_on:\n      dep:\n        condition: process_completed\n"
		} else {
			s += "    availability:\n      restart: always\n      backoff_seconds: 2\n"
		}
		return s
	}
	c.Before = "version: \"0.5\"\nprocesses:\n" + depPart + procP(pOld)
	switch change {
	case "update":
		c.After = "version: \"0.5\"\nprocesses:\n" + depPart + procP(pNew)
	case "remove":
		c.After = "version: \"0.5\"\nprocesses:\n" + depPart
	}
	before, err := load(dir, "before.yaml", c.Before)
	if err != nil {
		c.Err = "load before: " + err.Error()
		return c
	}
	after, err := load(dir, "after.yaml", c.After)
	if err != nil {
		c.Err = "load after: " + err.Error()
		return c
	}
	var mu sync.Mutex
	var launches []Launch
	updated := false
	t0 := time.Now()
	var depCmd *fakecmd.Cmd
	fac := fakecmd.NewFactory()
	fac.OnStart = func(cm *fakecmd.Cmd) {
		mu.Lock()
		defer mu.Unlock()
		if cm.Name == "dep" {
			depCmd = cm
			return
		}
		if updated {
			launches = append(launches, Launch{Name: cm.Name, Args: append([]string{cm.Executable}, cm.Args...), AtMs: time.Since(t0).Milliseconds()})
		}
		if waiting == "backoff" || updated {
			go cm.Exit(1) // p's command ends at once
		}
	}
	app.SetVerifHooks(&app.VerifHooks{
		Commander: fac.New,
		// the first back-off of an instance is long enough for the update to arrive inside it, later ones are short
		Backoff: func(p *app.Process, s int) (time.Duration, bool) {
			mu.Lock()
			defer mu.Unlock()
			if updated {
				return 20 * time.Millisecond, true
			}
			return 600 * time.Millisecond, true
		},
	})
	defer app.SetVerifHooks(nil)
	runner, err := app.NewProjectRunner((&app.ProjectOpts{}).WithProject(before))
	if err != nil {
		c.Err = "runner: " + err.Error()
		return c
	}
	saved := os.Stdout
	if dn, e := os.OpenFile(os.DevNull, os.O_WRONLY, 0); e == nil {
		os.Stdout = dn
		defer func() { os.Stdout = saved; dn.Close() }()
	}
	go func() { _ = runner.Run() }()
	time.Sleep(150 * time.Millisecond) // dep is up; p is Pending on it / in its first back-off
	mu.Lock()
	updated = true
	mu.Unlock()
	st, uerr := runner.UpdateProject(after)
	c.Status = st
	if uerr != nil {
		c.Err = "UpdateProject: " + uerr.Error()
	}
	time.Sleep(100 * time.Millisecond)
	mu.Lock()
	d := depCmd
	mu.Unlock()
	if waiting == "pending" && d != nil {
		d.Exit(0) // the dependency completes AFTER the update
	}
	time.Sleep(900 * time.Millisecond) // covers the old instance's 600 ms back-off
	mu.Lock()
	c.Launches = append([]Launch{}, launches...)
	mu.Unlock()
	defer func() {
		if len(c.Violations) > 3 {
			c.Violations = append(c.Violations[:3], fmt.Sprintf("... and %d more", len(c.Violations)-3))
		}
		if len(c.Launches) > 6 {
			c.Launches = c.Launches[:6] // keep the record small (restart always: one launch per 20 ms)
		}
	}()
	for _, l := range c.Launches {
		if l.Name == "p" && strings.Contains(strings.Join(l.Args, " "), "OLD") {
			c.Violations = append(c.Violations, fmt.Sprintf("the OLD configuration of p was launched %d ms after the %s (%v)", l.AtMs-150, change, l.Args))
		}
		if l.Name == "p" && change == "remove" {
			c.Violations = append(c.Violations, fmt.Sprintf("removed process p was launched after its removal (%v)", l.Args))
		}
	}
	if change == "update" && uerr == nil {
		n := 0
		for _, l := range c.Launches {
			if l.Name == "p" && strings.Contains(strings.Join(l.Args, " "), "NEW") {
				n++
			}
		}
		if n == 0 {
			c.Violations = append(c.Violations, "the NEW configuration of p was never launched although its dependency completed / its back-off is short")
		}
	}
	done := make(chan struct{})
	go func() { _ = runner.ShutDownProject(); close(done) }()
	select {
	case <-done:
	case <-time.After(3 * time.Second):
	}
	for _, cm := range fac.All() {
		cm.Exit(0)
	}
	return c
}

func main() {
	out := flag.String("out", ".", "")
	flag.Parse()
	zerolog.SetGlobalLevel(zerolog.Disabled)
	var cases []*Case
	k := 0
	for _, w := range []string{"pending", "backoff"} {
		for _, ch := range []string{"update", "remove"} {
			d := filepath.Join(*out, fmt.Sprintf("c14f-%d", k))
			_ = os.MkdirAll(d, 0o755)
			cases = append(cases, runCase(d, w, ch))
			k++
		}
	}
	bad := 0
	for _, c := range cases {
		if len(c.Violations) > 0 {
			bad++
		}
	}
	js, _ := json.Marshal(cases)
	_ = os.WriteFile(filepath.Join(*out, "cases_C14f.json"), js, 0o644)
	sj, _ := json.Marshal(map[string]int{"cases": len(cases), "violating": bad})
	fmt.Println(string(sj))
}
