// c17: correspondence harness for the environment handling (property C17).
//
//	load cases    YAML files with $NAME / ${NAME} / $$ tokens (and malformed placements) in values, commands
//	              and list items are written to a temp dir and loaded through loader.Load under a controlled
//	              process environment and .env files, expansion on/off
//	sweep cases   app.VerifNewProcess(...).VerifEnvironment() for every overlap pattern of
//	              inherited / global / per-process definitions of a key and of the two injected names
//	project cases loader-built projects (replicas, global environment, per-process environment, env_cmds with
//	              real commands) run by app.ProjectRunner.Run(); Env/Dir of every replica are captured at the
//	              commander seam (harness/fakecmd) or, for "real" projects, printed by a real `env` child
//
// Output: <out>/cases_C17.v (Gallina: what was observed), <out>/cases_C17.json (the same, for replays),
// one JSON line of statistics on stdout.
package main

import (
	"encoding/json"
	"flag"
	"fmt"
	"math"
	"math/rand"
	"os"
	"path/filepath"
	"sort"
	"strings"

	"github.com/f1bonacc1/process-compose/src/app"
	"github.com/f1bonacc1/process-compose/src/loader"
	"github.com/f1bonacc1/process-compose/src/types"
	"github.com/rs/zerolog"
	"pcverif/fakecmd"
)

// ------------------------------------------------------------------------------------------ case data

type Tok struct {
	K string `json:"k"` // text | esc | var | brace
	S string `json:"s,omitempty"`
}

type Field struct {
	Where string `json:"where"`
	Toks  []Tok  `json:"toks,omitempty"` // nil: raw (edge) scalar
	Raw   string `json:"raw"`
	Obs   string `json:"obs"`
	// map keys (where = pkey:<prefix> | eckey:<prefix>): every key of the map that starts with the prefix,
	// the one equal to Raw first, then the others sorted; Obs = these joined by " | "
	Key     bool     `json:"key,omitempty"`
	ObsKeys []string `json:"obs_keys,omitempty"`
}

type Seg struct {
	Lit string `json:"lit,omitempty"`
	F   int    `json:"f"` // index into Fields, -1 = literal text
}

type DotFile struct {
	Name    string      `json:"name"`
	Entries [][2]string `json:"entries"`
}

type CmdSpec struct {
	Key     string `json:"key"`
	Command string `json:"command"`
	OK      bool   `json:"ok"`     // the command succeeds
	Expect  string `json:"expect"` // strings.TrimSpace of its output
}

type ProcSpec struct {
	Name     string   `json:"name"`
	Replicas int      `json:"replicas"`
	Env      []string `json:"env"`
	WdRel    string   `json:"wd_rel"` // "" = no working_dir
	// environment entries given in a second project file (-f pc.yaml -f pc.override.yaml): the loader merges the two
	// lists (by key, sorted); the per-process layer of the launch is then the merged list as loaded
	Over []string `json:"over_env,omitempty"`
}

type Case struct {
	Kind string `json:"kind"` // load | sweep | project
	Gen  string `json:"gen"`  // generator / stream name
	ID   int    `json:"id"`   // input id: cases with the same id come from one execution (project)

	// ---- load input
	Disabled bool        `json:"disabled,omitempty"`
	Env      [][2]string `json:"env,omitempty"`      // extra process environment set by the harness
	DotMode  string      `json:"dot_mode,omitempty"` // none | default | files | off
	DotEnv   []DotFile   `json:"dotenv,omitempty"`
	Segs     []Seg       `json:"segs,omitempty"`
	Fields   []Field     `json:"fields,omitempty"`
	// ---- load observation
	FullEnv [][2]string `json:"full_env,omitempty"` // lookup order: process environment, then the .env files
	LoadErr string      `json:"load_err,omitempty"`

	// ---- launch input (sweep: one process; project: the whole project, this case is one replica)
	Name  string     `json:"name,omitempty"`
	Num   int        `json:"num"`
	Glob  []string   `json:"glob,omitempty"`
	Cmds  []CmdSpec  `json:"cmds,omitempty"`
	Proc  []string   `json:"proc,omitempty"`
	Wd    string     `json:"wd,omitempty"`
	Real  bool       `json:"real,omitempty"`
	Procs []ProcSpec `json:"procs,omitempty"` // project only
	// ---- launch observation
	Inh       []string `json:"inh,omitempty"` // os.Environ() at launch time
	ObsEnv    []string `json:"obs_env,omitempty"`
	ObsDir    string   `json:"obs_dir,omitempty"`
	Launches  int      `json:"launches,omitempty"`
	LaunchErr string   `json:"launch_err,omitempty"`
}

const sentinel = "##PC_ENV_ESCAPED##"

var basePath = shortPath()

// a short PATH keeps the generated case files small (every case carries the inherited environment)
func shortPath() string {
	for _, tool := range []string{"bash", "env"} {
		if _, err := os.Stat("/usr/bin/" + tool); err != nil {
			return os.Getenv("PATH")
		}
	}
	return "/usr/bin:/bin"
}

var root string // scratch directory (physical path)

func resetEnv(extra [][2]string) {
	os.Clearenv()
	os.Setenv("PATH", basePath)
	for _, kv := range extra {
		os.Setenv(kv[0], kv[1])
	}
}

// ------------------------------------------------------------------------------------------ Gallina

func coqStr(s string) string {
	plain := true
	for i := 0; i < len(s); i++ {
		c := s[i]
		if (c < 32 && c != '\n') || c > 126 {
			plain = false
			break
		}
	}
	if plain {
		return "(b \"" + strings.ReplaceAll(s, "\"", "\"\"") + "\"%string)"
	}
	items := make([]string, len(s))
	for i := 0; i < len(s); i++ {
		items[i] = fmt.Sprintf("%d%%N", s[i])
	}
	return "[" + strings.Join(items, "; ") + "]"
}

func coqList(items []string) string {
	if len(items) == 0 {
		return "[]"
	}
	return "[" + strings.Join(items, ";\n    ") + "]"
}

func coqStrs(ss []string) string {
	items := make([]string, len(ss))
	for i, s := range ss {
		items[i] = coqStr(s)
	}
	return coqList(items)
}

func coqPairs(ps [][2]string) string {
	items := make([]string, len(ps))
	for i, p := range ps {
		items[i] = "(" + coqStr(p[0]) + ", " + coqStr(p[1]) + ")"
	}
	return coqList(items)
}

func coqBool(v bool) string {
	if v {
		return "true"
	}
	return "false"
}

func coqToks(ts []Tok) string {
	items := make([]string, len(ts))
	for i, t := range ts {
		switch t.K {
		case "text":
			items[i] = "TText " + coqStr(t.S)
		case "esc":
			items[i] = "TEsc"
		case "var":
			items[i] = "TVar " + coqStr(t.S)
		default:
			items[i] = "TBrace " + coqStr(t.S)
		}
	}
	return coqList(items)
}

func (c *Case) fileText() string {
	var sb strings.Builder
	for _, s := range c.Segs {
		if s.F < 0 {
			sb.WriteString(s.Lit)
		} else {
			sb.WriteString(c.Fields[s.F].Raw)
		}
	}
	return sb.String()
}

func (c *Case) cmdPairs() [][2]string {
	var ps [][2]string
	for _, cs := range c.Cmds {
		if cs.OK {
			ps = append(ps, [2]string{cs.Key, cs.Expect})
		}
	}
	sort.Slice(ps, func(i, j int) bool { return ps[i][0] < ps[j][0] })
	return ps
}

func (c *Case) coq() string {
	if c.Kind == "load" {
		var segs []string
		for _, sg := range c.Segs {
			switch {
			case sg.F < 0:
				segs = append(segs, "SLit "+coqStr(sg.Lit))
			case c.Fields[sg.F].Key:
				segs = append(segs, "SKey "+coqToks(c.Fields[sg.F].Toks)+" "+coqStrs(c.Fields[sg.F].ObsKeys))
			case c.Fields[sg.F].Toks != nil:
				segs = append(segs, "STok "+coqToks(c.Fields[sg.F].Toks)+" "+coqStr(c.Fields[sg.F].Obs))
			default:
				segs = append(segs, "SRaw "+coqStr(c.Fields[sg.F].Raw)+" "+coqStr(c.Fields[sg.F].Obs))
			}
		}
		return fmt.Sprintf("CLoad %s\n   %s\n   %s %s", coqBool(c.Disabled), coqPairs(c.FullEnv),
			coqList(segs), coqBool(c.LoadErr != ""))
	}
	num := c.Num
	if num < 0 {
		num = 0
	}
	return fmt.Sprintf("CLaunch %s %d%%N\n   %s\n   %s\n   %s\n   %s\n   %s %s\n   %s\n   %s",
		coqStr(c.Name), num, coqStrs(c.Inh), coqStrs(c.Glob), coqPairs(c.cmdPairs()), coqStrs(c.Proc),
		coqStr(c.Wd), coqBool(c.Real), coqStrs(c.ObsEnv), coqStr(c.ObsDir))
}

// ------------------------------------------------------------------------------------------ load cases

const identFirst = "ABCXYZabcxyz_"
const identRest = "ABCXYZabcxyz_0123456789"

// characters of plain text / of values: everything printable except the single quote (all generated
// scalars are single-quoted YAML scalars), '$' (text only) and '{' (templated fields: "{{" starts an action)
const textChars = "abcXYZ 019-_./:,;=+*#@!?%^&()[]<>|~\"\\}"
const valueChars = "abcXYZ 019-_./:,;=+*#@!?%^&()[]<>|~\"\\}$"
const dotValueChars = "abcXYZ019_./:-"
const edgeChars = "$$$${}}aZ_1*#-. @?"

func randFrom(r *rand.Rand, alphabet string, n int) string {
	bs := make([]byte, n)
	for i := range bs {
		bs[i] = alphabet[r.Intn(len(alphabet))]
	}
	return string(bs)
}

func isAlnum(c byte) bool {
	return c == '_' || '0' <= c && c <= '9' || 'a' <= c && c <= 'z' || 'A' <= c && c <= 'Z'
}

func printToks(ts []Tok) string {
	var sb strings.Builder
	for _, t := range ts {
		switch t.K {
		case "text":
			sb.WriteString(t.S)
		case "esc":
			sb.WriteString("$$")
		case "var":
			sb.WriteString("$" + t.S)
		default:
			sb.WriteString("${" + t.S + "}")
		}
	}
	return sb.String()
}

// a well-formed, well-separated token list
func genToks(r *rand.Rand, names []string, templated bool) []Tok {
	n := 1 + r.Intn(6)
	var ts []Tok
	for i := 0; i < n; i++ {
		switch k := r.Intn(10); {
		case k < 3:
			s := randFrom(r, textChars, 1+r.Intn(6))
			if !templated && r.Intn(4) == 0 {
				s += "{" + randFrom(r, textChars, r.Intn(3))
			}
			ts = append(ts, Tok{K: "text", S: s})
		case k < 5:
			ts = append(ts, Tok{K: "esc"})
		case k < 8:
			ts = append(ts, Tok{K: "var", S: names[r.Intn(len(names))]})
		default:
			ts = append(ts, Tok{K: "brace", S: names[r.Intn(len(names))]})
		}
	}
	// separation: a $NAME must not be followed by a letter, digit or underscore
	var out []Tok
	for i, t := range ts {
		out = append(out, t)
		if t.K == "var" && i+1 < len(ts) && ts[i+1].K == "text" && len(ts[i+1].S) > 0 && isAlnum(ts[i+1].S[0]) {
			if r.Intn(2) == 0 {
				out[len(out)-1].K = "brace"
			} else {
				out = append(out, Tok{K: "text", S: string("-./: ,"[r.Intn(6)])})
			}
		}
	}
	return out
}

// every "${" of s is closed by a '}' inside s (so the scanner cannot run past the end of the scalar)
func closedScalar(s string) bool {
	for i := 0; i+1 < len(s); i++ {
		if s[i] == '$' && s[i+1] == '{' && !strings.Contains(s[i+2:], "}") {
			return false
		}
	}
	return true
}

func genEdge(r *rand.Rand, names []string) string {
	var sb strings.Builder
	n := r.Intn(7)
	for i := 0; i < n; i++ {
		switch r.Intn(12) {
		case 0:
			sb.WriteString("${" + names[r.Intn(len(names))] + "}")
		case 1:
			sb.WriteString("$" + names[r.Intn(len(names))])
		case 2:
			sb.WriteString("${")
		case 3:
			sb.WriteString("${}")
		case 4:
			sb.WriteString("$$")
		case 5:
			sb.WriteString("${" + string("*#$@!?-07"[r.Intn(9)]) + "}")
		case 6:
			sb.WriteString("$" + string("*#@!?-07"[r.Intn(8)]))
		default:
			sb.WriteString(randFrom(r, edgeChars, 1+r.Intn(3)))
		}
	}
	return sb.String()
}

type loadBuilder struct {
	c *Case
}

func (lb *loadBuilder) lit(s string) {
	n := len(lb.c.Segs)
	if n > 0 && lb.c.Segs[n-1].F < 0 {
		lb.c.Segs[n-1].Lit += s
		return
	}
	lb.c.Segs = append(lb.c.Segs, Seg{Lit: s, F: -1})
}

func (lb *loadBuilder) field(where string, toks []Tok, raw string) {
	if toks != nil {
		raw = printToks(toks)
	}
	lb.c.Fields = append(lb.c.Fields, Field{Where: where, Toks: toks, Raw: raw})
	lb.c.Segs = append(lb.c.Segs, Seg{F: len(lb.c.Fields) - 1})
}

// a map key "<prefix><tokens>" (the prefix is unique in the file)
func (lb *loadBuilder) key(kind, prefix string, toks []Tok) {
	toks = append([]Tok{{K: "text", S: prefix}}, toks...)
	lb.field(kind+":"+prefix, toks, "")
	lb.c.Fields[len(lb.c.Fields)-1].Key = true
}

func genNames(r *rand.Rand, n int) []string {
	seen := map[string]bool{}
	var names []string
	for len(names) < n {
		s := randFrom(r, identFirst, 1) + randFrom(r, identRest, r.Intn(5))
		if !seen[s] && s != "PATH" {
			seen[s] = true
			names = append(names, s)
		}
	}
	return names
}

func genLoad(r *rand.Rand, id int) *Case {
	c := &Case{Kind: "load", Gen: "load-random", ID: id}
	c.Disabled = r.Intn(4) == 0
	names := genNames(r, 7) // 0-2 process env only, 3 both, 4 first .env file, 5 both .env files, 6 undefined
	for _, i := range []int{0, 1, 2, 3} {
		v := randFrom(r, valueChars, r.Intn(9))
		if r.Intn(12) == 0 {
			v = ""
		}
		c.Env = append(c.Env, [2]string{names[i], v})
	}
	if r.Intn(6) == 0 {
		c.Env = append(c.Env, [2]string{"1", "one"}, [2]string{"*", "star"})
	}
	c.DotMode = []string{"none", "default", "files", "files", "off"}[r.Intn(5)]
	f1 := DotFile{Name: ".env", Entries: [][2]string{{names[3], "dot3" + randFrom(r, dotValueChars, 2)},
		{names[4], randFrom(r, dotValueChars, r.Intn(7))}, {names[5], "first" + randFrom(r, dotValueChars, 2)}}}
	f2 := DotFile{Name: "second.env", Entries: [][2]string{{names[5], "second"}, {names[0], "shadowed"}}}
	switch c.DotMode {
	case "default":
		c.DotEnv = []DotFile{f1}
	case "files":
		f1.Name = "one.env"
		c.DotEnv = []DotFile{f1, f2}
	case "off":
		c.DotEnv = []DotFile{f1}
	}
	lb := &loadBuilder{c}
	scalar := func(where string, templated bool, allowEdge bool) {
		lb.lit("'")
		if allowEdge && r.Intn(4) == 0 {
			s := genEdge(r, names)
			for !closedScalar(s) {
				s += "}"
			}
			lb.field(where, nil, s)
		} else {
			lb.field(where, genToks(r, names, templated), "")
		}
		lb.lit("'\n")
	}
	if c.Disabled {
		lb.lit("disable_env_expansion: true\n")
	}
	if r.Intn(3) == 0 {
		lb.lit("log_location: ")
		scalar("logloc", false, true)
	}
	if ng := r.Intn(3); ng > 0 {
		lb.lit("environment:\n")
		for i := 0; i < ng; i++ {
			lb.lit("  - ")
			scalar(fmt.Sprintf("genv:%d", i), false, true)
		}
	}
	nc, eck := r.Intn(3), r.Intn(5) == 0
	if nc > 0 || eck {
		lb.lit("env_cmds:\n")
		for i := 0; i < nc; i++ {
			lb.lit(fmt.Sprintf("  EC%d: ", i))
			scalar(fmt.Sprintf("ecmd:EC%d", i), false, true)
		}
		if eck {
			lb.lit("  '")
			lb.key("eckey", "eck_", genToks(r, names, false))
			lb.lit("': 'true'\n")
		}
	}
	lb.lit("processes:\n")
	if r.Intn(4) == 0 {
		lb.lit("  '")
		lb.key("pkey", "kp_", genToks(r, names, false))
		lb.lit("':\n    command: 'true'\n")
	}
	np := 1 + r.Intn(2)
	for p := 0; p < np; p++ {
		pn := fmt.Sprintf("p%d", p)
		lb.lit("  " + pn + ":\n")
		lb.lit("    command: ")
		scalar("cmd:"+pn, true, false)
		if r.Intn(2) == 0 {
			lb.lit("    working_dir: ")
			scalar("wd:"+pn, true, false)
		}
		if r.Intn(3) == 0 {
			lb.lit("    description: ")
			scalar("desc:"+pn, true, false)
		}
		if r.Intn(3) == 0 {
			lb.lit("    ready_log_line: ")
			scalar("rll:"+pn, false, true)
		}
		if ne := r.Intn(3); ne > 0 {
			lb.lit("    entrypoint:\n")
			for i := 0; i < ne; i++ {
				lb.lit("      - ")
				scalar(fmt.Sprintf("entry:%s:%d", pn, i), false, true)
			}
		}
		ne := r.Intn(4)
		if p == np-1 && ne == 0 {
			ne = 1
		}
		if ne > 0 {
			lb.lit("    environment:\n")
			for i := 0; i < ne; i++ {
				lb.lit("      - ")
				if p == np-1 && i == ne-1 && r.Intn(2) == 0 {
					// the last scalar of the file may be anything: an unclosed "${" finds no '}' after it
					lb.lit("'")
					lb.field(fmt.Sprintf("penv:%s:%d", pn, i), nil, genEdge(r, names))
					lb.lit("'\n")
				} else {
					scalar(fmt.Sprintf("penv:%s:%d", pn, i), false, true)
				}
			}
		}
	}
	return c
}

// directed cases: every token form once, and the corners of the escaping
func directedLoads(id *int) []*Case {
	mk := func(gen string, disabled bool, env [][2]string, scalars ...interface{}) *Case {
		*id++
		c := &Case{Kind: "load", Gen: gen, ID: *id, Disabled: disabled, Env: env, DotMode: "off"}
		lb := &loadBuilder{c}
		if disabled {
			lb.lit("disable_env_expansion: true\n")
		}
		lb.lit("processes:\n  p0:\n    command: 'true'\n    environment:\n")
		for i, s := range scalars {
			lb.lit("      - '")
			switch v := s.(type) {
			case []Tok:
				lb.field(fmt.Sprintf("penv:p0:%d", i), v, "")
			case string:
				lb.field(fmt.Sprintf("penv:p0:%d", i), nil, v)
			}
			lb.lit("'\n")
		}
		return c
	}
	env := [][2]string{{"HOME_X", "/home/u"}, {"EMPTY", ""}, {"DOLLAR", "a$HOME_X$$b"}, {"SENT", sentinel}, {"TAIL", "ESCAPED##"}}
	var cs []*Case
	all := []Tok{{"text", "K="}, {"var", "HOME_X"}, {"text", "/x:"}, {"brace", "HOME_X"}, {"text", "y "}, {"esc", ""},
		{"var", "HOME_X"}, {"esc", ""}, {"esc", ""}, {"brace", "UNDEFINED"}, {"var", "EMPTY"}, {"text", "."}, {"var", "DOLLAR"}}
	for _, dis := range []bool{false, true} {
		cs = append(cs, mk("directed-forms", dis, env, all, []Tok{{"esc", ""}}, []Tok{{"var", "HOME_X"}}, []Tok{{"brace", "HOME_X"}},
			[]Tok{{"text", "price 5"}, {"esc", ""}, {"text", " {x}"}}, "$", "a$", "${}", "$}", "${*}x$1$-$", "x${"))
	}
	// the placeholder text of the unchanged loader in a value, in the file, and assembled across a boundary
	cs = append(cs, mk("directed-sentinel-value", false, env, []Tok{{"text", "V="}, {"var", "SENT"}}))
	cs = append(cs, mk("directed-sentinel-text", false, env, []Tok{{"text", "V=" + sentinel + "."}}))
	cs = append(cs, mk("directed-sentinel-split", false, env, []Tok{{"text", "V=##PC_ENV_"}, {"var", "TAIL"}}))
	cs = append(cs, mk("directed-sentinel-disabled", true, env, []Tok{{"text", "V=" + sentinel}, {"var", "SENT"}}))
	cs = append(cs, mk("directed-brace-dollar", false, env, "V=${$}."))
	for _, dis := range []bool{false, true} {
		*id++
		c := &Case{Kind: "load", Gen: "directed-key-tokens", ID: *id, Disabled: dis, Env: env, DotMode: "off"}
		lb := &loadBuilder{c}
		if dis {
			lb.lit("disable_env_expansion: true\n")
		}
		lb.lit("env_cmds:\n  '")
		lb.key("eckey", "EC_", []Tok{{"brace", "HOME_X"}})
		lb.lit("': 'true'\nprocesses:\n  '")
		lb.key("pkey", "p-", []Tok{{"var", "HOME_X"}, {"text", "-"}, {"esc", ""}})
		lb.lit("':\n    command: '")
		lb.field("cmd:p-", []Tok{{"text", "echo "}, {"var", "HOME_X"}}, "")
		lb.lit("'\n")
		// the command belongs to the process whose name is the raw / the expanded key
		if dis {
			c.Fields[2].Where = "cmd:p-$HOME_X-$$"
		} else {
			c.Fields[2].Where = "cmd:p-/home/u-$"
		}
		cs = append(cs, c)
	}
	return cs
}

func runLoad(c *Case) {
	dir, err := os.MkdirTemp(root, "load")
	if err != nil {
		panic(err)
	}
	defer os.RemoveAll(dir)
	resetEnv(c.Env)
	c.LoadErr = ""
	if err := os.Chdir(dir); err != nil {
		panic(err)
	}
	defer os.Chdir(root)
	file := filepath.Join(dir, "pc.yaml")
	if err := os.WriteFile(file, []byte(c.fileText()), 0o644); err != nil {
		panic(err)
	}
	var envFiles []string
	for _, df := range c.DotEnv {
		var sb strings.Builder
		for _, kv := range df.Entries {
			sb.WriteString(kv[0] + "=" + kv[1] + "\n")
		}
		p := filepath.Join(dir, df.Name)
		if err := os.WriteFile(p, []byte(sb.String()), 0o644); err != nil {
			panic(err)
		}
		if c.DotMode == "files" {
			envFiles = append(envFiles, p)
		}
	}
	// lookup order of the specification: the process environment, then the .env files in the order given
	c.FullEnv = nil
	for _, kv := range os.Environ() {
		i := strings.Index(kv, "=")
		c.FullEnv = append(c.FullEnv, [2]string{kv[:i], kv[i+1:]})
	}
	if c.DotMode == "default" || c.DotMode == "files" {
		for _, df := range c.DotEnv {
			c.FullEnv = append(c.FullEnv, df.Entries...)
		}
	}
	opts := &loader.LoaderOptions{FileNames: []string{file}, EnvFileNames: envFiles, IsInternalLoader: true}
	if c.DotMode == "off" {
		opts.DisableDotenv(true)
	}
	var prj *types.Project
	func() {
		defer func() {
			if r := recover(); r != nil {
				err = fmt.Errorf("panic: %v", r)
			}
		}()
		prj, err = loader.Load(opts)
	}()
	if err != nil || prj == nil {
		c.LoadErr = fmt.Sprint("loader.Load: ", err)
		return
	}
	for i := range c.Fields {
		if c.Fields[i].Key {
			c.Fields[i].ObsKeys = extractKeys(prj, c.Fields[i].Where, c.Fields[i].Raw)
			c.Fields[i].Obs = strings.Join(c.Fields[i].ObsKeys, " | ")
			continue
		}
		v, ok := extract(prj, c.Fields[i].Where)
		if !ok {
			c.LoadErr = "field " + c.Fields[i].Where + " is missing in the loaded project"
			return
		}
		c.Fields[i].Obs = v
	}
}

func extractKeys(prj *types.Project, where, raw string) []string {
	parts := strings.SplitN(where, ":", 2)
	var all []string
	if parts[0] == "pkey" {
		for k := range prj.Processes {
			all = append(all, k)
		}
	} else {
		for k := range prj.EnvCommands {
			all = append(all, k)
		}
	}
	var first, rest []string
	for _, k := range all {
		if strings.HasPrefix(k, parts[1]) {
			if k == raw {
				first = append(first, k)
			} else {
				rest = append(rest, k)
			}
		}
	}
	sort.Strings(rest)
	return append(first, rest...)
}

func extract(prj *types.Project, where string) (string, bool) {
	parts := strings.SplitN(where, ":", 3)
	idx := func(s string) int {
		var i int
		fmt.Sscan(s, &i)
		return i
	}
	item := func(l []string, i int) (string, bool) {
		if i < len(l) {
			return l[i], true
		}
		return "", false
	}
	switch parts[0] {
	case "logloc":
		return prj.LogLocation, true
	case "genv":
		return item(prj.Environment, idx(parts[1]))
	case "ecmd":
		v, ok := prj.EnvCommands[parts[1]]
		return v, ok
	}
	proc, ok := prj.Processes[parts[1]]
	if !ok {
		return "", false
	}
	switch parts[0] {
	case "cmd":
		return proc.Command, true
	case "wd":
		return proc.WorkingDir, true
	case "desc":
		return proc.Description, true
	case "rll":
		return proc.ReadyLogLine, true
	case "entry":
		return item(proc.Entrypoint, idx(parts[2]))
	case "penv":
		return item(proc.Environment, idx(parts[2]))
	}
	return "", false
}

// ------------------------------------------------------------------------------------------ sweep cases

func runSweep(c *Case) {
	var extra [][2]string
	for _, kv := range c.Inh {
		i := strings.Index(kv, "=")
		if kv[:i] != "PATH" {
			extra = append(extra, [2]string{kv[:i], kv[i+1:]})
		}
	}
	resetEnv(extra)
	c.Inh = os.Environ()
	conf := &types.ProcessConfig{Name: c.Name, ReplicaName: c.Name, ReplicaNum: c.Num, Replicas: 1,
		Environment: append(types.Environment{}, c.Proc...), WorkingDir: c.Wd}
	p := app.VerifNewProcess(conf, &types.ProcessState{Name: c.Name}, append([]string{}, c.Glob...))
	c.ObsEnv = p.VerifEnvironment()
	c.ObsDir = p.VerifConf().WorkingDir
	c.Launches = 1
}

var layerKeys = []string{"A", "PC_PROC_NAME", "PC_REPLICA_NUM", "B"}

// every pattern of "which layers define key k" for the first nk keys
func genSweepGrid(nk int, id *int) []*Case {
	var cs []*Case
	names := []string{"web", "a=b", "p-1", "x y", "PC"}
	nums := []int{0, 1, 7, 10, 123}
	total := 1
	for i := 0; i < nk; i++ {
		total *= 8
	}
	for code := 0; code < total; code++ {
		*id++
		c := &Case{Kind: "sweep", Gen: fmt.Sprintf("sweep-grid%d", nk), ID: *id,
			Name: names[code%len(names)], Num: nums[(code/3)%len(nums)]}
		if code%2 == 1 {
			c.Wd = "/some/dir " + fmt.Sprint(code)
		}
		x := code
		for k := 0; k < nk; k++ {
			m := x % 8
			x /= 8
			key := layerKeys[k]
			val := func(layer string) string {
				if key == "PC_REPLICA_NUM" {
					return map[string]string{"i": "71", "g": "72", "p": "73"}[layer]
				}
				return layer + "-" + key
			}
			if m&1 != 0 {
				c.Inh = append(c.Inh, key+"="+val("i"))
			}
			if m&2 != 0 {
				c.Glob = append(c.Glob, key+"="+val("g"))
			}
			if m&4 != 0 {
				c.Proc = append(c.Proc, key+"="+val("p"))
			}
		}
		cs = append(cs, c)
	}
	return cs
}

func genEntry(r *rand.Rand, layer string, n int) string {
	keys := []string{"A", "B", "C", "PC_PROC_NAME", "PC_REPLICA_NUM", "a", "A_1"}
	k := keys[r.Intn(len(keys))]
	switch r.Intn(14) {
	case 0:
		return k + "="
	case 1:
		return k + "=x=" + layer
	case 2:
		if layer != "i" {
			return "NOEQ" + layer
		}
	case 3:
		if layer != "i" {
			return "=" + k + "=" + layer
		}
	case 4:
		if layer != "i" {
			return ""
		}
	}
	return fmt.Sprintf("%s=%s%d %s", k, layer, n, randFrom(r, valueChars, r.Intn(4)))
}

func genSweepRandom(r *rand.Rand, id int) *Case {
	c := &Case{Kind: "sweep", Gen: "sweep-random", ID: id, Name: []string{"proc", "", "n=1", "PC_PROC_NAME"}[r.Intn(4)],
		Num: []int{0, 1, 2, 9, 10, 99, 100, 4095, math.MaxInt32}[r.Intn(9)]}
	if r.Intn(2) == 0 {
		c.Wd = "/w/" + randFrom(r, textChars, r.Intn(5))
	}
	seen := map[string]bool{}
	for i, n := 0, r.Intn(4); i < n; i++ {
		e := genEntry(r, "i", i)
		k := e[:strings.Index(e, "=")]
		if !seen[k] { // the process environment has one value per name
			seen[k] = true
			c.Inh = append(c.Inh, e)
		}
	}
	for i, n := 0, r.Intn(5); i < n; i++ {
		c.Glob = append(c.Glob, genEntry(r, "g", i))
	}
	for i, n := 0, r.Intn(5); i < n; i++ {
		c.Proc = append(c.Proc, genEntry(r, "p", i))
	}
	return c
}

// ------------------------------------------------------------------------------------------ project cases

func replicaName(name string, replicas, num int) string {
	if replicas <= 1 {
		return name
	}
	w := 1 + int(math.Log10(float64(replicas)))
	return fmt.Sprintf("%s-%0*d", name, w, num)
}

func yamlQ(s string) string { return "'" + strings.ReplaceAll(s, "'", "''") + "'" }

func projectYAML(c *Case, dir string) string {
	var sb strings.Builder
	if len(c.Glob) > 0 {
		sb.WriteString("environment:\n")
		for _, e := range c.Glob {
			sb.WriteString("  - " + yamlQ(e) + "\n")
		}
	}
	if len(c.Cmds) > 0 {
		sb.WriteString("env_cmds:\n")
		for _, cs := range c.Cmds {
			sb.WriteString("  " + cs.Key + ": " + yamlQ(cs.Command) + "\n")
		}
	}
	sb.WriteString("processes:\n")
	for _, p := range c.Procs {
		sb.WriteString("  " + p.Name + ":\n")
		if c.Real {
			sb.WriteString("    command: 'env'\n")
		} else {
			sb.WriteString("    command: 'true'\n")
		}
		if p.Replicas != 1 {
			sb.WriteString(fmt.Sprintf("    replicas: %d\n", p.Replicas))
		}
		if p.WdRel != "" {
			sb.WriteString("    working_dir: " + yamlQ(filepath.Join(dir, p.WdRel)) + "\n")
		}
		if len(p.Env) > 0 {
			sb.WriteString("    environment:\n")
			for _, e := range p.Env {
				sb.WriteString("      - " + yamlQ(e) + "\n")
			}
		}
	}
	return sb.String()
}

func overrideYAML(c *Case) string {
	var sb strings.Builder
	sb.WriteString("processes:\n")
	for _, p := range c.Procs {
		if len(p.Over) == 0 {
			continue
		}
		sb.WriteString("  " + p.Name + ":\n    environment:\n")
		for _, e := range p.Over {
			sb.WriteString("      - " + yamlQ(e) + "\n")
		}
	}
	return sb.String()
}

func genProject(r *rand.Rand, id int, real bool) *Case {
	c := &Case{Kind: "project", Gen: "project-fake", ID: id, Real: real}
	if real {
		c.Gen = "project-real-env-child"
	}
	// AB / E1X / A_: names that have an env_cmds key (A, E1) as a proper prefix - a key ends at '=', not earlier
	keys := []string{"A", "B", "C", "PC_PROC_NAME", "PC_REPLICA_NUM", "E1", "E2", "AB", "E1X", "A_"}
	entry := func(layer string, n int) string {
		k := keys[r.Intn(len(keys))]
		if !real && layer != "i" {
			switch r.Intn(16) {
			case 0:
				return "NOEQ" + layer
			case 1:
				return k + "=x=" + layer
			}
		}
		if r.Intn(10) == 0 {
			return k + "="
		}
		return fmt.Sprintf("%s=%s%d%s", k, layer, n, randFrom(r, "abc XYZ:/=#", r.Intn(4)))
	}
	seen := map[string]bool{}
	for i, n := 0, r.Intn(4); i < n; i++ {
		e := entry("i", i)
		k := e[:strings.Index(e, "=")]
		if !seen[k] {
			seen[k] = true
			c.Env = append(c.Env, [2]string{k, e[len(k)+1:]})
		}
	}
	for i, n := 0, r.Intn(4); i < n; i++ {
		c.Glob = append(c.Glob, entry("g", i))
	}
	cmdPool := []CmdSpec{
		{Command: "echo v1", OK: true, Expect: "v1"},
		{Command: "printf '  two words \\n\\n'", OK: true, Expect: "two words"},
		{Command: "exit 3", OK: false},
		{Command: "true", OK: true, Expect: ""},
		{Command: "echo $A", OK: true, Expect: "?A"}, // sees the supervisor's own environment
		{Command: "echo a=b", OK: true, Expect: "a=b"},
	}
	cmdKeys := []string{"E1", "E2", "A", "PC_REPLICA_NUM"}
	r.Shuffle(len(cmdKeys), func(i, j int) { cmdKeys[i], cmdKeys[j] = cmdKeys[j], cmdKeys[i] })
	for i, n := 0, r.Intn(4); i < n; i++ {
		cs := cmdPool[r.Intn(len(cmdPool))]
		cs.Key = cmdKeys[i]
		if cs.Expect == "?A" {
			cs.Command = "echo \"$$A\"" // $$ is the loader's escape for a literal $
			cs.Expect = ""
			for _, kv := range c.Env {
				if kv[0] == "A" {
					cs.Expect = strings.TrimSpace(kv[1])
				}
			}
		}
		c.Cmds = append(c.Cmds, cs)
	}
	np := 1 + r.Intn(2)
	for p := 0; p < np; p++ {
		ps := ProcSpec{Name: fmt.Sprintf("svc%d", p), Replicas: []int{1, 1, 2, 3, 11}[r.Intn(5)]}
		if real && ps.Replicas > 3 {
			ps.Replicas = 3
		}
		for i, n := 0, r.Intn(4); i < n; i++ {
			ps.Env = append(ps.Env, entry("p", i))
		}
		if r.Intn(3) > 0 {
			ps.WdRel = fmt.Sprintf("w%d", p)
		}
		if r.Intn(3) == 0 {
			// a second file contributes further entries: 2..9 entries after the merge
			for i, n := 0, 2+r.Intn(6); i < n; i++ {
				ps.Over = append(ps.Over, fmt.Sprintf("M%d=over%d", i, i))
			}
			if r.Intn(2) == 0 && len(ps.Env) > 0 && strings.Contains(ps.Env[0], "=") {
				ps.Over = append(ps.Over, ps.Env[0][:strings.Index(ps.Env[0], "=")]+"=overridden")
			}
		}
		c.Procs = append(c.Procs, ps)
	}
	return c
}

// runs the project and returns one case per replica.  env_cmds are real shell commands under a 2 s
// timeout inside process-compose: on a heavily loaded machine one may time out; such a run is repeated
// (a genuine defect reproduces every time and is then reported).
func runProject(spec *Case) []*Case {
	var out []*Case
	for attempt := 0; attempt < 3; attempt++ {
		var complete bool
		out, complete = runProjectOnce(spec)
		if complete {
			break
		}
	}
	return out
}

func runProjectOnce(spec *Case) ([]*Case, bool) {
	dir, err := os.MkdirTemp(root, "proj")
	if err != nil {
		panic(err)
	}
	defer os.RemoveAll(dir)
	for _, p := range spec.Procs {
		if p.WdRel != "" {
			os.MkdirAll(filepath.Join(dir, p.WdRel), 0o755)
		}
	}
	resetEnv(spec.Env)
	os.Chdir(dir)
	defer os.Chdir(root)
	file := filepath.Join(dir, "pc.yaml")
	os.WriteFile(file, []byte(projectYAML(spec, dir)), 0o644)
	fail := func(msg string) ([]*Case, bool) {
		c := *spec
		c.Name, c.LaunchErr = spec.Procs[0].Name, msg
		c.Inh = os.Environ()
		return []*Case{&c}, true
	}
	files := []string{file}
	merged := false
	for _, p := range spec.Procs {
		merged = merged || len(p.Over) > 0
	}
	if merged {
		over := filepath.Join(dir, "pc.override.yaml")
		os.WriteFile(over, []byte(overrideYAML(spec)), 0o644)
		files = append(files, over)
	}
	opts := &loader.LoaderOptions{FileNames: files, IsInternalLoader: true}
	opts.DisableDotenv(true)
	prj, err := loader.Load(opts)
	if err != nil {
		return fail("loader.Load: " + err.Error())
	}
	// per-process layer of a merged process: the list the loader produced (copied before anything runs)
	loadedGlob := append([]string{}, prj.Environment...)
	loadedEnv := map[string][]string{}
	for _, pc := range prj.Processes {
		if _, ok := loadedEnv[pc.Name]; !ok {
			loadedEnv[pc.Name] = append([]string{}, pc.Environment...)
		}
	}
	inh := os.Environ()
	fac := fakecmd.NewFactory()
	if spec.Real {
		app.SetVerifHooks(nil)
	} else {
		fac.OnStart = func(c *fakecmd.Cmd) { go c.Exit(0) }
		fac.Install()
	}
	defer app.SetVerifHooks(nil)
	runner, err := app.NewProjectRunner((&app.ProjectOpts{}).WithProject(prj))
	if err != nil {
		return fail("NewProjectRunner: " + err.Error())
	}
	// the supervisor prints process output when no TUI is attached: keep it away from our stdout
	saved := os.Stdout
	if devnull, e := os.OpenFile(os.DevNull, os.O_WRONLY, 0); e == nil {
		os.Stdout = devnull
		defer devnull.Close()
	}
	_ = runner.Run()
	os.Stdout = saved
	complete := true
	for _, cs := range spec.Cmds {
		found := false
		for _, e := range runner.VerifProject().Environment {
			if strings.HasPrefix(e, cs.Key+"=") {
				found = true
			}
		}
		if cs.OK && !found {
			complete = false
		}
	}
	var out []*Case
	for _, p := range spec.Procs {
		for num := 0; num < p.Replicas; num++ {
			c := *spec
			c.Name, c.Num, c.Proc, c.Inh = p.Name, num, p.Env, inh
			if len(p.Over) > 0 {
				c.Proc = loadedEnv[p.Name]
			}
			if merged {
				c.Glob = loadedGlob // the merge sorts the project-level list as well
			}
			c.Wd = ""
			if p.WdRel != "" {
				c.Wd = filepath.Join(dir, p.WdRel)
			}
			rn := replicaName(p.Name, p.Replicas, num)
			if spec.Real {
				buf := runner.VerifProcessLogBuffer(rn)
				if buf == nil {
					c.LaunchErr = "no log buffer for replica " + rn
				} else {
					lines := buf.GetLogRange(math.MaxInt32, 0)
					c.Launches = 1
					for _, l := range lines {
						if strings.Contains(l, "=") {
							c.ObsEnv = append(c.ObsEnv, l)
							if strings.HasPrefix(l, "PWD=") {
								c.ObsDir = l[4:]
							}
						}
					}
					if c.Wd == "" {
						c.ObsDir = "" // no directory configured: the child inherits the supervisor's
					}
					if len(c.ObsEnv) == 0 {
						c.LaunchErr = "the env child of " + rn + " printed nothing"
					}
				}
			} else {
				cmds := fac.ByName(rn)
				c.Launches = len(cmds)
				if len(cmds) != 1 {
					c.LaunchErr = fmt.Sprintf("replica %s was launched %d times", rn, len(cmds))
				}
				if len(cmds) > 0 {
					c.ObsEnv, c.ObsDir = cmds[0].Env, cmds[0].Dir
				}
			}
			if c.Wd != "" {
				// keep the scratch path out of the cases (it changes from run to run)
				c.Wd = strings.Replace(c.Wd, dir, "/SCRATCH", 1)
				c.ObsDir = strings.Replace(c.ObsDir, dir, "/SCRATCH", 1)
			}
			out = append(out, &c)
		}
	}
	return out, complete
}

// ------------------------------------------------------------------------------------------ main

func readCases(p string) []*Case {
	data, err := os.ReadFile(p)
	if err != nil {
		fmt.Fprintln(os.Stderr, err)
		os.Exit(2)
	}
	var cs []*Case
	if err := json.Unmarshal(data, &cs); err != nil {
		fmt.Fprintln(os.Stderr, p, err)
		os.Exit(2)
	}
	return cs
}

func main() {
	seed := flag.Int64("seed", 1, "PRNG seed")
	nload := flag.Int("nload", 150, "random load cases")
	nsweep := flag.Int("nsweep", 150, "random sweep cases")
	nproj := flag.Int("nproj", 30, "projects run through the fake commander")
	nreal := flag.Int("nreal", 3, "projects run with a real env child")
	grid := flag.Int("grid", 3, "exhaustive overlap grid over this many keys (8^k cases)")
	shards := flag.Int("shards", 8, "number of cases_C17_<k>.v files (case i goes to file i mod shards)")
	out := flag.String("out", ".", "output directory")
	replay := flag.String("replay", "", "re-run the cases of this JSON file instead of generating")
	corpus := flag.String("corpus", "", "directory with corpus cases (*.json) that run first")
	flag.Parse()
	zerolog.SetGlobalLevel(zerolog.Disabled)

	tmp, err := os.MkdirTemp("", "c17-")
	if err != nil {
		panic(err)
	}
	root, _ = filepath.EvalSymlinks(tmp)
	defer os.RemoveAll(root)
	savedEnv := os.Environ()

	var inputs []*Case
	id := 0
	if *replay != "" {
		inputs = readCases(*replay)
	} else {
		if *corpus != "" {
			files, _ := filepath.Glob(filepath.Join(*corpus, "*.json"))
			sort.Strings(files)
			for _, f := range files {
				for _, c := range readCases(f) {
					c.Gen = "corpus:" + filepath.Base(f) + ":" + c.Gen
					inputs = append(inputs, c)
				}
			}
		}
		inputs = append(inputs, directedLoads(&id)...)
		inputs = append(inputs, genSweepGrid(*grid, &id)...)
		r := rand.New(rand.NewSource(*seed))
		for i := 0; i < *nload; i++ {
			id++
			inputs = append(inputs, genLoad(r, id))
		}
		for i := 0; i < *nsweep; i++ {
			id++
			inputs = append(inputs, genSweepRandom(r, id))
		}
		for _, n := range []int{3, 4, 10} { // merged per-process lists of 5, 6 and 12 entries, 3 replicas each
			id++
			ps := ProcSpec{Name: "web", Replicas: 3, Env: []string{"A=p0", "B=p1"}}
			for i := 0; i < n; i++ {
				ps.Over = append(ps.Over, fmt.Sprintf("M%d=over%d", i, i))
			}
			inputs = append(inputs, &Case{Kind: "project", Gen: "project-merged-files", ID: id, Glob: []string{"G=g"},
				Procs: []ProcSpec{ps, {Name: "one", Replicas: 1, Env: []string{"C=c"}, Over: []string{"D=d", "C=c2"}}}})
		}
		for i := 0; i < *nproj+*nreal; i++ {
			id++
			inputs = append(inputs, genProject(r, id, i >= *nproj))
		}
	}
	// in a replay file the replicas of one project appear as separate cases with the same id
	var cases []*Case
	doneProj := map[int]bool{}
	for i, c := range inputs {
		if *replay != "" || strings.HasPrefix(c.Gen, "corpus:") {
			if c.Kind == "project" && doneProj[c.ID] {
				continue
			}
			doneProj[c.ID] = true
			c.ID = 1000000 + i
		}
		switch c.Kind {
		case "load":
			runLoad(c)
			cases = append(cases, c)
		case "sweep":
			runSweep(c)
			cases = append(cases, c)
		case "project":
			cases = append(cases, runProject(c)...)
		}
	}
	os.Clearenv()
	for _, kv := range savedEnv {
		i := strings.Index(kv, "=")
		os.Setenv(kv[:i], kv[i+1:])
	}

	// the cases are split over several files so that the check can evaluate them with parallel coqc runs
	nsh := *shards
	if nsh < 1 || len(cases) < 4*nsh {
		nsh = 1
	}
	for sh := 0; sh < nsh; sh++ {
		var sb strings.Builder
		sb.WriteString("From Coq Require Import String.\nFrom Coq Require Import List NArith.\nFrom PC.Env Require Import Model Check.\nImport ListNotations.\nOpen Scope list_scope.\n")
		sb.WriteString("Definition cases : list ocase := [\n")
		first := true
		for i, c := range cases {
			if i%nsh != sh {
				continue
			}
			if !first {
				sb.WriteString(";\n")
			}
			first = false
			sb.WriteString(c.coq())
		}
		sb.WriteString("\n].\n")
		sb.WriteString("Definition r_bad_model := Eval vm_compute in bad_model cases.\nPrint r_bad_model.\n")
		sb.WriteString("Definition r_bad_model_orig := Eval vm_compute in bad_model_orig cases.\nPrint r_bad_model_orig.\n")
		sb.WriteString("Definition r_bad_monitor := Eval vm_compute in bad_monitor cases.\nPrint r_bad_monitor.\n")
		if err := os.WriteFile(filepath.Join(*out, fmt.Sprintf("cases_C17_%d.v", sh)), []byte(sb.String()), 0o644); err != nil {
			panic(err)
		}
	}
	js, _ := json.Marshal(cases)
	if err := os.WriteFile(filepath.Join(*out, "cases_C17.json"), js, 0o644); err != nil {
		panic(err)
	}

	stats := map[string]int{"cases": len(cases), "shards": nsh}
	for _, c := range cases {
		stats["kind_"+c.Kind]++
		stats["gen_"+strings.SplitN(c.Gen, ":", 2)[0]]++
		if c.LoadErr != "" {
			stats["load_errors"]++
		}
		if c.LaunchErr != "" {
			stats["launch_errors"]++
		}
		if c.Kind == "load" {
			if c.Disabled {
				stats["load_expansion_disabled"]++
			}
			stats["load_dotmode_"+c.DotMode]++
			for _, f := range c.Fields {
				stats["load_fields"]++
				if f.Toks == nil {
					stats["load_fields_edge"]++
				}
				if f.Key {
					stats["load_fields_map_key"]++
				}
				stats["load_where_"+strings.SplitN(f.Where, ":", 2)[0]]++
				for _, t := range f.Toks {
					stats["tok_"+t.K]++
				}
				if f.Raw != f.Obs {
					stats["load_fields_changed_by_expansion"]++
				}
			}
		} else {
			if c.Real {
				stats["launch_real_child"]++
			}
			stats["launch_cmds_total"] += len(c.cmdPairs())
			over := false
			for _, l := range [][]string{c.Inh, c.Glob, c.Proc} {
				for _, e := range l {
					if strings.HasPrefix(e, "PC_PROC_NAME=") || strings.HasPrefix(e, "PC_REPLICA_NUM=") {
						over = true
					}
				}
			}
			for _, cs := range c.Cmds {
				if cs.OK && (cs.Key == "PC_PROC_NAME" || cs.Key == "PC_REPLICA_NUM") {
					over = true
				}
			}
			if over {
				stats["launch_some_layer_defines_injected_name"]++
			}
			if c.Num > 0 {
				stats["launch_replica_num_gt0"]++
			}
			if c.Wd != "" {
				stats["launch_with_working_dir"]++
			}
		}
	}
	sj, _ := json.Marshal(stats)
	fmt.Println(string(sj))
}
