// c11: correspondence harness for output capture (property C11).
// Builds small projects through loader.Load on generated YAML, runs them with ProjectRunner.Run()
// (scripted fake commands writing byte-exact output in random chunkings, or real `sh` processes), and
// records, after Run() returned, GetProcessLog(name, huge, 0) and the parsed log file(s).
//   <out>/cases_C11.v  (Gallina: what was observed)     <out>/cases_C11.json (the same, for replays)
package main

import (
	"bufio"
	"bytes"
	"encoding/json"
	"flag"
	"fmt"
	"io"
	"math/rand"
	"os"
	"path/filepath"
	"sort"
	"strings"
	"sync"
	"time"

	"github.com/f1bonacc1/process-compose/src/app"
	"github.com/f1bonacc1/process-compose/src/command"
	"github.com/f1bonacc1/process-compose/src/loader"
	"github.com/rs/zerolog"
	"github.com/rs/zerolog/log"
	"pcverif/fakecmd"
)

// ------------------------------------------------------------------------------------------ case types

type Attempt struct {
	Out     [][]byte `json:"out"`  // chunks written to stdout, in order
	Err     [][]byte `json:"err"`  // chunks written to stderr, in order
	Code    int      `json:"code"` // exit code
	Par     bool     `json:"par"`  // two writer goroutines (else one goroutine alternating by Order)
	Order   []bool   `json:"order,omitempty"`
	DelayUs int      `json:"delay_us"` // pause between the last write and exit (0 = burst right before exit)
}

type Proc struct {
	Name     string    `json:"name"`
	Attempts []Attempt `json:"attempts"`
	Policy   string    `json:"policy"` // no | always | on_failure
	MaxRest  int       `json:"max_restarts"`
	RealCmd  string    `json:"real_cmd,omitempty"` // real `sh -c` command (no fake); every attempt prints Attempts[i]
}

type FileRec struct {
	Proc string `json:"proc"`
	Err  bool   `json:"err"`
	Msg  []byte `json:"msg"`
}

type ProcObs struct {
	Launches int      `json:"launches"`
	Mem      [][]byte `json:"mem"`
	File     []FileRec `json:"file,omitempty"` // records of the file this process logs to (whole file)
	HasFile  bool     `json:"has_file"`
	FileErr  string   `json:"file_err,omitempty"`
}

type Case struct {
	Kind      string `json:"kind"`
	LogLength int    `json:"log_length"` // 0 = not set (default 1000)
	FileMode  string `json:"file_mode"`  // none | proc | unified
	Flush     bool   `json:"flush_each_line"`
	NoMeta    bool   `json:"no_metadata"`
	AddTS     bool   `json:"add_timestamp"`
	Procs     []Proc `json:"procs"`
	Preview   string `json:"preview,omitempty"`
	// observed
	Obs     []ProcObs `json:"obs,omitempty"`
	RunErr  string    `json:"run_err,omitempty"`
	WallUs  int64     `json:"wall_us,omitempty"`
	TimedOut bool     `json:"timed_out,omitempty"`
}

func (c *Case) effSize() int {
	if c.LogLength == 0 {
		return 1000
	}
	return c.LogLength
}

// ------------------------------------------------------------------------------------------ scripts

type script struct {
	proc *Proc
	mu   sync.Mutex
	next int
}

var scripts sync.Map // process name -> *script

func onStart(c *fakecmd.Cmd) {
	v, ok := scripts.Load(c.Name)
	if !ok {
		go c.Exit(0)
		return
	}
	s := v.(*script)
	s.mu.Lock()
	i := s.next
	s.next++
	s.mu.Unlock()
	if i >= len(s.proc.Attempts) {
		go c.Exit(0) // more launches than scripted: shows up as a launch-count mismatch
		return
	}
	a := s.proc.Attempts[i]
	go func() {
		if a.Par {
			var wg sync.WaitGroup
			wg.Add(2)
			go func() {
				defer wg.Done()
				for _, ch := range a.Out {
					c.WriteOut(ch)
				}
			}()
			go func() {
				defer wg.Done()
				for _, ch := range a.Err {
					c.WriteErr(ch)
				}
			}()
			wg.Wait()
		} else {
			io, ie := 0, 0
			for _, first := range a.Order {
				if first && io < len(a.Out) {
					c.WriteOut(a.Out[io])
					io++
				} else if !first && ie < len(a.Err) {
					c.WriteErr(a.Err[ie])
					ie++
				}
			}
			for ; io < len(a.Out); io++ {
				c.WriteOut(a.Out[io])
			}
			for ; ie < len(a.Err); ie++ {
				c.WriteErr(a.Err[ie])
			}
		}
		if a.DelayUs > 0 {
			time.Sleep(time.Duration(a.DelayUs) * time.Microsecond)
		}
		c.Exit(a.Code)
	}()
}

// ------------------------------------------------------------------------------------------ running

func yamlQuote(s string) string {
	b, _ := json.Marshal(s) // a JSON string is a valid YAML double-quoted scalar
	return string(b)
}

func logConfYaml(indent string, c *Case) string {
	var sb strings.Builder
	sb.WriteString(indent + "log_configuration:\n")
	sb.WriteString(fmt.Sprintf("%s  flush_each_line: %v\n", indent, c.Flush))
	sb.WriteString(fmt.Sprintf("%s  no_metadata: %v\n", indent, c.NoMeta))
	sb.WriteString(fmt.Sprintf("%s  add_timestamp: %v\n", indent, c.AddTS))
	return sb.String()
}

func (c *Case) yaml(dir string) string {
	var sb strings.Builder
	sb.WriteString("version: \"0.5\"\n")
	if c.LogLength != 0 {
		sb.WriteString(fmt.Sprintf("log_length: %d\n", c.LogLength))
	}
	if c.FileMode == "unified" {
		sb.WriteString("log_location: " + yamlQuote(filepath.Join(dir, "unified.log")) + "\n")
		sb.WriteString(logConfYaml("", c))
	}
	sb.WriteString("processes:\n")
	for _, p := range c.Procs {
		sb.WriteString("  " + p.Name + ":\n")
		cmd := "fake-command-" + p.Name
		if p.RealCmd != "" {
			cmd = p.RealCmd
		}
		sb.WriteString("    command: " + yamlQuote(cmd) + "\n")
		if c.FileMode == "proc" {
			sb.WriteString("    log_location: " + yamlQuote(filepath.Join(dir, p.Name+".log")) + "\n")
			sb.WriteString(logConfYaml("    ", c))
		}
		if p.Policy != "no" {
			sb.WriteString("    availability:\n")
			sb.WriteString("      restart: " + p.Policy + "\n")
			sb.WriteString(fmt.Sprintf("      max_restarts: %d\n", p.MaxRest))
			sb.WriteString("      backoff_seconds: 1\n")
		}
	}
	return sb.String()
}

func parseLogFile(path string, only string) ([]FileRec, error) {
	f, err := os.Open(path)
	if err != nil {
		return nil, err
	}
	defer f.Close()
	rd := bufio.NewReaderSize(f, 1<<16)
	var recs []FileRec
	for {
		lineb, err := rd.ReadBytes('\n')
		if len(lineb) > 0 {
			if lineb[len(lineb)-1] != '\n' {
				return recs, fmt.Errorf("log file ends in an unterminated record: %q", trunc(string(lineb), 80))
			}
			var m struct {
				Level   string  `json:"level"`
				Process *string `json:"process"`
				Message string  `json:"message"`
			}
			if e := json.Unmarshal(lineb, &m); e != nil {
				return recs, fmt.Errorf("log file record is not JSON: %v: %q", e, trunc(string(lineb), 80))
			}
			pn := only
			if m.Process != nil {
				pn = *m.Process
			}
			recs = append(recs, FileRec{Proc: pn, Err: m.Level == "error", Msg: []byte(m.Message)})
			if m.Level != "error" && m.Level != "info" {
				return recs, fmt.Errorf("unexpected level %q", m.Level)
			}
		}
		if err == io.EOF {
			return recs, nil
		}
		if err != nil {
			return recs, err
		}
	}
}

func trunc(s string, n int) string {
	if len(s) > n {
		return s[:n] + "..."
	}
	return s
}

var loadMu sync.Mutex

func runCase(c *Case, root string, id int) {
	dir := filepath.Join(root, fmt.Sprintf("case%05d", id))
	_ = os.MkdirAll(dir, 0o755)
	defer os.RemoveAll(dir)
	// process names are unique over the whole harness run (the fake commander finds its script by name)
	for i := range c.Procs {
		c.Procs[i].Name = fmt.Sprintf("c%dp%d", id, i)
		if c.Procs[i].RealCmd == "" {
			scripts.Store(c.Procs[i].Name, &script{proc: &c.Procs[i]})
		}
	}
	defer func() {
		for i := range c.Procs {
			scripts.Delete(c.Procs[i].Name)
		}
	}()
	yml := filepath.Join(dir, "process-compose.yaml")
	if err := os.WriteFile(yml, []byte(c.yaml(dir)), 0o644); err != nil {
		c.RunErr = err.Error()
		return
	}
	loadMu.Lock()
	opts := &loader.LoaderOptions{FileNames: []string{yml}, IsInternalLoader: true}
	opts.DisableDotenv(true)
	project, err := loader.Load(opts)
	loadMu.Unlock()
	if err != nil {
		c.RunErr = "load: " + err.Error()
		return
	}
	po := &app.ProjectOpts{}
	po.WithProject(project).WithIsTuiOn(true)
	po.WithDotEnvDisabled(true)
	runner, err := app.NewProjectRunner(po)
	if err != nil {
		c.RunErr = "runner: " + err.Error()
		return
	}
	t0 := time.Now()
	done := make(chan error, 1)
	go func() { done <- runner.Run() }()
	select {
	case err = <-done:
		if err != nil {
			c.RunErr = "run: " + err.Error()
		}
	case <-time.After(60 * time.Second):
		c.TimedOut = true
		c.RunErr = "Run() did not return within 60 s"
	}
	c.WallUs = time.Since(t0).Microseconds()
	c.Obs = make([]ProcObs, len(c.Procs))
	var unified []FileRec
	var unifiedErr string
	if c.FileMode == "unified" {
		only := ""
		if len(c.Procs) == 1 {
			only = c.Procs[0].Name
		}
		recs, e := parseLogFile(filepath.Join(dir, "unified.log"), only)
		unified = recs
		if e != nil {
			unifiedErr = e.Error()
		}
	}
	for i, p := range c.Procs {
		o := &c.Obs[i]
		if p.RealCmd != "" {
			st, e := runner.GetProcessState(p.Name)
			if e == nil {
				o.Launches = st.Restarts + 1
			}
		} else if v, ok := scripts.Load(p.Name); ok {
			s := v.(*script)
			s.mu.Lock()
			o.Launches = s.next
			s.mu.Unlock()
		}
		lines, e := runner.GetProcessLog(p.Name, 1<<30, 0)
		if e != nil {
			c.RunErr += " getlog: " + e.Error()
		}
		o.Mem = make([][]byte, len(lines))
		for j, l := range lines {
			o.Mem[j] = []byte(l)
		}
		switch c.FileMode {
		case "proc":
			o.HasFile = true
			recs, e := parseLogFile(filepath.Join(dir, p.Name+".log"), p.Name)
			o.File = recs
			if e != nil {
				o.FileErr = e.Error()
			}
		case "unified":
			o.HasFile = true
			o.File = unified
			o.FileErr = unifiedErr
		}
	}
}

// ------------------------------------------------------------------------------------------ generators

var asciiAlpha = []byte("abcxyzABC 0123456789\t\r\x1b{}\":\\'%$-_/.,;=+*#@!?<>[]()|&^~`")
var utf8Runes = []string{"é", "ß", "日", "本", "€", "😀"}

type gen struct {
	r       *rand.Rand
	binary  bool // any byte value (only when no file is configured: the JSON file format cannot carry invalid UTF-8)
	short  bool // very short lines (many-line cases)
}

func (g *gen) oneByte() byte {
	if g.binary && g.r.Intn(3) == 0 {
		v := byte(g.r.Intn(256))
		if v == '\n' {
			v = 0
		}
		return v
	}
	return asciiAlpha[g.r.Intn(len(asciiAlpha))]
}

// Short lines are random bytes; longer ones are made of runs (the generated Gallina file run-length codes
// byte strings, and coqc needs about 0.2 ms per literal byte).
func (g *gen) lineBytes(n int) []byte {
	b := make([]byte, 0, n)
	if n > 40 {
		for len(b) < n {
			k := 1 + g.r.Intn(n/4+1)
			if k > n-len(b) {
				k = n - len(b)
			}
			b = append(b, bytes.Repeat([]byte{g.oneByte()}, k)...)
		}
		return b
	}
	for len(b) < n {
		if !g.binary && g.r.Intn(12) == 0 {
			b = append(b, utf8Runes[g.r.Intn(len(utf8Runes))]...)
		} else {
			b = append(b, g.oneByte())
		}
	}
	return b
}

func (g *gen) lineLen() int {
	if g.short {
		return g.r.Intn(4)
	}
	switch k := g.r.Intn(100); {
	case k < 15:
		return 0
	case k < 70:
		return 1 + g.r.Intn(8)
	case k < 85:
		return 8 + g.r.Intn(30)
	case k < 94:
		return 100 + g.r.Intn(900)
	case k < 98:
		return 4000 + g.r.Intn(300) // around the bufio buffer size
	default:
		return 5000 + g.r.Intn(60000)
	}
}

// text = nLines lines (+ possibly an unterminated tail)
func (g *gen) text(maxLines int, shared [][]byte) []byte {
	var b []byte
	n := 0
	switch k := g.r.Intn(10); {
	case k == 0:
		n = 0
	case k < 7:
		n = 1 + g.r.Intn(4)
	default:
		n = 1 + g.r.Intn(maxLines)
	}
	if g.short {
		n = maxLines/2 + g.r.Intn(maxLines)
	}
	for i := 0; i < n; i++ {
		if len(shared) > 0 && g.r.Intn(3) == 0 {
			b = append(b, shared[g.r.Intn(len(shared))]...)
		} else {
			b = append(b, g.lineBytes(g.lineLen())...)
		}
		b = append(b, '\n')
	}
	if g.r.Intn(5) < 2 { // unterminated tail
		if len(shared) > 0 && g.r.Intn(3) == 0 {
			b = append(b, shared[g.r.Intn(len(shared))]...)
		} else {
			b = append(b, g.lineBytes(1+g.lineLen())...)
		}
	}
	return b
}

func (g *gen) chunk(s []byte) [][]byte {
	if len(s) == 0 {
		if g.r.Intn(2) == 0 {
			return nil
		}
		return [][]byte{{}}
	}
	var cuts []int
	switch g.r.Intn(7) {
	case 0: // one write
	case 1: // byte by byte (short texts only)
		if len(s) <= 300 {
			for i := 1; i < len(s); i++ {
				cuts = append(cuts, i)
			}
		}
	case 2: // cut right after every newline (line-buffered writer)
		for i := 0; i < len(s)-1; i++ {
			if s[i] == '\n' {
				cuts = append(cuts, i+1)
			}
		}
	case 3: // cut right BEFORE newlines
		for i := 1; i < len(s); i++ {
			if s[i] == '\n' && g.r.Intn(2) == 0 {
				cuts = append(cuts, i)
			}
		}
	case 4: // blocks of about the bufio buffer size
		sz := []int{4095, 4096, 4097, 512, 8192}[g.r.Intn(5)]
		for i := sz; i < len(s); i += sz {
			cuts = append(cuts, i)
		}
	default: // random cuts
		k := 1 + g.r.Intn(6)
		for i := 0; i < k; i++ {
			cuts = append(cuts, 1+g.r.Intn(len(s)))
		}
		sort.Ints(cuts)
	}
	var out [][]byte
	prev := 0
	for _, c := range cuts {
		if c <= prev || c >= len(s) {
			if g.r.Intn(8) == 0 {
				out = append(out, []byte{}) // an empty write now and then
			}
			continue
		}
		out = append(out, s[prev:c])
		prev = c
	}
	out = append(out, s[prev:])
	return out
}

func (g *gen) attempt(maxLines int, shared [][]byte, last bool, policy string) Attempt {
	a := Attempt{}
	switch g.r.Intn(6) {
	case 0: // stdout only
		a.Out = g.chunk(g.text(maxLines, shared))
	case 1: // stderr only
		a.Err = g.chunk(g.text(maxLines, shared))
	default:
		a.Out = g.chunk(g.text(maxLines, shared))
		a.Err = g.chunk(g.text(maxLines, shared))
	}
	a.Par = g.r.Intn(2) == 0
	if !a.Par {
		n := len(a.Out) + len(a.Err)
		for i := 0; i < n; i++ {
			a.Order = append(a.Order, g.r.Intn(2) == 0)
		}
	}
	if g.r.Intn(3) == 0 {
		a.DelayUs = 50 + g.r.Intn(1500)
	}
	switch policy {
	case "on_failure":
		if last {
			a.Code = 0
		} else {
			a.Code = 1 + g.r.Intn(3)
		}
	default:
		a.Code = g.r.Intn(3)
	}
	return a
}

func (g *gen) proc(nAtt int, maxLines int, shared [][]byte) Proc {
	p := Proc{Policy: "no"}
	if nAtt > 1 {
		if g.r.Intn(2) == 0 {
			p.Policy, p.MaxRest = "always", nAtt-1
		} else {
			p.Policy, p.MaxRest = "on_failure", nAtt+3
		}
	}
	for i := 0; i < nAtt; i++ {
		p.Attempts = append(p.Attempts, g.attempt(maxLines, shared, i == nAtt-1, p.Policy))
	}
	return p
}

func genRandom(r *rand.Rand, tier string) *Case {
	c := &Case{Kind: "random"}
	switch k := r.Intn(10); {
	case k < 2:
		c.FileMode = "none"
	case k < 6:
		c.FileMode = "proc"
	default:
		c.FileMode = "unified"
	}
	c.Flush = r.Intn(2) == 0
	c.AddTS = r.Intn(4) == 0
	c.NoMeta = c.FileMode == "proc" && r.Intn(3) == 0
	g := &gen{r: r, binary: c.FileMode == "none"}
	maxLines := 12
	switch k := r.Intn(10); {
	case k < 6: // default length
	case k < 8:
		c.LogLength = []int{1, 2, 5, 20}[r.Intn(4)]
		maxLines = 80 // enough lines to cross size+100 and be trimmed
		g.short = true
		c.Kind = "random-trim"
	default:
		c.LogLength = 50 + r.Intn(100)
	}
	var shared [][]byte
	if r.Intn(3) == 0 { // lines that occur in both streams / repeatedly (ambiguous interleavings)
		shared = [][]byte{{}, []byte("x"), []byte("same line")}
		c.Kind += "-shared"
	}
	nproc := 1
	if c.FileMode == "unified" && r.Intn(3) == 0 {
		nproc = 2
	}
	for i := 0; i < nproc; i++ {
		nAtt := 1
		if r.Intn(5) < 2 {
			nAtt = 2 + r.Intn(3)
		}
		c.Procs = append(c.Procs, g.proc(nAtt, maxLines, shared))
	}
	return c
}

// one very long line (100 kB) in the middle of ordinary output, cut into bufio-sized blocks or written at once
func genLong(r *rand.Rand, n int) *Case {
	c := &Case{Kind: fmt.Sprintf("long-%d", n), FileMode: []string{"proc", "unified", "none"}[r.Intn(3)], Flush: r.Intn(2) == 0}
	g := &gen{r: r}
	var b []byte
	b = append(b, "before\n"...)
	long := bytes.Repeat([]byte{'x'}, n)
	for i := 0; i < 5; i++ {
		long[r.Intn(n)] = byte('A' + r.Intn(26))
	}
	b = append(b, long...)
	if r.Intn(2) == 0 {
		b = append(b, "\nafter"...)
		if r.Intn(2) == 0 {
			b = append(b, '\n')
		}
	}
	a := Attempt{Out: g.chunk(b), Err: g.chunk([]byte("e1\ne2")), Par: true}
	if r.Intn(2) == 0 {
		a.Out, a.Err = a.Err, a.Out
	}
	c.Procs = []Proc{{Policy: "no", Attempts: []Attempt{a}}}
	return c
}

// every text over {a, \n} of length <= maxLen, in every chunking, on stdout (and mirrored on stderr)
func genGrid(maxLen int) []*Case {
	var cs []*Case
	for n := 0; n <= maxLen; n++ {
		for bits := 0; bits < 1<<n; bits++ {
			s := make([]byte, n)
			for i := 0; i < n; i++ {
				if bits>>i&1 == 1 {
					s[i] = '\n'
				} else {
					s[i] = 'a'
				}
			}
			nc := 1
			if n > 1 {
				nc = 1 << (n - 1)
			}
			for cut := 0; cut < nc; cut++ {
				var chunks [][]byte
				prev := 0
				for i := 1; i < n; i++ {
					if cut>>(i-1)&1 == 1 {
						chunks = append(chunks, s[prev:i])
						prev = i
					}
				}
				if n > 0 {
					chunks = append(chunks, s[prev:])
				}
				a := Attempt{Out: chunks, Par: true}
				if (bits+cut)%2 == 1 {
					a = Attempt{Err: chunks, Out: [][]byte{[]byte("o\n")}, Par: true}
				}
				cs = append(cs, &Case{Kind: fmt.Sprintf("grid-%d", n), FileMode: []string{"proc", "unified"}[(bits+cut)%2],
					Flush: cut%2 == 0, Procs: []Proc{{Policy: "no", Attempts: []Attempt{a}}}})
			}
		}
	}
	return cs
}

func octal(b []byte) string {
	var sb strings.Builder
	for _, x := range b {
		sb.WriteString(fmt.Sprintf("\\%03o", x))
	}
	return sb.String()
}

// real processes (no fake commander): sh -c "printf ...; printf ... >&2"
func genReal(r *rand.Rand, i int) *Case {
	c := &Case{Kind: "real-sh", FileMode: []string{"proc", "unified", "none"}[r.Intn(3)], Flush: r.Intn(2) == 0}
	g := &gen{r: r}
	nAtt := 1 + r.Intn(2)
	var out, errb []byte
	var cmd string
	if i%4 == 3 {
		n := 100000
		out = append(bytes.Repeat([]byte{'x'}, n), "\ntail-no-newline"...)
		errb = []byte("E\n")
		cmd = fmt.Sprintf("printf 'E\\n' >&2; awk 'BEGIN{for(i=0;i<%d;i++)printf \"x\"; printf \"\\ntail-no-newline\"}'", n)
	} else {
		gg := *g
		for len(out) == 0 || len(out) > 1500 {
			out = gg.text(6, nil)
		}
		for len(errb) > 1500 || (len(errb) == 0 && r.Intn(2) == 0) {
			errb = gg.text(6, nil)
		}
		cmd = "printf '" + octal(out) + "'"
		if len(errb) > 0 {
			cmd += "; printf '" + octal(errb) + "' >&2"
		}
	}
	p := Proc{Policy: "no", RealCmd: cmd}
	if nAtt > 1 {
		p.Policy, p.MaxRest = "always", nAtt-1
	}
	for k := 0; k < nAtt; k++ {
		a := Attempt{Out: [][]byte{out}, Par: true}
		if len(errb) > 0 {
			a.Err = [][]byte{errb}
		}
		p.Attempts = append(p.Attempts, a)
	}
	c.Procs = []Proc{p}
	return c
}

// ------------------------------------------------------------------------------------------ Gallina

func rle(b []byte) string {
	if len(b) == 0 {
		return "[]"
	}
	var items []string
	i := 0
	for i < len(b) {
		j := i
		for j < len(b) && b[j] == b[i] {
			j++
		}
		items = append(items, fmt.Sprintf("(%d,%d)", b[i], j-i))
		i = j
	}
	return "(u [" + strings.Join(items, ";") + "])"
}

func rleList(bs [][]byte) string {
	items := make([]string, len(bs))
	for i, b := range bs {
		items[i] = rle(b)
	}
	return "[" + strings.Join(items, "; ") + "]"
}

func caseCoq(c *Case, ids map[string]int) []string {
	var res []string
	var procs []string
	for _, p := range c.Procs {
		procs = append(procs, fmt.Sprintf("%d", ids[p.Name]))
	}
	for i, p := range c.Procs {
		var atts []string
		for _, a := range p.Attempts {
			atts = append(atts, "mkAtt "+rleList(a.Out)+" "+rleList(a.Err))
		}
		o := ProcObs{}
		if i < len(c.Obs) {
			o = c.Obs[i]
		}
		file := "None"
		if o.HasFile {
			var recs []string
			for _, r := range o.File {
				id, ok := ids[r.Proc]
				if !ok {
					id = 0 // unknown producer: never a member of c_procs
				}
				recs = append(recs, fmt.Sprintf("(%d, %v, %s)", id, r.Err, rle(r.Msg)))
			}
			if o.FileErr != "" {
				recs = append(recs, "(0, false, [])") // unreadable / torn file: a record of nobody
			}
			file = "(Some [" + strings.Join(recs, "; ") + "])"
		}
		launches := o.Launches
		if c.RunErr != "" && !strings.HasPrefix(c.RunErr, "run: ") {
			launches = 1000000 + launches // the run itself failed: never equal to the script length
		}
		res = append(res, fmt.Sprintf("mkCase %d%%nat %d [%s]\n  [%s]\n  %d%%nat\n  %s\n  %s",
			c.effSize(), ids[p.Name], strings.Join(procs, ";"), strings.Join(atts, ";\n   "), launches,
			rleList(o.Mem), file))
	}
	return res
}

func preview(c *Case) string {
	var sb strings.Builder
	for _, p := range c.Procs {
		for _, a := range p.Attempts {
			sb.WriteString(fmt.Sprintf("out=%q err=%q | ", trunc(string(bytes.Join(a.Out, []byte("¦"))), 60), trunc(string(bytes.Join(a.Err, []byte("¦"))), 60)))
		}
	}
	return trunc(sb.String(), 400)
}

// ------------------------------------------------------------------------------------------ main

func main() {
	seed := flag.Int64("seed", 1, "PRNG seed")
	nrand := flag.Int("n", 250, "number of random cases")
	nlong := flag.Int("nlong", 4, "number of 100 kB-line cases")
	nreal := flag.Int("nreal", 4, "number of real sh cases")
	grid := flag.Int("grid", 3, "exhaustive grid: texts over {a,\\n} up to this length in every chunking")
	workers := flag.Int("workers", 4, "cases run concurrently")
	out := flag.String("out", ".", "output directory")
	replay := flag.String("replay", "", "re-run the cases of this JSON file instead of generating")
	corpus := flag.String("corpus", "", "directory with corpus cases (*.json) that run first")
	tier := flag.String("tier", "quick", "quick|thorough")
	flag.Parse()

	log.Logger = zerolog.Nop() // the supervisor's own diagnostics, not the process logs
	// one hook set for the whole run: scripted commands for processes that have a script, real ones otherwise
	f := fakecmd.NewFactory()
	f.OnStart = onStart
	app.SetVerifHooks(&app.VerifHooks{
		Commander: func(p *app.Process) command.Commander {
			if _, ok := scripts.Load(p.VerifName()); ok {
				return f.New(p)
			}
			return nil
		},
		Backoff: func(p *app.Process, seconds int) (time.Duration, bool) { return time.Millisecond, true },
	})

	var cases []*Case
	addFile := func(p string) {
		data, err := os.ReadFile(p)
		if err != nil {
			fmt.Fprintln(os.Stderr, err)
			os.Exit(2)
		}
		var cs []*Case
		if err := json.Unmarshal(data, &cs); err != nil {
			fmt.Fprintln(os.Stderr, p, err)
			os.Exit(2)
		}
		for _, c := range cs {
			c.Obs, c.RunErr, c.TimedOut, c.WallUs = nil, "", false, 0
			cases = append(cases, c)
		}
	}
	if *replay != "" {
		addFile(*replay)
	} else {
		if *corpus != "" {
			files, _ := filepath.Glob(filepath.Join(*corpus, "*.json"))
			sort.Strings(files)
			for _, fn := range files {
				addFile(fn)
			}
		}
		cases = append(cases, genGrid(*grid)...)
		r := rand.New(rand.NewSource(*seed))
		for i := 0; i < *nlong; i++ {
			cases = append(cases, genLong(r, 100000))
		}
		for i := 0; i < *nreal; i++ {
			cases = append(cases, genReal(r, i))
		}
		for i := 0; i < *nrand; i++ {
			cases = append(cases, genRandom(r, *tier))
		}
	}
	root, err := os.MkdirTemp("", "c11-run-")
	if err != nil {
		panic(err)
	}
	defer os.RemoveAll(root)

	// the case being run is recorded so that a crash of the supervisor code (panic in one of its goroutines)
	// can be attributed to an input
	inflight := filepath.Join(*out, "inflight")
	_ = os.MkdirAll(inflight, 0o755)
	var wg sync.WaitGroup
	sem := make(chan struct{}, *workers)
	for i, c := range cases {
		wg.Add(1)
		sem <- struct{}{}
		go func(i int, c *Case) {
			defer wg.Done()
			defer func() { <-sem }()
			c.Preview = preview(c)
			fn := filepath.Join(inflight, fmt.Sprintf("%d.json", i))
			js, _ := json.Marshal([]*Case{c})
			_ = os.WriteFile(fn, js, 0o644)
			runCase(c, root, i)
			_ = os.Remove(fn)
		}(i, c)
	}
	wg.Wait()

	ids := map[string]int{}
	for _, c := range cases {
		for _, p := range c.Procs {
			ids[p.Name] = len(ids) + 1
		}
	}
	var sb strings.Builder
	sb.WriteString("From Coq Require Import List ZArith NArith.\nFrom PC.Lines Require Import Model Check.\nImport ListNotations.\nOpen Scope N_scope.\n")
	sb.WriteString("Definition u := unrle.\n")
	// one ocase per process; index table back to the JSON cases
	var index [][2]int
	var names []string
	n := 0
	for ci, c := range cases {
		for pi, s := range caseCoq(c, ids) {
			nm := fmt.Sprintf("c_%d", n)
			sb.WriteString("Definition " + nm + " : ocase := " + s + ".\n")
			names = append(names, nm)
			index = append(index, [2]int{ci, pi})
			n++
		}
	}
	sb.WriteString("Definition cases : list ocase := [" + strings.Join(names, "; ") + "].\n")
	sb.WriteString("Close Scope N_scope.\n")
	sb.WriteString("Definition r_bad_model := Eval vm_compute in bad_model cases.\nPrint r_bad_model.\n")
	sb.WriteString("Definition r_bad_monitor := Eval vm_compute in bad_monitor cases.\nPrint r_bad_monitor.\n")
	sb.WriteString("Definition r_bad_model_orig := Eval vm_compute in bad_model_orig cases.\nPrint r_bad_model_orig.\n")
	if err := os.WriteFile(filepath.Join(*out, "cases_C11.v"), []byte(sb.String()), 0o644); err != nil {
		panic(err)
	}
	js, _ := json.Marshal(map[string]interface{}{"cases": cases, "index": index})
	if err := os.WriteFile(filepath.Join(*out, "cases_C11.json"), js, 0o644); err != nil {
		panic(err)
	}

	// statistics for the evidence file
	stats := map[string]int{}
	for _, c := range cases {
		stats["cases"]++
		stats["kind_"+strings.SplitN(c.Kind, "-", 2)[0]]++
		stats["file_"+c.FileMode]++
		if c.Flush {
			stats["flush_each_line"]++
		}
		if c.NoMeta {
			stats["no_metadata"]++
		}
		if c.AddTS {
			stats["add_timestamp"]++
		}
		if len(c.Procs) > 1 {
			stats["two_processes_one_file"]++
		}
		if c.LogLength != 0 && c.LogLength <= 20 {
			stats["small_log_length"]++
		}
		if c.RunErr != "" && !strings.HasPrefix(c.RunErr, "run: ") {
			stats["run_errors"]++
		}
		for pi, p := range c.Procs {
			stats["processes"]++
			stats["attempts"] += len(p.Attempts)
			if len(p.Attempts) > 1 {
				stats["procs_with_restarts"]++
			}
			nb, nlines, maxline := 0, 0, 0
			for _, a := range p.Attempts {
				for _, s := range [][][]byte{a.Out, a.Err} {
					t := bytes.Join(s, nil)
					nb += len(t)
					stats["chunks"] += len(s)
					if len(t) > 0 && t[len(t)-1] != '\n' {
						stats["streams_without_final_newline"]++
					}
					for _, l := range bytes.Split(t, []byte("\n")) {
						nlines++
						if len(l) > maxline {
							maxline = len(l)
						}
					}
				}
				if a.DelayUs == 0 {
					stats["attempts_exit_right_after_last_write"]++
				}
			}
			stats["bytes"] += nb
			if maxline >= 4096 {
				stats["procs_with_line_over_4096"]++
			}
			if maxline >= 100000 {
				stats["procs_with_line_100k"]++
			}
			if pi < len(c.Obs) && len(c.Obs[pi].Mem) < nlines-len(p.Attempts)*2 && c.LogLength != 0 {
				stats["procs_trimmed_log"]++
			}
		}
	}
	stats["ocases"] = n
	sj, _ := json.Marshal(stats)
	fmt.Println(string(sj))
}
