// c07: correspondence harness for the run plan (property C07).
//
// A case is a small process-compose configuration (processes with depends_on, disabled,
// is_foreground, namespace, replicas; is_strict), the namespaces selected on the command line, the
// processes requested on the command line and the no-deps switch.  For every case the harness
//
//  1. writes the YAML file and loads it through loader.Load (NamespaceAdmitter installed),
//  2. builds the runner with app.NewProjectRunner (process selection),
//  3. reads GetProcessesState() and GetDependenciesOrderNames(),
//  4. calls Run() with scripted commands (harness/fakecmd) that exit with code 0 at once and
//     records which commands were launched,
//
// and writes what it saw as Gallina terms of type PC.Graph.Check.ocase:
//
//	<out>/cases_C07_<j>.v   j = 0 .. shards-1   (evaluated by coqc: r_bad_model, r_bad_monitor, r_f18)
//	<out>/cases_C07.json    everything, incl. YAML text, identifier tables and error strings (replayable)
//
// The last line on stdout is one JSON object of statistics.
//
// files: types.go (case schema), gen.go (generators), run.go (driving the implementation),
// emit.go (identifier table, Gallina output).
package main

import (
	"encoding/json"
	"flag"
	"fmt"
	"math/rand"
	"os"
	"path/filepath"
	"sort"
	"strings"
	"time"

	"github.com/rs/zerolog"
	"github.com/rs/zerolog/log"
)

// readCases reads a JSON array of cases; only kind and input are kept.
func readCases(path string, kind func(old string) string) []*Case {
	data, err := os.ReadFile(path)
	if err != nil {
		harnessError("%v", err)
	}
	var in []*Case
	if err := json.Unmarshal(data, &in); err != nil {
		harnessError("%s: %v", path, err)
	}
	out := make([]*Case, len(in))
	for i, c := range in {
		out[i] = &Case{Kind: kind(c.Kind), Input: c.Input}
	}
	return out
}

func main() {
	out := flag.String("out", ".", "output directory")
	seed := flag.Int64("seed", 1, "PRNG seed")
	nrand := flag.Int("n", 300, "number of random cases")
	maxn := flag.Int("maxn", 3, "exhaustive grids up to this many nodes (at most 5)")
	max10 := flag.Int("max10", -1, "random cases: at most this many processes with replicas 10 per case (-1 = no limit)")
	shards := flag.Int("shards", 1, "number of cases_C07_<j>.v files")
	corpus := flag.String("corpus", "", "directory with corpus cases (*.json) that run first")
	replay := flag.String("replay", "", "re-run the cases of this JSON file instead of generating")
	flag.Parse()
	if *maxn > 5 || *maxn < 0 || *shards < 1 {
		harnessError("bad -maxn / -shards")
	}

	// ---- the cases
	var cases []*Case
	if *replay != "" {
		cases = readCases(*replay, func(old string) string {
			if old == "" {
				return "replay"
			}
			return old
		})
	} else {
		if *corpus != "" {
			files, _ := filepath.Glob(filepath.Join(*corpus, "*.json"))
			sort.Strings(files)
			for _, f := range files {
				cases = append(cases, readCases(f, func(string) string { return "corpus:" + filepath.Base(f) })...)
			}
		}
		r := rand.New(rand.NewSource(*seed))
		cases = append(cases, genDirected()...)
		cases = append(cases, genGridLoad(*maxn)...)
		cases = append(cases, genGridSelect(r, *maxn)...)
		for i := 0; i < *nrand; i++ {
			cases = append(cases, genRandom(r, *max10))
		}
	}

	// ---- run the implementation.  Its logging is switched off and whatever it prints to stdout
	// (process output lines when the TUI is off) goes to /dev/null: stdout carries only the statistics.
	zerolog.SetGlobalLevel(zerolog.Disabled)
	log.Logger = zerolog.Nop()
	realStdout := os.Stdout
	if devnull, err := os.OpenFile(os.DevNull, os.O_WRONLY, 0); err == nil {
		os.Stdout = devnull
	}
	if err := os.MkdirAll(*out, 0o755); err != nil {
		harnessError("%v", err)
	}
	dir, err := os.MkdirTemp("", "c07-")
	if err != nil {
		harnessError("%v", err)
	}
	t0 := time.Now()
	// A hanging Run() costs runTimeout; after maxHangs of them the run phase stops and only the cases
	// executed so far are emitted (the check reports every hang as a violation anyway).
	hangs := 0
	for i, c := range cases {
		runCase(c, dir)
		if c.Obs.Hang {
			hangs++
			if hangs >= maxHangs {
				cases = cases[:i+1]
				break
			}
		}
	}
	wall := time.Since(t0)
	_ = os.RemoveAll(dir)
	os.Stdout = realStdout

	// ---- Gallina shards (contiguous slices) and the JSON file
	terms := make([]string, len(cases))
	for i, c := range cases {
		terms[i] = caseCoq(c)
	}
	shardSizes := make([]int, *shards)
	for j := 0; j < *shards; j++ {
		lo, hi := j*len(cases) / *shards, (j+1)*len(cases) / *shards
		shardSizes[j] = hi - lo
		p := filepath.Join(*out, fmt.Sprintf("cases_C07_%d.v", j))
		if err := os.WriteFile(p, []byte(shardFile(terms[lo:hi])), 0o644); err != nil {
			harnessError("%v", err)
		}
	}
	js, _ := json.Marshal(cases)
	if err := os.WriteFile(filepath.Join(*out, "cases_C07.json"), js, 0o644); err != nil {
		harnessError("%v", err)
	}

	// ---- statistics
	kinds, verdicts, nodes := map[string]int{}, map[string]int{}, map[string]int{}
	var loadOK, runnerOK, orderErr, hang, replicated, nsSelected, withReq, withNoDeps, launches, strict int
	var runUsSum, runUsMax, loadUsSum int64
	for _, c := range cases {
		kinds[strings.SplitN(c.Kind, ":", 2)[0]]++ // "directed:<what>" and "corpus:<file>" are counted together
		verdicts[c.Obs.Load]++
		nodes[fmt.Sprint(len(c.Input.Procs))]++
		count := func(b bool, n *int) {
			if b {
				*n++
			}
		}
		rep := false
		for i := range c.Input.Procs {
			rep = rep || c.Input.Procs[i].replicas() > 1
		}
		count(c.Obs.Load == "VOk", &loadOK)
		count(c.Obs.RunnerOK, &runnerOK)
		count(c.Obs.OrderErr, &orderErr)
		count(c.Obs.Hang, &hang)
		count(rep, &replicated)
		count(len(c.Input.Nss) > 0, &nsSelected)
		count(len(c.Input.Req) > 0, &withReq)
		count(c.Input.NoDeps, &withNoDeps)
		count(c.Input.Strict, &strict)
		launches += len(c.Obs.Launched)
		runUsSum += c.Obs.RunMicros
		loadUsSum += c.Obs.LoadMicros
		if c.Obs.RunMicros > runUsMax {
			runUsMax = c.Obs.RunMicros
		}
	}
	stats := map[string]interface{}{
		"cases": len(cases), "kinds": kinds, "load_verdicts": verdicts, "nodes": nodes,
		"load_ok": loadOK, "runner_ok": runnerOK, "order_err": orderErr, "hang": hang,
		"with_replicas": replicated, "with_namespaces_selected": nsSelected, "with_req": withReq,
		"with_nodeps": withNoDeps, "with_strict": strict, "launches": launches,
		"shard_sizes": shardSizes, "run_phase_ms": wall.Milliseconds(),
		"run_call_us_sum": runUsSum, "run_call_us_max": runUsMax, "load_call_us_sum": loadUsSum, "seed": *seed,
	}
	sj, _ := json.Marshal(stats)
	fmt.Println(string(sj))
}
