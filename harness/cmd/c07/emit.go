package main

import (
	"fmt"
	"strings"

	"pcverif/coqfmt"
)

// idTable maps strings to the N identifiers of the Coq side: 1, 2, ... in order of first appearance.
type idTable struct {
	ids   map[string]uint64
	names []string
}

func newIDTable() *idTable { return &idTable{ids: map[string]uint64{}} }

func (t *idTable) id(s string) uint64 {
	if v, ok := t.ids[s]; ok {
		return v
	}
	t.names = append(t.names, s)
	v := uint64(len(t.names))
	t.ids[s] = v
	return v
}

func (t *idTable) list(ss []string) string {
	vs := make([]uint64, len(ss))
	for i, s := range ss {
		vs[i] = t.id(s)
	}
	return coqfmt.ListN(vs)
}

// fillFromInput assigns the identifiers of every string of the input in a fixed order, so that the
// numbering does not depend on what the implementation answered.  A string that shows up only in
// the output gets a fresh identifier later (and the Coq side sees a mismatch).
func (t *idTable) fillFromInput(in *Input) {
	for i := range in.Procs {
		t.id(in.Procs[i].Name)
	}
	for i := range in.Procs {
		for _, k := range in.Procs[i].keys() {
			t.id(k)
		}
	}
	for i := range in.Procs {
		for _, d := range in.Procs[i].Deps {
			t.id(d)
		}
	}
	for i := range in.Procs {
		t.id(in.Procs[i].namespace())
	}
	for _, s := range in.Nss {
		t.id(s)
	}
	for _, s := range in.Req {
		t.id(s)
	}
}

func statusCoq(s string) string {
	switch s {
	case "Disabled":
		return "StDisabled"
	case "Foreground":
		return "StForeground"
	case "Pending":
		return "StPending"
	}
	harnessError("status %q has no Coq constructor", s)
	return ""
}

// caseCoq renders a case as a term of type Check.ocase and stores the identifier table in c.Ids.
func caseCoq(c *Case) string {
	t := newIDTable()
	in := &c.Input
	t.fillFromInput(in)

	procs := make([]string, len(in.Procs))
	for i := range in.Procs {
		p := &in.Procs[i]
		procs[i] = fmt.Sprintf("mkCproc %s %s %s %s %s %s", coqfmt.N(t.id(p.Name)), t.list(p.Deps),
			coqfmt.Bool(p.Disabled), coqfmt.Bool(p.Foreground), coqfmt.N(t.id(p.namespace())), t.list(p.keys()))
	}
	input := fmt.Sprintf("(mkInput %s %s %s %s %s)", coqfmt.List(procs), coqfmt.Bool(in.Strict),
		t.list(in.Nss), t.list(in.Req), coqfmt.Bool(in.NoDeps))

	o := c.Obs
	var term string
	switch {
	case o.Load != "VOk":
		term = fmt.Sprintf("mkCase %s\n   %s [] false [] false [] []", input, o.Load)
	case !o.RunnerOK:
		term = fmt.Sprintf("mkCase %s\n   VOk %s false [] false [] []", input, t.list(o.Keys))
	default:
		sts := make([]string, len(o.Status))
		for i, s := range o.Status {
			sts[i] = coqfmt.Pair(coqfmt.N(t.id(s.Key)), statusCoq(s.Status))
		}
		term = fmt.Sprintf("mkCase %s\n   VOk %s true %s\n   %s %s %s", input, t.list(o.Keys), coqfmt.List(sts),
			coqfmt.Bool(o.OrderErr), t.list(o.Order), t.list(o.Launched))
	}
	c.Ids = append([]string{}, t.names...)
	return term
}

// shardFile renders one cases_C07_<j>.v.
func shardFile(terms []string) string {
	var sb strings.Builder
	sb.WriteString("From Coq Require Import List NArith Bool.\n")
	sb.WriteString("From PC.Graph Require Import Model Check.\n")
	sb.WriteString("Import ListNotations.\n")
	sb.WriteString("Definition cases : list ocase := [\n")
	sb.WriteString(strings.Join(terms, ";\n"))
	sb.WriteString("\n].\n")
	sb.WriteString("Definition r_bad_model := Eval vm_compute in bad_model cases.\nPrint r_bad_model.\n")
	sb.WriteString("Definition r_bad_monitor := Eval vm_compute in bad_monitor cases.\nPrint r_bad_monitor.\n")
	sb.WriteString("Definition r_f18 := Eval vm_compute in f18_cases cases.\nPrint r_f18.\n")
	return sb.String()
}
