package main

import (
	"fmt"
	"math/rand"
)

func pname(i int) string { return fmt.Sprintf("p%d", i) }

// graphProcs builds the processes p0..p(n-1) of the directed graph given by n*n edge bits:
// bit i*n+j set  <=>  p_i depends on p_j  (i == j is a self loop).
func graphProcs(n int, bits uint32) []Proc {
	ps := make([]Proc, n)
	for i := 0; i < n; i++ {
		ps[i] = Proc{Name: pname(i), Deps: []string{}}
		for j := 0; j < n; j++ {
			if bits&(1<<uint(i*n+j)) != 0 {
				ps[i].Deps = append(ps[i].Deps, pname(j))
			}
		}
	}
	return ps
}

// acyclic: Kahn's algorithm on the edge bits.
func acyclic(n int, bits uint32) bool {
	removed := make([]bool, n)
	for left := n; left > 0; {
		found := false
		for i := 0; i < n && !found; i++ {
			if removed[i] {
				continue
			}
			free := true // p_i depends on nothing that is still there
			for j := 0; j < n; j++ {
				if !removed[j] && bits&(1<<uint(i*n+j)) != 0 {
					free = false
				}
			}
			if free {
				removed[i], found = true, true
				left--
			}
		}
		if !found {
			return false
		}
	}
	return true
}

func hasIncoming(n int, bits uint32, j int) bool {
	for i := 0; i < n; i++ {
		if bits&(1<<uint(i*n+j)) != 0 {
			return true
		}
	}
	return false
}

// A. "grid-load": every directed graph on 1..maxn nodes, plain markings, nothing requested.
func genGridLoad(maxn int) []*Case {
	var cs []*Case
	for n := 1; n <= maxn; n++ {
		for bits := uint32(0); bits < 1<<uint(n*n); bits++ {
			cs = append(cs, &Case{Kind: "grid-load", Input: Input{Procs: graphProcs(n, bits)}})
		}
	}
	return cs
}

// B. "grid-select": every acyclic graph x every non-empty requested subset x nodeps, with plain
// markings and (n <= 3) once more with random markings.
func genGridSelect(r *rand.Rand, maxn int) []*Case {
	var cs []*Case
	for n := 1; n <= maxn; n++ {
		for bits := uint32(0); bits < 1<<uint(n*n); bits++ {
			if !acyclic(n, bits) {
				continue
			}
			for sub := 1; sub < 1<<uint(n); sub++ {
				var req []string
				for i := 0; i < n; i++ {
					if sub&(1<<uint(i)) != 0 {
						req = append(req, pname(i))
					}
				}
				for _, nodeps := range []bool{false, true} {
					cs = append(cs, &Case{Kind: "grid-select",
						Input: Input{Procs: graphProcs(n, bits), Req: req, NoDeps: nodeps}})
					if n > 3 {
						continue
					}
					ps := graphProcs(n, bits)
					for i := range ps {
						ps[i].Disabled = r.Float64() < 0.25
						ps[i].Foreground = r.Float64() < 0.2
						if r.Float64() < 0.2 && !hasIncoming(n, bits, i) {
							ps[i].Replicas = 2
						}
						if r.Float64() < 0.2 {
							ps[i].Namespace = "nsA"
						}
					}
					var nss []string
					switch k := r.Intn(10); {
					case k == 0:
						nss = []string{"default"}
					case k == 1:
						nss = []string{"nsA"}
					case k == 2:
						nss = []string{"default", "nsA"}
					}
					cs = append(cs, &Case{Kind: "grid-select-marked",
						Input: Input{Procs: ps, Nss: nss, Req: append([]string{}, req...), NoDeps: nodeps}})
				}
			}
		}
	}
	return cs
}

func pick(r *rand.Rand, ss []string) string { return ss[r.Intn(len(ss))] }

func addDep(p *Proc, d string) {
	for _, x := range p.Deps {
		if x == d {
			return
		}
	}
	p.Deps = append(p.Deps, d)
}

// C. "random": 5..8 processes, mostly valid, with the listed perturbations.
// max10 >= 0 limits how many processes of one case get replicas 10 (further draws of 10 become 3);
// the PRNG stream does not depend on it.
func genRandom(r *rand.Rand, max10 int) *Case {
	n := 5 + r.Intn(4)
	perm := r.Perm(n)
	prob := []float64{0.15, 0.3, 0.5}[r.Intn(3)]
	ps := make([]Proc, n)
	for i := range ps {
		ps[i] = Proc{Name: pname(i), Deps: []string{}}
	}
	// incoming[j] = some process depends on p_j by its NAME
	incoming := make([]bool, n)
	// edges only from later to earlier in the permutation: acyclic
	for b := 1; b < n; b++ {
		for a := 0; a < b; a++ {
			if r.Float64() < prob {
				addDep(&ps[perm[b]], pname(perm[a]))
				incoming[perm[a]] = true
			}
		}
	}
	// one back edge (or self loop): may close a cycle
	if r.Float64() < 0.15 {
		a := r.Intn(n)
		b := a + r.Intn(n-a)
		addDep(&ps[perm[a]], pname(perm[b]))
		incoming[perm[b]] = true
	}
	// a dependency on a name that is not defined, in one or two processes
	if r.Float64() < 0.08 {
		for k := 1 + r.Intn(2); k > 0; k-- {
			addDep(&ps[r.Intn(n)], "ghost")
		}
	}
	// replicas for processes nobody depends on
	tens := 0
	replicas := func(choice []int) int {
		n := choice[r.Intn(len(choice))]
		if n == 10 {
			if tens++; max10 >= 0 && tens > max10 {
				return 3
			}
		}
		return n
	}
	for i := range ps {
		if !incoming[i] {
			ps[i].Replicas = replicas([]int{1, 1, 1, 1, 2, 3, 10})
		}
	}
	// legal dependency on a replicated process: every dependency on p_x names one of its replica KEYS
	if r.Float64() < 0.1 {
		var cand []int
		for i := range ps {
			if incoming[i] {
				cand = append(cand, i)
			}
		}
		if len(cand) > 0 {
			x := cand[r.Intn(len(cand))]
			ps[x].Replicas = replicas([]int{2, 3, 10})
			keys := ps[x].keys()
			for i := range ps {
				for k, d := range ps[i].Deps {
					if d == ps[x].Name {
						ps[i].Deps[k] = pick(r, keys)
					}
				}
			}
			incoming[x] = false
		}
	}
	// finding F18: dependency on a replicated process by its base name
	if r.Float64() < 0.1 {
		var cand []int
		for i := range ps {
			if incoming[i] {
				cand = append(cand, i)
			}
		}
		if len(cand) > 0 {
			ps[cand[r.Intn(len(cand))]].Replicas = 2
		}
	}
	for i := range ps {
		ps[i].Disabled = r.Float64() < 0.15
		ps[i].Foreground = r.Float64() < 0.1
		switch k := r.Intn(10); {
		case k < 6:
		case k < 8:
			ps[i].Namespace = "nsA"
		default:
			ps[i].Namespace = "nsB"
		}
	}
	in := Input{Procs: ps, Strict: r.Float64() < 0.1}
	if r.Float64() >= 0.6 {
		all := []string{"default", "nsA", "nsB"}
		for len(in.Nss) == 0 {
			for _, s := range all {
				if r.Intn(2) == 0 {
					in.Nss = append(in.Nss, s)
				}
			}
		}
	}
	if r.Float64() >= 0.35 {
		var repKeys []string
		for i := range ps {
			if ps[i].replicas() > 1 {
				repKeys = append(repKeys, ps[i].keys()...)
			}
		}
		for k := 1 + r.Intn(3); k > 0; k-- {
			switch x := r.Float64(); {
			case x < 0.04:
				in.Req = append(in.Req, "nope")
			case x < 0.14 && len(repKeys) > 0:
				in.Req = append(in.Req, pick(r, repKeys))
			default:
				in.Req = append(in.Req, pname(r.Intn(n)))
			}
		}
		in.NoDeps = r.Float64() < 0.35
	}
	return &Case{Kind: "random", Input: in}
}

// D. "directed": hand-written scenarios.
func genDirected() []*Case {
	P := func(name string, deps ...string) Proc { return Proc{Name: name, Deps: append([]string{}, deps...)} }
	dis := func(p Proc) Proc { p.Disabled = true; return p }
	fg := func(p Proc) Proc { p.Foreground = true; return p }
	ns := func(p Proc, s string) Proc { p.Namespace = s; return p }
	rep := func(p Proc, n int) Proc { p.Replicas = n; return p }
	mk := func(what string, in Input) *Case {
		in.Procs = append([]Proc{}, in.Procs...) // chain and diamond are used several times
		return &Case{Kind: "directed:" + what, Input: in}
	}
	chain := []Proc{P("p0"), P("p1", "p0"), P("p2", "p1")}
	diamond := []Proc{P("p0"), P("p1", "p0"), P("p2", "p0"), P("p3", "p1", "p2")}
	return []*Case{
		mk("chain", Input{Procs: chain}),
		mk("chain-req-last", Input{Procs: chain, Req: []string{"p2"}}),
		mk("chain-req-last-nodeps", Input{Procs: chain, Req: []string{"p2"}, NoDeps: true}),
		mk("chain-req-middle", Input{Procs: chain, Req: []string{"p1"}}),
		mk("diamond", Input{Procs: diamond}),
		mk("diamond-req-top", Input{Procs: diamond, Req: []string{"p3"}}),
		mk("diamond-req-side", Input{Procs: diamond, Req: []string{"p1"}}),
		mk("disabled-dep-in-closure", Input{Procs: []Proc{dis(P("p0")), P("p1", "p0"), P("p2")}, Req: []string{"p1"}}),
		mk("disabled-dep-no-req", Input{Procs: []Proc{dis(P("p0")), P("p1", "p0"), P("p2")}}),
		mk("disabled-dep-strict", Input{Procs: []Proc{dis(P("p0")), P("p1", "p0")}, Strict: true}),
		mk("disabled-dep-of-disabled-strict", Input{Procs: []Proc{dis(P("p0")), dis(P("p1", "p0"))}, Strict: true}),
		mk("disabled-requested", Input{Procs: []Proc{dis(P("p0")), P("p1")}, Req: []string{"p0"}}),
		mk("disabled-requested-nodeps", Input{Procs: []Proc{dis(P("p0")), P("p1")}, Req: []string{"p0"}, NoDeps: true}),
		mk("foreground-in-closure", Input{Procs: []Proc{fg(P("p0")), P("p1", "p0"), P("p2")}, Req: []string{"p1"}}),
		mk("foreground-requested", Input{Procs: []Proc{fg(P("p0")), P("p1")}, Req: []string{"p0"}}),
		mk("foreground-requested-nodeps", Input{Procs: []Proc{fg(P("p0")), P("p1")}, Req: []string{"p0"}, NoDeps: true}),
		mk("foreground-no-req", Input{Procs: []Proc{fg(P("p0")), P("p1", "p0")}}),
		mk("namespace-cut", Input{Procs: []Proc{P("p0"), ns(P("p1", "p0"), "nsA")}, Nss: []string{"nsA"}}),
		mk("namespace-cut-req", Input{Procs: []Proc{P("p0"), ns(P("p1", "p0"), "nsA")}, Nss: []string{"nsA"}, Req: []string{"p1"}}),
		mk("namespace-cut-req-nodeps", Input{Procs: []Proc{P("p0"), ns(P("p1", "p0"), "nsA")}, Nss: []string{"nsA"}, Req: []string{"p1"}, NoDeps: true}),
		mk("namespace-req-outside", Input{Procs: []Proc{P("p0"), ns(P("p1"), "nsA")}, Nss: []string{"nsA"}, Req: []string{"p0"}}),
		mk("namespace-none-admitted", Input{Procs: []Proc{P("p0"), P("p1", "p0")}, Nss: []string{"nsB"}}),
		mk("replicas10-req-base", Input{Procs: []Proc{rep(P("p0"), 10), P("p1")}, Req: []string{"p0"}}),
		mk("replicas10-no-req", Input{Procs: []Proc{rep(P("p0"), 10), P("p1")}}),
		mk("replicas2-req-key", Input{Procs: []Proc{rep(P("p0"), 2), P("p1")}, Req: []string{"p0-1"}}),
		mk("replicas2-req-key-nodeps", Input{Procs: []Proc{rep(P("p0"), 2), P("p1")}, Req: []string{"p0-1"}, NoDeps: true}),
		mk("replicas2-req-base-nodeps", Input{Procs: []Proc{rep(P("p0"), 2), P("p1")}, Req: []string{"p0"}, NoDeps: true}),
		mk("replicas2-dep-on-key", Input{Procs: []Proc{rep(P("p0"), 2), P("p1", "p0-0")}, Req: []string{"p1"}}),
		mk("replicas2-with-deps-req-base", Input{Procs: []Proc{P("p0"), rep(P("p1", "p0"), 2), P("p2")}, Req: []string{"p1"}}),
		mk("f18-dep-on-replicated-base", Input{Procs: []Proc{rep(P("p0"), 2), P("p1", "p0")}}),
		mk("f18-dep-on-replicated-base-strict", Input{Procs: []Proc{rep(P("p0"), 2), P("p1", "p0")}, Strict: true}),
		mk("unknown-req", Input{Procs: []Proc{P("p0"), P("p1", "p0")}, Req: []string{"nope"}}),
		mk("unknown-req-nodeps", Input{Procs: []Proc{P("p0"), P("p1", "p0")}, Req: []string{"nope"}, NoDeps: true}),
		mk("unknown-and-known-req", Input{Procs: []Proc{P("p0"), P("p1", "p0")}, Req: []string{"p1", "nope"}}),
		mk("self-loop", Input{Procs: []Proc{P("p0", "p0")}}),
		mk("two-cycle", Input{Procs: []Proc{P("p0", "p1"), P("p1", "p0")}}),
		mk("cycle-unreachable-from-some", Input{Procs: []Proc{P("p0"), P("p1", "p2"), P("p2", "p1"), P("p3", "p0")}}),
		mk("ghost-twice", Input{Procs: []Proc{P("p0", "ghost"), P("p1", "ghost")}}),
		mk("ghost-twice-strict", Input{Procs: []Proc{P("p0", "ghost"), P("p1", "ghost")}, Strict: true}),
		mk("ghost-chain", Input{Procs: []Proc{P("p0", "ghost"), P("p1", "p0"), P("p2", "p1", "ghost")}}),
		mk("ghost-and-cycle", Input{Procs: []Proc{P("p0", "ghost"), P("p1", "p2"), P("p2", "p1")}}),
	}
}
