package main

import (
	"fmt"
	"os"
	"path/filepath"
	"sort"
	"strings"
	"time"

	"github.com/f1bonacc1/process-compose/src/admitter"
	"github.com/f1bonacc1/process-compose/src/app"
	"github.com/f1bonacc1/process-compose/src/loader"
	"github.com/f1bonacc1/process-compose/src/types"
	"pcverif/fakecmd"
)

const runTimeout = 5 * time.Second

// maxHangs: the run phase is cut short after this many hanging Run() calls.
const maxHangs = 3

// yamlOf renders the configuration file of a case.  Written by hand so that nothing of the
// implementation's own (un)marshalling is used to produce the input.
func yamlOf(in *Input) string {
	var sb strings.Builder
	sb.WriteString("version: \"0.5\"\n")
	if in.Strict {
		sb.WriteString("is_strict: true\n")
	}
	if len(in.Procs) == 0 {
		sb.WriteString("processes: {}\n")
		return sb.String()
	}
	sb.WriteString("processes:\n")
	for i := range in.Procs {
		p := &in.Procs[i]
		fmt.Fprintf(&sb, "  %q:\n    command: \"true\"\n", p.Name)
		if p.replicas() > 1 {
			fmt.Fprintf(&sb, "    replicas: %d\n", p.replicas())
		}
		if p.Disabled {
			sb.WriteString("    disabled: true\n")
		}
		if p.Foreground {
			sb.WriteString("    is_foreground: true\n")
		}
		if p.Namespace != "" {
			fmt.Fprintf(&sb, "    namespace: %q\n", p.Namespace)
		}
		if len(p.Deps) > 0 {
			sb.WriteString("    depends_on:\n")
			for _, d := range p.Deps {
				fmt.Fprintf(&sb, "      %q:\n        condition: process_completed\n", d)
			}
		}
	}
	return sb.String()
}

// classify maps the error of loader.Load to the verdict enum of the Coq side.
func classify(err error) string {
	if err == nil {
		return "VOk"
	}
	msg := err.Error()
	switch {
	case strings.Contains(msg, "circular dependency"):
		return "VCycle"
	case strings.Contains(msg, "is not defined"):
		return "VUndefined"
	case strings.Contains(msg, "is disabled"):
		return "VDisabledDep"
	}
	return "VOther"
}

func harnessError(format string, args ...interface{}) {
	fmt.Fprintf(os.Stderr, "c07 harness error: "+format+"\n", args...)
	os.Exit(2)
}

// load runs the public loader entry point on the YAML file; a panic becomes an error.
func load(path string, nss []string) (project *types.Project, err error) {
	defer func() {
		if r := recover(); r != nil {
			project, err = nil, fmt.Errorf("panic: %v", r)
		}
	}()
	opts := &loader.LoaderOptions{FileNames: []string{path}, IsInternalLoader: true}
	opts.DisableDotenv(true)
	opts.AddAdmitter(&admitter.NamespaceAdmitter{EnabledNamespaces: nss})
	return loader.Load(opts)
}

func newRunner(project *types.Project, req []string, nodeps bool) (runner *app.ProjectRunner, err error) {
	defer func() {
		if r := recover(); r != nil {
			runner, err = nil, fmt.Errorf("panic: %v", r)
		}
	}()
	return app.NewProjectRunner((&app.ProjectOpts{}).
		WithProject(project).
		WithProcessesToRun(req).
		WithNoDeps(nodeps).
		WithIsTuiOn(false))
}

// runCase runs the implementation on c.Input and fills c.Yaml and c.Obs.
// dir is a scratch directory owned by the caller.
func runCase(c *Case, dir string) {
	c.Input.normalise()
	c.Yaml = yamlOf(&c.Input)
	o := &Obs{Keys: []string{}, Status: []KeyStatus{}, Order: []string{}, Launched: []string{}}
	c.Obs = o

	tLoad := time.Now()
	path := filepath.Join(dir, "process-compose.yaml")
	if err := os.WriteFile(path, []byte(c.Yaml), 0o644); err != nil {
		harnessError("write %s: %v", path, err)
	}

	// ---- Load
	project, err := load(path, append([]string{}, c.Input.Nss...))
	o.Load = classify(err)
	o.LoadMicros = time.Since(tLoad).Microseconds()
	if err != nil {
		o.LoadErr = err.Error()
		return
	}
	for k := range project.Processes {
		o.Keys = append(o.Keys, k)
	}
	sort.Strings(o.Keys)

	// ---- NewProjectRunner (process selection)
	runner, err := newRunner(project, append([]string{}, c.Input.Req...), c.Input.NoDeps)
	if err != nil {
		o.RunnerErr = err.Error()
		return
	}
	o.RunnerOK = true

	// ---- process list before Run
	states, err := runner.GetProcessesState()
	if err != nil {
		harnessError("GetProcessesState: %v\n%s", err, c.Yaml)
	}
	for _, st := range states.States {
		switch st.Status {
		case types.ProcessStateDisabled, types.ProcessStateForeground, types.ProcessStatePending:
		default:
			harnessError("unexpected status %q of %q before Run\n%s", st.Status, st.Name, c.Yaml)
		}
		o.Status = append(o.Status, KeyStatus{Key: st.Name, Status: st.Status})
	}
	sort.Slice(o.Status, func(i, j int) bool { return o.Status[i].Key < o.Status[j].Key })

	// ---- start order
	names, err := runner.GetDependenciesOrderNames()
	if err != nil {
		o.OrderErr = true
		o.OrderErrMsg = err.Error()
	}
	o.Order = append(o.Order, names...)

	// ---- Run with scripted commands: every command exits with code 0 as soon as it is started.
	// Exit only closes the (unbuffered, already being read) output pipes and a channel: it cannot block.
	f := fakecmd.NewFactory()
	f.OnStart = func(cmd *fakecmd.Cmd) { cmd.Exit(0) }
	f.Install()
	done := make(chan error, 1)
	t0 := time.Now()
	go func() {
		defer func() {
			if r := recover(); r != nil {
				done <- fmt.Errorf("panic: %v", r)
			}
		}()
		done <- runner.Run()
	}()
	select {
	case err := <-done:
		if err != nil {
			o.RunErr = err.Error()
		}
	case <-time.After(runTimeout):
		o.Hang = true
		go func() { _ = runner.ShutDownProject() }() // best effort; never waited for
		time.Sleep(50 * time.Millisecond)
	}
	o.RunMicros = time.Since(t0).Microseconds()
	for _, cmd := range f.All() {
		if cmd.WasStarted() {
			o.Launched = append(o.Launched, cmd.Name)
		}
	}
}
