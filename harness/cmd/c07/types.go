package main

import (
	"fmt"
	"math"
)

// Proc is one process of the configuration file of a case.
type Proc struct {
	Name       string   `json:"name"`
	Deps       []string `json:"deps"`                 // keys of depends_on (process names or replica keys; may be undefined)
	Disabled   bool     `json:"disabled,omitempty"`   // disabled: true
	Foreground bool     `json:"foreground,omitempty"` // is_foreground: true
	Namespace  string   `json:"namespace,omitempty"`  // "" = not written in the YAML (the loader defaults it to "default")
	Replicas   int      `json:"replicas,omitempty"`   // 0 or 1 = not written in the YAML
}

// Input is everything that determines a case.
type Input struct {
	Procs  []Proc   `json:"procs"`
	Strict bool     `json:"strict,omitempty"` // is_strict: true
	Nss    []string `json:"nss"`              // NamespaceAdmitter.EnabledNamespaces (empty = everything admitted)
	Req    []string `json:"req"`              // ProjectOpts.WithProcessesToRun
	NoDeps bool     `json:"nodeps,omitempty"` // ProjectOpts.WithNoDeps
}

// KeyStatus is one entry of GetProcessesState().
type KeyStatus struct {
	Key    string `json:"key"`
	Status string `json:"status"` // "Disabled" | "Foreground" | "Pending"
}

// Obs is what the implementation did on an Input.
type Obs struct {
	Load        string      `json:"load"`               // VOk | VCycle | VUndefined | VDisabledDep | VOther
	LoadErr     string      `json:"load_err,omitempty"` // error text of loader.Load
	Keys        []string    `json:"keys"`               // keys of project.Processes (sorted)
	RunnerOK    bool        `json:"runner_ok"`
	RunnerErr   string      `json:"runner_err,omitempty"`
	Status      []KeyStatus `json:"status"` // GetProcessesState() before Run (sorted by key)
	OrderErr    bool        `json:"order_err"`
	OrderErrMsg string      `json:"order_err_msg,omitempty"`
	Order       []string    `json:"order"`    // GetDependenciesOrderNames()
	Launched    []string    `json:"launched"` // one entry per command launched by Run(), in creation order
	RunErr      string      `json:"run_err,omitempty"`
	Hang        bool        `json:"hang,omitempty"` // Run() did not return within the timeout
	RunMicros   int64       `json:"run_us"`         // wall time of Run()
	LoadMicros  int64       `json:"load_us"`        // wall time of writing the file + loader.Load
}

// Case = kind + input + generated artefacts + observation.
type Case struct {
	Kind  string   `json:"kind"`
	Input Input    `json:"input"`
	Yaml  string   `json:"yaml"`
	Ids   []string `json:"ids"` // identifier table: Ids[i] has the Coq identifier (i+1)%N
	Obs   *Obs     `json:"obs"`
}

func (p *Proc) replicas() int {
	if p.Replicas < 1 {
		return 1
	}
	return p.Replicas
}

// replicaKeys computes the map keys that cloneReplicas gives a process (src/loader/mutators.go,
// types.ProcessConfig.CalculateReplicaName) WITHOUT calling the implementation.
func replicaKeys(name string, n int) []string {
	if n <= 1 {
		return []string{name}
	}
	width := 1 + int(math.Log10(float64(n)))
	keys := make([]string, n)
	for i := 0; i < n; i++ {
		keys[i] = fmt.Sprintf("%s-%0*d", name, width, i)
	}
	return keys
}

func (p *Proc) keys() []string { return replicaKeys(p.Name, p.replicas()) }

func (p *Proc) namespace() string {
	if p.Namespace == "" {
		return "default"
	}
	return p.Namespace
}

// normalise makes nil slices empty (stable JSON) and replicas explicit.
func (in *Input) normalise() {
	for i := range in.Procs {
		if in.Procs[i].Deps == nil {
			in.Procs[i].Deps = []string{}
		}
		if in.Procs[i].Replicas <= 1 {
			in.Procs[i].Replicas = 0
		}
	}
	if in.Procs == nil {
		in.Procs = []Proc{}
	}
	if in.Nss == nil {
		in.Nss = []string{}
	}
	if in.Req == nil {
		in.Req = []string{}
	}
}
