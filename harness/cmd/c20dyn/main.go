// c20dyn: dynamic half of the C20 check.  Built with the Go race detector (-race, CGO) and -tags verif.
//
//	parent:  c20dyn -out <dir> -seed N -n K [-tier quick|thorough] [-replay file]
//	         chooses sets (pairs, triples) of API operations, runs each set in a CHILD process against a
//	         free-running project (fakecmd commands that log, exit and are restarted), parses the child's
//	         stderr: "WARNING: DATA RACE" blocks, runtime fatal errors / panics, per-call watchdog timeouts.
//	         writes <dir>/dyn_C20.json, prints one JSON line of statistics.
//	child:   c20dyn -child -ops a,b,c -seed N
package main

import (
	"bytes"
	"context"
	"encoding/json"
	"flag"
	"fmt"
	"math/rand"
	"os"
	"os/exec"
	"path/filepath"
	"regexp"
	"runtime"
	"sort"
	"strings"
	"sync"
	"time"

	"github.com/f1bonacc1/process-compose/src/app"
	"github.com/f1bonacc1/process-compose/src/loader"
	"github.com/f1bonacc1/process-compose/src/types"
	"github.com/rs/zerolog"
	"pcverif/fakecmd"
)

var allOps = []string{"states", "state", "log", "sub", "start", "stop", "restart", "scale", "update", "shutdown",
	"info", "projstate"}

const watchdog = 20 * time.Second

// ------------------------------------------------------------------------------------------------ child

const projectYAML = `version: "0.5"
log_length: 40
processes:
  exiter:
    command: "exiter"
    availability:
      restart: always
  failer:
    command: "failer"
    availability:
      restart: on_failure
  logger:
    command: "logger"
    log_location: %q
  steady:
    command: "steady"
    depends_on:
      logger:
        condition: process_started
  scaled:
    command: "scaled"
    replicas: 2
  idle:
    command: "idle"
    disabled: true
`

const projectYAML2 = `version: "0.5"
log_length: 40
processes:
  exiter:
    command: "exiter"
    availability:
      restart: always
  logger:
    command: "logger"
    log_location: %q
  steady:
    command: "steady2"
  scaled:
    command: "scaled"
    replicas: 2
  idle:
    command: "idle"
    disabled: true
  fresh:
    command: "fresh"
`

type observer struct {
	mu    sync.Mutex
	id    string
	lines int
}

func (o *observer) WriteString(line string) (int, error) {
	o.mu.Lock()
	o.lines++
	o.mu.Unlock()
	return len(line), nil
}
func (o *observer) SetLines(lines []string) { o.mu.Lock(); o.lines += len(lines); o.mu.Unlock() }
func (o *observer) GetTailLength() int      { return 5 }
func (o *observer) GetUniqueID() string     { return o.id }

func load(dir, yaml string, n int) *types.Project {
	f := filepath.Join(dir, fmt.Sprintf("pc%d.yaml", n))
	if err := os.WriteFile(f, []byte(fmt.Sprintf(yaml, filepath.Join(dir, "logger.log"))), 0o644); err != nil {
		panic(err)
	}
	p, err := loader.Load(&loader.LoaderOptions{FileNames: []string{f}, IsInternalLoader: true})
	if err != nil {
		fmt.Println("RESULT {\"error\": \"load: " + err.Error() + "\"}")
		os.Exit(3)
	}
	return p
}

type callRes struct {
	Op      string `json:"op"`
	Ms      int64  `json:"ms"`
	Timeout bool   `json:"timeout"`
	Err     string `json:"err,omitempty"`
}

func child(ops []string, seed int64) {
	zerolog.SetGlobalLevel(zerolog.Disabled)
	rng := rand.New(rand.NewSource(seed))
	dir, _ := os.MkdirTemp("", "c20dyn")
	defer os.RemoveAll(dir)
	var rmu sync.Mutex
	jitter := func(max int) time.Duration {
		rmu.Lock()
		defer rmu.Unlock()
		return time.Duration(rng.Intn(max)+1) * 100 * time.Microsecond
	}
	f := fakecmd.NewFactory()
	f.OnStart = func(c *fakecmd.Cmd) {
		go func() {
			switch {
			case strings.HasPrefix(c.Executable, "exiter") || strings.Contains(strings.Join(c.Args, " "), "exiter"):
				c.WriteOut([]byte("up\n"))
				time.Sleep(jitter(20))
				c.WriteOut([]byte("bye\n"))
				c.Exit(int(c.Seq % 2))
			case strings.Contains(strings.Join(c.Args, " "), "failer"):
				c.WriteErr([]byte("oops\n"))
				time.Sleep(jitter(30))
				c.Exit(1)
			case strings.Contains(strings.Join(c.Args, " "), "logger"):
				for i := 0; c.Alive(); i++ {
					c.WriteOut([]byte(fmt.Sprintf("line %d\n", i)))
					time.Sleep(jitter(3))
				}
			default:
				c.WriteOut([]byte("started\n"))
			}
		}()
	}
	app.SetVerifHooks(&app.VerifHooks{
		Commander: f.New,
		Backoff:   func(p *app.Process, s int) (time.Duration, bool) { return 2 * time.Millisecond, true },
	})
	project := load(dir, projectYAML, 1)
	project2 := load(dir, projectYAML2, 2)
	runner, err := app.NewProjectRunner((&app.ProjectOpts{}).WithProject(project).WithIsTuiOn(true).WithOrderedShutDown(seed%2 == 0))
	if err != nil {
		fmt.Println("RESULT {\"error\": \"runner\"}")
		os.Exit(3)
	}
	runDone := make(chan struct{})
	go func() { _ = runner.Run(); close(runDone) }()
	time.Sleep(15*time.Millisecond + jitter(50))

	do := func(op string) error {
		switch op {
		case "states":
			for i := 0; i < 30; i++ {
				if _, err := runner.GetProcessesState(); err != nil {
					return err
				}
				time.Sleep(jitter(3))
			}
		case "state":
			for i := 0; i < 60; i++ {
				for _, n := range []string{"exiter", "logger", "scaled-0"} {
					_, _ = runner.GetProcessState(n)
				}
				time.Sleep(jitter(2))
			}
		case "log":
			for i := 0; i < 100; i++ {
				_, _ = runner.GetProcessLog("logger", 10, 5)
				_ = runner.GetProcessLogLength("logger")
				_, _ = runner.GetProcessLog("exiter", 3, 0)
			}
		case "sub":
			for i := 0; i < 10; i++ {
				o := &observer{id: fmt.Sprintf("o%d", i)}
				_ = runner.GetLogsAndSubscribe("logger", o)
				time.Sleep(jitter(5))
				_ = runner.UnSubscribeLogger("logger", o)
			}
		case "start":
			_ = runner.StartProcess("idle")
			time.Sleep(jitter(10))
			_ = runner.StartProcess("failer")
		case "stop":
			_ = runner.StopProcess("steady")
			time.Sleep(jitter(10))
			_ = runner.StopProcess("exiter")
		case "restart":
			_ = runner.RestartProcess("logger")
			_ = runner.RestartProcess("steady")
		case "scale":
			_ = runner.ScaleProcess("scaled-0", 4)
			time.Sleep(jitter(10))
			_ = runner.ScaleProcess("scaled-0", 1)
		case "update":
			_, _ = runner.UpdateProject(project2)
		case "shutdown":
			time.Sleep(jitter(20))
			_ = runner.ShutDownProject()
		case "info":
			for i := 0; i < 40; i++ {
				_, _ = runner.GetLexicographicProcessNames()
				_, _ = runner.GetProcessInfo("steady")
				_, _ = runner.GetDependenciesOrderNames()
				time.Sleep(jitter(2))
			}
		case "projstate":
			for i := 0; i < 40; i++ {
				_, _ = runner.GetProjectState(false)
				time.Sleep(jitter(2))
			}
		default:
			return fmt.Errorf("unknown op %s", op)
		}
		return nil
	}

	results := make([]callRes, len(ops))
	start := make(chan struct{})
	var wg sync.WaitGroup
	for i, op := range ops {
		wg.Add(1)
		go func(i int, op string) {
			defer wg.Done()
			<-start
			t0 := time.Now()
			done := make(chan error, 1)
			go func() { done <- do(op) }()
			select {
			case err := <-done:
				results[i] = callRes{Op: op, Ms: time.Since(t0).Milliseconds()}
				if err != nil {
					results[i].Err = err.Error()
				}
			case <-time.After(watchdog):
				results[i] = callRes{Op: op, Ms: time.Since(t0).Milliseconds(), Timeout: true}
			}
		}(i, op)
	}
	close(start)
	wg.Wait()
	stacks := ""
	anyTimeout := false
	for _, r := range results {
		anyTimeout = anyTimeout || r.Timeout
	}
	shutdownTimeout := false
	if !anyTimeout {
		time.Sleep(5 * time.Millisecond)
		done := make(chan struct{})
		go func() { _ = runner.ShutDownProject(); close(done) }()
		select {
		case <-done:
		case <-time.After(watchdog):
			shutdownTimeout, anyTimeout = true, true
		}
	}
	runReturned := false
	select {
	case <-runDone:
		runReturned = true
	case <-time.After(300 * time.Millisecond):
	}
	if anyTimeout {
		buf := make([]byte, 1<<20)
		stacks = string(buf[:runtime.Stack(buf, true)])
	}
	out, _ := json.Marshal(map[string]interface{}{"calls": results, "final_shutdown_timeout": shutdownTimeout,
		"run_returned": runReturned, "launches": len(f.All()), "stacks": stacks})
	fmt.Println("RESULT " + string(out))
}

// ------------------------------------------------------------------------------------------------ parent

type Frame struct {
	Func string `json:"func"`
	File string `json:"file"` // relative to the repository root when inside it
	Line int    `json:"line"`
}

type Finding struct {
	Kind  string   `json:"kind"` // race | fatal | panic | timeout | childfail
	Msg   string   `json:"msg,omitempty"`
	A     *Frame   `json:"a,omitempty"` // first repository frame of each access
	B     *Frame   `json:"b,omitempty"`
	AKind string   `json:"a_kind,omitempty"`
	BKind string   `json:"b_kind,omitempty"`
	Stack []string `json:"stack,omitempty"`
}

type Run struct {
	Ops      []string        `json:"ops"`
	Seed     int64           `json:"seed"`
	Exit     int             `json:"exit"`
	Ms       int64           `json:"ms"`
	Result   json.RawMessage `json:"result,omitempty"`
	Findings []Finding       `json:"findings"`
}

var frameFile = regexp.MustCompile(`^\s+(/\S+\.go):(\d+)`)
var accHead = regexp.MustCompile(`^(Write|Read|Previous write|Previous read|Atomic write|Atomic read|Previous atomic write|Previous atomic read) at 0x[0-9a-f]+ by `)

func repoRel(file string) (string, bool) {
	for _, d := range []string{"/src/app/", "/src/pclog/", "/src/types/"} {
		if i := strings.LastIndex(file, d); i >= 0 && !strings.Contains(file, "/pkg/mod/") {
			return file[i+1:], true
		}
	}
	return file, false
}

// firstRepoFrame scans "func()\n    file:line" pairs
func firstRepoFrame(lines []string) (*Frame, []string) {
	var stack []string
	var first *Frame
	for i := 0; i+1 < len(lines); i++ {
		m := frameFile.FindStringSubmatch(lines[i+1])
		if m == nil || strings.HasPrefix(lines[i], "      ") {
			continue
		}
		fn := strings.TrimSpace(lines[i])
		if j := strings.Index(fn, "("); j > 0 && strings.HasSuffix(fn, ")") && !strings.Contains(fn, ").") {
			fn = fn[:j]
		}
		rel, in := repoRel(m[1])
		var ln int
		fmt.Sscanf(m[2], "%d", &ln)
		stack = append(stack, fmt.Sprintf("%s %s:%d", fn, rel, ln))
		if in && first == nil {
			first = &Frame{Func: fn, File: rel, Line: ln}
		}
	}
	if len(stack) > 12 {
		stack = stack[:12]
	}
	return first, stack
}

func parseStderr(s string) []Finding {
	var out []Finding
	lines := strings.Split(s, "\n")
	for i := 0; i < len(lines); i++ {
		l := lines[i]
		switch {
		case strings.HasPrefix(l, "WARNING: DATA RACE"):
			j := i + 1
			var secs [][]string
			var kinds []string
			for ; j < len(lines) && !strings.HasPrefix(lines[j], "=================="); j++ {
				if m := accHead.FindStringSubmatch(lines[j]); m != nil {
					kinds = append(kinds, strings.ToLower(strings.TrimPrefix(m[1], "Previous ")))
					secs = append(secs, nil)
					continue
				}
				if strings.HasPrefix(lines[j], "Goroutine ") || strings.TrimSpace(lines[j]) == "" {
					if len(secs) >= 2 && strings.HasPrefix(lines[j], "Goroutine ") {
						break
					}
					continue
				}
				if len(secs) > 0 && len(secs) <= 2 {
					secs[len(secs)-1] = append(secs[len(secs)-1], lines[j])
				}
			}
			f := Finding{Kind: "race"}
			if len(secs) >= 2 {
				var st []string
				f.A, st = firstRepoFrame(secs[0])
				f.B, _ = firstRepoFrame(secs[1])
				f.AKind, f.BKind = kinds[0], kinds[1]
				f.Stack = st
			}
			out = append(out, f)
			i = j
		case strings.HasPrefix(l, "fatal error: ") || strings.HasPrefix(l, "panic: "):
			f := Finding{Kind: "fatal", Msg: strings.TrimSpace(l)}
			if strings.HasPrefix(l, "panic: ") {
				f.Kind = "panic"
			}
			// the first goroutine printed is the one that died
			j := i + 1
			for ; j < len(lines) && !strings.HasPrefix(lines[j], "goroutine "); j++ {
			}
			k := j + 1
			for ; k < len(lines) && strings.TrimSpace(lines[k]) != ""; k++ {
			}
			if j < len(lines) {
				var conv []string
				for _, x := range lines[j+1 : k] {
					if strings.HasPrefix(x, "\t") {
						conv = append(conv, "      "+strings.TrimSpace(x))
					} else {
						conv = append(conv, "  "+x)
					}
				}
				f.A, f.Stack = firstRepoFrame(conv)
			}
			out = append(out, f)
			return out // everything after a fatal error is the goroutine dump
		}
	}
	return out
}

func runChild(self string, ops []string, seed int64) Run {
	t0 := time.Now()
	ctx, cancel := context.WithTimeout(context.Background(), 90*time.Second)
	defer cancel()
	cmd := exec.CommandContext(ctx, self, "-child", "-ops", strings.Join(ops, ","), "-seed", fmt.Sprint(seed))
	cmd.Env = append(os.Environ(), "GORACE=halt_on_error=0 history_size=3", "GOTRACEBACK=all")
	var so, se bytes.Buffer
	cmd.Stdout, cmd.Stderr = &so, &se
	err := cmd.Run()
	r := Run{Ops: ops, Seed: seed, Ms: time.Since(t0).Milliseconds()}
	if err != nil {
		r.Exit = -1
		if ee, ok := err.(*exec.ExitError); ok {
			r.Exit = ee.ExitCode()
		}
	}
	r.Findings = parseStderr(se.String())
	for _, l := range strings.Split(so.String(), "\n") {
		if strings.HasPrefix(l, "RESULT ") {
			r.Result = json.RawMessage(l[7:])
			var res struct {
				Calls []callRes `json:"calls"`
				FST   bool      `json:"final_shutdown_timeout"`
				Stk   string    `json:"stacks"`
			}
			_ = json.Unmarshal(r.Result, &res)
			for _, c := range res.Calls {
				if c.Timeout {
					r.Findings = append(r.Findings, Finding{Kind: "timeout", Msg: "call " + c.Op + " did not return within 20 s", Stack: blocked(res.Stk)})
				}
			}
			if res.FST {
				r.Findings = append(r.Findings, Finding{Kind: "timeout", Msg: "final ShutDownProject did not return within 20 s", Stack: blocked(res.Stk)})
			}
		}
	}
	if r.Result == nil && len(r.Findings) == 0 {
		r.Findings = append(r.Findings, Finding{Kind: "childfail", Msg: fmt.Sprintf("child exit %d without result: %s", r.Exit, tail(se.String(), 600))})
	}
	return r
}

func tail(s string, n int) string {
	if len(s) > n {
		return s[len(s)-n:]
	}
	return s
}

// blocked: functions of the repository in which goroutines sit in sync.(*Mutex).Lock / Cond.Wait / WaitGroup.Wait
// (or serve a command that is still alive)
func blocked(stacks string) []string {
	var res []string
	for _, g := range strings.Split(stacks, "\n\n") {
		// an instance goroutine that is still serving a live command (reading its output / waiting for its exit)
		// is listed too: together with a waiter on its completion latch it shows a command that survived its stop
		serving := strings.Contains(g, "(*Process).waitForStdOutErr") || strings.Contains(g, "fakecmd.(*Cmd).Wait")
		if !serving && !strings.Contains(g, "sync.(*Mutex).Lock") && !strings.Contains(g, "sync.(*Cond).Wait") && !strings.Contains(g, "sync.(*WaitGroup).Wait") {
			continue
		}
		ls := strings.Split(g, "\n")
		for i := 0; i+1 < len(ls); i++ {
			if strings.Contains(ls[i], "process-compose/src/") {
				res = append(res, strings.TrimSpace(ls[i])+" @ "+strings.TrimSpace(ls[i+1]))
				break
			}
		}
	}
	sort.Strings(res)
	return res
}

func main() {
	isChild := flag.Bool("child", false, "")
	opsF := flag.String("ops", "", "")
	seed := flag.Int64("seed", 1, "")
	out := flag.String("out", ".", "")
	n := flag.Int("n", 40, "number of random operation sets besides the directed ones")
	replay := flag.String("replay", "", "JSON file with a list of {ops, seed}")
	workers := flag.Int("workers", 8, "")
	flag.Parse()
	if *isChild {
		child(strings.Split(*opsF, ","), *seed)
		return
	}
	self, _ := os.Executable()
	type job struct {
		ops  []string
		seed int64
	}
	var jobs []job
	if *replay != "" {
		var rs []Run
		b, _ := os.ReadFile(*replay)
		if err := json.Unmarshal(b, &rs); err != nil {
			fmt.Fprintln(os.Stderr, "bad replay file:", err)
			os.Exit(2)
		}
		for _, r := range rs {
			jobs = append(jobs, job{r.Ops, r.Seed})
		}
	} else {
		rng := rand.New(rand.NewSource(*seed))
		// directed: the pairs DESIGN.md names (state query x mutation, log query x writer, mutation x mutation)
		for _, p := range [][]string{{"states", "scale"}, {"states", "update"}, {"log", "sub"}, {"states", "restart"},
			{"state", "stop"}, {"start", "stop"}, {"scale", "update"}, {"shutdown", "states"}, {"info", "update"},
			{"projstate", "scale"}, {"restart", "shutdown"}, {"update", "log", "states"}, {"scale", "sub", "state"}} {
			jobs = append(jobs, job{p, rng.Int63n(1 << 30)})
		}
		for i := 0; i < *n; i++ {
			k := 2 + rng.Intn(2)
			var ops []string
			for j := 0; j < k; j++ {
				ops = append(ops, allOps[rng.Intn(len(allOps))])
			}
			jobs = append(jobs, job{ops, rng.Int63n(1 << 30)})
		}
	}
	runs := make([]Run, len(jobs))
	ch := make(chan int)
	var wg sync.WaitGroup
	for w := 0; w < *workers; w++ {
		wg.Add(1)
		go func() {
			defer wg.Done()
			for i := range ch {
				runs[i] = runChild(self, jobs[i].ops, jobs[i].seed)
			}
		}()
	}
	for i := range jobs {
		ch <- i
	}
	close(ch)
	wg.Wait()
	js, _ := json.MarshalIndent(runs, "", " ")
	_ = os.WriteFile(filepath.Join(*out, "dyn_C20.json"), js, 0o644)
	stats := map[string]int{"op_sets": len(runs)}
	for _, r := range runs {
		stats["size_"+fmt.Sprint(len(r.Ops))]++
		for _, f := range r.Findings {
			stats[f.Kind]++
		}
		for _, o := range r.Ops {
			stats["op_"+o]++
		}
	}
	sj, _ := json.Marshal(stats)
	fmt.Println(string(sj))
}
