// c20: lockset translator for property C20 (the only check whose model is regenerated from the source).
//
//	c20 -repo /repo -out <dir>        analyse src/types, src/pclog, src/app of the CURRENT tree; write
//	                                  <dir>/Facts.v (Gallina) and <dir>/facts.json (names, sites); print one JSON line
//	c20 -selftest <testdata dir>      run the translator on every *.go.txt snippet and compare with *.want
//
// Only the standard library is used (go/parser, go/ast, go/types, go/importer); export data of the
// dependencies comes from `go list -export` (the build cache), the three analysed packages are type-checked
// from source, without the `verif` build tag (the production build is what is analysed).
package main

import (
	"bytes"
	"encoding/json"
	"flag"
	"fmt"
	"go/ast"
	"go/build/constraint"
	"go/importer"
	"go/parser"
	"go/token"
	"go/types"
	"io"
	"os"
	"os/exec"
	"path/filepath"
	"regexp"
	"sort"
	"strings"
)

const modPath = "github.com/f1bonacc1/process-compose/"

func fatal(f string, a ...interface{}) {
	fmt.Fprintf(os.Stderr, "c20: "+f+"\n", a...)
	os.Exit(1)
}

// ------------------------------------------------------------------------------------------------ loading

type loader struct {
	fset    *token.FileSet
	exports map[string]string // import path -> export data file
	modDirs [][2]string       // packages of the analysed module (import path, dir), dependencies first
	srcPkgs map[string]*types.Package
	gc      types.Importer
}

func (l *loader) Import(path string) (*types.Package, error) {
	if p, ok := l.srcPkgs[path]; ok {
		return p, nil
	}
	return l.gc.Import(path)
}

func newLoader(dir string, pkgs []string) *loader {
	l := &loader{fset: token.NewFileSet(), exports: map[string]string{}, srcPkgs: map[string]*types.Package{}}
	args := append([]string{"list", "-export", "-deps", "-f", "{{.ImportPath}}\t{{.Export}}\t{{.Dir}}"}, pkgs...)
	cmd := exec.Command("go", args...)
	cmd.Dir = dir
	cmd.Env = append(os.Environ(), "GOFLAGS=-mod=mod", "GOPROXY=off", "GOSUMDB=off", "GOTOOLCHAIN=local")
	var errb bytes.Buffer
	cmd.Stderr = &errb
	out, _ := cmd.Output() // errors of the analysed packages themselves are reported by the type checker below
	for _, line := range strings.Split(string(out), "\n") {
		f := strings.Split(line, "\t")
		if len(f) != 3 {
			continue
		}
		if strings.HasPrefix(f[0], modPath) {
			// packages of the module itself are type-checked from source (one consistent universe)
			l.modDirs = append(l.modDirs, [2]string{f[0], f[2]})
		} else if f[1] != "" {
			l.exports[f[0]] = f[1]
		}
	}
	if len(l.exports) == 0 {
		fatal("go list -export produced nothing in %s: %s", dir, errb.String())
	}
	l.gc = importer.ForCompiler(l.fset, "gc", func(path string) (io.ReadCloser, error) {
		f, ok := l.exports[path]
		if !ok {
			return nil, fmt.Errorf("no export data for %s", path)
		}
		return os.Open(f)
	})
	return l
}

func buildOK(src []byte) bool {
	// honour //go:build lines with no tag set except the platform
	for _, line := range strings.Split(string(src), "\n") {
		line = strings.TrimSpace(line)
		if strings.HasPrefix(line, "package ") {
			break
		}
		if constraint.IsGoBuild(line) {
			ex, err := constraint.Parse(line)
			if err != nil {
				return true
			}
			return ex.Eval(func(tag string) bool { return tag == "linux" || tag == "amd64" || tag == "unix" })
		}
	}
	return true
}

func (l *loader) parseDir(dir string, suffix string) []*ast.File {
	ents, err := os.ReadDir(dir)
	if err != nil {
		fatal("%v", err)
	}
	var files []*ast.File
	for _, e := range ents {
		n := e.Name()
		if !strings.HasSuffix(n, suffix) || strings.HasSuffix(n, "_test.go") {
			continue
		}
		if m := regexp.MustCompile(`_(windows|darwin|freebsd|openbsd|netbsd|plan9|js|wasip1)(_[a-z0-9]+)?\.go$`); m.MatchString(n) {
			continue
		}
		src, err := os.ReadFile(filepath.Join(dir, n))
		if err != nil {
			fatal("%v", err)
		}
		if !buildOK(src) {
			continue
		}
		f, err := parser.ParseFile(l.fset, filepath.Join(dir, n), src, parser.ParseComments)
		if err != nil {
			fatal("parse: %v", err)
		}
		files = append(files, f)
	}
	return files
}

func (l *loader) check(path string, files []*ast.File) (*types.Package, *types.Info) {
	info := &types.Info{Types: map[ast.Expr]types.TypeAndValue{}, Defs: map[*ast.Ident]types.Object{},
		Uses: map[*ast.Ident]types.Object{}, Selections: map[*ast.SelectorExpr]*types.Selection{}}
	var errs []string
	conf := types.Config{Importer: l, Error: func(err error) { errs = append(errs, err.Error()) }}
	pkg, _ := conf.Check(path, l.fset, files, info)
	if len(errs) > 0 {
		fatal("type errors in %s (the tree does not compile):\n  %s", path, strings.Join(errs, "\n  "))
	}
	l.srcPkgs[path] = pkg
	return pkg, info
}

// ------------------------------------------------------------------------------------------------ output

type outFact struct {
	Var, Fn string
	Write   bool
	Locks   []string
	Reach   string
	Sites   []string
}

type result struct {
	Facts    []outFact
	Excluded []outFact // accesses not counted (constructor / init-only / fresh object), for the record
	Order    []OrderPair
	Exempt   map[string]string
	Vars     []string
	Fns      []string
	Locks    []string
	Rank     map[string]int
	Sites    map[string][]siteEntry // "file:line" -> accesses there
	Stats    map[string]int
}

type siteEntry struct {
	Var, Fn string
	Write   bool
	Conc    bool
	Exempt  bool
	Locks   []string
}

func reachOf(f *Fn) string {
	switch {
	case f.ReachAPI && f.ReachGo:
		return "api+go"
	case f.ReachAPI:
		return "api"
	case f.ReachGo:
		return "go"
	}
	return "-"
}

func relFile(repo, f string) string {
	if r, err := filepath.Rel(repo, f); err == nil && !strings.HasPrefix(r, "..") {
		return r
	}
	return filepath.Base(f)
}

func collect(a *Analysis, repo string) *result {
	res := &result{Exempt: a.Exempt, Rank: map[string]int{}, Sites: map[string][]siteEntry{}, Stats: map[string]int{}}
	type key struct {
		v, f  string
		w     bool
		locks string
	}
	idx := map[key]int{}
	idxEx := map[key]int{}
	for _, f := range a.fns {
		for _, acc := range f.Accesses {
			site := fmt.Sprintf("%s:%d", relFile(repo, acc.File), acc.Line)
			counted := f.Conc && !acc.Fresh && !f.Ctor && !acc.Exempt
			res.Sites[site] = append(res.Sites[site], siteEntry{Var: acc.Var, Fn: f.Name, Write: acc.Write, Conc: counted, Exempt: acc.Exempt, Locks: acc.Locks})
			if acc.Exempt {
				continue
			}
			res.Stats["access_sites"]++
			k := key{acc.Var, f.Name, acc.Write, strings.Join(acc.Locks, ",")}
			tgt, m := &res.Facts, idx
			reach := reachOf(f)
			if !counted {
				tgt, m = &res.Excluded, idxEx
				switch {
				case f.Ctor:
					reach = "constructor"
				case acc.Fresh:
					reach = "fresh-object"
				default:
					reach = "init-only"
				}
			}
			if i, ok := m[k]; ok {
				(*tgt)[i].Sites = append((*tgt)[i].Sites, site)
				continue
			}
			m[k] = len(*tgt)
			*tgt = append(*tgt, outFact{Var: acc.Var, Fn: f.Name, Write: acc.Write, Locks: acc.Locks, Reach: reach, Sites: []string{site}})
		}
	}
	sort.SliceStable(res.Facts, func(i, j int) bool {
		x, y := res.Facts[i], res.Facts[j]
		if x.Var != y.Var {
			return x.Var < y.Var
		}
		if x.Fn != y.Fn {
			return x.Fn < y.Fn
		}
		return !x.Write && y.Write
	})
	vs, fs, ls := map[string]bool{}, map[string]bool{}, map[string]bool{}
	for _, f := range res.Facts {
		vs[f.Var], fs[f.Fn] = true, true
		for _, l := range f.Locks {
			ls[l] = true
		}
	}
	for _, o := range a.Order {
		ls[o.A], ls[o.B], fs[o.Fn] = true, true, true
	}
	res.Vars, res.Fns, res.Locks = sortedKeys(vs), sortedKeys(fs), sortedKeys(ls)
	for i := range a.Order {
		a.Order[i].File = relFile(repo, a.Order[i].File)
	}
	res.Order = a.Order
	// topological rank by depth-first search; back edges (cycles) keep a rank that the Coq check rejects
	adj := map[string][]string{}
	for _, o := range a.Order {
		if o.A != o.B {
			adj[o.A] = append(adj[o.A], o.B)
		}
	}
	state := map[string]int{}
	var post []string
	var dfs func(n string)
	dfs = func(n string) {
		state[n] = 1
		for _, m := range adj[n] {
			if state[m] == 0 {
				dfs(m)
			}
		}
		state[n] = 2
		post = append(post, n)
	}
	for _, l := range res.Locks {
		if state[l] == 0 {
			dfs(l)
		}
	}
	for i, l := range post {
		res.Rank[l] = len(post) - i
	}
	res.Stats["facts"] = len(res.Facts)
	res.Stats["excluded"] = len(res.Excluded)
	res.Stats["variables"] = len(res.Vars)
	res.Stats["functions"] = len(res.Fns)
	res.Stats["locks"] = len(res.Locks)
	res.Stats["order_pairs"] = len(res.Order)
	res.Stats["exempt_fields"] = len(res.Exempt)
	return res
}

func indexOf(l []string, s string) int {
	for i, x := range l {
		if x == s {
			return i
		}
	}
	return -1
}

func natList(xs []int) string {
	s := make([]string, len(xs))
	for i, x := range xs {
		s[i] = fmt.Sprint(x)
	}
	return "[" + strings.Join(s, "; ") + "]"
}

func writeCoq(res *result, path string) {
	var b strings.Builder
	b.WriteString("(* GENERATED by harness/cmd/c20 from the current source tree - do not edit *)\n")
	b.WriteString("From Coq Require Import List Bool Arith.\nImport ListNotations.\nFrom PC.Lockset Require Import Model Check.\n\n")
	for i, v := range res.Vars {
		fmt.Fprintf(&b, "(* var %d = %s *)\n", i, v)
	}
	for i, v := range res.Locks {
		fmt.Fprintf(&b, "(* lock %d = %s *)\n", i, v)
	}
	for i, v := range res.Fns {
		fmt.Fprintf(&b, "(* fn %d = %s *)\n", i, v)
	}
	b.WriteString("\nDefinition facts : list fact := [\n")
	for i, f := range res.Facts {
		var ls []int
		for _, l := range f.Locks {
			ls = append(ls, indexOf(res.Locks, l))
		}
		sep := ";"
		if i == len(res.Facts)-1 {
			sep = ""
		}
		fmt.Fprintf(&b, "  mkFact %d %v %d %s%s\n", indexOf(res.Vars, f.Var), f.Write, indexOf(res.Fns, f.Fn), natList(ls), sep)
	}
	b.WriteString("].\n\nDefinition order_facts : list ofact := [\n")
	for i, o := range res.Order {
		sep := ";"
		if i == len(res.Order)-1 {
			sep = ""
		}
		fmt.Fprintf(&b, "  mkOFact %d %d %d%s\n", indexOf(res.Locks, o.A), indexOf(res.Locks, o.B), indexOf(res.Fns, o.Fn), sep)
	}
	b.WriteString("].\n\nDefinition rank_tbl : list (nat * nat) := [")
	for i, l := range res.Locks {
		if i > 0 {
			b.WriteString("; ")
		}
		fmt.Fprintf(&b, "(%d, %d)", i, res.Rank[l])
	}
	b.WriteString("].\n\n")
	fmt.Fprintf(&b, "Definition nvars := %d.\n", len(res.Vars))
	b.WriteString(`Definition r_bad_vars := Eval vm_compute in bad_vars facts nvars.
Definition r_ok_vars := Eval vm_compute in ok_vars facts nvars.
Definition r_culprits := Eval vm_compute in culprits_flat facts nvars.
Definition r_bad_order := Eval vm_compute in bad_order_flat (rank_of rank_tbl) order_facts.
Definition r_order_ok := Eval vm_compute in order_ok (rank_of rank_tbl) (order_rel order_facts).
Print r_bad_vars.
Print r_ok_vars.
Print r_culprits.
Print r_bad_order.
Print r_order_ok.

(* the generic theorems instantiated on the table of THIS tree: every variable listed in r_ok_vars is free
   of races in every reachable state of every set of thread programs that conform to the table, and if
   r_order_ok = true no reachable state is a lock deadlock *)
From PC.Lockset Require Import Proofs.
Lemma r_ok_vars_eq : r_ok_vars = ok_vars facts nvars.
Proof. vm_compute. reflexivity. Qed.
Theorem facts_ok_vars_race_free : forall v, In v r_ok_vars ->
  forall progs, Forall (conforms (table_of facts) []) progs ->
  forall s, reachable (init_state progs) s -> ~ race_on v s.
Proof. intros v Hin. apply (ok_vars_race_free facts nvars v). rewrite <- r_ok_vars_eq. exact Hin. Qed.
Lemma r_order_ok_eq : r_order_ok = order_ok (rank_of rank_tbl) (order_rel order_facts).
Proof. vm_compute. reflexivity. Qed.
Theorem facts_deadlock_free : r_order_ok = true ->
  forall progs, Forall (ordered (order_rel order_facts) []) progs ->
  forall s, reachable (init_state progs) s -> ~ deadlocked s.
Proof. intros H. rewrite r_order_ok_eq in H. exact (order_deadlock_free _ _ H). Qed.
Print Assumptions facts_ok_vars_race_free.
Print Assumptions facts_deadlock_free.
`)
	if err := os.WriteFile(path, []byte(b.String()), 0o644); err != nil {
		fatal("%v", err)
	}
}

// ------------------------------------------------------------------------------------------------ main

func pcConfig() Config {
	set := func(xs ...string) map[string]bool {
		m := map[string]bool{}
		for _, x := range xs {
			m[x] = true
		}
		return m
	}
	ctor := regexp.MustCompile(`^New[A-Z]\w*$`)
	return Config{
		Tracked:      set("ProjectRunner", "Process", "ProcessLogBuffer", "PCLog", "ProcessState", "Project", "ProjectState", "ProcessConfig"),
		Singleton:    set("ProjectRunner"),
		APIStructs:   set("ProjectRunner", "ProcessLogBuffer", "PCLog"),
		Constructors: func(n string) bool { return ctor.MatchString(n) },
		CtorResults:  set("ProcOpts"),
		// ProcessConfig values are private copies made per instance before its goroutine starts; the one
		// field that is written after a Process was built is ReplicaName (setName, scale renaming)
		OnlyFields: map[string]map[string]bool{"ProcessConfig": set("ReplicaName")},
	}
}

func analyseRepo(repo string) *result {
	l := newLoader(repo, []string{"./src/types", "./src/pclog", "./src/app"})
	a := NewAnalysis(pcConfig(), l.fset)
	analysed := map[string]bool{modPath + "src/types": true, modPath + "src/pclog": true, modPath + "src/app": true}
	for _, pd := range l.modDirs {
		files := l.parseDir(pd[1], ".go")
		pkg, info := l.check(pd[0], files)
		if analysed[pd[0]] {
			a.AddPackage(pkg, info, files)
			delete(analysed, pd[0])
		}
	}
	if len(analysed) > 0 {
		fatal("packages not found by go list: %v", analysed)
	}
	a.Walk()
	a.Propagate()
	return collect(a, repo)
}

// selftest: every testdata/<name>.go.txt is a one-file package; the first comment lines configure the run:
//
//	//lockset:tracked A B   //lockset:singleton A   //lockset:api A
func selftest(dir string) {
	ents, _ := os.ReadDir(dir)
	fail, n := 0, 0
	for _, e := range ents {
		if !strings.HasSuffix(e.Name(), ".go.txt") {
			continue
		}
		n++
		src, _ := os.ReadFile(filepath.Join(dir, e.Name()))
		cfg := Config{Tracked: map[string]bool{}, Singleton: map[string]bool{}, APIStructs: map[string]bool{},
			Constructors: func(n string) bool { return strings.HasPrefix(n, "New") }}
		for _, line := range strings.Split(string(src), "\n") {
			for k, m := range map[string]map[string]bool{"//lockset:tracked": cfg.Tracked, "//lockset:singleton": cfg.Singleton, "//lockset:api": cfg.APIStructs} {
				if strings.HasPrefix(line, k+" ") {
					for _, w := range strings.Fields(line[len(k):]) {
						m[w] = true
					}
				}
			}
		}
		l := newLoader(dir, []string{"sync", "sync/atomic", "context"})
		f, err := parser.ParseFile(l.fset, e.Name(), src, parser.ParseComments)
		if err != nil {
			fatal("%v", err)
		}
		pkg, info := l.check("snippet", []*ast.File{f})
		a := NewAnalysis(cfg, l.fset)
		a.AddPackage(pkg, info, []*ast.File{f})
		a.Walk()
		a.Propagate()
		res := collect(a, dir)
		var b strings.Builder
		for _, x := range res.Facts {
			k := "r"
			if x.Write {
				k = "w"
			}
			fmt.Fprintf(&b, "acc %s %s %s [%s] %s\n", x.Var, k, x.Fn, strings.Join(x.Locks, ","), x.Reach)
		}
		for _, x := range res.Excluded {
			k := "r"
			if x.Write {
				k = "w"
			}
			fmt.Fprintf(&b, "excluded %s %s %s %s\n", x.Var, k, x.Fn, x.Reach)
		}
		for _, o := range res.Order {
			fmt.Fprintf(&b, "order %s>%s %s\n", o.A, o.B, o.Fn)
		}
		for _, k := range sortedKeys(func() map[string]bool {
			m := map[string]bool{}
			for k := range res.Exempt {
				m[k] = true
			}
			return m
		}()) {
			fmt.Fprintf(&b, "exempt %s %s\n", k, res.Exempt[k])
		}
		wantFile := filepath.Join(dir, strings.TrimSuffix(e.Name(), ".go.txt")+".want")
		want, err := os.ReadFile(wantFile)
		if os.Getenv("C20_UPDATE_WANT") != "" {
			_ = os.WriteFile(wantFile, []byte(b.String()), 0o644)
			continue
		}
		if err != nil || string(want) != b.String() {
			fail++
			fmt.Printf("SELFTEST FAIL %s\n--- got\n%s--- want\n%s\n", e.Name(), b.String(), string(want))
		}
	}
	fmt.Printf("{\"selftest_snippets\": %d, \"failed\": %d}\n", n, fail)
	if fail > 0 || n == 0 {
		os.Exit(1)
	}
}

func main() {
	repo := flag.String("repo", os.Getenv("VERIF_REPO"), "repository to analyse")
	out := flag.String("out", ".", "output directory")
	st := flag.String("selftest", "", "run the translator unit tests in this directory")
	flag.Parse()
	if *st != "" {
		selftest(*st)
		return
	}
	if *repo == "" {
		*repo = "/repo"
	}
	res := analyseRepo(*repo)
	writeCoq(res, filepath.Join(*out, "Facts.v"))
	js, _ := json.MarshalIndent(res, "", " ")
	if err := os.WriteFile(filepath.Join(*out, "facts.json"), js, 0o644); err != nil {
		fatal("%v", err)
	}
	st2, _ := json.Marshal(res.Stats)
	fmt.Println(string(st2))
}
