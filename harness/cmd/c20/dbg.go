package main

import (
	"fmt"
	"os"
)

func (a *Analysis) dump() {
	if os.Getenv("C20_DEBUG") == "" {
		return
	}
	for _, f := range a.fns {
		fmt.Fprintf(os.Stderr, "FN %s root=%q conc=%v api=%v go=%v ctor=%v calls=", f.Name, f.Root, f.Conc, f.ReachAPI, f.ReachGo, f.Ctor)
		for _, c := range f.Calls {
			fmt.Fprintf(os.Stderr, "%s ", c.Callee.Name)
		}
		fmt.Fprintf(os.Stderr, " entry=%v entryS=%v\n", sortedKeys(f.entry), sortedKeys(f.entryS))
	}
}
