// Lockset translator (property C20): Go source -> table of field accesses with the mutexes definitely held.
// Standard library only (go/parser, go/ast, go/types).  The rules are documented in notes/C20.md; the
// unit tests are the snippets under testdata/ (run with `c20 -selftest <dir>` on every check).
package main

import (
	"fmt"
	"go/ast"
	"go/token"
	"go/types"
	"sort"
	"strings"
)

// ---------------------------------------------------------------------------------------------- configuration

type Config struct {
	Tracked      map[string]bool // struct type names whose fields are variables
	Singleton    map[string]bool // struct types with ONE instance: their mutexes guard any access
	APIStructs   map[string]bool // exported methods of these are entry points (called from other packages)
	Constructors func(name string) bool
	CtorResults  map[string]bool            // functions returning one of these named types are constructor options
	OnlyFields   map[string]map[string]bool // struct -> the only fields of it that are tracked (annotation)
}

// ---------------------------------------------------------------------------------------------- data

type heldLock struct {
	Root string // name of the variable the mutex was reached from ("" = unknown)
	ID   string // "Struct.field"
}

type Access struct {
	Var    string
	Write  bool
	Fn     *Fn
	Root   string
	Fresh  bool // root is an object created in this very function (not yet shared)
	Exempt bool // field of a synchronisation type (recorded only to explain dynamic reports)
	File   string
	Line   int
	Held   []heldLock // locally held (intra-procedural)
	Locks  []string   // final: definitely held lock ids that count for this access
}

type CallSite struct {
	Callee   *Fn
	Held     []heldLock
	RecvRoot string
	Line     int
}

type Acquire struct {
	Lock heldLock
	Held []heldLock
	Line int
}

type Fn struct {
	Name     string
	RecvName string
	Pkg      string
	Obj      *types.Func
	Body     *ast.BlockStmt
	Root     string // "", "api", "go", "callback"
	Ctor     bool
	Accesses []*Access
	Calls    []*CallSite
	Acqs     []*Acquire
	nlit     int
	parent   *Fn
	fresh    map[types.Object]bool

	Conc     bool            // reachable from an entry point / goroutine / callback
	ReachAPI bool            // reachable from an exported API method
	ReachGo  bool            // reachable from a goroutine body or callback
	entry    map[string]bool // instance (receiver) locks held at every call site; nil = TOP
	entryS   map[string]bool // singleton locks held at every call site; nil = TOP
	mayAcq   map[string]bool
}

type OrderPair struct {
	A, B string
	Fn   string
	File string
	Line int
}

type Analysis struct {
	cfg    Config
	fset   *token.FileSet
	info   map[*types.Package]*types.Info
	fns    []*Fn
	byObj  map[*types.Func]*Fn
	Exempt map[string]string // "Struct.field" -> type (synchronisation by annotation)
	Fields map[string][]string
	curPkg *types.Package
	curInf *types.Info
	Order  []OrderPair
}

func NewAnalysis(cfg Config, fset *token.FileSet) *Analysis {
	return &Analysis{cfg: cfg, fset: fset, info: map[*types.Package]*types.Info{}, byObj: map[*types.Func]*Fn{},
		Exempt: map[string]string{}, Fields: map[string][]string{}}
}

// ---------------------------------------------------------------------------------------------- type helpers

func namedStruct(t types.Type) (*types.Named, *types.Struct, bool) {
	ptr := false
	if p, ok := t.(*types.Pointer); ok {
		t = p.Elem()
		ptr = true
	}
	n, ok := t.(*types.Named)
	if !ok {
		return nil, nil, false
	}
	s, ok := n.Underlying().(*types.Struct)
	if !ok {
		return nil, nil, false
	}
	return n, s, ptr
}

func isSyncType(t types.Type) (string, bool) {
	if _, ok := t.Underlying().(*types.Chan); ok {
		return "chan", true
	}
	if p, ok := t.(*types.Pointer); ok {
		t = p.Elem()
	}
	n, ok := t.(*types.Named)
	if !ok || n.Obj().Pkg() == nil {
		return "", false
	}
	full := n.Obj().Pkg().Path() + "." + n.Obj().Name()
	switch {
	case n.Obj().Pkg().Path() == "sync" || n.Obj().Pkg().Path() == "sync/atomic":
		return full, true
	case full == "context.Context":
		return full, true
	}
	return "", false
}

func isMutexType(t types.Type) bool {
	if p, ok := t.(*types.Pointer); ok {
		t = p.Elem()
	}
	n, ok := t.(*types.Named)
	return ok && n.Obj().Pkg() != nil && n.Obj().Pkg().Path() == "sync" &&
		(n.Obj().Name() == "Mutex" || n.Obj().Name() == "RWMutex")
}

func (a *Analysis) tracked(t types.Type) (string, *types.Struct, bool) {
	n, s, _ := namedStruct(t)
	if n == nil || !a.cfg.Tracked[n.Obj().Name()] {
		return "", nil, false
	}
	return n.Obj().Name(), s, true
}

// rootOf strips selectors, indexing, derefs; returns the innermost identifier (or nil)
func rootOf(e ast.Expr) *ast.Ident {
	for {
		switch x := e.(type) {
		case *ast.Ident:
			return x
		case *ast.SelectorExpr:
			e = x.X
		case *ast.IndexExpr:
			e = x.X
		case *ast.StarExpr:
			e = x.X
		case *ast.ParenExpr:
			e = x.X
		case *ast.SliceExpr:
			e = x.X
		case *ast.UnaryExpr:
			e = x.X
		default:
			return nil
		}
	}
}

// localValue: e is a chain of by-value struct selectors on a local (non-pointer) struct variable, i.e. a private copy
func (a *Analysis) localValue(e ast.Expr) bool {
	for {
		switch x := e.(type) {
		case *ast.ParenExpr:
			e = x.X
		case *ast.Ident:
			obj, ok := a.curInf.Uses[x].(*types.Var)
			if !ok {
				if o2, ok2 := a.curInf.Defs[x].(*types.Var); ok2 {
					obj, ok = o2, true
				}
			}
			if !ok || obj.IsField() || obj.Parent() == nil || obj.Parent() == obj.Pkg().Scope() {
				return false
			}
			_, isPtr := obj.Type().(*types.Pointer)
			return !isPtr
		case *ast.SelectorExpr:
			tv, ok := a.curInf.Types[x.X]
			if !ok {
				return false
			}
			if _, isPtr := tv.Type.(*types.Pointer); isPtr {
				return false
			}
			e = x.X
		default:
			return false
		}
	}
}

// ---------------------------------------------------------------------------------------------- collection

func (a *Analysis) AddPackage(pkg *types.Package, info *types.Info, files []*ast.File) {
	a.info[pkg] = info
	// field tables + exempt list
	for _, name := range pkg.Scope().Names() {
		tn, ok := pkg.Scope().Lookup(name).(*types.TypeName)
		if !ok {
			continue
		}
		sname, st, ok := a.tracked(tn.Type())
		if !ok {
			continue
		}
		for i := 0; i < st.NumFields(); i++ {
			f := st.Field(i)
			if only, ok := a.cfg.OnlyFields[sname]; ok && !only[f.Name()] {
				continue
			}
			if ty, ex := isSyncType(f.Type()); ex {
				a.Exempt[sname+"."+f.Name()] = ty
			} else {
				a.Fields[sname] = append(a.Fields[sname], f.Name())
			}
		}
	}
	for _, file := range files {
		for _, d := range file.Decls {
			fd, ok := d.(*ast.FuncDecl)
			if !ok || fd.Body == nil {
				continue
			}
			obj := info.Defs[fd.Name].(*types.Func)
			fn := &Fn{Name: fd.Name.Name, Pkg: pkg.Name(), Obj: obj, Body: fd.Body}
			if fd.Recv != nil && len(fd.Recv.List) == 1 {
				if n, _, _ := namedStruct(info.TypeOf(fd.Recv.List[0].Type)); n != nil {
					fn.Name = n.Obj().Name() + "." + fd.Name.Name
					if a.cfg.APIStructs[n.Obj().Name()] && fd.Name.IsExported() {
						fn.Root = "api"
					}
				}
				if len(fd.Recv.List[0].Names) == 1 {
					fn.RecvName = fd.Recv.List[0].Names[0].Name
				}
			}
			isCtor := a.cfg.Constructors != nil && fd.Recv == nil && a.cfg.Constructors(fd.Name.Name)
			if res := obj.Type().(*types.Signature).Results(); res.Len() == 1 {
				if n, ok := res.At(0).Type().(*types.Named); ok && a.cfg.CtorResults[n.Obj().Name()] {
					isCtor = true
				}
			}
			if isCtor {
				fn.Ctor = true
				fn.Root = ""
			}
			a.fns = append(a.fns, fn)
			a.byObj[obj] = fn
		}
	}
}

// ---------------------------------------------------------------------------------------------- the walk

type walker struct {
	a  *Analysis
	fn *Fn
}

func copyHeld(h []heldLock) []heldLock { return append([]heldLock{}, h...) }

func interHeld(x, y []heldLock) []heldLock {
	var r []heldLock
	for _, l := range x {
		for _, m := range y {
			if l == m {
				r = append(r, l)
				break
			}
		}
	}
	return r
}

func removeHeld(h []heldLock, l heldLock) []heldLock {
	var r []heldLock
	for _, x := range h {
		if x != l {
			r = append(r, x)
		}
	}
	return r
}

func hasHeld(h []heldLock, l heldLock) bool {
	for _, x := range h {
		if x == l {
			return true
		}
	}
	return false
}

func (a *Analysis) Walk() {
	// closures may append to a.fns while we iterate
	for i := 0; i < len(a.fns); i++ {
		fn := a.fns[i]
		a.setPkg(a.top(fn))
		if fn.parent == nil {
			fn.fresh = map[types.Object]bool{}
		}
		w := &walker{a: a, fn: fn}
		w.findFresh(fn.Body)
		w.block(fn.Body.List, nil)
	}
}

func (a *Analysis) setPkg(fn *Fn) {
	for p, inf := range a.info {
		if p == fn.Obj.Pkg() {
			a.curPkg, a.curInf = p, inf
		}
	}
}

func (w *walker) findFresh(body *ast.BlockStmt) {
	ast.Inspect(body, func(n ast.Node) bool {
		as, ok := n.(*ast.AssignStmt)
		if !ok || as.Tok != token.DEFINE || len(as.Lhs) != len(as.Rhs) {
			return true
		}
		for i, l := range as.Lhs {
			id, ok := l.(*ast.Ident)
			if !ok {
				continue
			}
			r := as.Rhs[i]
			if u, ok := r.(*ast.UnaryExpr); ok && u.Op == token.AND {
				r = u.X
			}
			isNew := false
			if _, ok := r.(*ast.CompositeLit); ok {
				isNew = true
			}
			if c, ok := r.(*ast.CallExpr); ok {
				if f, ok := c.Fun.(*ast.Ident); ok && f.Name == "new" {
					isNew = true
				}
			}
			if isNew {
				if obj := w.a.curInf.Defs[id]; obj != nil {
					w.fn.fresh[obj] = true
				}
			}
		}
		return true
	})
}

// block walks statements in order; returns the held set at the end and whether control cannot fall through
func (w *walker) block(stmts []ast.Stmt, held []heldLock) ([]heldLock, bool) {
	for _, s := range stmts {
		var term bool
		held, term = w.stmt(s, held)
		if term {
			return held, true
		}
	}
	return held, false
}

func (w *walker) stmt(s ast.Stmt, held []heldLock) ([]heldLock, bool) {
	switch x := s.(type) {
	case nil:
		return held, false
	case *ast.ExprStmt:
		if call, ok := x.X.(*ast.CallExpr); ok {
			if l, op, ok := w.lockOp(call); ok {
				switch op {
				case "Lock", "RLock":
					w.fn.Acqs = append(w.fn.Acqs, &Acquire{Lock: l, Held: copyHeld(held), Line: w.line(call)})
					if !hasHeld(held, l) {
						held = append(copyHeld(held), l)
					}
				case "Unlock", "RUnlock":
					held = removeHeld(held, l)
				}
				return held, false
			}
			if id, ok := call.Fun.(*ast.Ident); ok && id.Name == "panic" {
				w.expr(x.X, held)
				return held, true
			}
		}
		w.expr(x.X, held)
	case *ast.DeferStmt:
		if _, op, ok := w.lockOp(x.Call); ok && (op == "Unlock" || op == "RUnlock") {
			return held, false // stays held until the function returns
		}
		// a deferred call runs at function exit: analysed with NO locally held lock (conservative)
		w.call(x.Call, nil, false)
	case *ast.GoStmt:
		w.call(x.Call, nil, true)
	case *ast.AssignStmt:
		for _, r := range x.Rhs {
			w.expr(r, held)
		}
		for _, l := range x.Lhs {
			w.lhs(l, held, x.Tok != token.ASSIGN && x.Tok != token.DEFINE)
		}
	case *ast.IncDecStmt:
		w.lhs(x.X, held, true)
	case *ast.SendStmt:
		w.expr(x.Chan, held)
		w.expr(x.Value, held)
	case *ast.ReturnStmt:
		for _, r := range x.Results {
			w.expr(r, held)
		}
		return held, true
	case *ast.BranchStmt:
		return held, true // break/continue/goto: leaves this statement list
	case *ast.BlockStmt:
		return w.block(x.List, held)
	case *ast.LabeledStmt:
		return w.stmt(x.Stmt, held)
	case *ast.DeclStmt:
		if gd, ok := x.Decl.(*ast.GenDecl); ok {
			for _, sp := range gd.Specs {
				if vs, ok := sp.(*ast.ValueSpec); ok {
					for _, v := range vs.Values {
						w.expr(v, held)
					}
				}
			}
		}
	case *ast.IfStmt:
		held, _ = w.stmt(x.Init, held)
		w.expr(x.Cond, held)
		h1, t1 := w.block(x.Body.List, copyHeld(held))
		h2, t2 := copyHeld(held), false
		if x.Else != nil {
			h2, t2 = w.stmt(x.Else, copyHeld(held))
		}
		switch {
		case t1 && t2:
			return held, true
		case t1:
			return h2, false
		case t2:
			return h1, false
		}
		return interHeld(h1, h2), false
	case *ast.ForStmt:
		held, _ = w.stmt(x.Init, held)
		entry := copyHeld(held)
		for i := 0; i < 4; i++ {
			n := len(w.fn.Accesses)
			nc, na := len(w.fn.Calls), len(w.fn.Acqs)
			nl := w.rootFn().nlit
			if x.Cond != nil {
				w.expr(x.Cond, entry)
			}
			out, _ := w.block(x.Body.List, copyHeld(entry))
			out, _ = w.stmt(x.Post, out)
			next := interHeld(entry, out)
			if len(next) == len(entry) {
				break
			}
			// a lock is released inside the body: redo the body with the smaller entry set
			w.fn.Accesses, w.fn.Calls, w.fn.Acqs = w.fn.Accesses[:n], w.fn.Calls[:nc], w.fn.Acqs[:na]
			w.rootFn().nlit = nl
			w.a.dropLits(w.rootFn(), nl)
			entry = next
		}
		return entry, false
	case *ast.RangeStmt:
		w.expr(x.X, held)
		if x.Tok == token.ASSIGN {
			if x.Key != nil {
				w.lhs(x.Key, held, false)
			}
			if x.Value != nil {
				w.lhs(x.Value, held, false)
			}
		}
		entry := copyHeld(held)
		for i := 0; i < 4; i++ {
			n := len(w.fn.Accesses)
			nc, na := len(w.fn.Calls), len(w.fn.Acqs)
			nl := w.rootFn().nlit
			out, _ := w.block(x.Body.List, copyHeld(entry))
			next := interHeld(entry, out)
			if len(next) == len(entry) {
				break
			}
			w.fn.Accesses, w.fn.Calls, w.fn.Acqs = w.fn.Accesses[:n], w.fn.Calls[:nc], w.fn.Acqs[:na]
			w.rootFn().nlit = nl
			w.a.dropLits(w.rootFn(), nl)
			entry = next
		}
		return entry, false
	case *ast.SwitchStmt:
		held, _ = w.stmt(x.Init, held)
		if x.Tag != nil {
			w.expr(x.Tag, held)
		}
		return w.clauses(x.Body.List, held)
	case *ast.TypeSwitchStmt:
		held, _ = w.stmt(x.Init, held)
		held, _ = w.stmt(x.Assign, held)
		return w.clauses(x.Body.List, held)
	case *ast.SelectStmt:
		return w.clauses(x.Body.List, held)
	default:
		// EmptyStmt etc.
	}
	return held, false
}

func (w *walker) clauses(list []ast.Stmt, held []heldLock) ([]heldLock, bool) {
	out := copyHeld(held) // conservatively: also the path that takes no clause
	for _, c := range list {
		var body []ast.Stmt
		h := copyHeld(held)
		switch cc := c.(type) {
		case *ast.CaseClause:
			for _, e := range cc.List {
				w.expr(e, h)
			}
			body = cc.Body
		case *ast.CommClause:
			h, _ = w.stmt(cc.Comm, h)
			body = cc.Body
		}
		// `break` inside a clause leaves the switch only; treat as fallthrough to the end
		ho, term := w.block(body, h)
		if !term || endsWithBreak(body) {
			out = interHeld(out, ho)
		}
	}
	return out, false
}

func endsWithBreak(body []ast.Stmt) bool {
	if len(body) == 0 {
		return false
	}
	b, ok := body[len(body)-1].(*ast.BranchStmt)
	return ok && b.Tok == token.BREAK
}

func (a *Analysis) dropLits(parent *Fn, nl int) {
	// closures created while walking a loop body that is re-walked are re-created; drop the first copies
	keep := a.fns[:0]
	for _, f := range a.fns {
		if f.parent != nil && a.top(f) == parent && f.litIndex() > nl {
			continue
		}
		keep = append(keep, f)
	}
	a.fns = keep
}

func (f *Fn) litIndex() int {
	i := strings.LastIndex(f.Name, "$")
	n := 0
	fmt.Sscanf(f.Name[i+1:], "%d", &n)
	return n
}

func (w *walker) line(n ast.Node) int { return w.a.fset.Position(n.Pos()).Line }

// lockOp recognises X.Lock() / X.Unlock() on a sync.Mutex / sync.RWMutex (also promoted from an embedded field)
func (w *walker) lockOp(call *ast.CallExpr) (heldLock, string, bool) {
	sel, ok := call.Fun.(*ast.SelectorExpr)
	if !ok {
		return heldLock{}, "", false
	}
	s := w.a.curInf.Selections[sel]
	if s == nil || s.Kind() != types.MethodVal {
		return heldLock{}, "", false
	}
	m := s.Obj().(*types.Func)
	if m.Pkg() == nil || m.Pkg().Path() != "sync" {
		return heldLock{}, "", false
	}
	op := m.Name()
	if op != "Lock" && op != "Unlock" && op != "RLock" && op != "RUnlock" {
		return heldLock{}, "", false
	}
	recv := m.Type().(*types.Signature).Recv().Type()
	if !isMutexType(recv) {
		return heldLock{}, "", false
	}
	root := ""
	if id := rootOf(sel.X); id != nil {
		root = id.Name
	}
	// explicit field: r.f.Lock()
	if fs, ok := sel.X.(*ast.SelectorExpr); ok && isMutexType(w.a.curInf.TypeOf(sel.X)) {
		if n, _, _ := namedStruct(w.a.curInf.TypeOf(fs.X)); n != nil {
			return heldLock{Root: root, ID: n.Obj().Name() + "." + fs.Sel.Name}, op, true
		}
	}
	// promoted through an embedded mutex: x.Lock() with x of struct type
	if n, st, _ := namedStruct(w.a.curInf.TypeOf(sel.X)); n != nil && len(s.Index()) > 1 {
		return heldLock{Root: root, ID: n.Obj().Name() + "." + st.Field(s.Index()[0]).Name()}, op, true
	}
	// a local / package-level mutex variable
	if id, ok := sel.X.(*ast.Ident); ok {
		return heldLock{Root: id.Name, ID: "var." + id.Name}, op, true
	}
	return heldLock{Root: root, ID: "unknown"}, op, true
}

func (w *walker) record(x ast.Expr, field string, write bool, held []heldLock, at ast.Node) {
	sname, _, ok := w.a.tracked(w.a.curInf.TypeOf(x))
	if !ok {
		return
	}
	if w.a.localValue(x) {
		return
	}
	if only, ok := w.a.cfg.OnlyFields[sname]; ok && !only[field] {
		return
	}
	acc := &Access{Var: sname + "." + field, Write: write, Fn: w.fn, Held: copyHeld(held)}
	if _, ex := w.a.Exempt[sname+"."+field]; ex {
		acc.Exempt = true
	}
	if id := rootOf(x); id != nil {
		acc.Root = id.Name
		obj := w.a.curInf.Uses[id]
		for f := w.fn; f != nil; f = f.parent {
			if f.fresh[obj] {
				acc.Fresh = true
			}
			if f.parent == nil {
				break
			}
		}
	}
	pos := w.a.fset.Position(at.Pos())
	acc.File, acc.Line = pos.Filename, pos.Line
	w.fn.Accesses = append(w.fn.Accesses, acc)
}

func (w *walker) rootFn() *Fn {
	f := w.fn
	for f.parent != nil {
		f = f.parent
	}
	return f
}

// lhs: e is assigned to (write of the outermost field; the path to it is read)
func (w *walker) lhs(e ast.Expr, held []heldLock, alsoRead bool) {
	switch x := e.(type) {
	case *ast.ParenExpr:
		w.lhs(x.X, held, alsoRead)
	case *ast.SelectorExpr:
		if s := w.a.curInf.Selections[x]; s != nil && s.Kind() == types.FieldVal {
			w.record(x.X, x.Sel.Name, true, held, x)
			if alsoRead {
				w.record(x.X, x.Sel.Name, false, held, x)
			}
			// writing a field of a by-value nested struct also writes the enclosing field
			if tv := w.a.curInf.TypeOf(x.X); tv != nil {
				if _, isPtr := tv.(*types.Pointer); !isPtr {
					if _, isSel := x.X.(*ast.SelectorExpr); isSel {
						w.lhs(x.X, held, false)
						return
					}
				}
			}
			w.expr(x.X, held)
			return
		}
		w.expr(x.X, held)
	case *ast.IndexExpr:
		// element write of a map / slice / array held in a field = write of that variable
		w.expr(x.Index, held)
		w.lhs(x.X, held, true)
	case *ast.StarExpr:
		if sname, _, ok := w.a.tracked(w.a.curInf.TypeOf(x.X)); ok {
			for _, f := range w.a.Fields[sname] {
				w.record(x.X, f, true, held, x)
			}
		}
		w.expr(x.X, held)
	case *ast.Ident:
	default:
		w.expr(e, held)
	}
}

// expr: e is evaluated (reads)
func (w *walker) expr(e ast.Expr, held []heldLock) {
	switch x := e.(type) {
	case nil:
	case *ast.Ident:
		w.funcRef(x, nil)
	case *ast.BasicLit:
	case *ast.ParenExpr:
		w.expr(x.X, held)
	case *ast.SelectorExpr:
		s := w.a.curInf.Selections[x]
		switch {
		case s != nil && s.Kind() == types.FieldVal:
			w.record(x.X, x.Sel.Name, false, held, x)
			w.expr(x.X, held)
		case s != nil && s.Kind() == types.MethodVal:
			// method value not in call position: the method escapes (callback)
			w.funcRef(nil, s.Obj())
			w.expr(x.X, held)
		default:
			// package-qualified identifier
			w.funcRef(x.Sel, nil)
		}
	case *ast.StarExpr:
		if sname, _, ok := w.a.tracked(w.a.curInf.TypeOf(x.X)); ok {
			// copy of the whole struct: reads every field
			for _, f := range w.a.Fields[sname] {
				w.record(x.X, f, false, held, x)
			}
		}
		w.expr(x.X, held)
	case *ast.UnaryExpr:
		if x.Op == token.AND {
			// address taken: the pointee may be written through the pointer
			if sel, ok := x.X.(*ast.SelectorExpr); ok {
				if s := w.a.curInf.Selections[sel]; s != nil && s.Kind() == types.FieldVal {
					w.record(sel.X, sel.Sel.Name, true, held, x)
				}
			}
		}
		w.expr(x.X, held)
	case *ast.BinaryExpr:
		w.expr(x.X, held)
		w.expr(x.Y, held)
	case *ast.IndexExpr:
		w.expr(x.X, held)
		w.expr(x.Index, held)
	case *ast.SliceExpr:
		w.expr(x.X, held)
		w.expr(x.Low, held)
		w.expr(x.High, held)
		w.expr(x.Max, held)
	case *ast.TypeAssertExpr:
		w.expr(x.X, held)
	case *ast.KeyValueExpr:
		w.expr(x.Value, held)
	case *ast.CompositeLit:
		for _, el := range x.Elts {
			w.expr(el, held)
		}
	case *ast.FuncLit:
		// a closure that is stored / returned: separate function, may run anywhere (callback)
		w.newLit(x, "callback")
	case *ast.CallExpr:
		w.call(x, held, false)
	}
}

// funcRef: a function or method mentioned outside call position escapes
func (w *walker) funcRef(id *ast.Ident, obj types.Object) {
	if id != nil {
		obj = w.a.curInf.Uses[id]
	}
	f, ok := obj.(*types.Func)
	if !ok {
		return
	}
	if fn := w.a.byObj[f]; fn != nil && fn.Root == "" && !fn.Ctor {
		fn.Root = "callback"
	}
}

func (w *walker) newLit(lit *ast.FuncLit, root string) *Fn {
	top := w.rootFn()
	top.nlit++
	fn := &Fn{Name: fmt.Sprintf("%s$%d", top.Name, top.nlit), Pkg: top.Pkg, Obj: top.Obj, Body: lit.Body,
		Root: root, parent: w.fn, RecvName: top.RecvName, fresh: map[types.Object]bool{}, Ctor: top.Ctor}
	if top.Ctor {
		fn.Root = ""
	}
	w.a.fns = append(w.a.fns, fn)
	// reachability edge parent -> closure (the closure exists only if the parent ran)
	w.fn.Calls = append(w.fn.Calls, &CallSite{Callee: fn, Held: nil, RecvRoot: "\x00none", Line: w.line(lit)})
	return fn
}

func (w *walker) call(call *ast.CallExpr, held []heldLock, isGo bool) {
	inf := w.a.curInf
	// builtins with write effect
	if id, ok := call.Fun.(*ast.Ident); ok {
		if _, isB := inf.Uses[id].(*types.Builtin); isB {
			switch id.Name {
			case "delete", "clear":
				if len(call.Args) > 0 {
					w.lhs(call.Args[0], held, true)
					for _, a := range call.Args[1:] {
						w.expr(a, held)
					}
					return
				}
			}
			for _, a := range call.Args {
				w.expr(a, held)
			}
			return
		}
	}
	var callee *Fn
	recvRoot := "\x00none"
	switch f := call.Fun.(type) {
	case *ast.FuncLit:
		if isGo {
			w.newLit(f, "go")
		} else {
			// immediately invoked: runs here
			w.inline(f, held)
		}
	case *ast.Ident:
		if fo, ok := inf.Uses[f].(*types.Func); ok {
			callee = w.a.byObj[fo]
		}
	case *ast.SelectorExpr:
		s := inf.Selections[f]
		if s != nil && s.Kind() == types.MethodVal {
			callee = w.a.byObj[s.Obj().(*types.Func)]
			recvRoot = ""
			if id := rootOf(f.X); id != nil {
				recvRoot = id.Name
			}
			// the receiver expression is evaluated (a field holding a pointer/interface is read)
			w.expr(f.X, held)
		} else if s == nil {
			if fo, ok := inf.Uses[f.Sel].(*types.Func); ok {
				callee = w.a.byObj[fo]
			}
		} else {
			w.expr(f, held) // call through a func-typed field
		}
	default:
		w.expr(call.Fun, held)
	}
	for _, arg := range call.Args {
		if lit, ok := arg.(*ast.FuncLit); ok && !isGo {
			// closure passed to a call: assumed to be run synchronously by the callee, here
			w.inline(lit, held)
			continue
		}
		w.expr(arg, held)
	}
	if callee != nil {
		if isGo {
			if callee.Root == "" && !callee.Ctor {
				callee.Root = "go"
			} else if callee.Root == "api" {
				callee.ReachGo = true
			}
			w.fn.Calls = append(w.fn.Calls, &CallSite{Callee: callee, RecvRoot: "\x00go", Line: w.line(call)})
		} else {
			w.fn.Calls = append(w.fn.Calls, &CallSite{Callee: callee, Held: copyHeld(held), RecvRoot: recvRoot, Line: w.line(call)})
		}
	}
}

func (w *walker) inline(lit *ast.FuncLit, held []heldLock) {
	w.findFresh(lit.Body)
	w.block(lit.Body.List, copyHeld(held))
}

// ---------------------------------------------------------------------------------------------- propagation

func (a *Analysis) singletonLock(id string) bool {
	i := strings.Index(id, ".")
	return i > 0 && a.cfg.Singleton[id[:i]]
}

func (a *Analysis) Propagate() {
	// 1. reachability (independent of locks)
	var mark func(f *Fn, api, gor bool)
	mark = func(f *Fn, api, gor bool) {
		if f.Ctor {
			return
		}
		ch := !f.Conc
		if api && !f.ReachAPI {
			f.ReachAPI, ch = true, true
		}
		if gor && !f.ReachGo {
			f.ReachGo, ch = true, true
		}
		f.Conc = true
		if !ch {
			return
		}
		for _, c := range f.Calls {
			if c.RecvRoot == "\x00go" || c.Callee.Root == "go" || c.Callee.Root == "callback" {
				mark(c.Callee, false, true)
			} else {
				mark(c.Callee, api, gor)
			}
		}
	}
	for _, f := range a.fns {
		switch f.Root {
		case "api":
			mark(f, true, f.ReachGo)
		case "go", "callback":
			// a goroutine body / callback counts only if something reachable creates it; decided below
		}
	}
	// goroutine bodies / callbacks: concurrent if their creator is (closures) or unconditionally (named functions
	// whose address is taken, e.g. probe callbacks handed to another package)
	for changed := true; changed; {
		changed = false
		for _, f := range a.fns {
			if (f.Root == "go" || f.Root == "callback") && !f.ReachGo {
				if f.parent == nil || f.parent.Conc || a.top(f).Conc {
					mark(f, false, true)
					changed = true
				}
			}
		}
	}
	// 2. locks held at every call site (greatest fixpoint over concurrent callers)
	for _, f := range a.fns {
		if f.Root != "" || !f.Conc {
			f.entry, f.entryS = map[string]bool{}, map[string]bool{}
		}
	}
	for changed := true; changed; {
		changed = false
		for _, f := range a.fns {
			if f.Root != "" || !f.Conc {
				continue
			}
			var inst, sing map[string]bool
			seen := false
			for _, g := range a.fns {
				if !g.Conc {
					continue
				}
				for _, c := range g.Calls {
					if c.Callee != f || c.RecvRoot == "\x00go" {
						continue
					}
					if g.entry == nil { // caller still TOP: contributes nothing yet
						continue
					}
					ci, cs := map[string]bool{}, map[string]bool{}
					for _, h := range c.Held {
						if a.singletonLock(h.ID) {
							cs[h.ID] = true
						} else if h.Root != "" && h.Root == c.RecvRoot {
							ci[h.ID] = true
						}
					}
					for l := range g.entryS {
						cs[l] = true
					}
					if c.RecvRoot != "" && c.RecvRoot == a.top(g).RecvName {
						for l := range g.entry {
							ci[l] = true
						}
					}
					if !seen {
						inst, sing, seen = ci, cs, true
					} else {
						inst, sing = interSet(inst, ci), interSet(sing, cs)
					}
				}
			}
			if !seen {
				continue
			}
			if f.entry == nil || len(inst) != len(f.entry) || len(sing) != len(f.entryS) {
				f.entry, f.entryS = inst, sing
				changed = true
			}
		}
	}
	for _, f := range a.fns {
		if f.entry == nil {
			f.entry, f.entryS = map[string]bool{}, map[string]bool{}
		}
	}
	// 3. final lock sets of the accesses
	for _, f := range a.fns {
		for _, acc := range f.Accesses {
			set := map[string]bool{}
			for _, h := range acc.Held {
				if a.singletonLock(h.ID) || (h.Root != "" && h.Root == acc.Root) {
					set[h.ID] = true
				}
			}
			// closures that are separate functions (go / callback) start with nothing; inlined ones were
			// walked as part of their parent
			if f.parent == nil {
				for l := range f.entryS {
					set[l] = true
				}
				if acc.Root != "" && acc.Root == f.RecvName {
					for l := range f.entry {
						set[l] = true
					}
				}
			}
			acc.Locks = sortedKeys(set)
		}
	}
	// 4. acquisition order: B acquired (directly, or inside a callee) while A is held
	for _, f := range a.fns {
		f.mayAcq = map[string]bool{}
		for _, q := range f.Acqs {
			f.mayAcq[q.Lock.ID] = true
		}
	}
	for changed := true; changed; {
		changed = false
		for _, f := range a.fns {
			for _, c := range f.Calls {
				if c.RecvRoot == "\x00go" || c.Callee.Root == "go" {
					continue
				}
				for l := range c.Callee.mayAcq {
					if !f.mayAcq[l] {
						f.mayAcq[l] = true
						changed = true
					}
				}
			}
		}
	}
	seenPair := map[string]bool{}
	add := func(A, B string, f *Fn, line int) {
		k := A + ">" + B + "@" + f.Name
		if seenPair[k] || !f.Conc {
			return
		}
		seenPair[k] = true
		a.Order = append(a.Order, OrderPair{A: A, B: B, Fn: f.Name, File: a.fset.Position(a.top(f).Body.Pos()).Filename, Line: line})
	}
	for _, f := range a.fns {
		for _, q := range f.Acqs {
			for _, h := range q.Held {
				// the same mutex type reached from two different variables is two instances only if both
				// roots are known and differ and the type is not a singleton; still the same abstract lock
				add(h.ID, q.Lock.ID, f, q.Line)
			}
			for l := range f.entry {
				add(l, q.Lock.ID, f, q.Line)
			}
			for l := range f.entryS {
				add(l, q.Lock.ID, f, q.Line)
			}
		}
		for _, c := range f.Calls {
			if c.RecvRoot == "\x00go" || c.Callee.Root == "go" || c.Callee.Root == "callback" {
				continue
			}
			for _, h := range c.Held {
				for l := range c.Callee.mayAcq {
					add(h.ID, l, f, c.Line)
				}
			}
		}
	}
	sort.Slice(a.Order, func(i, j int) bool {
		x, y := a.Order[i], a.Order[j]
		if x.A != y.A {
			return x.A < y.A
		}
		if x.B != y.B {
			return x.B < y.B
		}
		return x.Fn < y.Fn
	})
}

func (a *Analysis) top(f *Fn) *Fn {
	for f.parent != nil {
		f = f.parent
	}
	return f
}

func interSet(x, y map[string]bool) map[string]bool {
	r := map[string]bool{}
	for k := range x {
		if y[k] {
			r[k] = true
		}
	}
	return r
}

func sortedKeys(m map[string]bool) []string {
	r := make([]string, 0, len(m))
	for k := range m {
		r = append(r, k)
	}
	sort.Strings(r)
	return r
}
