// c14: correspondence harness for the live project update (property C14).
//
// Two kinds of cases are produced (see coq/theories/Update/Check.v):
//   - Compare cases: ProcessConfig.Compare on two loader-built configurations that differ in chosen
//     YAML settings (one-setting-at-a-time sensitivity table + random subsets + JSON round trips);
//   - update cases: a ProjectRunner with the scripted commander (commands stay alive until stopped),
//     Run() in a goroutine, then a sequence of updates (UpdateProject / ReloadProject / REST through
//     api.InitRoutes + client.PcClient); after every step the status map, the listed processes, the
//     stored configurations, the commands alive / signalled / launched and their launch parameters.
//
// Output: <out>/cases_C14.v, <out>/cases_C14.json, one JSON line of statistics on stdout.
package main

import (
	"encoding/json"
	"flag"
	"fmt"
	"math/rand"
	"net"
	"net/http/httptest"
	"os"
	"path/filepath"
	"reflect"
	"sort"
	"strconv"
	"strings"
	"sync"
	"time"

	"github.com/f1bonacc1/process-compose/src/api"
	"github.com/f1bonacc1/process-compose/src/app"
	"github.com/f1bonacc1/process-compose/src/client"
	"github.com/f1bonacc1/process-compose/src/loader"
	"github.com/f1bonacc1/process-compose/src/types"
	"github.com/gin-gonic/gin"
	"github.com/rs/zerolog"
	"gopkg.in/yaml.v2"
	"pcverif/coqfmt"
	"pcverif/fakecmd"
)

// ---------------------------------------------------------------------------------- specifications

// Knobs: setting name -> index into its value list (0 = default / absent).
type Knobs map[string]int

type ProjSpec struct {
	GlobalEnv  int              `json:"genv,omitempty"`
	GlobalVars int              `json:"gvars,omitempty"` // project-level vars: rendered into templated commands by the loader
	Shell      int              `json:"shell,omitempty"` // project-level shell: decides executable/args of command-form processes
	Procs      map[string]Knobs `json:"procs"`
}

type knobDef struct {
	Name       string
	N          int  // number of values
	RunnerSafe bool // may be used when the project is actually run
	Form       int  // -1 any, 0 only command form, 1 only entrypoint form
	DepSafe    bool // may be changed on a process others depend on
}

var knobDefs = []knobDef{
	{"form", 2, true, -1, true},
	{"command", 4, true, 0, true},
	{"exe", 3, true, 1, true},
	{"eparg", 2, true, 1, true},
	{"environment", 4, true, -1, true},
	{"working_dir", 3, true, -1, true},
	{"liveness", 4, true, -1, true},
	{"readiness", 4, true, -1, true},
	{"restart", 4, true, -1, true},
	{"backoff", 2, true, -1, true},
	{"max_restarts", 2, true, -1, true},
	{"shutdown_signal", 3, true, -1, true},
	{"shutdown_parent_only", 2, true, -1, true},
	{"depends", 3, true, -1, false},
	{"description", 3, true, -1, true},
	{"namespace", 2, true, -1, true},
	{"vars", 4, true, -1, true},
	{"ext", 3, true, -1, true},
	{"disabled", 2, true, -1, false},
	{"is_foreground", 2, true, -1, false},
	{"is_tty", 2, true, -1, true},
	{"ready_log_line", 2, true, -1, true},
	{"disable_ansi", 2, true, -1, true},
	{"replicas", 3, true, -1, false},
	{"launch_timeout", 2, true, -1, true},
	// only compared, never run (they would start real commands, timers or a shutdown of the project)
	{"restart_exit_on_failure", 2, false, -1, true},
	{"exit_on_end", 2, false, -1, true},
	{"exit_on_skipped", 2, false, -1, true},
	{"shutdown_timeout", 2, false, -1, true},
	{"shutdown_command", 2, false, -1, true},
	{"depends_cond", 2, false, -1, false},
	{"is_daemon", 2, false, -1, true},
	{"is_elevated", 2, false, -1, true},
	{"log_location", 2, false, -1, true},
	{"log_configuration", 2, false, -1, true},
}

func knobByName(n string) knobDef {
	for _, k := range knobDefs {
		if k.Name == n {
			return k
		}
	}
	panic("unknown knob " + n)
}

type genEnv struct {
	dirs [3]string // working directories (index 1, 2 used)
	tmp  string
}

func procYAML(name string, k Knobs, ge *genEnv) map[string]interface{} {
	m := map[string]interface{}{}
	if k["form"] == 0 {
		m["command"] = []string{"sleep 1000", "sleep 2000", "echo hi; sleep 3000", "echo {{.MSG}}; sleep 4000"}[k["command"]]
	} else {
		m["entrypoint"] = []string{[]string{"python3", "python2", "/opt/bin/prog"}[k["exe"]], []string{"a.py", "b.py"}[k["eparg"]]}
	}
	switch k["environment"] {
	case 1:
		m["environment"] = []string{"A=1"}
	case 2:
		m["environment"] = []string{"A=2"}
	case 3:
		m["environment"] = []string{"A=1", "B=x=y"}
	}
	if v := k["working_dir"]; v > 0 {
		m["working_dir"] = ge.dirs[v]
	}
	switch k["liveness"] {
	case 1:
		m["liveness_probe"] = map[string]interface{}{"exec": map[string]interface{}{"command": "true"}, "initial_delay_seconds": 3600}
	case 2:
		m["liveness_probe"] = map[string]interface{}{"exec": map[string]interface{}{"command": "false"}, "initial_delay_seconds": 3600}
	case 3:
		m["liveness_probe"] = map[string]interface{}{"exec": map[string]interface{}{"command": "true"}, "initial_delay_seconds": 3600, "period_seconds": 77}
	}
	switch k["readiness"] {
	case 1:
		m["readiness_probe"] = map[string]interface{}{"http_get": map[string]interface{}{"host": "127.0.0.1", "port": 8080, "path": "/h"}, "initial_delay_seconds": 3600}
	case 2:
		m["readiness_probe"] = map[string]interface{}{"http_get": map[string]interface{}{"host": "127.0.0.1", "port": 8081, "path": "/h"}, "initial_delay_seconds": 3600}
	case 3:
		m["readiness_probe"] = map[string]interface{}{"http_get": map[string]interface{}{"host": "127.0.0.1", "port": 8080, "path": "/g"}, "initial_delay_seconds": 3600, "failure_threshold": 5}
	}
	av := map[string]interface{}{}
	switch k["restart"] {
	case 1:
		av["restart"] = "always"
	case 2:
		av["restart"] = "on_failure"
	case 3:
		av["restart"] = "no"
	}
	if k["restart_exit_on_failure"] == 1 {
		av["restart"] = "exit_on_failure"
	}
	if k["backoff"] == 1 {
		av["backoff_seconds"] = 3
	}
	if k["max_restarts"] == 1 {
		av["max_restarts"] = 2
	}
	if k["exit_on_end"] == 1 {
		av["exit_on_end"] = true
	}
	if k["exit_on_skipped"] == 1 {
		av["exit_on_skipped"] = true
	}
	if len(av) > 0 {
		m["availability"] = av
	}
	sd := map[string]interface{}{}
	switch k["shutdown_signal"] {
	case 1:
		sd["signal"] = 2
	case 2:
		sd["signal"] = 9
	}
	if k["shutdown_parent_only"] == 1 {
		sd["parent_only"] = true
	}
	if k["shutdown_timeout"] == 1 {
		sd["timeout_seconds"] = 5
	}
	if k["shutdown_command"] == 1 {
		sd["command"] = "echo bye"
	}
	if len(sd) > 0 {
		m["shutdown"] = sd
	}
	cond := "process_started"
	if k["depends_cond"] == 1 {
		cond = "process_completed"
	}
	switch k["depends"] {
	case 1:
		m["depends_on"] = map[string]interface{}{"dep": map[string]interface{}{"condition": cond}}
	case 2:
		m["depends_on"] = map[string]interface{}{"dep": map[string]interface{}{"condition": cond}, "dep2": map[string]interface{}{"condition": "process_started"}}
	}
	if v := k["description"]; v > 0 {
		m["description"] = []string{"", "first description", "second description"}[v]
	}
	if k["namespace"] == 1 {
		m["namespace"] = "ns1"
	}
	switch k["vars"] {
	case 1:
		m["vars"] = map[string]interface{}{"K": 1}
	case 2:
		m["vars"] = map[string]interface{}{"K": 2}
	case 3:
		m["vars"] = map[string]interface{}{"K": "s", "L": 2.5}
	}
	switch k["ext"] {
	case 1:
		m["x-a"] = 1
	case 2:
		m["x-a"] = 2
	}
	if k["disabled"] == 1 {
		m["disabled"] = true
	}
	if k["is_foreground"] == 1 {
		m["is_foreground"] = true
	}
	if k["is_tty"] == 1 {
		m["is_tty"] = true
	}
	if k["is_daemon"] == 1 {
		m["is_daemon"] = true
	}
	if k["is_elevated"] == 1 {
		m["is_elevated"] = true
	}
	if k["ready_log_line"] == 1 && k["readiness"] == 0 { // the loader rejects both together
		m["ready_log_line"] = "ready"
	}
	if k["disable_ansi"] == 1 {
		m["disable_ansi_colors"] = true
	}
	if v := k["replicas"]; v > 0 {
		m["replicas"] = v + 1
	}
	if k["launch_timeout"] == 1 {
		m["launch_timeout_seconds"] = 9
	}
	if k["log_location"] == 1 {
		m["log_location"] = filepath.Join(ge.tmp, "proc-"+name+".log")
	}
	if k["log_configuration"] == 1 {
		m["log_configuration"] = map[string]interface{}{"no_color": true, "timestamp_format": "15:04"}
	}
	return m
}

var globalEnvs = [][]string{nil, {"G=1"}, {"G=2", "H=3"}}

func projYAML(s *ProjSpec, ge *genEnv) string {
	procs := map[string]interface{}{}
	for n, k := range s.Procs {
		procs[n] = procYAML(n, k, ge)
	}
	root := map[string]interface{}{"version": "0.5", "processes": procs}
	if s.GlobalEnv > 0 {
		root["environment"] = globalEnvs[s.GlobalEnv]
	}
	if s.GlobalVars > 0 {
		root["vars"] = map[string]interface{}{"MSG": []string{"", "one", "two"}[s.GlobalVars]}
	}
	if s.Shell > 0 {
		root["shell"] = map[string]interface{}{"shell_command": []string{"", "sh", "bash"}[s.Shell], "shell_argument": "-c"}
	}
	b, err := yaml.Marshal(root)
	if err != nil {
		panic(err)
	}
	return string(b)
}

func loadYAML(file, y string) (*types.Project, error) {
	if err := os.WriteFile(file, []byte(y), 0o644); err != nil {
		return nil, err
	}
	o := &loader.LoaderOptions{FileNames: []string{file}, IsInternalLoader: true}
	o.DisableDotenv(true)
	return loader.Load(o)
}

// ---------------------------------------------------------------------------------- interning

var fieldCoq = map[string]string{
	"Name": "FName", "Disabled": "FDisabled", "IsDaemon": "FIsDaemon", "Command": "FCommand",
	"Entrypoint": "FEntrypoint", "LogLocation": "FLogLocation", "LoggerConfig": "FLoggerConfig",
	"Environment": "FEnvironment", "RestartPolicy": "FRestartPolicy", "DependsOn": "FDependsOn",
	"LivenessProbe": "FLiveness", "ReadinessProbe": "FReadiness", "ReadyLogLine": "FReadyLogLine",
	"ShutDownParams": "FShutdown", "DisableAnsiColors": "FDisableAnsi", "WorkingDir": "FWorkingDir",
	"Namespace": "FNamespace", "Replicas": "FReplicas", "Extensions": "FExtensions",
	"Description": "FDescription", "Vars": "FVars", "IsForeground": "FIsForeground", "IsTty": "FIsTty",
	"IsElevated": "FIsElevated", "LaunchTimeout": "FLaunchTimeout", "OriginalConfig": "FOriginalConfig",
	"ReplicaNum": "FReplicaNum", "ReplicaName": "FReplicaName", "Executable": "FExecutable", "Args": "FArgs",
}

type interner struct {
	tab   map[string]map[string]uint64 // coq field -> canonical value -> id
	first map[string]interface{}       // "field\x00canon" -> first Go value seen (DeepEqual cross-check)
	// number of value pairs with the same canonical form that reflect.DeepEqual distinguishes, per field
	// (expected only for Vars / Extensions: int vs float64 after a JSON round trip)
	deepDiff map[string]int
	confs    map[string]int // serialised pconf -> index of its Definition
	confDefs []string
}

func newInterner() *interner {
	return &interner{tab: map[string]map[string]uint64{}, first: map[string]interface{}{}, deepDiff: map[string]int{}, confs: map[string]int{}}
}

func canon(v interface{}) string {
	b, err := json.Marshal(v)
	if err != nil {
		return fmt.Sprintf("!%#v", v)
	}
	return string(b)
}

func (in *interner) id(field string, v interface{}) uint64 {
	if b, ok := v.(bool); ok {
		if b {
			return 1
		}
		return 0
	}
	c := canon(v)
	if (field == "FArgs" || field == "FEffEnv") && c == "null" {
		c = "[]"
	}
	t := in.tab[field]
	if t == nil {
		t = map[string]uint64{}
		in.tab[field] = t
	}
	key := field + "\x00" + c
	if id, ok := t[c]; ok {
		if f, ok := in.first[key]; ok && !reflect.DeepEqual(f, v) && field != "FArgs" && field != "FEffEnv" {
			in.deepDiff[field]++
		}
		return id
	}
	id := uint64(len(t) + 1)
	t[c] = id
	in.first[key] = v
	return id
}

// pconf of a ProcessConfig; genv is the project-level environment that goes with it.
func (in *interner) conf(pc *types.ProcessConfig, genv []string, genv0 ...[]string) (string, map[string]uint64) {
	rv := reflect.ValueOf(*pc)
	ids := map[string]uint64{}
	var items []string
	for i := 0; i < rv.NumField(); i++ {
		fn := rv.Type().Field(i).Name
		cf, ok := fieldCoq[fn]
		if !ok {
			panic("ProcessConfig has a field the model does not know: " + fn)
		}
		id := in.id(cf, rv.Field(i).Interface())
		ids[cf] = id
		items = append(items, coqfmt.Pair(cf, coqfmt.N(id)))
	}
	eff := append(append([]string{}, genv...), pc.Environment...)
	id := in.id("FEffEnv", eff)
	ids["FEffEnv"] = id
	items = append(items, coqfmt.Pair("FEffEnv", coqfmt.N(id)))
	if len(genv0) > 0 {
		eff0 := append(append([]string{}, genv0[0]...), pc.Environment...)
		id0 := in.id("FEffEnv", eff0)
		ids["FEffEnv0"] = id0
		items = append(items, coqfmt.Pair("FEffEnv0", coqfmt.N(id0)))
	}
	return in.ref(coqfmt.List(items)), ids
}

func (in *interner) ref(term string) string {
	if i, ok := in.confs[term]; ok {
		return fmt.Sprintf("k%d", i)
	}
	i := len(in.confDefs)
	in.confs[term] = i
	in.confDefs = append(in.confDefs, term)
	return fmt.Sprintf("k%d", i)
}

func (in *interner) launchParams(exe string, args, effenv []string, dir string) (string, map[string]uint64) {
	ids := map[string]uint64{
		"FExecutable": in.id("FExecutable", exe), "FArgs": in.id("FArgs", args),
		"FEffEnv": in.id("FEffEnv", effenv), "FWorkingDir": in.id("FWorkingDir", dir)}
	items := []string{}
	for _, f := range []string{"FExecutable", "FArgs", "FEffEnv", "FWorkingDir"} {
		items = append(items, coqfmt.Pair(f, coqfmt.N(ids[f])))
	}
	return in.ref(coqfmt.List(items)), ids
}

// ---------------------------------------------------------------------------------- case records

type CmpCase struct {
	Kind    string   `json:"kind"`
	A       Knobs    `json:"a"`
	B       Knobs    `json:"b"`
	RT      bool     `json:"json_round_trip_of_b,omitempty"`
	Res     bool     `json:"compare"`
	Diff    []string `json:"fields_differing,omitempty"`
	coqA    string
	coqB    string
	LoadErr string `json:"load_error,omitempty"`
}

type StepIn struct {
	Mode string   `json:"mode"` // boot, direct, reload, rest, restreload
	Spec ProjSpec `json:"spec"`
}

type Ev struct {
	K      string   `json:"k"` // stop, end, launch
	Name   string   `json:"name"`
	Inst   int64    `json:"inst"`
	Exe    string   `json:"exe,omitempty"`
	Args   []string `json:"args,omitempty"`
	EffEnv []string `json:"effenv,omitempty"`
	Dir    string   `json:"dir,omitempty"`
	params string
}

type StepOut struct {
	Err    string            `json:"err,omitempty"`
	Status map[string]string `json:"status"`
	Names  []string          `json:"names"`
	Alive  [][2]interface{}  `json:"alive"`
	Reg    [][2]interface{}  `json:"registered"`
	Events []Ev              `json:"events"`
	Quiet  bool              `json:"quiet"`
	coq    string
}

type RunCase struct {
	Kind  string    `json:"kind"`
	Steps []StepIn  `json:"steps"`
	Out   []StepOut `json:"out,omitempty"`
	Skip  string    `json:"skipped,omitempty"`
}

type AllCases struct {
	Cmp []*CmpCase `json:"cmp"`
	Run []*RunCase `json:"run"`
}

// ---------------------------------------------------------------------------------- Compare cases

func oneProc(k Knobs) *ProjSpec {
	s := &ProjSpec{Procs: map[string]Knobs{"p": k}}
	fixDeps(s)
	return s
}

func fixDeps(s *ProjSpec) {
	need := 0
	for n, k := range s.Procs {
		if n == "dep" || n == "dep2" {
			delete(k, "depends")
			continue
		}
		if k["depends"] > need {
			need = k["depends"]
		}
	}
	if need >= 1 {
		if _, ok := s.Procs["dep"]; !ok {
			s.Procs["dep"] = Knobs{}
		}
	}
	if need >= 2 {
		if _, ok := s.Procs["dep2"]; !ok {
			s.Procs["dep2"] = Knobs{}
		}
	}
	for _, n := range []string{"dep", "dep2"} {
		if k, ok := s.Procs[n]; ok {
			for _, d := range knobDefs {
				if !d.DepSafe {
					delete(k, d.Name)
				}
			}
		}
	}
}

func (h *harness) runCmp(c *CmpCase) {
	ge := h.ge
	pa, err := loadYAML(filepath.Join(ge.tmp, "cmp_a.yaml"), projYAML(oneProc(copyKnobs(c.A)), ge))
	if err != nil {
		c.LoadErr = err.Error()
		return
	}
	pb, err := loadYAML(filepath.Join(ge.tmp, "cmp_b.yaml"), projYAML(oneProc(copyKnobs(c.B)), ge))
	if err != nil {
		c.LoadErr = err.Error()
		return
	}
	name := firstKey(pa.Processes, "p")
	a, okA := pa.Processes[name]
	b, okB := pb.Processes[name]
	if !okA || !okB {
		c.LoadErr = "replica name differs"
		return
	}
	if c.RT {
		js, err := json.Marshal(pb)
		if err != nil {
			c.LoadErr = "marshal: " + err.Error()
			return
		}
		var rt types.Project
		if err := json.Unmarshal(js, &rt); err != nil {
			c.LoadErr = "unmarshal: " + err.Error()
			return
		}
		b = rt.Processes[name]
		pb = &rt
	}
	c.Res = a.Compare(&b)
	var idsA, idsB map[string]uint64
	c.coqA, idsA = h.in.conf(&a, pa.Environment)
	c.coqB, idsB = h.in.conf(&b, pb.Environment)
	for f, v := range idsA {
		if idsB[f] != v {
			c.Diff = append(c.Diff, f)
		}
	}
	sort.Strings(c.Diff)
}

func firstKey(m types.Processes, prefer string) string {
	if _, ok := m[prefer]; ok {
		return prefer
	}
	var ks []string
	for k := range m {
		if strings.HasPrefix(k, prefer) {
			ks = append(ks, k)
		}
	}
	sort.Strings(ks)
	if len(ks) == 0 {
		return prefer
	}
	return ks[0]
}

func copyKnobs(k Knobs) Knobs {
	r := Knobs{}
	for a, b := range k {
		if b != 0 {
			r[a] = b
		}
	}
	return r
}

func genCmpCases(r *rand.Rand, nrand int) []*CmpCase {
	var cs []*CmpCase
	// one setting at a time, every pair of values, on both forms
	for _, d := range knobDefs {
		if d.Name == "form" {
			cs = append(cs, &CmpCase{Kind: "single:form", A: Knobs{}, B: Knobs{"form": 1}})
			continue
		}
		forms := []int{0, 1}
		if d.Form >= 0 {
			forms = []int{d.Form}
		}
		for _, f := range forms {
			for i := 0; i < d.N; i++ {
				for j := 0; j < d.N; j++ {
					if i == j && !(i == 0 && f == forms[0]) {
						continue
					}
					a, b := Knobs{"form": f, d.Name: i}, Knobs{"form": f, d.Name: j}
					if d.Name == "depends_cond" {
						a["depends"], b["depends"] = 1, 1
					}
					cs = append(cs, &CmpCase{Kind: "single:" + d.Name, A: copyKnobs(a), B: copyKnobs(b)})
				}
			}
		}
	}
	// JSON round trip of the same configuration (what the REST path hands to UpdateProject)
	for _, k := range []Knobs{{}, {"vars": 1}, {"vars": 3}, {"ext": 1}, {"form": 1, "environment": 3, "liveness": 1, "readiness": 3, "depends": 2, "restart": 1, "shutdown_signal": 1}} {
		cs = append(cs, &CmpCase{Kind: "json-round-trip", A: copyKnobs(k), B: copyKnobs(k), RT: true})
	}
	cs = append(cs, &CmpCase{Kind: "json-round-trip-changed", A: Knobs{"vars": 1}, B: Knobs{"vars": 2}, RT: true})
	cs = append(cs, &CmpCase{Kind: "json-round-trip-changed", A: Knobs{"form": 1}, B: Knobs{"form": 1, "exe": 1}, RT: true})
	// random subsets of settings
	for i := 0; i < nrand; i++ {
		a := randKnobs(r, false, 0.25)
		b := copyKnobs(a)
		n := r.Intn(4)
		for j := 0; j < n; j++ {
			mutateKnob(r, b, false, false)
		}
		c := &CmpCase{Kind: "random", A: a, B: b}
		if r.Intn(6) == 0 {
			c.RT = true
			c.Kind = "random-json-round-trip"
		}
		cs = append(cs, c)
	}
	return cs
}

func randKnobs(r *rand.Rand, runnerOnly bool, density float64) Knobs {
	k := Knobs{}
	k["form"] = r.Intn(2)
	for _, d := range knobDefs {
		if d.Name == "form" || (runnerOnly && !d.RunnerSafe) || (d.Form >= 0 && d.Form != k["form"]) {
			continue
		}
		dens := density
		if d.Name == "disabled" || d.Name == "is_foreground" || d.Name == "replicas" {
			dens = density / 3
		}
		if r.Float64() < dens {
			k[d.Name] = r.Intn(d.N)
		}
	}
	return copyKnobs(k)
}

func mutateKnob(r *rand.Rand, k Knobs, runnerOnly, depSafe bool) string {
	for tries := 0; tries < 50; tries++ {
		d := knobDefs[r.Intn(len(knobDefs))]
		if (runnerOnly && !d.RunnerSafe) || (depSafe && !d.DepSafe) || (d.Form >= 0 && d.Form != k["form"]) {
			continue
		}
		if d.Name == "form" && r.Intn(4) != 0 {
			continue
		}
		v := r.Intn(d.N)
		if v == k[d.Name] {
			v = (v + 1) % d.N
		}
		if v == 0 {
			delete(k, d.Name)
		} else {
			k[d.Name] = v
		}
		return d.Name
	}
	return ""
}

// ---------------------------------------------------------------------------------- update cases

type harness struct {
	mu sync.Mutex
	ge *genEnv
	in *interner
	st map[string]int
}

type evlog struct {
	mu   sync.Mutex
	evs  []Ev
	last time.Time
}

func (l *evlog) add(e Ev) {
	l.mu.Lock()
	l.evs = append(l.evs, e)
	l.last = time.Now()
	l.mu.Unlock()
}
func (l *evlog) take() ([]Ev, time.Time) {
	l.mu.Lock()
	defer l.mu.Unlock()
	r := l.evs
	l.evs = nil
	return r, l.last
}
func (l *evlog) lastTime() time.Time {
	l.mu.Lock()
	defer l.mu.Unlock()
	return l.last
}

var osEnvLen = len(os.Environ())

func effEnvOf(env []string) []string {
	// getProcessEnvironment (since 3b6f47b): os.Environ()..., project env..., process env...,
	// PC_PROC_NAME, PC_REPLICA_NUM.  What is compared is the part between the inherited environment and
	// the two injected variables; anything else is reported as it is (and will not match).
	n := len(env)
	if n < 2+osEnvLen || !strings.HasPrefix(env[n-2], "PC_PROC_NAME=") || !strings.HasPrefix(env[n-1], "PC_REPLICA_NUM=") {
		return append([]string{"<unexpected layout>"}, env...)
	}
	return append([]string{}, env[osEnvLen:n-2]...)
}

func nonDeferred(p *types.Project) []string {
	var r []string
	for n, pc := range p.Processes {
		if !pc.IsDeferred() {
			r = append(r, n)
		}
	}
	return r
}

func waitQuiet(f *fakecmd.Factory, log *evlog, expect []string, maxWait time.Duration) bool {
	deadline := time.Now().Add(maxWait)
	for {
		ok := true
		alive := map[string]bool{}
		for _, c := range f.All() {
			if c.Alive() {
				alive[c.Name] = true
				if len(c.Signals()) > 0 {
					ok = false
				}
			}
		}
		for _, n := range expect {
			if !alive[n] {
				ok = false
			}
		}
		if ok && time.Since(log.lastTime()) > 25*time.Millisecond {
			return true
		}
		if time.Now().After(deadline) {
			return false
		}
		time.Sleep(2 * time.Millisecond)
	}
}

func (h *harness) runCase(c *RunCase, idx int) {
	ge := h.ge
	dir := filepath.Join(ge.tmp, fmt.Sprintf("case%d", idx))
	_ = os.MkdirAll(dir, 0o755)
	mainFile := filepath.Join(dir, "compose.yaml")
	nameID := map[string]uint64{}
	nid := func(n string) uint64 {
		if v, ok := nameID[n]; ok {
			return v
		}
		v := uint64(len(nameID) + 1)
		nameID[n] = v
		return v
	}
	log := &evlog{last: time.Now()}
	f := fakecmd.NewFactory()
	f.OnStart = func(cm *fakecmd.Cmd) {
		log.add(Ev{K: "launch", Name: cm.Name, Inst: cm.Seq, Exe: cm.Executable, Args: cm.Args, EffEnv: effEnvOf(cm.Env), Dir: cm.Dir})
	}
	f.OnStop = func(cm *fakecmd.Cmd, sig int, parentOnly bool) {
		if len(cm.Signals()) > 1 {
			return // only the first signal is recorded; the command is already on its way out
		}
		log.add(Ev{K: "stop", Name: cm.Name, Inst: cm.Seq})
		// the command takes a moment to die: a supervisor that does not wait for the old instance
		// would launch the new one before the "end" event
		go func() {
			time.Sleep(3 * time.Millisecond)
			log.add(Ev{K: "end", Name: cm.Name, Inst: cm.Seq})
			cm.Exit(-1)
		}()
	}
	f.Install()
	defer app.SetVerifHooks(nil)

	var runner *app.ProjectRunner
	var srv *httptest.Server
	var cl *client.PcClient
	runDone := make(chan error, 1)
	defer func() {
		if srv != nil {
			// Close waits for requests in flight; a request that never returns must not hang the harness
			cd := make(chan struct{})
			go func() { srv.CloseClientConnections(); srv.Close(); close(cd) }()
			select {
			case <-cd:
			case <-time.After(2 * time.Second):
				h.st["http_server_close_hung"]++
			}
		}
		if runner != nil {
			sd := make(chan struct{})
			go func() { _ = runner.ShutDownProject(); close(sd) }()
			select {
			case <-sd:
			case <-time.After(3 * time.Second):
				h.st["shutdown_did_not_return"]++
			}
			select {
			case <-runDone:
			case <-time.After(3 * time.Second):
				h.st["run_did_not_return"]++
			}
			// anything still alive is ended so that no goroutine is left behind
			for _, cm := range f.All() {
				cm.Exit(0)
			}
		}
	}()
	var bootEnv []string
	hung := false
	for si, stp := range c.Steps {
		if hung {
			c.Skip = fmt.Sprintf("step %d: abandoned after a call that did not return", si)
			c.Steps = c.Steps[:si]
			break
		}
		spec := stp.Spec
		y := projYAML(&spec, ge)
		file := filepath.Join(dir, fmt.Sprintf("p%d.yaml", si))
		if stp.Mode == "boot" || stp.Mode == "reload" || stp.Mode == "restreload" {
			file = mainFile
		}
		proj, err := loadYAML(file, y)
		if err != nil {
			c.Skip = fmt.Sprintf("step %d: generated project does not load: %v", si, err)
			c.Steps = c.Steps[:si]
			h.st["run_steps_unloadable"]++
			return
		}
		// what the harness hands over is interned BEFORE the call (the callee may modify it)
		var newItems []string
		for _, n := range sortedNames(proj.Processes) {
			pc := proj.Processes[n]
			if stp.Mode == "boot" {
				bootEnv = proj.Environment
			}
			ref, _ := h.in.conf(&pc, proj.Environment, bootEnv)
			newItems = append(newItems, coqfmt.Pair(coqfmt.N(nid(n)), ref))
		}
		expect := nonDeferred(proj)
		out := StepOut{}
		var status map[string]string
		var cerr error
		switch stp.Mode {
		case "boot":
			opts := (&app.ProjectOpts{}).WithProject(proj)
			runner, cerr = app.NewProjectRunner(opts)
			if cerr != nil {
				c.Skip = "NewProjectRunner: " + cerr.Error()
				c.Steps = c.Steps[:si]
				return
			}
			go func(idx int) {
				// Run() returns as soon as no instance is left (an update that removes every running
				// process before adding the new ones) and can then even panic in WaitGroup.Wait
				// ("WaitGroup is reused before previous Wait has returned"); the harness behaves like
				// --keep-project: it records that and goes on.
				defer func() {
					if r := recover(); r != nil {
						h.mu.Lock()
						h.st["run_panicked_waitgroup_reuse"]++
						h.mu.Unlock()
						runDone <- fmt.Errorf("panic: %v", r)
					}
				}()
				runDone <- runner.Run()
			}(idx)
			srv = httptest.NewServer(api.InitRoutes(false, api.NewPcApi(runner)))
			host, port, _ := net.SplitHostPort(srv.Listener.Addr().String())
			pn, _ := strconv.Atoi(port)
			cl = client.NewTcpClient(host, pn, 100)
		default:
			// the call runs under a watchdog: a supervisor that blocks for ever must not hang the check
			type ret struct {
				st  map[string]string
				err error
			}
			ch := make(chan ret, 1)
			go func(mode string) {
				var r ret
				switch mode {
				case "direct":
					r.st, r.err = runner.UpdateProject(proj)
				case "reload":
					r.st, r.err = runner.ReloadProject()
				case "rest":
					r.st, r.err = cl.UpdateProject(proj)
				case "restreload":
					r.st, r.err = cl.ReloadProject()
				}
				ch <- r
			}(stp.Mode)
			select {
			case r := <-ch:
				status, cerr = r.st, r.err
			case <-time.After(6 * time.Second):
				cerr = fmt.Errorf("timeout: the update call did not return within 6 s")
				h.st["update_call_hung"]++
				hung = true
			}
		}
		if cerr != nil {
			out.Err = cerr.Error()
		}
		out.Quiet = waitQuiet(f, log, expect, 1500*time.Millisecond)
		if !out.Quiet {
			h.st["run_steps_not_quiet"]++
		}
		out.Status = status
		evs, _ := log.take()
		// ---- observe
		var statusItems, nameItems, infoItems, aliveItems, regItems, evItems []string
		for _, n := range sortedKeys(status) {
			code := map[string]uint64{types.ProcessUpdateAdded: 1, types.ProcessUpdateRemoved: 2, types.ProcessUpdateUpdated: 3}[status[n]]
			if code == 0 {
				code = 4
			}
			statusItems = append(statusItems, coqfmt.Pair(coqfmt.N(nid(n)), coqfmt.N(code)))
		}
		states, serr := runner.GetProcessesState()
		if serr != nil {
			h.st["get_states_error"]++
		} else {
			for _, s := range states.States {
				out.Names = append(out.Names, s.Name)
			}
			sort.Strings(out.Names)
		}
		genvNow := runner.VerifProject().Environment
		for _, n := range out.Names {
			nameItems = append(nameItems, coqfmt.N(nid(n)))
			if info, err := runner.GetProcessInfo(n); err == nil {
				ref, _ := h.in.conf(info, genvNow)
				infoItems = append(infoItems, coqfmt.Pair(coqfmt.N(nid(n)), ref))
			}
		}
		cmds := f.All()
		for _, cm := range cmds {
			if cm.Alive() {
				out.Alive = append(out.Alive, [2]interface{}{cm.Name, cm.Seq})
				aliveItems = append(aliveItems, coqfmt.Pair(coqfmt.N(nid(cm.Name)), coqfmt.N(uint64(cm.Seq))))
			}
		}
		reg := runner.VerifRunning()
		for _, n := range sortedProcKeys(reg) {
			var last *fakecmd.Cmd
			for _, cm := range cmds {
				if cm.Proc == reg[n] && cm.WasStarted() {
					last = cm
				}
			}
			if last != nil {
				out.Reg = append(out.Reg, [2]interface{}{n, last.Seq})
				regItems = append(regItems, coqfmt.Pair(coqfmt.N(nid(n)), coqfmt.N(uint64(last.Seq))))
			}
		}
		for i := range evs {
			e := &evs[i]
			switch e.K {
			case "stop":
				evItems = append(evItems, fmt.Sprintf("EStop %s %s", coqfmt.N(nid(e.Name)), coqfmt.N(uint64(e.Inst))))
			case "end":
				evItems = append(evItems, fmt.Sprintf("EEnd %s %s", coqfmt.N(nid(e.Name)), coqfmt.N(uint64(e.Inst))))
			case "launch":
				ref, _ := h.in.launchParams(e.Exe, e.Args, e.EffEnv, e.Dir)
				evItems = append(evItems, fmt.Sprintf("ELaunch %s %s %s", coqfmt.N(nid(e.Name)), coqfmt.N(uint64(e.Inst)), ref))
			}
		}
		out.Events = evs
		out.coq = fmt.Sprintf("mkStep %s %s %s\n    %s\n    %s\n    %s\n    %s\n    %s\n    %s",
			coqfmt.Bool(stp.Mode == "boot"), coqfmt.List(newItems), coqfmt.Bool(cerr != nil),
			coqfmt.List(statusItems), coqfmt.List(nameItems), coqfmt.List(infoItems),
			coqfmt.List(aliveItems), coqfmt.List(regItems), coqfmt.List(evItems))
		c.Out = append(c.Out, out)
		h.st["run_steps"]++
		h.st["run_steps_"+stp.Mode]++
	}
}

func sortedNames(m types.Processes) []string {
	var r []string
	for k := range m {
		r = append(r, k)
	}
	sort.Strings(r)
	return r
}
func sortedKeys(m map[string]string) []string {
	var r []string
	for k := range m {
		r = append(r, k)
	}
	sort.Strings(r)
	return r
}
func sortedProcKeys(m map[string]*app.Process) []string {
	var r []string
	for k := range m {
		r = append(r, k)
	}
	sort.Strings(r)
	return r
}

func copySpec(s *ProjSpec) ProjSpec {
	r := ProjSpec{GlobalEnv: s.GlobalEnv, GlobalVars: s.GlobalVars, Shell: s.Shell, Procs: map[string]Knobs{}}
	for n, k := range s.Procs {
		r.Procs[n] = copyKnobs(k)
	}
	return r
}

var teardown = ProjSpec{Procs: map[string]Knobs{"zz": {}}}

func withTeardown(c *RunCase) *RunCase {
	td := copySpec(&teardown)
	if len(c.Steps) > 0 {
		td.GlobalEnv = c.Steps[len(c.Steps)-1].Spec.GlobalEnv
		td.GlobalVars = c.Steps[len(c.Steps)-1].Spec.GlobalVars
		td.Shell = c.Steps[len(c.Steps)-1].Spec.Shell
	}
	c.Steps = append(c.Steps, StepIn{Mode: "direct", Spec: td})
	return c
}

// directed scenarios: one setting changed on a running process, per launch-relevant category, per path
func genDirected() []*RunCase {
	var cs []*RunCase
	mk := func(kind string, mode string, a, b Knobs) {
		p0 := ProjSpec{Procs: map[string]Knobs{"p": copyKnobs(a), "q": {"form": 1, "environment": 1}}}
		p1 := ProjSpec{Procs: map[string]Knobs{"p": copyKnobs(b), "q": {"form": 1, "environment": 1}}}
		fixDeps(&p0)
		fixDeps(&p1)
		cs = append(cs, withTeardown(&RunCase{Kind: kind, Steps: []StepIn{{Mode: "boot", Spec: p0}, {Mode: mode, Spec: p1}}}))
	}
	for _, mode := range []string{"direct", "reload", "rest"} {
		mk("directed:executable:"+mode, mode, Knobs{"form": 1}, Knobs{"form": 1, "exe": 1}) // F9
		mk("directed:args:"+mode, mode, Knobs{"form": 1}, Knobs{"form": 1, "eparg": 1})
		mk("directed:command:"+mode, mode, Knobs{}, Knobs{"command": 1})
		mk("directed:environment:"+mode, mode, Knobs{"environment": 1}, Knobs{"environment": 2})
		mk("directed:working_dir:"+mode, mode, Knobs{"working_dir": 1}, Knobs{"working_dir": 2})
		mk("directed:liveness:"+mode, mode, Knobs{"liveness": 1}, Knobs{"liveness": 2})
		mk("directed:readiness:"+mode, mode, Knobs{}, Knobs{"readiness": 1})
		mk("directed:restart-policy:"+mode, mode, Knobs{"restart": 1}, Knobs{"restart": 2})
		mk("directed:shutdown:"+mode, mode, Knobs{}, Knobs{"shutdown_signal": 1})
		mk("directed:depends:"+mode, mode, Knobs{}, Knobs{"depends": 1})
		mk("directed:nothing:"+mode, mode, Knobs{"vars": 1, "ext": 1, "environment": 3}, Knobs{"vars": 1, "ext": 1, "environment": 3}) // F27 over REST
		mk("directed:disable:"+mode, mode, Knobs{}, Knobs{"disabled": 1})
		mk("directed:enable:"+mode, mode, Knobs{"disabled": 1}, Knobs{})
		mk("directed:replicas:"+mode, mode, Knobs{"replicas": 1}, Knobs{"replicas": 2})
	}
	mk("directed:cosmetic:description", "direct", Knobs{"description": 1}, Knobs{"description": 2})
	mk("directed:cosmetic:namespace", "direct", Knobs{}, Knobs{"namespace": 1})
	// project-level environment changed, nothing else
	{
		p0 := ProjSpec{GlobalEnv: 1, Procs: map[string]Knobs{"p": {}, "q": {"form": 1}}}
		p1 := copySpec(&p0)
		p1.GlobalEnv = 2
		cs = append(cs, withTeardown(&RunCase{Kind: "directed:project-environment", Steps: []StepIn{{Mode: "boot", Spec: p0}, {Mode: "direct", Spec: p1}}}))
	}
	// only project-level vars / shell changed: the process's own YAML text is identical, its rendered command /
	// executable is not (the configuration the loader hands to UpdateProject differs in a launch-relevant field)
	for _, mode := range []string{"direct", "reload"} {
		p0 := ProjSpec{GlobalVars: 1, Procs: map[string]Knobs{"p": {"command": 3}, "q": {"form": 1}}}
		p1 := copySpec(&p0)
		p1.GlobalVars = 2
		cs = append(cs, withTeardown(&RunCase{Kind: "directed:project-vars:" + mode, Steps: []StepIn{{Mode: "boot", Spec: p0}, {Mode: mode, Spec: p1}, {Mode: mode, Spec: copySpec(&p1)}}}))
		s0 := ProjSpec{Shell: 1, Procs: map[string]Knobs{"p": {}, "q": {"form": 1}}}
		s1 := copySpec(&s0)
		s1.Shell = 2
		cs = append(cs, withTeardown(&RunCase{Kind: "directed:project-shell:" + mode, Steps: []StepIn{{Mode: "boot", Spec: s0}, {Mode: mode, Spec: s1}}}))
	}
	// the same process changed in successive updates (each must stop the instance the previous one started)
	{
		steps := []StepIn{{Mode: "boot", Spec: ProjSpec{Procs: map[string]Knobs{"p": {}, "q": {"form": 1}}}}}
		for i := 0; i < 6; i++ {
			steps = append(steps, StepIn{Mode: "direct", Spec: ProjSpec{Procs: map[string]Knobs{"p": {"command": 1 + i%2}, "q": {"form": 1, "eparg": i % 2}}}})
		}
		cs = append(cs, withTeardown(&RunCase{Kind: "directed:repeated-change", Steps: steps}))
	}
	// rest, then reload of the unchanged files, then direct with the same project
	{
		p0 := ProjSpec{Procs: map[string]Knobs{"p": {"vars": 1}, "q": {"form": 1, "ext": 1}}}
		steps := []StepIn{{Mode: "boot", Spec: p0}, {Mode: "rest", Spec: copySpec(&p0)}, {Mode: "reload", Spec: copySpec(&p0)}, {Mode: "restreload", Spec: copySpec(&p0)}, {Mode: "direct", Spec: copySpec(&p0)}}
		cs = append(cs, withTeardown(&RunCase{Kind: "directed:same-project-all-paths", Steps: steps}))
	}
	return cs
}

func genRandomRun(r *rand.Rand) *RunCase {
	names := []string{"a", "b", "c", "d", "e"}
	spec := ProjSpec{GlobalEnv: r.Intn(2), GlobalVars: 1 + r.Intn(2), Procs: map[string]Knobs{}}
	n := 2 + r.Intn(3)
	for _, i := range r.Perm(len(names))[:n] {
		spec.Procs[names[i]] = randKnobs(r, true, 0.2)
	}
	fixDeps(&spec)
	c := &RunCase{Kind: "random", Steps: []StepIn{{Mode: "boot", Spec: copySpec(&spec)}}}
	nsteps := 1 + r.Intn(4)
	for s := 0; s < nsteps; s++ {
		next := copySpec(&spec)
		for _, nm := range sortedSpecNames(&next) {
			if nm == "dep" || nm == "dep2" {
				if r.Intn(4) == 0 {
					mutateKnob(r, next.Procs[nm], true, true)
				}
				continue
			}
			x := r.Intn(100)
			switch {
			case x < 45: // unchanged
			case x < 85:
				for j := 1 + r.Intn(3); j > 0; j-- {
					mutateKnob(r, next.Procs[nm], true, false)
				}
			default:
				delete(next.Procs, nm)
			}
		}
		if r.Intn(100) < 40 {
			nm := names[r.Intn(len(names))]
			if _, ok := next.Procs[nm]; !ok {
				next.Procs[nm] = randKnobs(r, true, 0.2)
			}
		}
		if len(next.Procs) == 0 {
			next.Procs["a"] = Knobs{}
		}
		fixDeps(&next)
		if r.Intn(4) == 0 {
			next.GlobalVars = 3 - next.GlobalVars // only the rendering of templated commands changes
		}
		// a dependency that is no longer needed may or may not stay
		mode := []string{"direct", "direct", "reload", "rest", "restreload"}[r.Intn(5)]
		c.Steps = append(c.Steps, StepIn{Mode: mode, Spec: copySpec(&next)})
		spec = next
	}
	return withTeardown(c)
}

func sortedSpecNames(s *ProjSpec) []string {
	var r []string
	for k := range s.Procs {
		r = append(r, k)
	}
	sort.Strings(r)
	return r
}

// ---------------------------------------------------------------------------------- main

func main() {
	seed := flag.Int64("seed", 1, "PRNG seed")
	ncmp := flag.Int("ncmp", 150, "number of random Compare cases")
	nrun := flag.Int("nrun", 40, "number of random update cases")
	out := flag.String("out", ".", "output directory")
	replay := flag.String("replay", "", "re-run the cases of this JSON file instead of generating")
	corpus := flag.String("corpus", "", "directory with corpus cases (*.json) that run first")
	flag.Parse()
	zerolog.SetGlobalLevel(zerolog.Disabled)
	gin.SetMode(gin.ReleaseMode)

	tmp, err := os.MkdirTemp("", "c14-")
	if err != nil {
		panic(err)
	}
	defer os.RemoveAll(tmp)
	ge := &genEnv{tmp: tmp}
	for i := 1; i <= 2; i++ {
		ge.dirs[i] = filepath.Join(tmp, fmt.Sprintf("wd%d", i))
		_ = os.MkdirAll(ge.dirs[i], 0o755)
	}
	h := &harness{ge: ge, in: newInterner(), st: map[string]int{}}

	all := &AllCases{}
	addFile := func(p string) {
		data, err := os.ReadFile(p)
		if err != nil {
			fmt.Fprintln(os.Stderr, err)
			os.Exit(2)
		}
		var a AllCases
		if err := json.Unmarshal(data, &a); err != nil {
			fmt.Fprintln(os.Stderr, p, err)
			os.Exit(2)
		}
		for _, c := range a.Cmp {
			all.Cmp = append(all.Cmp, &CmpCase{Kind: c.Kind, A: c.A, B: c.B, RT: c.RT})
		}
		for _, c := range a.Run {
			all.Run = append(all.Run, &RunCase{Kind: c.Kind, Steps: c.Steps})
		}
	}
	if *replay != "" {
		addFile(*replay)
	} else {
		if *corpus != "" {
			files, _ := filepath.Glob(filepath.Join(*corpus, "*.json"))
			sort.Strings(files)
			for _, f := range files {
				addFile(f)
			}
		}
		r := rand.New(rand.NewSource(*seed))
		all.Cmp = append(all.Cmp, genCmpCases(r, *ncmp)...)
		all.Run = append(all.Run, genDirected()...)
		for i := 0; i < *nrun; i++ {
			all.Run = append(all.Run, genRandomRun(r))
		}
	}
	t0 := time.Now()
	for _, c := range all.Cmp {
		h.runCmp(c)
	}
	tCmp := time.Since(t0)
	t0 = time.Now()
	for i, c := range all.Run {
		h.runCase(c, i)
	}
	tRun := time.Since(t0)

	// ---- Gallina
	var cmpItems, runItems []string
	for _, c := range all.Cmp {
		if c.LoadErr != "" {
			h.st["cmp_unloadable"]++
			h.st["cmp_unloadable: "+c.LoadErr]++
			continue
		}
		cmpItems = append(cmpItems, fmt.Sprintf("mkC %s %s %s", c.coqA, c.coqB, coqfmt.Bool(c.Res)))
	}
	var keptCmp []*CmpCase
	for _, c := range all.Cmp {
		if c.LoadErr == "" {
			keptCmp = append(keptCmp, c)
		}
	}
	all.Cmp = keptCmp
	for _, c := range all.Run {
		var steps []string
		for _, o := range c.Out {
			steps = append(steps, o.coq)
		}
		runItems = append(runItems, "mkCase "+coqfmt.List(steps))
	}
	var sb strings.Builder
	sb.WriteString("From Coq Require Import List NArith.\nFrom PC.Update Require Import Model Check.\nImport ListNotations.\n")
	for i, d := range h.in.confDefs {
		fmt.Fprintf(&sb, "Definition k%d : pconf := %s.\n", i, d)
	}
	sb.WriteString("Definition ccases : list ccase := " + strings.Join(wrap(cmpItems), "") + ".\n")
	sb.WriteString("Definition cases : list ocase := " + strings.Join(wrap(runItems), "") + ".\n")
	for _, d := range [][2]string{{"r_bad_cmp_model", "bad_cmp_model ccases"}, {"r_bad_cmp_monitor", "bad_cmp_monitor ccases"},
		{"r_bad_model", "bad_model cases"}, {"r_bad_monitor", "bad_monitor cases"}, {"r_findings", "findings cases"},
		{"r_model_findings", "model_findings cases"}} {
		fmt.Fprintf(&sb, "Definition %s := Eval vm_compute in %s.\nPrint %s.\n", d[0], d[1], d[0])
	}
	if err := os.WriteFile(filepath.Join(*out, "cases_C14.v"), []byte(sb.String()), 0o644); err != nil {
		panic(err)
	}
	js, _ := json.Marshal(all)
	if err := os.WriteFile(filepath.Join(*out, "cases_C14.json"), js, 0o644); err != nil {
		panic(err)
	}
	// ---- statistics
	st := h.st
	st["cmp_cases"] = len(all.Cmp)
	st["run_cases"] = len(all.Run)
	st["distinct_configurations"] = len(h.in.confDefs)
	st["ms_compare_cases"] = int(tCmp.Milliseconds())
	st["ms_update_cases"] = int(tRun.Milliseconds())
	for _, c := range all.Cmp {
		if c.Res {
			st["cmp_equal"]++
		} else {
			st["cmp_unequal"]++
		}
	}
	for _, c := range all.Run {
		if c.Skip != "" {
			st["run_cases_truncated"]++
		}
	}
	table := map[string]map[string]interface{}{}
	for _, c := range all.Cmp {
		if !strings.HasPrefix(c.Kind, "single:") || reflect.DeepEqual(c.A, c.B) {
			continue
		}
		k := strings.TrimPrefix(c.Kind, "single:")
		e := table[k]
		if e == nil {
			e = map[string]interface{}{"pairs": 0, "compare_equal": 0, "fields": map[string]bool{}}
			table[k] = e
		}
		e["pairs"] = e["pairs"].(int) + 1
		if c.Res {
			e["compare_equal"] = e["compare_equal"].(int) + 1
		}
		for _, f := range c.Diff {
			e["fields"].(map[string]bool)[f] = true
		}
	}
	tab2 := map[string]interface{}{}
	for k, e := range table {
		var fs []string
		for f := range e["fields"].(map[string]bool) {
			fs = append(fs, f)
		}
		sort.Strings(fs)
		tab2[k] = map[string]interface{}{"pairs": e["pairs"], "compare_equal": e["compare_equal"], "fields_differing": fs}
	}
	res := map[string]interface{}{"stats": st, "sensitivity": tab2, "deepequal_distinguishes_same_json": h.in.deepDiff}
	sj, _ := json.Marshal(res)
	fmt.Println(string(sj))
}

func wrap(items []string) []string {
	if len(items) == 0 {
		return []string{"[]"}
	}
	r := []string{"[\n"}
	for i, it := range items {
		if i > 0 {
			r = append(r, ";\n")
		}
		r = append(r, it)
	}
	return append(r, "\n]")
}
