// c06: correspondence harness for the OS-level stop (property C06).
//
//	fake   scenarios: one-process project whose command is a scripted fakecmd; every Commander.Stop(sig,
//	       parentOnly) is recorded with its time; the shutdown command (if any) is a real shell command.
//	real   scenarios: NO fake commander; `sh` process trees with an environment marker; survivors by /proc
//	       scan, received signal recorded by traps, death times by polling /proc/<pid>/stat.
//	binary scenarios (thorough): the built process-compose binary gets SIGTERM / SIGINT / SIGHUP.
//
// Writes <out>/cases_C06.v (Gallina) and <out>/cases_C06.json, prints one JSON line of statistics.
package main

import (
	"bytes"
	"encoding/json"
	"flag"
	"fmt"
	"hash/fnv"
	"math/rand"
	"os"
	"os/exec"
	"os/signal"
	"path/filepath"
	"sort"
	"strconv"
	"strings"
	"sync"
	"syscall"
	"time"

	"github.com/f1bonacc1/process-compose/src/app"
	"github.com/f1bonacc1/process-compose/src/command"
	"github.com/f1bonacc1/process-compose/src/loader"
	"github.com/rs/zerolog"
	"pcverif/coqfmt"
	"pcverif/fakecmd"
)

type Member struct {
	ID        int  `json:"id"`
	Parent    int  `json:"parent"`     // 0 for the launched pid
	SameGroup bool `json:"same_group"` // false: started through setsid
	Ignore    bool `json:"ignore"`     // trap "" <effective signal> before spawning children
	Pipe      bool `json:"pipe"`       // keeps the captured stdout/stderr
	Record    bool `json:"record"`     // traps the catchable signals, writes the number, exits
}

type Scenario struct {
	ID         int      `json:"id"`
	Kind       string   `json:"kind"` // fake | real | binary
	Via        string   `json:"via"`  // stop | shutdown | SIGTERM | SIGINT | SIGHUP
	Signal     int      `json:"signal"`
	Timeout    int      `json:"timeout"`
	ParentOnly bool     `json:"parent_only"`
	Cmd        string   `json:"cmd,omitempty"`   // "", ok, fail, failslow, hang, okkill
	React      string   `json:"react,omitempty"` // fake: die | die500 | ignore | die-slowstop
	Tree       []Member `json:"tree,omitempty"`
	Tag        string   `json:"tag,omitempty"`
}

type StopObs struct {
	Sig        int   `json:"sig"`
	ParentOnly bool  `json:"parent_only"`
	Ms         int64 `json:"ms"`
}
type RunObs struct {
	Env uint64 `json:"env"`
	Dir uint64 `json:"dir"`
	Ms  int64  `json:"ms"`
}

type Case struct {
	Scenario
	SlackMs   int64         `json:"slack_ms"`
	Stops     []StopObs     `json:"stops"`
	Runs      []RunObs      `json:"runs"`
	EndMs     int64         `json:"end_ms"` // -1: did not end before clean-up
	ReturnMs  int64         `json:"return_ms"`
	ProcEnv   uint64        `json:"proc_env"`
	ProcDir   uint64        `json:"proc_dir"`
	Survivors []int         `json:"survivors"`
	Sigs      map[int][]int `json:"sigs,omitempty"`
	Deaths    map[int]int64 `json:"deaths,omitempty"`
	Ignores   map[int][]int `json:"ignores,omitempty"` // effective per member, as given to the model
	InGroup   map[int]bool  `json:"in_group,omitempty"`
	Exited    bool          `json:"exited,omitempty"`
	ExitCode  int           `json:"exit_code,omitempty"`
	Err       string        `json:"err,omitempty"`
	dir       string
	mark      string
	extraIgn  []int
	runner    *app.ProjectRunner
}

var (
	outDir   string
	runID    string
	slackMs  int64
	pcBin    string
	factory  *fakecmd.Factory
	fakeByNm sync.Map // process name -> *fakeRun
)

func effSignal(s int) int {
	if s < 1 || s > 31 {
		return 15
	}
	return s
}

func hashStr(s string) uint64 {
	h := fnv.New64a()
	h.Write([]byte(s))
	return h.Sum64() >> 1 // keep it positive for every reader
}

var volatileEnv = map[string]bool{"PWD": true, "OLDPWD": true, "SHLVL": true, "_": true, "C06_MEMBER": false}

// envHash: last assignment per key wins (as exec does), volatile shell variables dropped, sorted
func envHash(kvs []string) uint64 {
	m := map[string]string{}
	for _, kv := range kvs {
		i := strings.IndexByte(kv, '=')
		if i <= 0 {
			continue
		}
		m[kv[:i]] = kv[i+1:]
	}
	keys := make([]string, 0, len(m))
	for k := range m {
		if !volatileEnv[k] {
			keys = append(keys, k)
		}
	}
	sort.Strings(keys)
	var sb strings.Builder
	for _, k := range keys {
		sb.WriteString(k + "=" + m[k] + "\x00")
	}
	return hashStr(sb.String())
}

func readEnv0(path string) ([]string, bool) {
	b, err := os.ReadFile(path)
	if err != nil {
		return nil, false
	}
	return strings.Split(strings.TrimRight(string(b), "\x00"), "\x00"), true
}

func readTrim(path string) (string, bool) {
	b, err := os.ReadFile(path)
	if err != nil {
		return "", false
	}
	return strings.TrimSpace(string(b)), true
}

// ------------------------------------------------------------------------------------------- project
func (c *Case) procName() string { return fmt.Sprintf("p%d", c.ID) }

func (c *Case) cmdScript() string {
	// the shutdown command: records environment, directory and time, then behaves as scripted.
	// The fallback directory shows a command that did NOT get the process's environment.
	pre := fmt.Sprintf("d=\"${C06_DIR:-%s/noenv}\"\nenv -0 > \"$d/cmd.env\"\npwd -P > \"$d/cmd.pwd\"\ndate +%%s%%N > \"$d/cmd.t\"\n", c.dir)
	switch c.Cmd {
	case "ok":
		return pre + "exit 0\n"
	case "fail":
		return pre + "exit 3\n"
	case "failslow":
		return pre + "sleep 0.5\nexit 3\n"
	case "hang":
		return pre + "exec sleep 30\n"
	case "okkill":
		return pre + "/bin/kill -s TERM -- -$(cat \"$d/pid.1\")\nexit 0\n"
	}
	return ""
}

func (c *Case) writeProject() (string, error) {
	c.dir = filepath.Join(outDir, fmt.Sprintf("scn-%d", c.ID))
	c.mark = fmt.Sprintf("c06-%s-%d", runID, c.ID)
	wd := filepath.Join(c.dir, "wd")
	for _, d := range []string{c.dir, wd, filepath.Join(c.dir, "noenv")} {
		if err := os.MkdirAll(d, 0o755); err != nil {
			return "", err
		}
	}
	var y strings.Builder
	y.WriteString("version: \"0.5\"\nprocesses:\n")
	fmt.Fprintf(&y, "  %s:\n", c.procName())
	if c.Kind == "fake" {
		fmt.Fprintf(&y, "    command: \"fake %d\"\n", c.ID)
	} else {
		fmt.Fprintf(&y, "    command: \"exec sh %s/m1.sh\"\n", c.dir)
	}
	fmt.Fprintf(&y, "    working_dir: \"%s\"\n", wd)
	fmt.Fprintf(&y, "    environment:\n      - \"C06_MARK=%s\"\n      - \"C06_MEMBER=1\"\n      - \"C06_DIR=%s\"\n      - \"C06_EQ=a=b c\"\n", c.mark, c.dir)
	needShutdown := c.Signal != 0 || c.Timeout != 0 || c.ParentOnly || c.Cmd != "" || c.ID%2 == 0
	if needShutdown {
		y.WriteString("    shutdown:\n")
		if c.Signal != 0 || c.ID%4 == 0 {
			fmt.Fprintf(&y, "      signal: %d\n", c.Signal)
		}
		if c.Timeout != 0 || c.ID%4 == 2 {
			fmt.Fprintf(&y, "      timeout_seconds: %d\n", c.Timeout)
		}
		if c.ParentOnly {
			y.WriteString("      parent_only: true\n")
		}
		if c.Cmd != "" {
			if err := os.WriteFile(filepath.Join(c.dir, "stopcmd.sh"), []byte(c.cmdScript()), 0o755); err != nil {
				return "", err
			}
			fmt.Fprintf(&y, "      command: \"sh %s/stopcmd.sh\"\n", c.dir)
		}
	}
	p := filepath.Join(c.dir, "pc.yaml")
	return p, os.WriteFile(p, []byte(y.String()), 0o644)
}

func (c *Case) newRunner() (*app.ProjectRunner, error) {
	yml, err := c.writeProject()
	if err != nil {
		return nil, err
	}
	project, err := loader.Load(&loader.LoaderOptions{FileNames: []string{yml}, IsInternalLoader: true})
	if err != nil {
		return nil, err
	}
	opts := (&app.ProjectOpts{}).WithProject(project).WithProcessesToRun([]string{}).WithIsTuiOn(false).WithNoDeps(false)
	return app.NewProjectRunner(opts)
}

func (c *Case) readRuns(t0 time.Time) {
	for _, d := range []string{c.dir, filepath.Join(c.dir, "noenv")} {
		env, ok := readEnv0(filepath.Join(d, "cmd.env"))
		if !ok {
			continue
		}
		pwd, _ := readTrim(filepath.Join(d, "cmd.pwd"))
		ts, _ := readTrim(filepath.Join(d, "cmd.t"))
		ns, _ := strconv.ParseInt(ts, 10, 64)
		ms := (ns - t0.UnixNano()) / 1e6
		if ms < 0 {
			ms = 0
		}
		c.Runs = append(c.Runs, RunObs{Env: envHash(env), Dir: hashStr(pwd), Ms: ms})
	}
}

func (c *Case) killTimeMs() int64 {
	// upper estimate of the last scripted/modelled event, for the observation window
	t := int64(0)
	if c.Cmd != "" {
		to := c.Timeout
		if to == 0 {
			to = 10
		}
		switch c.Cmd {
		case "hang":
			t = int64(to) * 1000
		case "failslow":
			t = 500
		}
	} else if c.Timeout > 0 {
		t = int64(c.Timeout) * 1000
	}
	if c.React == "die500" && t < 500 {
		t = 500
	}
	if t < 0 {
		t = 0
	}
	return t
}

// ---------------------------------------------------------------------------------------- fake runs
type fakeRun struct {
	c       *Case
	mu      sync.Mutex
	t0      time.Time
	started chan struct{}
	cmd     *fakecmd.Cmd
}

func (fr *fakeRun) exit(cmd *fakecmd.Cmd, code int, cleanup bool) {
	fr.mu.Lock()
	if cmd.Alive() && !cleanup && fr.c.EndMs < 0 && !fr.t0.IsZero() {
		fr.c.EndMs = time.Since(fr.t0).Milliseconds()
	}
	fr.mu.Unlock()
	cmd.Exit(code)
}

func onStop(cmd *fakecmd.Cmd, sig int, parentOnly bool) {
	v, ok := fakeByNm.Load(cmd.Name)
	if !ok {
		cmd.Exit(-1)
		return
	}
	fr := v.(*fakeRun)
	fr.mu.Lock()
	ms := int64(-1)
	if !fr.t0.IsZero() {
		ms = time.Since(fr.t0).Milliseconds()
	}
	fr.c.Stops = append(fr.c.Stops, StopObs{Sig: sig, ParentOnly: parentOnly, Ms: ms})
	fr.mu.Unlock()
	if sig == 9 {
		fr.exit(cmd, -1, false)
		return
	}
	switch fr.c.React {
	case "die":
		fr.exit(cmd, -1, false)
	case "die-slowstop":
		// the process dies at once; the calling goroutine is descheduled for a moment after kill(2)
		fr.exit(cmd, -1, false)
		time.Sleep(150 * time.Millisecond)
	case "die500":
		go func() {
			time.Sleep(500 * time.Millisecond)
			fr.exit(cmd, -1, false)
		}()
	case "ignore":
	}
}

func runFake(c *Case) {
	c.EndMs, c.ReturnMs = -1, -1
	fr := &fakeRun{c: c, started: make(chan struct{})}
	fakeByNm.Store(c.procName(), fr)
	runner := c.runner
	if runner == nil {
		return
	}
	runDone := make(chan struct{})
	go func() { _ = runner.Run(); close(runDone) }()
	select {
	case <-fr.started:
	case <-time.After(5 * time.Second):
		c.Err = "fake command was not started"
		return
	}
	time.Sleep(30 * time.Millisecond) // let the instance reach Running
	c.ProcEnv, c.ProcDir = envHash(fr.cmd.Env), hashStr(fr.cmd.Dir)
	fr.mu.Lock()
	fr.t0 = time.Now()
	t0 := fr.t0
	fr.mu.Unlock()
	ret := make(chan int64, 1)
	go func() {
		if c.Via == "shutdown" {
			_ = runner.ShutDownProject()
		} else {
			_ = runner.StopProcess(c.procName())
		}
		ret <- time.Since(t0).Milliseconds()
	}()
	window := time.Duration(c.killTimeMs()+slackMs+300) * time.Millisecond
	deadline := time.After(window)
	select {
	case ms := <-ret:
		c.ReturnMs = ms
		// keep observing until the window closes: a late SIGKILL must not be missed
		<-deadline
	case <-deadline:
	}
	fr.exit(fr.cmd, 0, true)
	select {
	case <-runDone:
	case <-time.After(5 * time.Second):
		c.Err = "Run() did not return after clean-up"
	}
	if c.ReturnMs < 0 {
		select {
		case ms := <-ret:
			_ = ms // returned only because of the clean-up
		case <-time.After(3 * time.Second):
		}
	}
	fr.mu.Lock()
	defer fr.mu.Unlock()
	c.readRuns(t0)
}

// ---------------------------------------------------------------------------------------- real runs
var catchable = []int{1, 2, 3, 4, 5, 6, 7, 8, 10, 11, 12, 13, 14, 15, 16, 24, 25, 26, 27, 29, 30, 31}

func (c *Case) member(id int) *Member {
	for i := range c.Tree {
		if c.Tree[i].ID == id {
			return &c.Tree[i]
		}
	}
	return nil
}

// a member is in the launched pid's process group iff neither it nor an ancestor was started through setsid
func (c *Case) inGroup(m *Member) bool {
	for x := m; x != nil; x = c.member(x.Parent) {
		if !x.SameGroup {
			return false
		}
	}
	return true
}

// a member holds the captured output iff neither it nor an ancestor was started with the output redirected
func (c *Case) holdsPipe(m *Member) bool {
	for x := m; x != nil; x = c.member(x.Parent) {
		if !x.Pipe {
			return false
		}
	}
	return true
}

// effective set of signals that do not terminate member m (what the model is told)
func (c *Case) ignores(m *Member) []int {
	set := map[int]bool{}
	for _, s := range c.extraIgn {
		set[s] = true
	}
	eff := effSignal(c.Signal)
	for x := m; x != nil; x = c.member(x.Parent) {
		if x.Ignore && eff != 9 {
			set[eff] = true
		}
		if x.Parent != 0 {
			// asynchronous lists of a non-interactive shell start with SIGINT and SIGQUIT ignored,
			// and ignored signals are inherited by everything below
			set[2], set[3] = true, true
		}
	}
	var r []int
	for s := range set {
		r = append(r, s)
	}
	sort.Ints(r)
	return r
}

func (c *Case) writeScripts() error {
	eff := effSignal(c.Signal)
	for i := range c.Tree {
		m := &c.Tree[i]
		var s strings.Builder
		fmt.Fprintf(&s, "# member %d of scenario %d\n", m.ID, c.ID)
		if m.Ignore && eff != 9 {
			fmt.Fprintf(&s, "trap \"\" %d\n", eff)
		}
		if m.Record {
			for _, sg := range catchable {
				if m.Ignore && sg == eff {
					continue
				}
				fmt.Fprintf(&s, "trap 'echo %d >> \"$C06_DIR/sig.%d\"; exit 0' %d\n", sg, m.ID, sg)
			}
		}
		if m.Parent == 0 {
			s.WriteString("env -0 > \"$C06_DIR/proc.env\"\npwd -P > \"$C06_DIR/proc.pwd\"\n")
		}
		for j := range c.Tree {
			ch := &c.Tree[j]
			if ch.Parent != m.ID {
				continue
			}
			pre, redir := "", ""
			if !ch.SameGroup {
				pre = "setsid "
			}
			if !ch.Pipe {
				redir = " >/dev/null 2>&1"
			}
			fmt.Fprintf(&s, "C06_MEMBER=%d %ssh \"$C06_DIR/m%d.sh\"%s &\n", ch.ID, pre, ch.ID, redir)
		}
		fmt.Fprintf(&s, "echo $$ > \"$C06_DIR/pid.%d.tmp\" && mv \"$C06_DIR/pid.%d.tmp\" \"$C06_DIR/pid.%d\"\n", m.ID, m.ID, m.ID)
		s.WriteString("while :; do sleep 0.1; done\n")
		if err := os.WriteFile(filepath.Join(c.dir, fmt.Sprintf("m%d.sh", m.ID)), []byte(s.String()), 0o755); err != nil {
			return err
		}
	}
	return nil
}

// pidState: 0 = gone or zombie, 1 = alive
func pidAlive(pid int) bool {
	b, err := os.ReadFile(fmt.Sprintf("/proc/%d/stat", pid))
	if err != nil {
		return false
	}
	i := bytes.LastIndexByte(b, ')')
	if i < 0 || i+2 >= len(b) {
		return false
	}
	st := b[i+2]
	return st != 'Z' && st != 'X'
}

// scanSvc: one shared /proc scanner for all scenarios of this run (a scan per scenario would load the
// machine and disturb the timings).  Next() returns a scan that STARTED after the call.
type scanSvc struct {
	mu       sync.Mutex
	cond     *sync.Cond
	startGen int
	doneGen  int
	want     int
	last     map[string]map[int]int
}

var scanner = func() *scanSvc {
	s := &scanSvc{}
	s.cond = sync.NewCond(&s.mu)
	go s.loop()
	return s
}()

func (s *scanSvc) loop() {
	for {
		s.mu.Lock()
		for s.want <= s.doneGen {
			s.cond.Wait()
		}
		s.startGen++
		g := s.startGen
		s.mu.Unlock()
		res := scanAll()
		s.mu.Lock()
		s.doneGen = g
		s.last = res
		s.cond.Broadcast()
		s.mu.Unlock()
	}
}

func (s *scanSvc) Next(mark string) map[int]int {
	s.mu.Lock()
	defer s.mu.Unlock()
	need := s.startGen + 1
	if need > s.want {
		s.want = need
	}
	s.cond.Broadcast()
	for s.doneGen < need {
		s.cond.Wait()
	}
	r := map[int]int{}
	for pid, mem := range s.last[mark] {
		r[pid] = mem
	}
	return r
}

// scanAll: marker -> (pid -> member id) of every live process whose environment carries a marker of this run
func scanAll() map[string]map[int]int {
	res := map[string]map[int]int{}
	ents, _ := os.ReadDir("/proc")
	needle := []byte("C06_MARK=c06-" + runID + "-")
	for _, e := range ents {
		pid, err := strconv.Atoi(e.Name())
		if err != nil {
			continue
		}
		b, err := os.ReadFile("/proc/" + e.Name() + "/environ")
		if err != nil || len(b) == 0 {
			continue
		}
		if !bytes.Contains(b, needle) || !pidAlive(pid) {
			continue
		}
		mem, mark := 0, ""
		for _, kv := range bytes.Split(b, []byte{0}) {
			if bytes.HasPrefix(kv, []byte("C06_MEMBER=")) {
				mem, _ = strconv.Atoi(string(kv[len("C06_MEMBER="):]))
			} else if bytes.HasPrefix(kv, []byte("C06_MARK=")) {
				mark = string(kv[len("C06_MARK="):])
			}
		}
		if res[mark] == nil {
			res[mark] = map[int]int{}
		}
		res[mark][pid] = mem
	}
	return res
}

func scanMarker(mark string) map[int]int { return scanner.Next(mark) }

func (c *Case) waitPids(max time.Duration) (map[int]int, bool) {
	pids := map[int]int{}
	end := time.Now().Add(max)
	for time.Now().Before(end) {
		for _, m := range c.Tree {
			if _, ok := pids[m.ID]; ok {
				continue
			}
			if s, ok := readTrim(filepath.Join(c.dir, fmt.Sprintf("pid.%d", m.ID))); ok {
				if pid, err := strconv.Atoi(s); err == nil {
					pids[m.ID] = pid
				}
			}
		}
		if len(pids) == len(c.Tree) {
			return pids, true
		}
		time.Sleep(10 * time.Millisecond)
	}
	return pids, false
}

func (c *Case) collectReal(t0 time.Time, pids map[int]int) {
	// survivors: processes with the marker that are there in two scans 250 ms apart
	s1 := scanMarker(c.mark)
	time.Sleep(250 * time.Millisecond)
	s2 := scanMarker(c.mark)
	seen := map[int]bool{}
	for pid, mem := range s2 {
		if _, ok := s1[pid]; ok {
			seen[mem] = true
		}
	}
	c.Survivors = []int{}
	for mem := range seen {
		c.Survivors = append(c.Survivors, mem)
	}
	sort.Ints(c.Survivors)
	c.Sigs = map[int][]int{}
	for _, m := range c.Tree {
		if b, err := os.ReadFile(filepath.Join(c.dir, fmt.Sprintf("sig.%d", m.ID))); err == nil {
			for _, f := range strings.Fields(string(b)) {
				v, _ := strconv.Atoi(f)
				c.Sigs[m.ID] = append(c.Sigs[m.ID], v)
			}
		}
	}
	if env, ok := readEnv0(filepath.Join(c.dir, "proc.env")); ok {
		c.ProcEnv = envHash(env)
	}
	if pwd, ok := readTrim(filepath.Join(c.dir, "proc.pwd")); ok {
		c.ProcDir = hashStr(pwd)
	}
	c.readRuns(t0)
	// clean up whatever is left
	for i := 0; i < 3; i++ {
		left := scanMarker(c.mark)
		if len(left) == 0 {
			break
		}
		for pid := range left {
			_ = syscall.Kill(pid, syscall.SIGKILL)
		}
		time.Sleep(50 * time.Millisecond)
	}
}

func (c *Case) pollDeaths(t0 time.Time, pids map[int]int, stop <-chan struct{}, done chan<- struct{}) {
	c.Deaths = map[int]int64{}
	for {
		for mem, pid := range pids {
			if _, dead := c.Deaths[mem]; !dead && !pidAlive(pid) {
				c.Deaths[mem] = time.Since(t0).Milliseconds()
			}
		}
		select {
		case <-stop:
			close(done)
			return
		case <-time.After(12 * time.Millisecond):
		}
	}
}

func (c *Case) prepReal() {
	c.EndMs, c.ReturnMs = -1, -1
	c.Ignores = map[int][]int{}
	c.InGroup = map[int]bool{}
	for i := range c.Tree {
		c.Ignores[c.Tree[i].ID] = c.ignores(&c.Tree[i])
		c.InGroup[c.Tree[i].ID] = c.inGroup(&c.Tree[i])
	}
}

func runReal(c *Case) {
	c.prepReal()
	runner := c.runner
	if runner == nil {
		return
	}
	if err := c.writeScripts(); err != nil {
		c.Err = err.Error()
		return
	}
	runDone := make(chan struct{})
	go func() { _ = runner.Run(); close(runDone) }()
	pids, ok := c.waitPids(8 * time.Second)
	if !ok {
		c.Err = "process tree did not come up"
		c.collectReal(time.Now(), pids)
		return
	}
	time.Sleep(150 * time.Millisecond) // every member is inside its sleep loop, traps installed
	t0 := time.Now()
	stopPoll, pollDone := make(chan struct{}), make(chan struct{})
	go c.pollDeaths(t0, pids, stopPoll, pollDone)
	ret := make(chan int64, 1)
	go func() {
		if c.Via == "shutdown" {
			_ = runner.ShutDownProject()
		} else {
			_ = runner.StopProcess(c.procName())
		}
		ret <- time.Since(t0).Milliseconds()
	}()
	deadline := time.After(time.Duration(c.killTimeMs()+slackMs+400) * time.Millisecond)
	select {
	case ms := <-ret:
		c.ReturnMs = ms
		<-deadline
	case <-deadline:
	}
	close(stopPoll)
	<-pollDone
	c.collectReal(t0, pids)
	select {
	case <-runDone:
	case <-time.After(5 * time.Second):
		c.Err = "Run() did not return after clean-up"
	}
}

func runBinary(c *Case) {
	c.prepReal()
	yml, err := c.writeProject()
	if err == nil {
		err = c.writeScripts()
	}
	if err != nil {
		c.Err = err.Error()
		return
	}
	cmd := exec.Command(pcBin, "-f", yml, "-t=false", "--no-server", "-L", filepath.Join(c.dir, "pc.log"),
		"-u", filepath.Join(c.dir, "pc.sock"))
	cmd.Dir = c.dir
	cmd.Stdout, cmd.Stderr = nil, nil
	if err := cmd.Start(); err != nil {
		c.Err = "start binary: " + err.Error()
		return
	}
	exited := make(chan struct{})
	go func() { _ = cmd.Wait(); close(exited) }()
	pids, ok := c.waitPids(10 * time.Second)
	if !ok {
		c.Err = "process tree did not come up"
		_ = cmd.Process.Kill()
		c.collectReal(time.Now(), pids)
		return
	}
	time.Sleep(150 * time.Millisecond)
	sig := map[string]syscall.Signal{"SIGTERM": syscall.SIGTERM, "SIGINT": syscall.SIGINT, "SIGHUP": syscall.SIGHUP}[c.Via]
	t0 := time.Now()
	stopPoll, pollDone := make(chan struct{}), make(chan struct{})
	go c.pollDeaths(t0, pids, stopPoll, pollDone)
	_ = cmd.Process.Signal(sig)
	deadline := time.After(time.Duration(c.killTimeMs()+slackMs+600) * time.Millisecond)
	select {
	case <-exited:
		c.ReturnMs = time.Since(t0).Milliseconds()
		c.Exited = true
		c.ExitCode = cmd.ProcessState.ExitCode()
		<-deadline
	case <-deadline:
	}
	close(stopPoll)
	<-pollDone
	c.collectReal(t0, pids)
	if !c.Exited {
		select {
		case <-exited:
		case <-time.After(3 * time.Second):
			_ = cmd.Process.Kill()
			<-exited
		}
	}
}

// -------------------------------------------------------------------------------------- generators
func plainTree(n int) []Member {
	t := []Member{{ID: 1, Parent: 0, SameGroup: true, Pipe: true, Record: true}}
	for i := 2; i <= n; i++ {
		t = append(t, Member{ID: i, Parent: i - 1, SameGroup: true, Pipe: true, Record: true})
	}
	return t
}

func namedTree(name string) []Member {
	switch name {
	case "single":
		return plainTree(1)
	case "chain3":
		return plainTree(3)
	case "fan":
		return []Member{{ID: 1, SameGroup: true, Pipe: true, Record: true},
			{ID: 2, Parent: 1, SameGroup: true, Pipe: true, Record: true},
			{ID: 3, Parent: 1, SameGroup: true, Pipe: false, Record: true}}
	case "child-ignores-pipe":
		return []Member{{ID: 1, SameGroup: true, Pipe: true, Record: true},
			{ID: 2, Parent: 1, SameGroup: true, Pipe: true, Ignore: true, Record: true}}
	case "child-ignores-nopipe":
		return []Member{{ID: 1, SameGroup: true, Pipe: true, Record: true},
			{ID: 2, Parent: 1, SameGroup: true, Pipe: false, Ignore: true, Record: true}}
	case "grandchild-ignores-nopipe":
		return []Member{{ID: 1, SameGroup: true, Pipe: true, Record: true},
			{ID: 2, Parent: 1, SameGroup: true, Pipe: true, Record: true},
			{ID: 3, Parent: 2, SameGroup: true, Pipe: false, Ignore: true}}
	case "leader-ignores":
		return []Member{{ID: 1, SameGroup: true, Pipe: true, Ignore: true, Record: true},
			{ID: 2, Parent: 1, SameGroup: true, Pipe: true}}
	case "setsid-child":
		return []Member{{ID: 1, SameGroup: true, Pipe: true, Record: true},
			{ID: 2, Parent: 1, SameGroup: false, Pipe: true, Record: true}}
	}
	return plainTree(1)
}

func randomTree(r *rand.Rand) []Member {
	n := 1 + r.Intn(4)
	t := []Member{{ID: 1, SameGroup: true, Pipe: true, Record: r.Intn(4) != 0, Ignore: r.Intn(5) == 0}}
	for i := 2; i <= n; i++ {
		t = append(t, Member{ID: i, Parent: 1 + r.Intn(i-1), SameGroup: r.Intn(8) != 0, Pipe: r.Intn(3) != 0,
			Ignore: r.Intn(3) == 0, Record: r.Intn(3) != 0})
	}
	return t
}

var gridSignals = []int{0, 1, 2, 9, 15, 31, 32, 64, -1}

func generate(seed int64, tier string, nRandom int) []*Case {
	r := rand.New(rand.NewSource(seed))
	var cs []*Case
	add := func(s Scenario) { cs = append(cs, &Case{Scenario: s}) }
	via := func() string {
		if r.Intn(2) == 0 {
			return "stop"
		}
		return "shutdown"
	}
	// (a) fake commander: the whole parameter grid
	for _, sig := range gridSignals {
		for _, po := range []bool{false, true} {
			for _, to := range []int{0, 1, 2} {
				for _, react := range []string{"die", "ignore", "die500"} {
					add(Scenario{Kind: "fake", Via: via(), Signal: sig, Timeout: to, ParentOnly: po, React: react})
				}
			}
		}
	}
	for _, po := range []bool{false, true} {
		for _, cmd := range []string{"ok", "fail", "failslow", "hang"} {
			for _, to := range []int{0, 1, 2, -1} {
				if cmd == "hang" && to == 0 && tier == "quick" {
					continue // default 10 s deadline: thorough tier only
				}
				add(Scenario{Kind: "fake", Via: via(), Signal: gridSignals[r.Intn(len(gridSignals))], Timeout: to,
					ParentOnly: po, Cmd: cmd, React: "ignore"})
			}
		}
		add(Scenario{Kind: "fake", Via: via(), Signal: 15, Timeout: -1, ParentOnly: po, React: "ignore"})
		add(Scenario{Kind: "fake", Via: via(), Signal: 0, Timeout: -3, ParentOnly: po, React: "die"})
	}
	// the stopping goroutine loses the race against the end of the instance
	for _, to := range []int{1, 2} {
		add(Scenario{Kind: "fake", Via: "stop", Signal: 15, Timeout: to, React: "die-slowstop", Tag: "slowstop"})
		add(Scenario{Kind: "fake", Via: "shutdown", Signal: 0, Timeout: to, ParentOnly: true, React: "die-slowstop", Tag: "slowstop"})
	}
	for i := 0; i < nRandom; i++ {
		s := Scenario{Kind: "fake", Via: via(), Signal: r.Intn(80) - 8, Timeout: r.Intn(3), ParentOnly: r.Intn(2) == 0,
			React: []string{"die", "ignore", "die500"}[r.Intn(3)]}
		if r.Intn(5) == 0 {
			s.Cmd = []string{"ok", "fail", "failslow", "hang"}[r.Intn(4)]
			if s.Timeout == 0 {
				s.Timeout = 1
			}
		}
		add(s)
	}
	// (b) real process trees
	for _, sig := range gridSignals {
		for _, to := range []int{0, 1} {
			tree := "chain3"
			if to == 0 {
				tree = "single"
			}
			add(Scenario{Kind: "real", Via: via(), Signal: sig, Timeout: to, Tree: namedTree(tree)})
		}
	}
	for _, tn := range []string{"child-ignores-pipe", "child-ignores-nopipe", "grandchild-ignores-nopipe", "leader-ignores", "setsid-child", "fan"} {
		for _, to := range []int{0, 1} {
			add(Scenario{Kind: "real", Via: via(), Signal: []int{15, 0, 1}[r.Intn(3)], Timeout: to, Tree: namedTree(tn), Tag: tn})
		}
	}
	for _, tn := range []string{"chain3", "leader-ignores", "single"} {
		for _, to := range []int{0, 1} {
			add(Scenario{Kind: "real", Via: via(), Signal: 15, Timeout: to, ParentOnly: true, Tree: namedTree(tn), Tag: "parent_only"})
		}
	}
	for _, cmd := range []string{"okkill", "fail", "hang", "failslow"} {
		add(Scenario{Kind: "real", Via: via(), Signal: 15, Timeout: 1, Cmd: cmd, Tree: namedTree("chain3")})
		tn := "child-ignores-nopipe"
		if cmd == "okkill" {
			tn = "fan" // the command itself only sends SIGTERM to the group
		}
		add(Scenario{Kind: "real", Via: via(), Signal: 0, Timeout: 1, ParentOnly: true, Cmd: cmd, Tree: namedTree(tn)})
	}
	add(Scenario{Kind: "real", Via: via(), Signal: 15, Timeout: 0, Cmd: "fail", Tree: namedTree("fan")})
	nRealRandom := nRandom / 3
	for i := 0; i < nRealRandom; i++ {
		s := Scenario{Kind: "real", Via: via(), Signal: []int{0, 15, 1, 31, 2, 10, 40, -2, 9}[r.Intn(9)], Timeout: r.Intn(2),
			ParentOnly: r.Intn(6) == 0, Tree: randomTree(r), Tag: "random"}
		if r.Intn(6) == 0 {
			s.Cmd = []string{"fail", "hang"}[r.Intn(2)]
			s.Timeout = 1
		}
		add(s)
	}
	// (c) the real binary
	if pcBin != "" {
		for _, sg := range []string{"SIGTERM", "SIGINT", "SIGHUP"} {
			add(Scenario{Kind: "binary", Via: sg, Signal: 15, Timeout: 1, Tree: namedTree("chain3")})
			add(Scenario{Kind: "binary", Via: sg, Signal: 0, Timeout: 0, Tree: namedTree("fan")})
			add(Scenario{Kind: "binary", Via: sg, Signal: 1, Timeout: 1, Tree: namedTree("child-ignores-pipe")})
			add(Scenario{Kind: "binary", Via: sg, Signal: 15, Timeout: 1, Tree: namedTree("child-ignores-nopipe"), Tag: "child-ignores-nopipe"})
			add(Scenario{Kind: "binary", Via: sg, Signal: 15, Timeout: 1, Cmd: "fail", Tree: namedTree("chain3")})
			add(Scenario{Kind: "binary", Via: sg, Signal: 33, Timeout: 2, ParentOnly: true, Tree: namedTree("leader-ignores"), Tag: "parent_only"})
		}
	}
	return cs
}

// ------------------------------------------------------------------------------------------- Gallina
func paramsCoq(c *Case) string {
	return fmt.Sprintf("(mkParams %s %s %s %s)", coqfmt.Z(int64(c.Signal)), coqfmt.Z(int64(c.Timeout)),
		coqfmt.Bool(c.Cmd != ""), coqfmt.Bool(c.ParentOnly))
}

func cmdAnsCoq(cmd string) string {
	switch cmd {
	case "ok", "okkill":
		return "(CmdOk 0%Z)"
	case "fail":
		return "(CmdFail 0%Z)"
	case "failslow":
		return "(CmdFail 500%Z)"
	}
	return "CmdHang"
}

func runsCoq(rs []RunObs) string {
	items := make([]string, len(rs))
	for i, r := range rs {
		items[i] = fmt.Sprintf("(%s, %s, %s)", coqfmt.N(r.Env), coqfmt.N(r.Dir), coqfmt.Z(r.Ms))
	}
	return coqfmt.List(items)
}

func caseCoq(c *Case) string {
	info := fmt.Sprintf("(mkInfo %s %s)", coqfmt.N(c.ProcEnv), coqfmt.N(c.ProcDir))
	if c.Kind == "fake" {
		react := "NeverEnds"
		switch c.React {
		case "die", "die-slowstop":
			react = "(EndsAfter 0%Z)"
		case "die500":
			react = "(EndsAfter 500%Z)"
		}
		if c.Signal == 9 && c.Cmd == "" {
			react = "(EndsAfter 0%Z)" // the fake command ends on a (raw) SIGKILL whatever its script says
		}
		stops := make([]string, len(c.Stops))
		for i, s := range c.Stops {
			stops[i] = fmt.Sprintf("(%s, %s, %s)", coqfmt.Z(int64(s.Sig)), coqfmt.Bool(s.ParentOnly), coqfmt.Z(s.Ms))
		}
		end := "None"
		if c.EndMs >= 0 {
			end = coqfmt.Some(coqfmt.Z(c.EndMs))
		}
		return fmt.Sprintf("OF (mkF %s (mkAns %s %s) %s\n   %s %s %s %s %s)", paramsCoq(c), react, cmdAnsCoq(c.Cmd), info,
			coqfmt.List(stops), runsCoq(c.Runs), end, coqfmt.Z(c.ReturnMs), coqfmt.Z(c.SlackMs))
	}
	effect := "None"
	if c.Cmd == "okkill" {
		effect = "(Some (TGroup, 15%Z))"
	}
	var tree, recs, sigs, deaths []string
	for i := range c.Tree {
		m := &c.Tree[i]
		ign := make([]string, 0)
		for _, s := range c.Ignores[m.ID] {
			ign = append(ign, coqfmt.Z(int64(s)))
		}
		tree = append(tree, fmt.Sprintf("mkMember %s %s %s %s %s true", coqfmt.N(uint64(m.ID)), coqfmt.Bool(m.Parent == 0),
			coqfmt.Bool(c.inGroup(m)), coqfmt.List(ign), coqfmt.Bool(c.holdsPipe(m))))
		if m.Record {
			recs = append(recs, coqfmt.N(uint64(m.ID)))
		}
		if l, ok := c.Sigs[m.ID]; ok {
			zs := make([]string, len(l))
			for k, v := range l {
				zs[k] = coqfmt.Z(int64(v))
			}
			sigs = append(sigs, coqfmt.Pair(coqfmt.N(uint64(m.ID)), coqfmt.List(zs)))
		}
		if d, ok := c.Deaths[m.ID]; ok {
			deaths = append(deaths, coqfmt.Pair(coqfmt.N(uint64(m.ID)), coqfmt.Z(d)))
		}
	}
	surv := make([]uint64, len(c.Survivors))
	for i, s := range c.Survivors {
		surv[i] = uint64(s)
	}
	return fmt.Sprintf("OR (mkR %s (mkCmdB %s %s) %s\n   %s\n   %s %s %s %s %s %s %s)", paramsCoq(c), effect, cmdAnsCoq(c.Cmd), info,
		coqfmt.List(tree), coqfmt.List(recs), coqfmt.ListN(surv), coqfmt.List(sigs), coqfmt.List(deaths), runsCoq(c.Runs),
		coqfmt.Z(c.ReturnMs), coqfmt.Z(c.SlackMs))
}

// ---------------------------------------------------------------------------------------------- main
func prep(c *Case) {
	r, err := c.newRunner()
	if err != nil {
		c.Err = "load: " + err.Error()
		return
	}
	c.runner = r
}

func runAll(cs []*Case, kind string, par int, f func(*Case)) {
	sem := make(chan struct{}, par)
	var wg sync.WaitGroup
	for _, c := range cs {
		if c.Kind != kind {
			continue
		}
		wg.Add(1)
		sem <- struct{}{}
		go func(c *Case) {
			defer wg.Done()
			defer func() { <-sem }()
			f(c)
		}(c)
	}
	wg.Wait()
}

func main() {
	seed := flag.Int64("seed", 1, "PRNG seed")
	nrand := flag.Int("n", 30, "number of random scenarios")
	tier := flag.String("tier", "quick", "quick | thorough")
	replay := flag.String("replay", "", "re-run the scenarios of this JSON file instead of generating")
	corpus := flag.String("corpus", "", "directory with corpus scenarios (*.json) that run first")
	par := flag.Int("par", 28, "real scenarios running at the same time")
	flag.StringVar(&outDir, "out", ".", "output directory")
	flag.Int64Var(&slackMs, "slack", 600, "scheduling tolerance in ms")
	flag.StringVar(&pcBin, "pcbin", "", "built process-compose binary (enables the binary scenarios)")
	flag.Parse()
	outDir, _ = filepath.Abs(outDir)
	_ = os.Chdir(outDir)
	runID = fmt.Sprintf("%d-%d", os.Getpid(), *seed)
	zerolog.SetGlobalLevel(zerolog.Disabled)

	var cases []*Case
	addFile := func(p string) {
		data, err := os.ReadFile(p)
		if err != nil {
			fmt.Fprintln(os.Stderr, err)
			os.Exit(2)
		}
		var ss []Scenario
		if err := json.Unmarshal(data, &ss); err != nil {
			fmt.Fprintln(os.Stderr, p, err)
			os.Exit(2)
		}
		for _, s := range ss {
			if s.Kind == "binary" && pcBin == "" {
				continue
			}
			cases = append(cases, &Case{Scenario: s})
		}
	}
	if *replay != "" {
		addFile(*replay)
	} else {
		if *corpus != "" {
			files, _ := filepath.Glob(filepath.Join(*corpus, "*.json"))
			sort.Strings(files)
			for _, f := range files {
				addFile(f)
			}
		}
		cases = append(cases, generate(*seed, *tier, *nrand)...)
	}
	var extraIgn []int
	for _, s := range []syscall.Signal{1, 2, 3, 15, 31} {
		if signal.Ignored(s) {
			extraIgn = append(extraIgn, int(s))
		}
	}
	for i, c := range cases {
		c.ID = i + 1
		c.SlackMs = slackMs
		c.extraIgn = extraIgn
		c.Stops, c.Runs, c.Survivors = []StopObs{}, []RunObs{}, []int{}
	}
	t0 := time.Now()
	// phase 1: fake commander installed (only "fake ..." commands are replaced)
	factory = fakecmd.NewFactory()
	factory.OnStop = onStop
	factory.OnStart = func(cmd *fakecmd.Cmd) {
		if v, ok := fakeByNm.Load(cmd.Name); ok {
			fr := v.(*fakeRun)
			fr.cmd = cmd
			close(fr.started)
		}
	}
	app.SetVerifHooks(&app.VerifHooks{Commander: func(p *app.Process) command.Commander { return factory.New(p) }})
	runAll(cases, "fake", 8, prep)
	runAll(cases, "real", 8, prep)
	tPrep := time.Since(t0)
	runAll(cases, "fake", 400, runFake)
	tFake := time.Since(t0) - tPrep
	// phase 2: real processes, no commander hook at all
	app.SetVerifHooks(nil)
	runAll(cases, "real", *par, runReal)
	runAll(cases, "binary", *par, runBinary)
	tReal := time.Since(t0) - tFake - tPrep

	var sb strings.Builder
	sb.WriteString("From Coq Require Import List ZArith NArith.\nFrom PC.StopPlan Require Import Model Check.\nFrom PC.OsTree Require Import Model.\nImport ListNotations.\nOpen Scope nat_scope.\n")
	sb.WriteString("Definition cases : list ocase := [\n")
	for i, c := range cases {
		if i > 0 {
			sb.WriteString(";\n")
		}
		sb.WriteString(caseCoq(c))
	}
	sb.WriteString("\n].\n")
	sb.WriteString("Definition r_bad_model := Eval vm_compute in bad_model cases.\nPrint r_bad_model.\n")
	sb.WriteString("Definition r_bad_monitor := Eval vm_compute in bad_monitor cases.\nPrint r_bad_monitor.\n")
	if err := os.WriteFile(filepath.Join(outDir, "cases_C06.v"), []byte(sb.String()), 0o644); err != nil {
		panic(err)
	}
	js, _ := json.Marshal(cases)
	if err := os.WriteFile(filepath.Join(outDir, "cases_C06.json"), js, 0o644); err != nil {
		panic(err)
	}
	stats := map[string]interface{}{}
	cnt := map[string]int{}
	for _, c := range cases {
		cnt["kind_"+c.Kind]++
		cnt["via_"+c.Via]++
		cnt[fmt.Sprintf("signal_%d", c.Signal)]++
		cnt[fmt.Sprintf("timeout_%d", c.Timeout)]++
		if c.ParentOnly {
			cnt["parent_only"]++
		}
		if c.Cmd != "" {
			cnt["cmd_"+c.Cmd]++
		}
		if c.React != "" {
			cnt["react_"+c.React]++
		}
		if c.Err != "" {
			cnt["harness_errors"]++
		}
		cnt["stop_calls_recorded"] += len(c.Stops)
		if len(c.Survivors) > 0 {
			cnt["cases_with_survivors"]++
		}
		cnt["members"] += len(c.Tree)
	}
	stats["counts"] = cnt
	stats["cases"] = len(cases)
	stats["prep_phase_s"] = tPrep.Seconds()
	stats["fake_phase_s"] = tFake.Seconds()
	stats["real_phase_s"] = tReal.Seconds()
	stats["inherited_ignored_signals"] = extraIgn
	sj, _ := json.Marshal(stats)
	fmt.Println(string(sj))
}
