package main

// websocket log route /process/logs/ws: exchanges (stream compared with GetProcessLog) and the directed
// scenarios for the stalled follower (F29) and for the close path (send on a closed channel).

import (
	"fmt"
	"io"
	"net/http"
	"strconv"
	"strings"
	"sync"
	"sync/atomic"
	"time"

	"github.com/f1bonacc1/process-compose/src/api"
	"github.com/gorilla/websocket"
	"pcverif/fakecmd"
)

func (w *World) aliveCmd(name string) *fakecmd.Cmd {
	for _, c := range w.fac.ByName(name) {
		if c.Alive() {
			return c
		}
	}
	return nil
}

// wsExchange performs one request on the websocket route.  For an upgraded connection it fills `expected`
// (per process: the GetProcessLog window, then the lines written while following) and returns the lines
// actually received per process.
func (w *World) wsExchange(r *Req, expected map[string][]string) (int, []byte, map[string][]string) {
	_, path, _ := pathOf(r)
	got := map[string][]string{}
	if !r.WS {
		req, _ := http.NewRequest("GET", w.base()+path, nil)
		resp, err := w.hc.Do(req)
		if err != nil {
			return 599, []byte(err.Error()), got
		}
		defer resp.Body.Close()
		raw, _ := io.ReadAll(resp.Body)
		return resp.StatusCode, raw, got
	}
	d := websocket.Dialer{HandshakeTimeout: 5 * time.Second}
	conn, resp, err := d.Dial("ws://"+fmt.Sprintf("%s:%d", w.host, w.port)+path, nil)
	if err != nil {
		if resp != nil {
			raw, _ := io.ReadAll(resp.Body)
			resp.Body.Close()
			return resp.StatusCode, raw, got
		}
		return 599, []byte(err.Error()), got
	}
	defer conn.Close()
	off := 0
	if r.P1 != nil {
		off, _ = strconv.Atoi(*r.P1)
	}
	names := strings.Split(r.Name, ",")
	subscribed := []string{}
	total := 0
	for _, n := range names {
		lines, err := w.runner.GetProcessLog(n, off, 0)
		if err != nil {
			break // the handler returns at the first unknown name
		}
		expected[n] = append(expected[n], lines...)
		subscribed = append(subscribed, n)
		total += len(lines)
	}
	read := func(want int, idle time.Duration) {
		n := 0
		for {
			dl := idle
			if n < want {
				dl = 3 * time.Second
			}
			_ = conn.SetReadDeadline(time.Now().Add(dl))
			var m api.LogMessage
			if err := conn.ReadJSON(&m); err != nil {
				return
			}
			if m.ProcessName != "" {
				got[m.ProcessName] = append(got[m.ProcessName], m.Message)
				n++
			}
		}
	}
	if !r.Follow {
		read(total, 120*time.Millisecond)
		return 101, nil, got
	}
	// follow: read the tails, then write more lines and read them
	n0 := 0
	for n0 < total {
		_ = conn.SetReadDeadline(time.Now().Add(3 * time.Second))
		var m api.LogMessage
		if err := conn.ReadJSON(&m); err != nil {
			return 101, nil, got
		}
		if m.ProcessName != "" {
			got[m.ProcessName] = append(got[m.ProcessName], m.Message)
			n0++
		}
	}
	extra := 0
	if len(subscribed) > 0 {
		target := subscribed[0]
		if c := w.aliveCmd(target); c != nil {
			mult := 0
			for _, n := range subscribed {
				if n == target {
					mult++
				}
			}
			// the handler subscribes its connectors right after the upgrade; nothing signals it to the client
			time.Sleep(50 * time.Millisecond)
			for i := 0; i < r.Extra; i++ {
				line := fmt.Sprintf("%s follow line %d", target, i)
				if !writeOutTimeout(c, []byte(line+"\n"), time.Second) {
					break // the supervisor does not read this command's output (not a subject of C19)
				}
				for k := 0; k < mult; k++ {
					expected[target] = append(expected[target], line)
				}
				extra += mult
			}
		}
	}
	// duplicates of one name receive each line once per connector, interleaved: compare as sorted lists
	for n1 := 0; n1 < extra; {
		_ = conn.SetReadDeadline(time.Now().Add(3 * time.Second))
		var m api.LogMessage
		if err := conn.ReadJSON(&m); err != nil {
			break
		}
		if m.ProcessName != "" {
			got[m.ProcessName] = append(got[m.ProcessName], m.Message)
			n1++
		}
	}
	_ = conn.WriteMessage(websocket.CloseMessage, websocket.FormatCloseMessage(websocket.CloseNormalClosure, ""))
	time.Sleep(5 * time.Millisecond)
	return 101, nil, got
}

func writeOutTimeout(c *fakecmd.Cmd, b []byte, d time.Duration) bool {
	done := make(chan struct{})
	go func() { c.WriteOut(b); close(done) }()
	select {
	case <-done:
		return true
	case <-time.After(d):
		return false
	}
}

// ---- directed scenarios ----
type Scenario struct {
	Key        string `json:"key"`
	Reproduced bool   `json:"reproduced"`
	Detail     string `json:"detail"`
	// ws-follower-stalled
	BlockedAfterLines  int  `json:"blocked_after_lines,omitempty"`
	ResumedAfterClose  bool `json:"resumed_after_close,omitempty"`
	// ws-close-send-on-closed-channel
	Panics     int `json:"panics,omitempty"`
	Iterations int `json:"iterations,omitempty"`
	Deadlocks  int `json:"deadlocks,omitempty"`
}

func runScenarios(base string) []Scenario {
	return []Scenario{scenarioStalled(base), scenarioClose(base), scenarioUnsafeName(base)}
}

// F29: a follower that stops reading.  The observer callback pushes into a 256-slot channel while the buffer
// mutex is held; once the socket buffers and the channel are full, ProcessLogBuffer.Write blocks.
func scenarioStalled(base string) Scenario {
	s := Scenario{Key: "ws-follower-stalled"}
	w, err := newWorld(base, 9001)
	if err != nil {
		s.Detail = "world: " + err.Error()
		return s
	}
	defer func() { w.srv.CloseClientConnections() }()
	d := websocket.Dialer{HandshakeTimeout: 5 * time.Second, ReadBufferSize: 1024}
	conn, _, err := d.Dial(fmt.Sprintf("ws://%s:%d/process/logs/ws?name=alive1&offset=1&follow=true", w.host, w.port), nil)
	if err != nil {
		s.Detail = "dial: " + err.Error()
		return s
	}
	// the subscription is established once the tail line has arrived; from now on the follower never reads
	var first api.LogMessage
	_ = conn.SetReadDeadline(time.Now().Add(3 * time.Second))
	if err := conn.ReadJSON(&first); err != nil {
		s.Detail = "no tail line: " + err.Error()
		return s
	}
	time.Sleep(50 * time.Millisecond)
	buf := w.runner.VerifProcessLogBuffer("alive1")
	var written atomic.Int64
	stop := make(chan struct{})
	var panicked atomic.Value
	go func() {
		defer func() {
			if p := recover(); p != nil {
				panicked.Store(fmt.Sprint(p))
			}
		}()
		line := strings.Repeat("x", 64*1024)
		for i := 0; i < 20000; i++ {
			select {
			case <-stop:
				return
			default:
			}
			buf.Write(line)
			written.Add(1)
		}
	}()
	// watchdog: no progress for 1.5 s
	last, lastChange := int64(-1), time.Now()
	deadline := time.Now().Add(60 * time.Second)
	blocked := false
	for time.Now().Before(deadline) {
		v := written.Load()
		if v != last {
			last, lastChange = v, time.Now()
		} else if time.Since(lastChange) > 1500*time.Millisecond {
			blocked = true
			break
		}
		if v >= 20000 {
			break
		}
		time.Sleep(20 * time.Millisecond)
	}
	s.BlockedAfterLines = int(last)
	s.Reproduced = blocked
	// the follower goes away: does the writer resume?
	_ = conn.Close()
	resumeDeadline := time.Now().Add(3 * time.Second)
	for time.Now().Before(resumeDeadline) {
		if written.Load() > last || panicked.Load() != nil {
			s.ResumedAfterClose = true
			break
		}
		time.Sleep(20 * time.Millisecond)
	}
	close(stop)
	s.Detail = fmt.Sprintf("follower stopped reading: ProcessLogBuffer.Write blocked=%v after %d lines of 64 KiB; writer resumed after the follower disconnected=%v", blocked, last, s.ResumedAfterClose)
	if p := panicked.Load(); p != nil {
		s.Detail += "; writer panicked: " + p.(string)
	}
	return s
}

// close path: handleLog closes logChan when `done` fires while the observer is still registered; a
// concurrent ProcessLogBuffer.Write then sends on the closed channel and panics in the goroutine that copies
// the process output (not under gin.Recovery: it would terminate the supervisor).
func scenarioClose(base string) Scenario {
	// phase A: paced writers (handleLog mostly idle in its select: the `done` branch closes logChan while the
	// observer is still registered); phase B: writers at full speed (logChan full when the follower leaves)
	a := scenarioClosePhase(base, 9002, 30*time.Microsecond)
	b := scenarioClosePhase(base, 9004, 0)
	s := Scenario{Key: "ws-close-send-on-closed-channel", Reproduced: a.Reproduced || b.Reproduced,
		Panics: a.Panics + b.Panics, Deadlocks: a.Deadlocks + b.Deadlocks, Iterations: a.Iterations + b.Iterations}
	s.Detail = "paced writers: " + a.Detail + " | full-speed writers: " + b.Detail
	return s
}

func scenarioClosePhase(base string, wid int, pace time.Duration) Scenario {
	s := Scenario{Key: "ws-close-send-on-closed-channel"}
	w, err := newWorld(base, wid)
	if err != nil {
		s.Detail = "world: " + err.Error()
		return s
	}
	defer func() { w.srv.CloseClientConnections() }()
	buf := w.runner.VerifProcessLogBuffer("alive1")
	var panics, writes atomic.Int64
	var firstPanic atomic.Value
	stop := make(chan struct{})
	var wg sync.WaitGroup
	for k := 0; k < 2; k++ {
		wg.Add(1)
		go func() {
			defer wg.Done()
			for {
				select {
				case <-stop:
					return
				default:
				}
				func() {
					defer func() {
						if p := recover(); p != nil {
							panics.Add(1)
							firstPanic.CompareAndSwap(nil, fmt.Sprint(p))
						}
					}()
					buf.Write("close-path line")
					writes.Add(1)
				}()
				if pace > 0 {
					time.Sleep(pace)
				}
			}
		}()
	}
	iters := 0
	start := time.Now()
	for iters < 400 && time.Since(start) < 12*time.Second && panics.Load() == 0 {
		iters++
		d := websocket.Dialer{HandshakeTimeout: 2 * time.Second}
		conn, _, err := d.Dial(fmt.Sprintf("ws://%s:%d/process/logs/ws?name=alive1&offset=0&follow=true", w.host, w.port), nil)
		if err != nil {
			s.Deadlocks++
			break
		}
		for i := 0; i < 3; i++ {
			_ = conn.SetReadDeadline(time.Now().Add(time.Second))
			var m api.LogMessage
			if conn.ReadJSON(&m) != nil {
				break
			}
		}
		if iters%2 == 0 {
			_ = conn.WriteMessage(websocket.CloseMessage, websocket.FormatCloseMessage(websocket.CloseNormalClosure, ""))
			time.Sleep(time.Millisecond)
		}
		_ = conn.Close()
	}
	// writers still making progress?
	before := writes.Load()
	time.Sleep(300 * time.Millisecond)
	if writes.Load() == before && panics.Load() == 0 {
		s.Deadlocks++
	}
	close(stop)
	done := make(chan struct{})
	go func() { wg.Wait(); close(done) }()
	select {
	case <-done:
	case <-time.After(2 * time.Second):
		s.Deadlocks++
	}
	s.Iterations, s.Panics = iters, int(panics.Load())
	s.Reproduced = s.Panics > 0 || s.Deadlocks > 0
	s.Detail = fmt.Sprintf("%d connect/close cycles of a follower while 2 goroutines write to the log buffer: %d panics, %d stuck writers", iters, s.Panics, s.Deadlocks)
	if p := firstPanic.Load(); p != nil {
		s.Detail += "; first panic: " + p.(string)
	}
	return s
}

// the client formats names into the URL without escaping: a process whose name contains ? # % or / cannot
// be addressed through client.PcClient although the server serves it
func scenarioUnsafeName(base string) Scenario {
	s := Scenario{Key: "client-url-unescaped-name"}
	w, err := newWorld(base, 9003)
	if err != nil {
		s.Detail = "world: " + err.Error()
		return s
	}
	defer w.close()
	name := "we?ird#1"
	dst, derr := w.runner.GetProcessState(name)
	cst, cerr := w.cl.GetProcessState(name)
	direct := valRes("state", dst, derr)
	remote := valRes("state", cst, cerr)
	s.Reproduced = direct.K == "val" && (remote.K != "val" || remote.Val != direct.Val)
	s.Detail = fmt.Sprintf("process %q: runner.GetProcessState -> %s; PcClient.GetProcessState -> %s %s", name, direct.K, remote.K, remote.Err)
	// by plain HTTP with an escaped path the server does serve it
	resp, err := w.hc.Get(w.base() + "/process/we%3Fird%231")
	if err == nil {
		s.Detail += fmt.Sprintf("; GET /process/we%%3Fird%%231 -> %d", resp.StatusCode)
		resp.Body.Close()
	}
	return s
}
