// c19: correspondence harness for the REST layer and the bundled client (property C19).
// An httptest server built with api.InitRoutes over a live app.ProjectRunner (loader-built project,
// fakecmd commands), client.PcClient pointed at it; request sequences over all routes with arbitrary path
// parameters and bodies, interleaved with state-changing operations.  Writes
//   <out>/cases_C19.v (Gallina: what was observed)   <out>/cases_C19.json (the same, for replays)
// and prints one JSON line of statistics (including the directed websocket scenarios).
package main

import (
	"bytes"
	"encoding/json"
	"flag"
	"fmt"
	"io"
	"math/rand"
	"net/http"
	"net/url"
	"os"
	"path/filepath"
	"sort"
	"strconv"
	"strings"
	"time"

	"github.com/f1bonacc1/process-compose/src/types"
	"github.com/rs/zerolog"
	"pcverif/coqfmt"
)

type Req struct {
	Op     string  `json:"op"`
	Name   string  `json:"name,omitempty"`
	P1     *string `json:"p1,omitempty"`
	P2     *string `json:"p2,omitempty"`
	Query  *string `json:"query,omitempty"`
	Body   *string `json:"body,omitempty"`
	Via    string  `json:"via"` // http | client
	WS     bool    `json:"ws,omitempty"`     // send a websocket handshake (op ws)
	Follow bool    `json:"follow,omitempty"` // ws: follow=true, and write Extra more lines while subscribed
	Extra  int     `json:"extra,omitempty"`
	Inject *Res    `json:"inject,omitempty"` // the spy answers with this instead of calling the runner
}

type Case struct {
	World  int      `json:"world"`
	Idx    int      `json:"idx"`
	Kind   string   `json:"kind"` // live | stub
	Req    Req      `json:"req"`
	Call   *CallRec `json:"call,omitempty"`
	Res    *Res     `json:"res,omitempty"`
	Status int      `json:"status"`
	Body   Body     `json:"body"`
	RawBody string  `json:"raw_body,omitempty"`
	Direct *Res     `json:"direct,omitempty"`
	Client *CRes    `json:"client,omitempty"`
	Alive  bool     `json:"alive"`
	ArgOK  bool     `json:"arg_ok"`
	Effect bool     `json:"effect"`
	Note   string   `json:"note,omitempty"`
	// classification of the request, computed independently of the server
	BodyClass string   `json:"body_class"`
	Names     []string `json:"names,omitempty"`
	ArgCanon  string   `json:"-"`
}

func sp(s string) *string { return &s }

var readOnly = map[string]bool{"hostname": true, "states": true, "state": true, "info": true, "ports": true, "logs": true, "project_state": true}

func pathOf(r *Req) (method, path string, hasBody bool) {
	n := url.PathEscape(r.Name)
	p1, p2 := "", ""
	if r.P1 != nil {
		p1 = url.PathEscape(*r.P1)
	}
	if r.P2 != nil {
		p2 = url.PathEscape(*r.P2)
	}
	switch r.Op {
	case "live":
		return "GET", "/live", false
	case "hostname":
		return "GET", "/hostname", false
	case "states":
		return "GET", "/processes", false
	case "state":
		return "GET", "/process/" + n, false
	case "info":
		return "GET", "/process/info/" + n, false
	case "update_process":
		return "POST", "/process", true
	case "ports":
		return "GET", "/process/ports/" + n, false
	case "logs":
		return "GET", "/process/logs/" + n + "/" + p1 + "/" + p2, false
	case "stop":
		return "PATCH", "/process/stop/" + n, false
	case "stop_many":
		return "PATCH", "/processes/stop", true
	case "start":
		return "POST", "/process/start/" + n, false
	case "restart":
		return "POST", "/process/restart/" + n, false
	case "shutdown":
		return "POST", "/project/stop", false
	case "update_project":
		return "POST", "/project", true
	case "reload":
		return "POST", "/project/configuration", false
	case "project_state":
		q := ""
		if r.Query != nil {
			q = "?withMemory=" + url.QueryEscape(*r.Query)
		}
		return "GET", "/project/state" + q, false
	case "scale":
		return "PATCH", "/process/scale/" + n + "/" + p1, false
	case "ws":
		v := url.Values{}
		v.Set("name", r.Name)
		if r.P1 != nil {
			v.Set("offset", *r.P1)
		}
		v.Set("follow", fmt.Sprint(r.Follow))
		return "GET", "/process/logs/ws?" + v.Encode(), false
	}
	return "GET", "/", false
}

func atoiOK(s *string) (int, bool) {
	if s == nil {
		return 0, false
	}
	v, err := strconv.Atoi(*s)
	return v, err == nil
}

// run the client method that corresponds to the request; ok=false when the request is not expressible
func (w *World) viaClient(r *Req) (res CRes, expressible bool) {
	defer func() {
		if p := recover(); p != nil {
			res, expressible = CRes{K: "panic", S: fmt.Sprint(p)}, true
		}
	}()
	val := func(kind string, v interface{}, err error) CRes {
		if err != nil {
			return classifyClientErr(err)
		}
		c := canon(kind, v)
		if c == zeroCanon(kind) {
			return CRes{K: "zero"}
		}
		return CRes{K: "val", S: c}
	}
	unit := func(err error) CRes {
		if err != nil {
			return classifyClientErr(err)
		}
		return CRes{K: "ok"}
	}
	mp := func(m map[string]string, err error) CRes {
		if err != nil {
			return classifyClientErr(err)
		}
		return CRes{K: "map", Map: sortedPairs(m)}
	}
	cl := w.cl
	switch r.Op {
	case "live":
		return unit(cl.IsAlive()), true
	case "hostname":
		v, err := cl.GetHostName()
		return val("host", v, err), true
	case "states":
		v, err := cl.GetProcessesState()
		return val("states", v, err), true
	case "state":
		v, err := cl.GetProcessState(r.Name)
		return val("state", v, err), true
	case "info":
		v, err := cl.GetProcessInfo(r.Name)
		return val("config", v, err), true
	case "ports":
		v, err := cl.GetProcessPorts(r.Name)
		return val("ports", v, err), true
	case "logs":
		a, ok1 := atoiOK(r.P1)
		b, ok2 := atoiOK(r.P2)
		if !ok1 || !ok2 {
			return CRes{}, false
		}
		v, err := cl.GetProcessLog(r.Name, a, b)
		if err != nil {
			return classifyClientErr(err), true
		}
		return CRes{K: "val", S: canon("logs", v)}, true
	case "stop":
		return unit(cl.StopProcess(r.Name)), true
	case "start":
		return unit(cl.StartProcess(r.Name)), true
	case "restart":
		return unit(cl.RestartProcess(r.Name)), true
	case "scale":
		a, ok := atoiOK(r.P1)
		if !ok {
			return CRes{}, false
		}
		return unit(cl.ScaleProcess(r.Name, a)), true
	case "stop_many":
		if r.Body == nil {
			return CRes{}, false
		}
		var ns []string
		if json.Unmarshal([]byte(*r.Body), &ns) != nil || ns == nil {
			return CRes{}, false
		}
		return mp(cl.StopProcesses(ns)), true
	case "update_process":
		if r.Body == nil {
			return CRes{}, false
		}
		var pc types.ProcessConfig
		if json.Unmarshal([]byte(*r.Body), &pc) != nil {
			return CRes{}, false
		}
		return unit(cl.UpdateProcess(&pc)), true
	case "update_project":
		if r.Body == nil {
			return CRes{}, false
		}
		var pr types.Project
		if json.Unmarshal([]byte(*r.Body), &pr) != nil {
			return CRes{}, false
		}
		return mp(cl.UpdateProject(&pr)), true
	case "reload":
		return mp(cl.ReloadProject()), true
	case "project_state":
		mem := r.Query != nil && *r.Query == "true"
		v, err := cl.GetProjectState(mem)
		return val("project_state", v, err), true
	case "shutdown":
		return unit(cl.ShutDownProject()), true
	}
	return CRes{}, false
}

// the same read-only call made directly on the runner
func (w *World) direct(c *CallRec) *Res {
	var r Res
	func() {
		defer func() {
			if p := recover(); p != nil {
				r = Res{K: "err", Err: "PANIC in direct call: " + fmt.Sprint(p)}
			}
		}()
		rn := w.runner
		switch c.M {
		case "hostname":
			v, err := rn.GetHostName()
			r = valRes("host", v, err)
		case "states":
			v, err := rn.GetProcessesState()
			r = valRes("states", v, err)
		case "state":
			v, err := rn.GetProcessState(c.Name)
			r = valRes("state", v, err)
		case "info":
			v, err := rn.GetProcessInfo(c.Name)
			r = valRes("config", v, err)
		case "ports":
			v, err := rn.GetProcessPorts(c.Name)
			r = valRes("ports", v, err)
		case "logs":
			v, err := rn.GetProcessLog(c.Name, int(c.A), int(c.B))
			r = valRes("logs", v, err)
		case "project_state":
			v, err := rn.GetProjectState(c.Mem)
			r = valRes("project_state", v, err)
		}
	}()
	if r.K == "" {
		return nil
	}
	return &r
}

func (w *World) isRunning(name string) bool {
	st, err := w.runner.GetProcessState(name)
	return err == nil && st.IsRunning
}

func (w *World) countBase(base string) int {
	n := 0
	for _, p := range w.runner.VerifProject().Processes {
		if p.Name == base {
			n++
		}
	}
	return n
}

// exchange executes one request in the world and observes it
func (w *World) exchange(r Req, wi, idx int, before string) (*Case, string) {
	c := &Case{World: wi, Idx: idx, Kind: "live", Req: r, ArgOK: true, Effect: true}
	if r.Inject != nil {
		c.Kind = "stub"
	}
	c.BodyClass, c.Names, c.ArgCanon = classifyReqBody(r.Op, r.Body)
	w.spy.mu.Lock()
	w.spy.inject = r.Inject
	w.spy.mu.Unlock()
	w.takeExchanges()
	w.spy.take()
	launchesBefore := 0
	baseBefore := ""
	if r.Name != "" {
		launchesBefore = w.launches(r.Name)
		if pc, ok := w.runner.VerifProject().Processes[r.Name]; ok {
			baseBefore = pc.Name
		}
	}
	var wsMsgs map[string][]string
	wsExpected := map[string][]string{}
	switch {
	case r.Op == "ws":
		st, raw, msgs := w.wsExchange(&r, wsExpected)
		c.Status, wsMsgs = st, msgs
		c.Body = classifyBody("ws", st, raw)
		c.RawBody = trunc(string(raw))
	case r.Via == "client":
		if r.Op == "project_state" { // the client API takes a bool and formats it itself
			r.Query = sp(strconv.FormatBool(r.Query != nil && *r.Query == "true"))
			c.Req = r
		}
		cr, ok := w.viaClient(&r)
		if !ok {
			return nil, before
		}
		c.Client = &cr
	default:
		method, path, hasBody := pathOf(&r)
		var rd io.Reader
		if hasBody && r.Body != nil {
			rd = bytes.NewReader([]byte(*r.Body))
		}
		req, err := http.NewRequest(method, w.base()+path, rd)
		if err != nil {
			return nil, before
		}
		if hasBody {
			req.Header.Set("Content-Type", "application/json")
		}
		resp, err := w.hc.Do(req)
		if err != nil {
			c.Note = "transport error: " + err.Error()
			c.Status = 599
		} else {
			raw, _ := io.ReadAll(resp.Body)
			resp.Body.Close()
			c.Status = resp.StatusCode
			c.Body = classifyBody(r.Op, resp.StatusCode, raw)
			c.RawBody = trunc(string(raw))
		}
	}
	exs := w.takeExchanges()
	if r.Op != "ws" && (r.Via == "client" || c.Status == 599) {
		if len(exs) == 0 {
			if c.Client != nil && c.Client.K == "panic" {
				// the client method did not even send a request
				c.Status, c.Body = 0, Body{K: "other"}
			} else if c.Status != 599 {
				return nil, before // nothing reached the server (URL not expressible)
			}
		} else {
			last := exs[len(exs)-1]
			c.Status = last.Status
			c.Body = classifyBody(r.Op, last.Status, last.Body)
			c.RawBody = trunc(string(last.Body))
		}
	}
	calls, ress := w.spy.take()
	if len(calls) > 0 {
		c.Call, c.Res = &calls[len(calls)-1], &ress[len(ress)-1]
		if len(calls) > 1 {
			c.Note += fmt.Sprintf(" %d runner calls in one exchange", len(calls))
			c.ArgOK = false
		}
		switch c.Call.M {
		case "update_process", "update_project":
			c.ArgOK = c.ArgOK && c.Call.Arg == c.ArgCanon
			if !c.ArgOK {
				c.Note += " decoded body differs from independent decode"
			}
		}
	}
	if c.Client != nil && c.Client.K == "zero" && c.Res != nil && c.Res.K == "val" && c.Res.Val == zeroCanon(valKind[r.Op]) {
		c.Client = &CRes{K: "val", S: c.Res.Val} // the runner's value itself is the empty value
	}
	// quiescence, effect through a following read, direct comparison
	mutating := c.Call != nil && !readOnly[c.Call.M] && r.Inject == nil
	after := before
	if mutating {
		var quiet bool
		after, quiet = w.waitQuiet()
		if !quiet {
			c.Note += " not quiescent after 4 s"
		}
		ok200 := c.Res != nil && (c.Res.K == "ok" || (c.Res.K == "map" && !c.Res.HasErr))
		switch c.Call.M {
		case "stop":
			if ok200 {
				c.Effect = !w.isRunning(c.Call.Name)
			} else {
				c.Effect = after == before
			}
		case "start", "restart":
			if ok200 {
				c.Effect = w.launches(c.Call.Name) == launchesBefore+1
			} else if c.Call.M == "start" {
				c.Effect = after == before
			}
		case "scale":
			if ok200 {
				// what a successful scale does to the replica set is the subject of C13, not judged here
				_ = baseBefore
			} else {
				c.Effect = after == before
			}
		case "stop_many":
			for _, p := range c.Res.Map {
				if p[1] == "ok" && w.isRunning(p[0]) {
					c.Effect = false
				}
			}
		}
		if !c.Effect {
			c.Note += " effect not visible through a following read"
		}
	} else {
		after = w.snapshot()
		if after != before && r.Op != "ws" {
			// read-only / rejected / injected exchanges must not change anything
			time.Sleep(20 * time.Millisecond)
			after, _ = w.waitQuiet()
			c.Effect = false
			c.Note += " state changed by a request that must not change it"
		}
		if c.Call != nil && readOnly[c.Call.M] && r.Inject == nil {
			c.Direct = w.direct(c.Call)
		}
	}
	if r.Op == "ws" && c.Status == 101 {
		for n, exp := range wsExpected {
			got := append([]string{}, wsMsgs[n]...)
			exp = append([]string{}, exp...)
			occ := 0
			for _, x := range strings.Split(r.Name, ",") {
				if x == n {
					occ++
				}
			}
			if occ > 1 { // one connector per occurrence: interleaved
				sort.Strings(got)
				sort.Strings(exp)
			}
			if strings.Join(got, "\n") != strings.Join(exp, "\n") || len(got) != len(exp) {
				c.Effect = false
				c.Note += fmt.Sprintf(" ws stream of %q: got %d lines, expected %d (GetProcessLog window + later lines)", n, len(got), len(exp))
			}
		}
		after, _ = w.waitQuiet()
	}
	w.spy.mu.Lock()
	w.spy.inject = nil
	w.spy.mu.Unlock()
	c.Alive = w.alive()
	return c, after
}

func trunc(s string) string {
	if len(s) > 300 {
		return s[:300] + "..."
	}
	return s
}

// ---- Gallina ----
func (c *Case) coq(t *interner) string {
	r := &c.Req
	var parseText *string
	if c.Call == nil && c.Body.K == "err" {
		parseText = &c.Body.S
	}
	has := func(p *string) bool { return p != nil }
	p1, p2 := "PEmpty", "PEmpty"
	if r.P1 != nil {
		p1 = numParamCoq(*r.P1, has(r.P1))
	}
	if r.P2 != nil {
		p2 = numParamCoq(*r.P2, has(r.P2))
	}
	q := ""
	if r.Query != nil {
		q = *r.Query
	}
	names := make([]string, len(c.Names))
	for i, n := range c.Names {
		names[i] = strCoq(n)
	}
	bid := uint64(0)
	if c.ArgCanon != "" {
		bid = t.id("arg", c.ArgCanon)
	}
	req := fmt.Sprintf("(mkReq %s %s %s %s %s %s %s %s %s)", opCoq[r.Op], strCoq(r.Name), p1, p2, strCoq(q),
		c.BodyClass, coqfmt.List(names), coqfmt.N(bid), coqfmt.Bool(r.WS))
	call, res := "None", "ROk"
	if c.Call != nil {
		call = coqfmt.Some(callCoq(t, c.Call))
		res = resCoq(t, c.Res, parseText)
	}
	direct, client := "None", "None"
	if c.Direct != nil {
		direct = coqfmt.Some(resCoq(t, c.Direct, parseText))
	}
	if c.Client != nil {
		client = coqfmt.Some(cresCoq(t, c.Client, parseText))
	}
	return fmt.Sprintf("mkCase %s\n  %s %s %s %s\n  %s %s %s %s %s", req, call, res, coqfmt.Nat(c.Status),
		bodyCoq(t, &c.Body, parseText), direct, client, coqfmt.Bool(c.Alive), coqfmt.Bool(c.ArgOK), coqfmt.Bool(c.Effect))
}

type worldPlan struct {
	Reqs []Req `json:"reqs"`
}

func runWorld(base string, wi int, reqs []Req, gen func(w *World, i int) *Req, n int, progress string) ([]*Case, error) {
	w, err := newWorld(base, wi)
	if err != nil {
		return nil, err
	}
	defer w.close()
	var cases []*Case
	before, _ := w.waitQuiet()
	var done []Req
	for i := 0; (reqs != nil && i < len(reqs)) || (reqs == nil && i < n); i++ {
		var r Req
		if reqs != nil {
			r = reqs[i]
		} else {
			p := gen(w, i)
			if p == nil {
				break
			}
			r = *p
		}
		done = append(done, r)
		if progress != "" {
			pj, _ := json.Marshal(map[string]interface{}{"world": wi, "reqs": done})
			_ = os.WriteFile(progress, pj, 0o644)
		}
		c, after := w.exchange(r, wi, i, before)
		before = after
		if c == nil {
			done = done[:len(done)-1]
			continue
		}
		c.Idx = len(cases)
		cases = append(cases, c)
		if w.runPanic != "" {
			c.Note += " runner.Run panicked: " + w.runPanic
			c.Alive = false
		}
		if r.Op == "shutdown" && r.Inject == nil {
			break
		}
	}
	return cases, nil
}

func main() {
	seed := flag.Int64("seed", 1, "PRNG seed")
	nworlds := flag.Int("worlds", 10, "number of live worlds with random request sequences")
	length := flag.Int("len", 60, "exchanges per random world")
	out := flag.String("out", ".", "output directory")
	replay := flag.String("replay", "", "re-run the worlds of this JSON file ([{world,reqs:[...]}]) instead of generating")
	corpus := flag.String("corpus", "", "directory with corpus worlds (*.json) that run first")
	scen := flag.Bool("scenarios", true, "run the directed websocket scenarios")
	onlyScen := flag.Bool("only-scenarios", false, "run only the directed scenarios")
	flag.Parse()
	zerolog.SetGlobalLevel(zerolog.Disabled)
	tmp, err := os.MkdirTemp("", "c19-")
	if err != nil {
		panic(err)
	}
	defer os.RemoveAll(tmp)
	progress := filepath.Join(*out, "progress_C19.json")

	var all []*Case
	stats := map[string]interface{}{}
	wi := 0
	runPlanFile := func(p string) {
		data, err := os.ReadFile(p)
		if err != nil {
			fmt.Fprintln(os.Stderr, err)
			os.Exit(2)
		}
		var plans []worldPlan
		if err := json.Unmarshal(data, &plans); err != nil {
			fmt.Fprintln(os.Stderr, p, err)
			os.Exit(2)
		}
		for _, pl := range plans {
			cs, err := runWorld(tmp, wi, pl.Reqs, nil, 0, progress)
			if err != nil {
				fmt.Fprintln(os.Stderr, "world:", err)
				os.Exit(3)
			}
			all = append(all, cs...)
			wi++
		}
	}
	if *onlyScen {
		sj, _ := json.Marshal(map[string]interface{}{"scenarios": runScenarios(tmp)})
		fmt.Println(string(sj))
		return
	}
	if *replay != "" {
		runPlanFile(*replay)
	} else {
		if *corpus != "" {
			files, _ := filepath.Glob(filepath.Join(*corpus, "*.json"))
			for _, f := range files {
				runPlanFile(f)
			}
		}
		// exhaustive grids (fixed): every route x every result shape through a scripted runner (http and
		// client); every numeric parameter text x every numeric position; every body text x every body route
		for _, plan := range gridPlans() {
			cs, err := runWorld(tmp, wi, plan, nil, 0, progress)
			if err != nil {
				fmt.Fprintln(os.Stderr, "world:", err)
				os.Exit(3)
			}
			all = append(all, cs...)
			wi++
		}
		rng := rand.New(rand.NewSource(*seed))
		for k := 0; k < *nworlds; k++ {
			g := newGen(rng)
			cs, err := runWorld(tmp, wi, nil, g.next, *length, progress)
			if err != nil {
				fmt.Fprintln(os.Stderr, "world:", err)
				os.Exit(3)
			}
			all = append(all, cs...)
			wi++
		}
		if *scen {
			stats["scenarios"] = runScenarios(tmp)
		}
	}
	_ = os.Remove(progress)

	t := &interner{m: map[string]uint64{}}
	var sb strings.Builder
	sb.WriteString("From Coq Require Import List ZArith NArith.\nFrom PC.Api Require Import Model Check.\nImport ListNotations.\n")
	sb.WriteString("Definition cases : list ocase := [\n")
	for i, c := range all {
		if i > 0 {
			sb.WriteString(";\n")
		}
		sb.WriteString(c.coq(t))
	}
	sb.WriteString("\n].\n")
	sb.WriteString("Definition r_bad_model := Eval vm_compute in bad_model cases.\nPrint r_bad_model.\n")
	sb.WriteString("Definition r_bad_monitor := Eval vm_compute in bad_monitor cases.\nPrint r_bad_monitor.\n")
	if err := os.WriteFile(filepath.Join(*out, "cases_C19.v"), []byte(sb.String()), 0o644); err != nil {
		panic(err)
	}
	js, _ := json.Marshal(all)
	if err := os.WriteFile(filepath.Join(*out, "cases_C19.json"), js, 0o644); err != nil {
		panic(err)
	}
	cnt := map[string]int{}
	for _, c := range all {
		cnt["op_"+c.Req.Op]++
		cnt["via_"+c.Req.Via]++
		cnt["kind_"+c.Kind]++
		cnt[fmt.Sprintf("status_%d", c.Status)]++
		if c.Call == nil {
			cnt["no_runner_call"]++
		}
		if c.Direct != nil {
			cnt["with_direct_comparison"]++
		}
		if c.Client != nil {
			cnt["with_client_result"]++
			cnt["client_"+c.Client.K]++
		}
		if c.Note != "" {
			cnt["with_note"]++
		}
	}
	cnt["cases"] = len(all)
	cnt["worlds"] = wi
	stats["counts"] = cnt
	sj, _ := json.Marshal(stats)
	fmt.Println(string(sj))
}
