package main

// canonical projections, classification of HTTP bodies and client results, Gallina rendering

import (
	"bytes"
	"encoding/json"
	"errors"
	"fmt"
	"io"
	"math/big"
	"reflect"
	"regexp"
	"sort"
	"strconv"
	"strings"
	"time"

	"github.com/f1bonacc1/process-compose/src/types"
	"pcverif/coqfmt"
)

func normJSON(v interface{}) string {
	b, err := json.Marshal(v)
	if err != nil {
		return "!marshal:" + err.Error()
	}
	var g interface{}
	if err := json.Unmarshal(b, &g); err != nil {
		return "!unmarshal:" + err.Error()
	}
	b, _ = json.Marshal(g) // map keys sorted
	return string(b)
}

func projState(s types.ProcessState) types.ProcessState {
	s.SystemTime, s.Age, s.Pid, s.Mem, s.CPU = "", 0, 0, 0, 0
	return s
}

// canon: projected canonical JSON of a value that crosses the wire (volatile fields dropped)
func canon(kind string, v interface{}) string {
	if v == nil || (reflect.ValueOf(v).Kind() == reflect.Ptr && reflect.ValueOf(v).IsNil()) {
		return "null"
	}
	switch kind {
	case "state":
		return normJSON(projState(*v.(*types.ProcessState)))
	case "states":
		ss := v.(*types.ProcessesState)
		out := make([]types.ProcessState, 0, len(ss.States))
		for _, s := range ss.States {
			out = append(out, projState(s))
		}
		sort.Slice(out, func(i, j int) bool { return out[i].Name < out[j].Name })
		return normJSON(out)
	case "project_state":
		p := *v.(*types.ProjectState)
		hasMem := p.MemoryState != nil
		p.UpTime, p.StartTime, p.MemoryState = 0, time.Time{}, nil
		return normJSON(map[string]interface{}{"p": p, "mem": hasMem})
	case "logs":
		l := v.([]string)
		if l == nil {
			l = []string{}
		}
		return normJSON(l)
	default: // config, ports, host, project
		return normJSON(v)
	}
}

func zeroCanon(kind string) string {
	switch kind {
	case "state":
		return canon(kind, &types.ProcessState{})
	case "states":
		return canon(kind, &types.ProcessesState{})
	case "project_state":
		return canon(kind, &types.ProjectState{})
	case "config":
		return canon(kind, &types.ProcessConfig{})
	case "ports":
		return canon(kind, &types.ProcessPorts{})
	}
	return "null"
}

// decodeCanon decodes an HTTP body the way a client of that type would and returns the projection
func decodeCanon(kind string, body []byte) (string, bool) {
	dec := json.NewDecoder(bytes.NewReader(body))
	switch kind {
	case "state":
		var v types.ProcessState
		if dec.Decode(&v) != nil {
			return "", false
		}
		return canon(kind, &v), true
	case "states":
		var v types.ProcessesState
		if dec.Decode(&v) != nil {
			return "", false
		}
		return canon(kind, &v), true
	case "project_state":
		var v types.ProjectState
		if dec.Decode(&v) != nil {
			return "", false
		}
		return canon(kind, &v), true
	case "config":
		var v types.ProcessConfig
		if dec.Decode(&v) != nil {
			return "", false
		}
		return canon(kind, &v), true
	case "ports":
		var v types.ProcessPorts
		if dec.Decode(&v) != nil {
			return "", false
		}
		return canon(kind, &v), true
	}
	return "", false
}

var valKind = map[string]string{"state": "state", "states": "states", "info": "config", "ports": "ports",
	"project_state": "project_state", "logs": "logs", "hostname": "host"}

// ---- body of a response, in the shape of the Coq type body ----
type Body struct {
	K   string     `json:"k"` // err name val logs host map proc alive stopped upgraded other
	S   string     `json:"s,omitempty"`
	Map [][]string `json:"map,omitempty"`
}

func classifyBody(op string, status int, raw []byte) Body {
	if status == 101 {
		return Body{K: "upgraded"}
	}
	var g interface{}
	dec := json.NewDecoder(bytes.NewReader(raw))
	if err := dec.Decode(&g); err != nil {
		return Body{K: "other"}
	}
	if _, err := dec.Token(); err != io.EOF {
		return Body{K: "other"}
	}
	obj, isObj := g.(map[string]interface{})
	if isObj && len(obj) == 1 && status != 200 && status != 207 {
		if e, ok := obj["error"].(string); ok {
			return Body{K: "err", S: e}
		}
	}
	if status == 200 || status == 207 {
		switch op {
		case "live":
			if isObj && len(obj) == 1 && obj["status"] == "alive" {
				return Body{K: "alive"}
			}
		case "shutdown":
			if isObj && len(obj) == 1 && obj["status"] == "stopped" {
				return Body{K: "stopped"}
			}
		case "hostname":
			if isObj && len(obj) == 1 {
				if n, ok := obj["name"].(string); ok {
					return Body{K: "host", S: canon("host", n)}
				}
			}
		case "logs":
			if isObj && len(obj) == 1 {
				if l, ok := obj["logs"]; ok {
					ls := []string{}
					good := true
					if arr, ok := l.([]interface{}); ok {
						for _, x := range arr {
							s, ok := x.(string)
							good = good && ok
							ls = append(ls, s)
						}
					} else if l != nil {
						good = false
					}
					if good {
						return Body{K: "logs", S: canon("logs", ls)}
					}
				}
			}
		case "state", "states", "info", "ports", "project_state":
			if c, ok := decodeCanon(valKind[op], raw); ok && (isObj) {
				return Body{K: "val", S: c}
			}
		case "stop", "start", "restart", "scale":
			if isObj && len(obj) == 1 {
				if n, ok := obj["name"].(string); ok {
					return Body{K: "name", S: n}
				}
			}
		case "update_process":
			var pc types.ProcessConfig
			if isObj && json.Unmarshal(raw, &pc) == nil {
				return Body{K: "proc"}
			}
		case "stop_many", "update_project", "reload":
			if isObj {
				m := map[string]string{}
				good := true
				for k, v := range obj {
					s, ok := v.(string)
					good = good && ok
					m[k] = s
				}
				if good {
					return Body{K: "map", Map: sortedPairs(m)}
				}
			}
		}
	}
	return Body{K: "other"}
}

// ---- client result, in the shape of the Coq type cres ----
type CRes struct {
	K      string     `json:"k"` // err status ok val map zero decodefail panic
	S      string     `json:"s,omitempty"`
	Status int        `json:"status,omitempty"`
	Map    [][]string `json:"map,omitempty"`
}

var reStatus = regexp.MustCompile(`unexpected status(?: code:)? (\d+)`)

func classifyClientErr(err error) CRes {
	var se *json.SyntaxError
	var te *json.UnmarshalTypeError
	if errors.As(err, &se) || errors.As(err, &te) || errors.Is(err, io.EOF) || errors.Is(err, io.ErrUnexpectedEOF) {
		return CRes{K: "decodefail", S: err.Error()}
	}
	if m := reStatus.FindStringSubmatch(err.Error()); m != nil {
		n, _ := strconv.Atoi(m[1])
		return CRes{K: "status", Status: n}
	}
	return CRes{K: "err", S: err.Error()}
}

// ---- interning ----
type interner struct{ m map[string]uint64 }

func (t *interner) id(space, s string) uint64 {
	k := space + "\x00" + s
	if v, ok := t.m[k]; ok {
		return v
	}
	v := uint64(len(t.m) + 2)
	t.m[k] = v
	return v
}

// ---- numeric parameter classes ----
var reInt = regexp.MustCompile(`^[+-]?[0-9]+$`)

func numParamCoq(s string, present bool) string {
	if !present || s == "" {
		return "PEmpty"
	}
	if reInt.MatchString(s) {
		z, _ := new(big.Int).SetString(strings.TrimPrefix(s, "+"), 10)
		if z.Sign() < 0 {
			return "(PInt (" + z.String() + ")%Z)"
		}
		return "(PInt " + z.String() + "%Z)"
	}
	return "PJunk"
}

func strCoq(s string) string { return coqfmt.Bytes(s) }

func pairsCoq(t *interner, ps [][]string) string {
	items := make([]string, len(ps))
	for i, p := range ps {
		items[i] = coqfmt.Pair(strCoq(p[0]), coqfmt.N(t.id("status", p[1])))
	}
	return coqfmt.List(items)
}

func errID(t *interner, text string, parseText *string) uint64 {
	if parseText != nil && text == *parseText {
		return 0
	}
	if text == "" {
		return 1
	}
	return t.id("err", text)
}

func resCoq(t *interner, r *Res, parseText *string) string {
	switch r.K {
	case "err":
		return "(RErr " + coqfmt.N(errID(t, r.Err, parseText)) + ")"
	case "ok":
		return "ROk"
	case "val":
		return "(RVal " + coqfmt.N(t.id("val", r.Val)) + ")"
	default:
		e := "None"
		if r.HasErr {
			e = coqfmt.Some(coqfmt.N(errID(t, r.Err, parseText)))
		}
		return "(RMap " + pairsCoq(t, r.Map) + " " + e + ")"
	}
}

func bodyCoq(t *interner, b *Body, parseText *string) string {
	switch b.K {
	case "err":
		return "(BErr " + coqfmt.N(errID(t, b.S, parseText)) + ")"
	case "name":
		return "(BName " + strCoq(b.S) + ")"
	case "val":
		return "(BVal " + coqfmt.N(t.id("val", b.S)) + ")"
	case "logs":
		return "(BLogs " + coqfmt.N(t.id("val", b.S)) + ")"
	case "host":
		return "(BHost " + coqfmt.N(t.id("val", b.S)) + ")"
	case "map":
		return "(BMap " + pairsCoq(t, b.Map) + ")"
	case "proc":
		return "BProc"
	case "alive":
		return "BAlive"
	case "stopped":
		return "BStopped"
	case "upgraded":
		return "BUpgraded"
	}
	return "BOther"
}

func cresCoq(t *interner, c *CRes, parseText *string) string {
	switch c.K {
	case "err":
		return "(CErr (CM " + coqfmt.N(errID(t, c.S, parseText)) + "))"
	case "status":
		return "(CErr (CStatus " + coqfmt.Nat(c.Status) + "))"
	case "ok":
		return "COk"
	case "val":
		return "(CVal " + coqfmt.N(t.id("val", c.S)) + ")"
	case "map":
		return "(CMap " + pairsCoq(t, c.Map) + " None)"
	case "zero":
		return "CZero"
	case "decodefail":
		return "CDecodeFail"
	}
	return "CPanic"
}

var opCoq = map[string]string{"live": "OLive", "hostname": "OHostname", "states": "OStates", "state": "OState",
	"info": "OInfo", "update_process": "OUpdateProcess", "ports": "OPorts", "logs": "OLogs", "stop": "OStop",
	"stop_many": "OStopMany", "start": "OStart", "restart": "ORestart", "shutdown": "OShutdown",
	"update_project": "OUpdateProject", "reload": "OReload", "project_state": "OProjectState", "scale": "OScale", "ws": "OWs"}

func callCoq(t *interner, c *CallRec) string {
	z := func(v int64) string { return coqfmt.Z(v) }
	switch c.M {
	case "hostname":
		return "KHostname"
	case "states":
		return "KStates"
	case "state":
		return "(KState " + strCoq(c.Name) + ")"
	case "info":
		return "(KInfo " + strCoq(c.Name) + ")"
	case "ports":
		return "(KPorts " + strCoq(c.Name) + ")"
	case "logs":
		return "(KLogs " + strCoq(c.Name) + " " + z(c.A) + " " + z(c.B) + ")"
	case "stop":
		return "(KStop " + strCoq(c.Name) + ")"
	case "start":
		return "(KStart " + strCoq(c.Name) + ")"
	case "restart":
		return "(KRestart " + strCoq(c.Name) + ")"
	case "scale":
		return "(KScale " + strCoq(c.Name) + " " + z(c.A) + ")"
	case "stop_many":
		items := make([]string, len(c.Ns))
		for i, n := range c.Ns {
			items[i] = strCoq(n)
		}
		return "(KStopMany " + coqfmt.List(items) + ")"
	case "update_process":
		return "(KUpdateProcess " + coqfmt.N(t.id("arg", c.Arg)) + ")"
	case "update_project":
		return "(KUpdateProject " + coqfmt.N(t.id("arg", c.Arg)) + ")"
	case "shutdown":
		return "KShutdown"
	case "reload":
		return "KReload"
	case "project_state":
		return "(KProjectState " + coqfmt.Bool(c.Mem) + ")"
	}
	return "KHostname (* unknown call " + c.M + " *)"
}

// classify a request body for a target type the way gin's ShouldBindJSON (json.Decoder.Decode) does;
// returns the jbody class, the decoded names (stop_many) and the canonical decoded struct
func classifyReqBody(op string, body *string) (class string, names []string, argCanon string) {
	zero := func() string {
		switch op {
		case "update_process":
			return canon("config", &types.ProcessConfig{})
		case "update_project":
			return canon("project", &types.Project{})
		}
		return ""
	}
	if body == nil || *body == "" {
		return "JNone", nil, zero()
	}
	raw := []byte(*body)
	classErr := func(err error) string {
		var se *json.SyntaxError
		if errors.As(err, &se) || errors.Is(err, io.EOF) || errors.Is(err, io.ErrUnexpectedEOF) {
			return "JMalformed"
		}
		return "JWrongType"
	}
	isNull := strings.HasPrefix(strings.TrimLeft(*body, " \t\r\n"), "null")
	okClass := "JVal"
	if isNull {
		okClass = "JNull"
	}
	switch op {
	case "stop_many":
		var ns []string
		if err := json.NewDecoder(bytes.NewReader(raw)).Decode(&ns); err != nil {
			return classErr(err), nil, ""
		}
		return okClass, ns, ""
	case "update_process":
		var pc types.ProcessConfig
		if err := json.NewDecoder(bytes.NewReader(raw)).Decode(&pc); err != nil {
			return classErr(err), nil, zero()
		}
		return okClass, nil, canon("config", &pc)
	case "update_project":
		var pr types.Project
		if err := json.NewDecoder(bytes.NewReader(raw)).Decode(&pr); err != nil {
			return classErr(err), nil, zero()
		}
		return okClass, nil, canon("project", &pr)
	}
	return "JVal", nil, ""
}

func fmtErr(format string, a ...interface{}) error { return fmt.Errorf(format, a...) }
