package main

// generators: fixed exhaustive grids + seeded random request sequences

import (
	"encoding/json"
	"math/rand"
	"strings"

	"github.com/f1bonacc1/process-compose/src/types"
)

var numTexts = []string{"0", "1", "-1", "5", "+7", "007", "-0", "2147483648", "9223372036854775807",
	"9223372036854775808", "-9223372036854775808", "-9223372036854775809", "99999999999999999999999",
	"", "abc", "1.5", "1e3", "0x10", "1_000", " 5", "5 ", "--5", "+", "-", "٣", "½", "NaN", "true", "null"}

var bodyTexts = []string{"", " ", "null", "[]", "{}", "[", "{", `{"processes":`, `"str"`, "123", "true", "[1,2]",
	`["nope"]`, `["alive2","nope"]`, `["nope","nope2"]`, `{"a":1}`, `["a",]`, `[null]`, `{"name":5}`,
	`{"replicas":"x"}`, `{"processes":[]}`, `{"log_length":1e999}`, "\xff\xfe", `["done0"] trailing`,
	strings.Repeat("[", 12000), `{"name":"alive1","replica_name":"nope"}`, `{"processes":{"alive1":5}}`,
	`{"environment":"x"}`, `{"vars":{"a":{"b":[1,2,{"c":null}]}}}`}

// destructive but well-formed project bodies: last
var projectBodiesLast = []string{`{"processes":{"x":null}}`, `{"processes":{"":{}}}`, `{"processes":null}`, "null", "{}"}

func valOps() []string {
	return []string{"hostname", "states", "state", "info", "ports", "logs", "project_state"}
}
func unitOps() []string { return []string{"update_process", "stop", "start", "restart", "scale", "shutdown"} }
func mapOps() []string  { return []string{"stop_many", "update_project", "reload"} }

func baseReq(op, via string) Req {
	r := Req{Op: op, Via: via}
	switch op {
	case "state", "info", "ports", "stop", "start", "restart":
		r.Name = "alive1"
	case "logs":
		r.Name, r.P1, r.P2 = "alive1", sp("3"), sp("2")
	case "scale":
		r.Name, r.P1 = "alive1", sp("2")
	case "stop_many":
		r.Body = sp(`["a","b"]`)
	case "update_process":
		b, _ := json.Marshal(sampleConfig("upd"))
		r.Body = sp(string(b))
	case "update_project":
		r.Body = sp(`{"processes":{}}`)
	case "project_state":
		r.Query = sp("false")
	}
	return r
}

func gridPlans() [][]Req {
	var plans [][]Req
	// A: every route x every result shape, through a scripted runner, by HTTP and by the client
	var a []Req
	for _, via := range []string{"http", "client"} {
		a = append(a, Req{Op: "live", Via: via})
		for _, op := range valOps() {
			for _, inj := range []*Res{{K: "err", Err: "injected failure of " + op}, {K: "val", Val: canon(valKind[op], sampleOf(op))}} {
				r := baseReq(op, via)
				r.Inject = inj
				a = append(a, r)
			}
		}
		for _, op := range unitOps() {
			for _, inj := range []*Res{{K: "err", Err: "injected failure of " + op}, {K: "ok"}} {
				r := baseReq(op, via)
				r.Inject = inj
				a = append(a, r)
			}
		}
		for _, op := range mapOps() {
			for _, inj := range []*Res{
				{K: "map", Map: [][]string{}},
				{K: "map", Map: [][]string{{"a", "ok"}, {"b", "ok"}}},
				{K: "map", Map: [][]string{}, HasErr: true, Err: "no such processes or not running: []"},
				{K: "map", Map: nil, HasErr: true, Err: "failed to load project"},
				{K: "map", Map: [][]string{{"a", "ok"}, {"b", "process b is not running"}}, HasErr: true, Err: "failed to stop some processes"},
				{K: "map", Map: [][]string{{"a", "error"}}, HasErr: true, Err: "everything failed"},
			} {
				r := baseReq(op, via)
				r.Inject = inj
				a = append(a, r)
			}
		}
	}
	plans = append(plans, a)
	// B: every numeric text at every numeric position (live runner; scale only on an unknown name so that
	// huge valid numbers do not create processes)
	var b []Req
	for _, t := range numTexts {
		b = append(b, Req{Op: "logs", Via: "http", Name: "alive1", P1: sp(t), P2: sp("1")})
		b = append(b, Req{Op: "logs", Via: "http", Name: "alive1", P1: sp("2"), P2: sp(t)})
		b = append(b, Req{Op: "logs", Via: "http", Name: "nope", P1: sp(t), P2: sp(t)})
		b = append(b, Req{Op: "scale", Via: "http", Name: "nope", P1: sp(t)})
		b = append(b, Req{Op: "ws", Via: "http", Name: "alive1", P1: sp(t), WS: false})
		b = append(b, Req{Op: "ws", Via: "http", Name: "alive1", P1: sp(t), WS: true})
	}
	for _, t := range []string{"-5", "0", "-9223372036854775808"} {
		b = append(b, Req{Op: "scale", Via: "http", Name: "alive1", P1: sp(t)})
		b = append(b, Req{Op: "scale", Via: "client", Name: "alive1", P1: sp(t)})
	}
	for _, q := range []string{"1", "t", "T", "TRUE", "true", "True", "0", "f", "false", "yes", "tRuE", "", "2", "true "} {
		b = append(b, Req{Op: "project_state", Via: "http", Query: sp(q)})
	}
	b = append(b, Req{Op: "project_state", Via: "http"})
	b = append(b, Req{Op: "ws", Via: "http", Name: "alive1", WS: true}) // no offset at all
	plans = append(plans, b)
	// C: every body text at every body route
	var c []Req
	for _, op := range []string{"stop_many", "update_process", "update_project"} {
		for _, t := range bodyTexts {
			r := Req{Op: op, Via: "http", Body: sp(t)}
			if t == "" {
				r.Body = nil
			}
			c = append(c, r)
		}
	}
	for _, t := range projectBodiesLast {
		c = append(c, Req{Op: "update_project", Via: "http", Body: sp(t)})
		c = append(c, Req{Op: "states", Via: "http"})
		c = append(c, Req{Op: "project_state", Via: "client"})
	}
	c = append(c, Req{Op: "reload", Via: "http"}, Req{Op: "states", Via: "client"})
	plans = append(plans, c)
	return plans
}

// ---- random sequences ----
type gen struct{ r *rand.Rand }

func newGen(r *rand.Rand) *gen { return &gen{r: r} }

var weirdNames = []string{"nope", "ALIVE1", "alive1 ", " ", "a/b", "x/", "%41live1", "..", ".", "näme2", "ws", "a?b#c",
	"a%2Fb", strings.Repeat("n", 300), "alive1\t", "日本", "a+b", "a&b=c", "~", ":name", "*", "", "rep", "rep-7", "alive1/../alive2"}

func clientSafe(n string) bool {
	if n == "" || strings.ContainsAny(n, "/?#%") || strings.TrimSpace(n) != n {
		return false
	}
	for _, c := range n {
		if c < 0x20 || c == 0x7f {
			return false
		}
	}
	return true
}

func (g *gen) pick(l []string) string { return l[g.r.Intn(len(l))] }

func (g *gen) name(w *World, via string) string {
	names, _ := w.runner.GetLexicographicProcessNames()
	for tries := 0; tries < 20; tries++ {
		var n string
		if len(names) > 0 && g.r.Intn(100) < 70 {
			n = g.pick(names)
		} else {
			n = g.pick(weirdNames)
		}
		if via == "http" || clientSafe(n) {
			return n
		}
	}
	return "nope"
}

func (g *gen) smallInt() string {
	switch g.r.Intn(6) {
	case 0:
		return g.pick(numTexts)
	default:
		return []string{"-2", "-1", "0", "1", "2", "3", "4", "5", "6", "10", "300", "301", "1000"}[g.r.Intn(13)]
	}
}

func (g *gen) projectBody(w *World) string {
	if g.r.Intn(100) < 35 {
		if g.r.Intn(8) == 0 {
			return g.pick(projectBodiesLast)
		}
		return g.pick(bodyTexts)
	}
	var pr types.Project
	b, _ := json.Marshal(w.runner.VerifProject())
	_ = json.Unmarshal(b, &pr)
	names := make([]string, 0, len(pr.Processes))
	for n := range pr.Processes {
		names = append(names, n)
	}
	if len(names) > 0 {
		switch g.r.Intn(4) {
		case 0: // remove one
			delete(pr.Processes, g.pick(names))
		case 1: // add one
			src := pr.Processes[g.pick(names)]
			nn := "added" + g.pick([]string{"1", "2", "3"})
			src.Name, src.ReplicaName, src.Replicas, src.ReplicaNum = nn, nn, 1, 0
			src.Command = g.pick([]string{"stay added", "exit 0", "exit 2"})
			src.Executable, src.Args = "", nil
			pr.Processes[nn] = src
		case 2: // change one
			n := g.pick(names)
			pc := pr.Processes[n]
			pc.Description = "changed " + g.pick([]string{"a", "b", "c"})
			pr.Processes[n] = pc
		}
	}
	out, _ := json.Marshal(&pr)
	return string(out)
}

func (g *gen) processBody(w *World) string {
	if g.r.Intn(100) < 45 {
		return g.pick(bodyTexts)
	}
	pr := w.runner.VerifProject()
	names := make([]string, 0, len(pr.Processes))
	for n := range pr.Processes {
		names = append(names, n)
	}
	if len(names) == 0 {
		return `{"name":"nope","replica_name":"nope"}`
	}
	pc := pr.Processes[g.pick(names)]
	switch g.r.Intn(4) {
	case 0:
		pc.Description = "updated " + g.pick([]string{"x", "y"})
	case 1:
		pc.Command = g.pick([]string{"stay updated", "exit 0", "exit 4"})
		pc.Executable, pc.Args = "", nil
	case 2:
		pc.ReplicaName = "nope"
	}
	out, _ := json.Marshal(&pc)
	return string(out)
}

func (g *gen) next(w *World, i int) *Req {
	via := "http"
	if g.r.Intn(100) < 45 {
		via = "client"
	}
	k := g.r.Intn(100)
	r := Req{Via: via}
	switch {
	case k < 3:
		r.Op = "live"
	case k < 6:
		r.Op = "hostname"
	case k < 14:
		r.Op = "states"
	case k < 26:
		r.Op, r.Name = "state", g.name(w, via)
	case k < 34:
		r.Op, r.Name = "info", g.name(w, via)
	case k < 39:
		r.Op, r.Name = "ports", g.name(w, via)
	case k < 51:
		r.Op, r.Name, r.P1, r.P2 = "logs", g.name(w, via), sp(g.smallInt()), sp(g.smallInt())
	case k < 59:
		r.Op, r.Name = "stop", g.name(w, via)
	case k < 66:
		r.Op, r.Name = "start", g.name(w, via)
	case k < 71:
		r.Op, r.Name = "restart", g.name(w, via)
	case k < 76:
		r.Op, r.Name = "scale", g.name(w, via)
		if _, exists := w.runner.VerifProject().Processes[r.Name]; exists {
			r.P1 = sp([]string{"-1", "0", "1", "2", "3", "4", "x", ""}[g.r.Intn(8)])
		} else {
			r.P1 = sp(g.smallInt())
		}
	case k < 81:
		r.Op = "stop_many"
		if g.r.Intn(3) == 0 {
			r.Body = sp(g.pick(bodyTexts))
		} else {
			n := g.r.Intn(4)
			ns := make([]string, 0, n)
			for j := 0; j < n; j++ {
				ns = append(ns, g.name(w, "http"))
			}
			b, _ := json.Marshal(ns)
			r.Body = sp(string(b))
		}
	case k < 85:
		r.Op, r.Body = "update_process", sp(g.processBody(w))
	case k < 88:
		r.Op, r.Body = "update_project", sp(g.projectBody(w))
	case k < 90:
		r.Op = "reload"
	case k < 94:
		r.Op = "project_state"
		if g.r.Intn(3) > 0 {
			r.Query = sp(g.pick([]string{"true", "false", "1", "T", "maybe", ""}))
		}
	default:
		r.Op, r.Via = "ws", "http"
		r.Name = g.name(w, "http")
		if g.r.Intn(4) == 0 {
			r.Name += "," + g.name(w, "http")
		}
		r.P1 = sp(g.smallInt())
		r.WS = g.r.Intn(10) < 7
		// several names without follow: the first finished stream closes the socket for all (not generated)
		if r.WS && (g.r.Intn(3) == 0 || strings.Contains(r.Name, ",")) {
			r.Follow, r.Extra = true, 1+g.r.Intn(4)
		}
	}
	if r.Body != nil && *r.Body == "" {
		r.Body = nil
	}
	if i >= 40 && g.r.Intn(60) == 0 {
		r = Req{Op: "shutdown", Via: via}
	}
	return &r
}
