package main

// world: one live app.ProjectRunner (loader-built project, fakecmd commands) behind the gin router of
// api.InitRoutes in an httptest server, a client.PcClient pointed at it, a recording IProject wrapper (spy)
// between the handlers and the runner and a recording middleware in front of the router.

import (
	"bufio"
	"encoding/json"
	"errors"
	"fmt"
	"net"
	"net/http"
	"net/http/httptest"
	"os"
	"path/filepath"
	"sort"
	"strings"
	"sync"
	"time"

	"github.com/f1bonacc1/process-compose/src/api"
	"github.com/f1bonacc1/process-compose/src/app"
	"github.com/f1bonacc1/process-compose/src/client"
	"github.com/f1bonacc1/process-compose/src/loader"
	"github.com/f1bonacc1/process-compose/src/pclog"
	"github.com/f1bonacc1/process-compose/src/types"
	"github.com/gin-gonic/gin"
	"pcverif/fakecmd"
)

const projectYAML = `version: "0.5"
log_length: 300
processes:
  alive1:
    command: "stay one"
  alive2:
    command: "stay two"
    description: "second long-running process"
    environment:
      - "K=a=b"
  done0:
    command: "exit 0"
  fail3:
    command: "exit 3"
  off1:
    command: "stay off"
    disabled: true
  rep:
    command: "stay rep"
    replicas: 2
  "sp ace":
    command: "stay space"
  "näme":
    command: "exit 0"
  "we?ird#1":
    command: "stay weird"
`

// ---- recorded IProject call ----
type CallRec struct {
	M    string   `json:"m"`              // method
	Name string   `json:"name,omitempty"` // name argument
	A    int64    `json:"a,omitempty"`
	B    int64    `json:"b,omitempty"`
	Mem  bool     `json:"mem,omitempty"`
	Ns   []string `json:"ns,omitempty"`
	Arg  string   `json:"arg,omitempty"` // canonical JSON of a struct argument (before the runner touches it)
}

// Res is a runner result in the shape of the Coq type rres
type Res struct {
	K   string     `json:"k"`             // err | ok | val | map
	Err string     `json:"err,omitempty"` // error text (k=err, or k=map with HasErr)
	Val string     `json:"val,omitempty"` // canonical JSON of the value (k=val)
	Map [][]string `json:"map,omitempty"` // sorted pairs
	HasErr bool    `json:"has_err,omitempty"`
}

type spy struct {
	inner  app.IProject
	mu     sync.Mutex
	calls  []CallRec
	ress   []Res
	inject *Res // when set: answer with this instead of calling the runner
}

func (s *spy) take() ([]CallRec, []Res) {
	s.mu.Lock()
	defer s.mu.Unlock()
	c, r := s.calls, s.ress
	s.calls, s.ress = nil, nil
	return c, r
}
func (s *spy) rec(c CallRec, r Res) {
	s.mu.Lock()
	s.calls = append(s.calls, c)
	s.ress = append(s.ress, r)
	s.mu.Unlock()
}
func (s *spy) inj() *Res {
	s.mu.Lock()
	defer s.mu.Unlock()
	return s.inject
}

func errRes(err error) Res { return Res{K: "err", Err: err.Error()} }
func unitRes(err error) Res {
	if err != nil {
		return errRes(err)
	}
	return Res{K: "ok"}
}
func valRes(kind string, v interface{}, err error) Res {
	if err != nil {
		return errRes(err)
	}
	return Res{K: "val", Val: canon(kind, v)}
}
func mapRes(m map[string]string, err error) Res {
	r := Res{K: "map", Map: sortedPairs(m)}
	if err != nil {
		r.HasErr, r.Err = true, err.Error()
	}
	return r
}
func sortedPairs(m map[string]string) [][]string {
	ks := make([]string, 0, len(m))
	for k := range m {
		ks = append(ks, k)
	}
	sort.Strings(ks)
	r := make([][]string, 0, len(ks))
	for _, k := range ks {
		r = append(r, []string{k, m[k]})
	}
	return r
}
func injErr(r *Res) error {
	if r.K == "err" || (r.K == "map" && r.HasErr) {
		return errors.New(r.Err)
	}
	return nil
}
func injMap(r *Res) map[string]string {
	if r.Map == nil && r.HasErr {
		return nil
	}
	m := map[string]string{}
	for _, p := range r.Map {
		m[p[0]] = p[1]
	}
	return m
}

// sample values returned by an injecting spy (their canonical JSON is what Res.Val holds)
func sampleState(tag string) *types.ProcessState {
	return &types.ProcessState{Name: "inj-" + tag, Namespace: "default", Status: "Running", Health: "-", Restarts: 2, ExitCode: 7, IsRunning: true}
}
func sampleConfig(tag string) *types.ProcessConfig {
	return &types.ProcessConfig{Name: "inj-" + tag, ReplicaName: "inj-" + tag, Command: "echo " + tag, Executable: "bash", Args: []string{"-c", "echo " + tag}, Replicas: 1, Description: "d"}
}

// sampleOf: the value an injecting spy returns for an operation
func sampleOf(op string) interface{} {
	switch op {
	case "hostname":
		return "inj-host"
	case "project_state":
		return &types.ProjectState{FileNames: []string{"inj.yaml"}, ProcessNum: 3, RunningProcessNum: 1, UserName: "u", HostName: "inj-host", Version: "v"}
	case "logs":
		return []string{"inj line 1", "inj \"line\" 2 <&>", ""}
	case "info":
		return sampleConfig("info")
	case "state":
		return sampleState("state")
	case "states":
		return &types.ProcessesState{States: []types.ProcessState{*sampleState("b"), *sampleState("a")}}
	case "ports":
		return &types.ProcessPorts{Name: "inj-ports", TcpPorts: []uint16{80, 65535}, UdpPorts: []uint16{}}
	}
	return nil
}

// ---- app.IProject ----
func (s *spy) ShutDownProject() error {
	if r := s.inj(); r != nil {
		s.rec(CallRec{M: "shutdown"}, *r)
		return injErr(r)
	}
	err := s.inner.ShutDownProject()
	s.rec(CallRec{M: "shutdown"}, unitRes(err))
	return err
}
func (s *spy) IsRemote() bool    { return s.inner.IsRemote() }
func (s *spy) ErrorForSecs() int { return s.inner.ErrorForSecs() }
func (s *spy) GetHostName() (string, error) {
	if r := s.inj(); r != nil {
		s.rec(CallRec{M: "hostname"}, *r)
		return sampleOf("hostname").(string), injErr(r)
	}
	v, err := s.inner.GetHostName()
	s.rec(CallRec{M: "hostname"}, valRes("host", v, err))
	return v, err
}
func (s *spy) GetProjectState(checkMem bool) (*types.ProjectState, error) {
	c := CallRec{M: "project_state", Mem: checkMem}
	if r := s.inj(); r != nil {
		s.rec(c, *r)
		if e := injErr(r); e != nil {
			return nil, e
		}
		return sampleOf("project_state").(*types.ProjectState), nil
	}
	v, err := s.inner.GetProjectState(checkMem)
	s.rec(c, valRes("project_state", v, err))
	return v, err
}
func (s *spy) GetLogLength() int { return s.inner.GetLogLength() }
func (s *spy) GetLogsAndSubscribe(name string, observer pclog.LogObserver) error {
	return s.inner.GetLogsAndSubscribe(name, observer)
}
func (s *spy) UnSubscribeLogger(name string, observer pclog.LogObserver) error {
	return s.inner.UnSubscribeLogger(name, observer)
}
func (s *spy) GetProcessLog(name string, offsetFromEnd, limit int) ([]string, error) {
	c := CallRec{M: "logs", Name: name, A: int64(offsetFromEnd), B: int64(limit)}
	if r := s.inj(); r != nil {
		s.rec(c, *r)
		if e := injErr(r); e != nil {
			return nil, e
		}
		return sampleOf("logs").([]string), nil
	}
	v, err := s.inner.GetProcessLog(name, offsetFromEnd, limit)
	s.rec(c, valRes("logs", v, err))
	return v, err
}
func (s *spy) GetLexicographicProcessNames() ([]string, error) {
	return s.inner.GetLexicographicProcessNames()
}
func (s *spy) GetProcessInfo(name string) (*types.ProcessConfig, error) {
	c := CallRec{M: "info", Name: name}
	if r := s.inj(); r != nil {
		s.rec(c, *r)
		if e := injErr(r); e != nil {
			return nil, e
		}
		return sampleOf("info").(*types.ProcessConfig), nil
	}
	v, err := s.inner.GetProcessInfo(name)
	s.rec(c, valRes("config", v, err))
	return v, err
}
func (s *spy) GetProcessState(name string) (*types.ProcessState, error) {
	c := CallRec{M: "state", Name: name}
	if r := s.inj(); r != nil {
		s.rec(c, *r)
		if e := injErr(r); e != nil {
			return nil, e
		}
		return sampleOf("state").(*types.ProcessState), nil
	}
	v, err := s.inner.GetProcessState(name)
	s.rec(c, valRes("state", v, err))
	return v, err
}
func (s *spy) GetProcessesState() (*types.ProcessesState, error) {
	c := CallRec{M: "states"}
	if r := s.inj(); r != nil {
		s.rec(c, *r)
		if e := injErr(r); e != nil {
			return nil, e
		}
		return sampleOf("states").(*types.ProcessesState), nil
	}
	v, err := s.inner.GetProcessesState()
	s.rec(c, valRes("states", v, err))
	return v, err
}
func (s *spy) unit(c CallRec, f func() error) error {
	if r := s.inj(); r != nil {
		s.rec(c, *r)
		return injErr(r)
	}
	err := f()
	s.rec(c, unitRes(err))
	return err
}
func (s *spy) StopProcess(name string) error {
	return s.unit(CallRec{M: "stop", Name: name}, func() error { return s.inner.StopProcess(name) })
}
func (s *spy) StartProcess(name string) error {
	return s.unit(CallRec{M: "start", Name: name}, func() error { return s.inner.StartProcess(name) })
}
func (s *spy) RestartProcess(name string) error {
	return s.unit(CallRec{M: "restart", Name: name}, func() error { return s.inner.RestartProcess(name) })
}
func (s *spy) ScaleProcess(name string, scale int) error {
	return s.unit(CallRec{M: "scale", Name: name, A: int64(scale)}, func() error { return s.inner.ScaleProcess(name, scale) })
}
func (s *spy) StopProcesses(names []string) (map[string]string, error) {
	c := CallRec{M: "stop_many", Ns: append([]string{}, names...)}
	if r := s.inj(); r != nil {
		s.rec(c, *r)
		return injMap(r), injErr(r)
	}
	m, err := s.inner.StopProcesses(names)
	s.rec(c, mapRes(m, err))
	return m, err
}
func (s *spy) GetProcessPorts(name string) (*types.ProcessPorts, error) {
	c := CallRec{M: "ports", Name: name}
	if r := s.inj(); r != nil {
		s.rec(c, *r)
		if e := injErr(r); e != nil {
			return nil, e
		}
		return sampleOf("ports").(*types.ProcessPorts), nil
	}
	v, err := s.inner.GetProcessPorts(name)
	s.rec(c, valRes("ports", v, err))
	return v, err
}
func (s *spy) SetProcessPassword(name string, password string) error {
	return s.inner.SetProcessPassword(name, password)
}
func (s *spy) UpdateProject(project *types.Project) (map[string]string, error) {
	c := CallRec{M: "update_project", Arg: canon("project", project)}
	if r := s.inj(); r != nil {
		s.rec(c, *r)
		return injMap(r), injErr(r)
	}
	m, err := s.inner.UpdateProject(project)
	s.rec(c, mapRes(m, err))
	return m, err
}
func (s *spy) UpdateProcess(updated *types.ProcessConfig) error {
	c := CallRec{M: "update_process", Arg: canon("config", updated)}
	return s.unit(c, func() error { return s.inner.UpdateProcess(updated) })
}
func (s *spy) ReloadProject() (map[string]string, error) {
	c := CallRec{M: "reload"}
	if r := s.inj(); r != nil {
		s.rec(c, *r)
		return injMap(r), injErr(r)
	}
	m, err := s.inner.ReloadProject()
	s.rec(c, mapRes(m, err))
	return m, err
}

// ---- recording middleware ----
type Exchange struct {
	Method string
	URI    string
	Status int
	Body   []byte
	Hijack bool
}
type recWriter struct {
	http.ResponseWriter
	status int
	body   []byte
	hij    bool
}

func (w *recWriter) WriteHeader(code int) {
	if w.status == 0 {
		w.status = code
	}
	w.ResponseWriter.WriteHeader(code)
}
func (w *recWriter) Write(b []byte) (int, error) {
	if w.status == 0 {
		w.status = 200
	}
	w.body = append(w.body, b...)
	return w.ResponseWriter.Write(b)
}
func (w *recWriter) Hijack() (net.Conn, *bufio.ReadWriter, error) {
	w.hij = true
	return w.ResponseWriter.(http.Hijacker).Hijack()
}
func (w *recWriter) Flush() {
	if f, ok := w.ResponseWriter.(http.Flusher); ok {
		f.Flush()
	}
}

type World struct {
	dir      string
	fac      *fakecmd.Factory
	runner   *app.ProjectRunner
	spy      *spy
	srv      *httptest.Server
	cl       *client.PcClient
	hc       *http.Client // no redirects
	host     string
	port     int
	mu       sync.Mutex
	exch     []Exchange
	runDone  chan struct{}
	runPanic string
}

func (w *World) takeExchanges() []Exchange {
	w.mu.Lock()
	defer w.mu.Unlock()
	e := w.exch
	w.exch = nil
	return e
}

func newWorld(base string, idx int) (*World, error) {
	w := &World{dir: filepath.Join(base, fmt.Sprintf("world%d", idx))}
	if err := os.MkdirAll(w.dir, 0o755); err != nil {
		return nil, err
	}
	fn := filepath.Join(w.dir, "process-compose.yaml")
	if err := os.WriteFile(fn, []byte(projectYAML), 0o644); err != nil {
		return nil, err
	}
	project, err := loader.Load(&loader.LoaderOptions{FileNames: []string{fn}, IsInternalLoader: true})
	if err != nil {
		return nil, fmt.Errorf("loader: %w", err)
	}
	f := fakecmd.NewFactory()
	f.OnStart = func(c *fakecmd.Cmd) {
		cmdline := strings.Join(c.Args, " ")
		go func() {
			for i := 0; i < 5; i++ {
				c.WriteOut([]byte(fmt.Sprintf("%s launch %d line %d\n", c.Name, c.Seq, i)))
			}
			if k := strings.Index(cmdline, "exit "); k >= 0 {
				code := 0
				fmt.Sscanf(cmdline[k+5:], "%d", &code)
				c.Exit(code)
			}
		}()
	}
	w.fac = f
	app.SetVerifHooks(&app.VerifHooks{
		Commander: f.New,
		Backoff:   func(p *app.Process, seconds int) (time.Duration, bool) { return time.Millisecond, true },
	})
	runner, err := app.NewProjectRunner((&app.ProjectOpts{}).WithProject(project).WithIsTuiOn(true))
	if err != nil {
		return nil, fmt.Errorf("runner: %w", err)
	}
	w.runner = runner
	w.runDone = make(chan struct{})
	go func() {
		defer func() {
			if r := recover(); r != nil {
				w.runPanic = fmt.Sprint(r)
			}
			close(w.runDone)
		}()
		_ = runner.Run()
	}()
	w.spy = &spy{inner: runner}
	gin.SetMode(gin.ReleaseMode)
	engine := api.InitRoutes(false, api.NewPcApi(w.spy))
	w.srv = httptest.NewServer(http.HandlerFunc(func(rw http.ResponseWriter, r *http.Request) {
		rec := &recWriter{ResponseWriter: rw}
		engine.ServeHTTP(rec, r)
		if r.Header.Get("X-Verif-Probe") != "" {
			return
		}
		st := rec.status
		if rec.hij {
			st = 101
		}
		w.mu.Lock()
		w.exch = append(w.exch, Exchange{Method: r.Method, URI: r.RequestURI, Status: st, Body: rec.body, Hijack: rec.hij})
		w.mu.Unlock()
	}))
	addr := w.srv.Listener.Addr().(*net.TCPAddr)
	w.host, w.port = "127.0.0.1", addr.Port
	w.cl = client.NewTcpClient(w.host, w.port, 50)
	w.hc = &http.Client{Timeout: 20 * time.Second,
		CheckRedirect: func(req *http.Request, via []*http.Request) error { return http.ErrUseLastResponse }}
	time.Sleep(5 * time.Millisecond)
	w.waitQuiet()
	return w, nil
}

func (w *World) close() {
	done := make(chan struct{})
	go func() {
		defer func() { _ = recover(); close(done) }()
		_ = w.runner.ShutDownProject()
	}()
	select {
	case <-done:
	case <-time.After(5 * time.Second):
	}
	w.srv.CloseClientConnections()
	go w.srv.Close()
	for _, c := range w.fac.All() {
		c.Exit(0)
	}
}

func (w *World) base() string { return fmt.Sprintf("http://%s:%d", w.host, w.port) }

// alive: GET /live answers 200 (not recorded)
func (w *World) alive() bool {
	req, _ := http.NewRequest("GET", w.base()+"/live", nil)
	req.Header.Set("X-Verif-Probe", "1")
	resp, err := w.hc.Do(req)
	if err != nil {
		return false
	}
	defer resp.Body.Close()
	return resp.StatusCode == 200
}

// snapshot: projected state of the whole runner (what a following read would show)
func (w *World) snapshot() string {
	var sb strings.Builder
	func() {
		defer func() {
			if r := recover(); r != nil {
				sb.WriteString(fmt.Sprint("snapshot panic: ", r))
			}
		}()
		names, _ := w.runner.GetLexicographicProcessNames()
		for _, n := range names {
			st, err := w.runner.GetProcessState(n)
			if err != nil {
				sb.WriteString(n + ":ERR " + err.Error() + ";")
				continue
			}
			sb.WriteString(canon("state", st) + ";")
		}
		launched := map[string]int{}
		alive := map[string]int{}
		for _, c := range w.fac.All() {
			if c.WasStarted() {
				launched[c.Name]++
			}
			if c.Alive() {
				alive[c.Name]++
			}
		}
		lj, _ := json.Marshal(launched)
		aj, _ := json.Marshal(alive)
		sb.Write(lj)
		sb.Write(aj)
		for _, n := range names {
			sb.WriteString(fmt.Sprintf("%d,", w.runner.GetProcessLogLength(n)))
		}
	}()
	return sb.String()
}

func (w *World) launches(name string) int {
	n := 0
	for _, c := range w.fac.ByName(name) {
		if c.WasStarted() {
			n++
		}
	}
	return n
}

// waitQuiet: the projected snapshot has not changed for several consecutive polls
func (w *World) waitQuiet() (string, bool) {
	deadline := time.Now().Add(4 * time.Second)
	last, stable := "", 0
	for time.Now().Before(deadline) {
		s := w.snapshot()
		if s == last {
			stable++
			if stable >= 6 {
				return s, true
			}
		} else {
			stable = 0
		}
		last = s
		time.Sleep(1500 * time.Microsecond)
	}
	return last, false
}
