// c18: correspondence harness for the log buffer (property C18).
// Generates operation sequences, runs them on pclog.ProcessLogBuffer, and writes
//
//	<out>/cases_C18.v   (Gallina: what was observed)       <out>/cases_C18.json (the same, for replays)
package main

import (
	"encoding/json"
	"flag"
	"fmt"
	"math"
	"math/rand"
	"os"
	"path/filepath"
	"runtime"
	"strings"
	"sync"
	"time"

	"github.com/f1bonacc1/process-compose/src/pclog"
	"pcverif/coqfmt"
)

type Op struct {
	K  string `json:"k"` // w, sub, subp, unsub, close, range
	X  uint64 `json:"x,omitempty"`
	ID uint64 `json:"id,omitempty"`
	A  int64  `json:"a,omitempty"` // tail / offset
	B  int64  `json:"b,omitempty"` // limit
}

type Case struct {
	Kind    string              `json:"kind"`
	Size    int                 `json:"size"`
	Ops     []Op                `json:"ops"`
	Outs    [][]uint64          `json:"outs"`
	OutOK   []bool              `json:"out_ok"`
	Lens    []int               `json:"lens"`
	Final   []uint64            `json:"final"`
	FinalOK bool                `json:"final_ok"`
	Streams map[string][]uint64 `json:"streams"`
	Panic   string              `json:"panic,omitempty"`
}

type observer struct {
	id    string
	tail  int
	lines []string
	mu    sync.Mutex
	onSet func() // called inside SetLines (hand-over window)
}

func (o *observer) WriteString(line string) (int, error) {
	o.mu.Lock()
	o.lines = append(o.lines, line)
	o.mu.Unlock()
	return len(line), nil
}
func (o *observer) SetLines(lines []string) {
	o.mu.Lock()
	o.lines = append(o.lines, lines...)
	o.mu.Unlock()
	if o.onSet != nil {
		o.onSet()
	}
}
func (o *observer) GetTailLength() int  { return o.tail }
func (o *observer) GetUniqueID() string { return o.id }

func lineOf(x uint64) string { return fmt.Sprintf("L%d", x) }
func idOf(s string) uint64 {
	var v uint64
	fmt.Sscanf(s, "L%d", &v)
	return v
}
func ids(ls []string) []uint64 {
	r := make([]uint64, len(ls))
	for i, l := range ls {
		r[i] = idOf(l)
	}
	return r
}

func safeRange(b *pclog.ProcessLogBuffer, off, lim int) (res []string, ok bool, msg string) {
	defer func() {
		if r := recover(); r != nil {
			ok = false
			msg = fmt.Sprint(r)
		}
	}()
	r := b.GetLogRange(off, lim)
	lastRaw = r // the very slice the buffer handed out (callers such as the REST handler keep using it)
	cp := make([]string, len(r))
	copy(cp, r)
	return cp, true, ""
}

var lastRaw []string

func runCase(c *Case) {
	b := pclog.NewLogBuffer(c.Size)
	obs := map[uint64]*observer{}
	get := func(id uint64, tail int) *observer {
		o, ok := obs[id]
		if !ok {
			o = &observer{id: fmt.Sprintf("obs-%d", id)}
			obs[id] = o
		}
		o.tail = tail
		return o
	}
	var held []heldWindow
	for _, op := range c.Ops {
		var out []uint64
		ok := true
		switch op.K {
		case "w":
			b.Write(lineOf(op.X))
		case "sub":
			// GetLogsAndSubscribe calls GetLogRange internally; a panic there is recorded
			func() {
				defer func() {
					if r := recover(); r != nil {
						c.Panic = fmt.Sprint(r)
						ok = false
					}
				}()
				b.GetLogsAndSubscribe(get(op.ID, int(op.A)))
			}()
		case "subw":
			// a writer becomes active exactly while the follower is handed its tail: with an atomic
			// hand-over the write waits and is then delivered to the follower; expanded to OSub; OWrite
			func() {
				defer func() {
					if r := recover(); r != nil {
						c.Panic = fmt.Sprint(r)
						ok = false
					}
				}()
				o := get(op.ID, int(op.A))
				done := make(chan struct{})
				o.onSet = func() {
					go func() { b.Write(lineOf(op.X)); close(done) }()
					select {
					case <-done:
					case <-time.After(30 * time.Millisecond):
					}
				}
				prev := b.GetLogLength()
				b.GetLogsAndSubscribe(o)
				o.onSet = nil
				select {
				case <-done:
				case <-time.After(2 * time.Second):
					buf := make([]byte, 1<<16)
					n := runtime.Stack(buf, true)
					c.Panic = "concurrent write never completed: " + string(buf[:n])
					ok = false
				}
				c.Outs = append(c.Outs, []uint64{})
				c.OutOK = append(c.OutOK, ok)
				c.Lens = append(c.Lens, prev)
			}()
		case "subp":
			b.Subscribe(get(op.ID, 0))
		case "unsub":
			b.UnSubscribe(get(op.ID, 0))
		case "close":
			b.Close()
		case "range":
			r, rok, msg := safeRange(b, int(op.A), int(op.B))
			ok = rok
			if !rok {
				c.Panic = msg
			}
			out = ids(r)
			// the caller keeps the window it was given (the REST handler serialises it after the lock is released):
			// it is looked at again when all later writes have happened
			if rok {
				held = append(held, heldWindow{idx: len(c.Outs), lines: lastRaw})
			}
		}
		if out == nil {
			out = []uint64{}
		}
		c.Outs = append(c.Outs, out)
		c.OutOK = append(c.OutOK, ok)
		c.Lens = append(c.Lens, b.GetLogLength())
		if !ok && op.K == "sub" {
			// the mutex is still held after a panic inside GetLogsAndSubscribe: stop this case here
			c.Ops = c.Ops[:len(c.Outs)]
			break
		}
	}
	for _, h := range held {
		if h.idx < len(c.Outs) {
			c.Outs[h.idx] = ids(h.lines) // what the holder of the window sees now
		}
	}
	if c.Panic != "" && len(c.Ops) > 0 && c.Ops[len(c.Ops)-1].K == "sub" && !c.OutOK[len(c.OutOK)-1] {
		c.FinalOK = false
		c.Final = []uint64{}
	} else {
		f, fok, _ := safeRange(b, math.MaxInt, 0)
		c.Final, c.FinalOK = ids(f), fok
	}
	c.Streams = map[string][]uint64{}
	for id, o := range obs {
		c.Streams[fmt.Sprint(id)] = ids(o.lines)
	}
}

var interesting = []int64{-2, -1, 0, 1, 2, 3, 5, 7, 8, 9, 10, 11, 50, 99, 100, 101, 150, 1000,
	math.MaxInt32, math.MaxInt64, math.MinInt64, math.MaxInt64 - 1, math.MinInt64 + 1, 1 << 62}

func pickInt(r *rand.Rand, n int) int64 {
	switch r.Intn(4) {
	case 0:
		return interesting[r.Intn(len(interesting))]
	case 1:
		return int64(r.Intn(n+4)) - 2
	default:
		return int64(r.Intn(2*n+6)) - 3
	}
}

func genRandom(r *rand.Rand, next *uint64, maxOps int) *Case {
	sizes := []int{0, 1, 2, 3, 5, 8, 20, 50, 120}
	c := &Case{Kind: "random", Size: sizes[r.Intn(len(sizes))]}
	n := 1 + r.Intn(maxOps)
	written := 0
	burst := 0
	for i := 0; i < n; i++ {
		k := r.Intn(100)
		if burst > 0 {
			k = 0
			burst--
		}
		switch {
		case k < 45:
			*next++
			c.Ops = append(c.Ops, Op{K: "w", X: *next})
			written++
			if r.Intn(25) == 0 {
				burst = 60 + r.Intn(120) // cross the size+100 trimming point
			}
		case k < 50:
			*next++
			c.Ops = append(c.Ops, Op{K: "subw", ID: uint64(10 + i), A: pickInt(r, written), X: *next})
			written++
		case k < 60:
			c.Ops = append(c.Ops, Op{K: "sub", ID: uint64(1 + r.Intn(4)), A: pickInt(r, written)})
		case k < 63:
			c.Ops = append(c.Ops, Op{K: "subp", ID: uint64(1 + r.Intn(4))})
		case k < 70:
			c.Ops = append(c.Ops, Op{K: "unsub", ID: uint64(1 + r.Intn(4))})
		case k < 72:
			c.Ops = append(c.Ops, Op{K: "close"})
		default:
			c.Ops = append(c.Ops, Op{K: "range", A: pickInt(r, written), B: pickInt(r, written)})
		}
	}
	return c
}

type heldWindow struct {
	idx   int
	lines []string
}

// a window is requested when the buffer is exactly full (size+slack lines), then the line that triggers the trim is
// written: the window the caller holds must not change under it
func genHold(size int, extra int, next *uint64) *Case {
	c := &Case{Kind: fmt.Sprintf("hold-size%d+%d", size, extra), Size: size}
	for i := 0; i < size+100; i++ {
		*next++
		c.Ops = append(c.Ops, Op{K: "w", X: *next})
	}
	for _, ol := range [][2]int64{{0, 0}, {0, 3}, {2, 2}, {int64(size), 0}, {int64(size + 100), 0}, {7, 5}} {
		c.Ops = append(c.Ops, Op{K: "range", A: ol[0], B: ol[1]})
	}
	for i := 0; i < extra; i++ {
		*next++
		c.Ops = append(c.Ops, Op{K: "w", X: *next})
	}
	return c
}

// every (offset, limit) in [-2, 11]^2 against a buffer of exactly n lines
func genGrid(n int, next *uint64) *Case {
	c := &Case{Kind: fmt.Sprintf("grid-len%d", n), Size: 20}
	for i := 0; i < n; i++ {
		*next++
		c.Ops = append(c.Ops, Op{K: "w", X: *next})
	}
	for off := int64(-2); off <= 11; off++ {
		for lim := int64(-2); lim <= 11; lim++ {
			c.Ops = append(c.Ops, Op{K: "range", A: off, B: lim})
		}
	}
	// a subscriber for every tail value as well
	for t := int64(-2); t <= 11; t++ {
		c.Ops = append(c.Ops, Op{K: "sub", ID: uint64(100 + t + 2), A: t})
	}
	*next++
	c.Ops = append(c.Ops, Op{K: "w", X: *next})
	return c
}

func opCoq(o Op) string {
	switch o.K {
	case "w":
		return "OWrite " + coqfmt.N(o.X)
	case "sub":
		return "OSub " + coqfmt.N(o.ID) + " " + coqfmt.Z(o.A)
	case "subw":
		return "OSub " + coqfmt.N(o.ID) + " " + coqfmt.Z(o.A) + "; OWrite " + coqfmt.N(o.X)
	case "subp":
		return "OSubPlain " + coqfmt.N(o.ID)
	case "unsub":
		return "OUnsub " + coqfmt.N(o.ID)
	case "close":
		return "OClose"
	default:
		return "ORange " + coqfmt.Z(o.A) + " " + coqfmt.Z(o.B)
	}
}

func caseCoq(c *Case) string {
	ops := make([]string, len(c.Ops))
	for i, o := range c.Ops {
		ops[i] = opCoq(o)
	}
	outs := make([]string, len(c.Outs))
	for i := range c.Outs {
		outs[i] = coqfmt.OptListN(c.Outs[i], c.OutOK[i])
	}
	var streams []string
	for id, l := range c.Streams {
		var v uint64
		fmt.Sscan(id, &v)
		streams = append(streams, coqfmt.Pair(coqfmt.N(v), coqfmt.ListN(l)))
	}
	return fmt.Sprintf("mkCase %s\n   %s\n   %s\n   %s\n   %s\n   %s",
		coqfmt.Nat(c.Size), coqfmt.List(ops), coqfmt.List(outs), coqfmt.ListNat(c.Lens),
		coqfmt.OptListN(c.Final, c.FinalOK), coqfmt.List(streams))
}

func main() {
	seed := flag.Int64("seed", 1, "PRNG seed")
	nrand := flag.Int("n", 300, "number of random cases")
	maxOps := flag.Int("maxops", 60, "max ops per random case")
	out := flag.String("out", ".", "output directory")
	replay := flag.String("replay", "", "re-run the cases of this JSON file instead of generating")
	corpus := flag.String("corpus", "", "directory with corpus cases (*.json) that run first")
	flag.Parse()

	var cases []*Case
	addFile := func(p string) {
		data, err := os.ReadFile(p)
		if err != nil {
			fmt.Fprintln(os.Stderr, err)
			os.Exit(2)
		}
		var cs []*Case
		if err := json.Unmarshal(data, &cs); err != nil {
			fmt.Fprintln(os.Stderr, p, err)
			os.Exit(2)
		}
		for _, c := range cs {
			cases = append(cases, &Case{Kind: c.Kind, Size: c.Size, Ops: c.Ops})
		}
	}
	if *replay != "" {
		addFile(*replay)
	} else {
		if *corpus != "" {
			files, _ := filepath.Glob(filepath.Join(*corpus, "*.json"))
			for _, f := range files {
				addFile(f)
			}
		}
		var next uint64
		for n := 0; n <= 8; n++ {
			cases = append(cases, genGrid(n, &next))
			cases = append(cases, genHold(5+n, 1+n%3, &next))
		}
		r := rand.New(rand.NewSource(*seed))
		for i := 0; i < *nrand; i++ {
			cases = append(cases, genRandom(r, &next, *maxOps))
		}
	}
	for _, c := range cases {
		runCase(c)
	}
	var sb strings.Builder
	sb.WriteString("From Coq Require Import List ZArith NArith.\nFrom PC.LogBuf Require Import Model Check.\nImport ListNotations.\n")
	sb.WriteString("Definition cases : list ocase := [\n")
	for i, c := range cases {
		if i > 0 {
			sb.WriteString(";\n")
		}
		sb.WriteString(caseCoq(c))
	}
	sb.WriteString("\n].\n")
	sb.WriteString("Definition r_bad_model := Eval vm_compute in bad_model cases.\nPrint r_bad_model.\n")
	sb.WriteString("Definition r_bad_monitor := Eval vm_compute in bad_monitor cases.\nPrint r_bad_monitor.\n")
	if err := os.WriteFile(filepath.Join(*out, "cases_C18.v"), []byte(sb.String()), 0o644); err != nil {
		panic(err)
	}
	js, _ := json.Marshal(cases)
	if err := os.WriteFile(filepath.Join(*out, "cases_C18.json"), js, 0o644); err != nil {
		panic(err)
	}
	// statistics for the evidence file
	stats := map[string]int{}
	nops := 0
	for _, c := range cases {
		for _, o := range c.Ops {
			stats["op_"+o.K]++
			nops++
		}
		if c.Panic != "" {
			stats["cases_with_panic"]++
		}
	}
	stats["cases"] = len(cases)
	stats["ops"] = nops
	sj, _ := json.Marshal(stats)
	fmt.Println(string(sj))
}
