// sup: controlled-scheduling harness for the supervisor core (properties C01-C05, C08, C09, C12).
// Generates scenarios (project + scripted command behaviour + API calls), runs each against the real
// app.ProjectRunner under the controlled scheduler, and writes the recorded event histories as Gallina
// (cases_SUP.v) and JSON (cases_SUP.json).
package main

import (
	"bytes"
	"encoding/json"
	"flag"
	"fmt"
	"math/rand"
	"os"
	"os/exec"
	"path/filepath"
	"sort"
	"strings"
	"sync"
	"time"

	"github.com/f1bonacc1/process-compose/src/app"
	"github.com/f1bonacc1/process-compose/src/command"
	"github.com/f1bonacc1/process-compose/src/health"
	"github.com/f1bonacc1/process-compose/src/types"
	"github.com/rs/zerolog"
	"pcverif/fakecmd"
	"pcverif/sched"
)

type DepSpec struct {
	Name string `json:"name"`
	Cond string `json:"cond"`
}

type ProcSpec struct {
	Name          string    `json:"name"`
	Deps          []DepSpec `json:"deps,omitempty"`
	Policy        string    `json:"policy,omitempty"`
	MaxRestarts   int       `json:"max_restarts,omitempty"`
	Backoff       int       `json:"backoff,omitempty"`
	ExitOnEnd     bool      `json:"exit_on_end,omitempty"`
	ExitOnSkipped bool      `json:"exit_on_skipped,omitempty"`
	ReadyProbe    bool      `json:"ready_probe,omitempty"`
	ReadyLine     bool      `json:"ready_line,omitempty"`
	BadDir        bool      `json:"bad_dir,omitempty"`
	StartFail     bool      `json:"start_fail,omitempty"`
	Disabled      bool      `json:"disabled,omitempty"`
	Codes         []int     `json:"codes,omitempty"`     // exit codes of successive launches (last repeats)
	Forever       bool      `json:"forever,omitempty"`   // never exits on its own
	OnSignal      string    `json:"on_signal,omitempty"` // die (default) | ignore | later
	Probes        []string  `json:"probes,omitempty"`    // scripted readiness results: ok | fail
	Lines         []string  `json:"lines,omitempty"`     // scripted output lines: READY | noise
}

type Call struct {
	Op   string `json:"op"` // run start stop restart shutdown
	Name string `json:"name,omitempty"`
}

type Scenario struct {
	ID           int        `json:"id"`
	Kind         string     `json:"kind"`
	Procs        []ProcSpec `json:"procs"`
	Ordered      bool       `json:"ordered,omitempty"`
	Calls        []Call     `json:"calls"`
	Choices      []string   `json:"choices,omitempty"` // recorded schedule (replay)
	Polite       bool       `json:"polite,omitempty"`  // scheduling that stays out of the known check-then-act windows
	Note2        string     `json:"note2,omitempty"`
	HoldRelaunch string     `json:"hold_relaunch,omitempty"` // a relaunched command (2nd launch on) of this process does not exit before every call has been issued
	HoldExit     string     `json:"hold_exit,omitempty"`     // this process's signalled command does not exit before a shutdown is in progress (slow to die)
	WaitUp       bool       `json:"wait_up,omitempty"`       // the first API call after run is only issued when no thread of the supervisor can move (the project is up)
	ParkState    bool       `json:"park_state,omitempty"`    // also park at the status-write trace point (inside the state mutex)
	Note         string     `json:"note,omitempty"`
	Seed         int64      `json:"seed"`
}

type Result struct {
	Scenario     Scenario       `json:"scenario"`
	Events       []sched.Event  `json:"events"`
	Choices      []string       `json:"choices"`
	Truncated    bool           `json:"truncated,omitempty"`
	Warnings     []string       `json:"warnings,omitempty"`
	EarlyBackoff []int          `json:"early_backoff,omitempty"` // back-off waits that ended "elapsed" while their timer was held (1 h)
	BlockedI     []int          `json:"blocked_insts"`
	BlockedT     []int          `json:"blocked_threads"`
	NameOf       map[int]string `json:"inst_names"`
	Crashed      string         `json:"crashed,omitempty"`
	Quiescent    bool           `json:"quiescent,omitempty"` // the scheduler found nothing enabled any more
	AliveAtEnd   []string       `json:"alive_at_end,omitempty"`
}

// ------------------------------------------------------------------------------------------ project

func condName(c string) string {
	switch c {
	case "completed":
		return types.ProcessConditionCompleted
	case "success":
		return types.ProcessConditionCompletedSuccessfully
	case "healthy":
		return types.ProcessConditionHealthy
	case "log_ready":
		return types.ProcessConditionLogReady
	default:
		return types.ProcessConditionStarted
	}
}

func buildProject(sc *Scenario) *types.Project {
	procs := types.Processes{}
	for _, ps := range sc.Procs {
		pc := types.ProcessConfig{
			Name: ps.Name, ReplicaName: ps.Name, Replicas: 1, ReplicaNum: 0,
			Command: "true", Executable: "sh", Args: []string{"-c", "true"},
			Namespace: "default", Disabled: ps.Disabled, LaunchTimeout: 5,
			RestartPolicy: types.RestartPolicyConfig{Restart: ps.Policy, MaxRestarts: ps.MaxRestarts,
				BackoffSeconds: ps.Backoff, ExitOnEnd: ps.ExitOnEnd, ExitOnSkipped: ps.ExitOnSkipped},
			DependsOn: types.DependsOnConfig{},
		}
		for _, d := range ps.Deps {
			pc.DependsOn[d.Name] = types.ProcessDependency{Condition: condName(d.Cond)}
		}
		if ps.ReadyProbe {
			pc.ReadinessProbe = &health.Probe{Exec: &health.ExecProbe{Command: "true"}, InitialDelay: 36000, PeriodSeconds: 36000}
		}
		if ps.ReadyLine {
			pc.ReadyLogLine = "READY"
		}
		if ps.BadDir {
			pc.WorkingDir = "/nonexistent-dir-for-verif"
		}
		procs[ps.Name] = pc
	}
	return &types.Project{Version: "0.5", Processes: procs, ShellConfig: command.DefaultShellConfig(), LogLength: 100}
}

// ---------------------------------------------------------------------------------------- execution

type runState struct {
	sc            *Scenario
	s             *sched.Sched
	runner        *app.ProjectRunner
	spec          map[string]*ProcSpec
	launchN       map[string]int // launches per name
	probeN        map[string]int
	lineN         map[string]int
	sigged        map[*fakecmd.Cmd]bool
	nextCall      int
	callsInFlight int
	choices       []string
	rng           *rand.Rand
	replay        []string
}

func (r *runState) cmdOfInst(inst int) *fakecmd.Cmd {
	p := r.s.InstProc[inst]
	var last *fakecmd.Cmd
	for _, c := range r.s.F.All() {
		if c.Proc == p {
			last = c
		}
	}
	return last
}

type action struct {
	key string
	w   int
	do  func()
}

func (r *runState) enabled() []action {
	var acts []action
	for _, p := range r.s.Parked() {
		p := p
		acts = append(acts, action{key: fmt.Sprintf("rel:%d", p.Th), w: 6, do: func() {
			timed := false
			if p.Label == "backoff_wait" {
				// hold the back-off only when a later call can cancel it
				hold := false
				name := r.s.InstName[p.Inst]
				for _, c := range r.sc.Calls[r.nextCall:] {
					if c.Op == "shutdown" || ((c.Op == "stop" || c.Op == "restart") && c.Name == name) {
						hold = true
					}
				}
				if r.sc.Polite {
					// polite: a back-off only elapses when no shutdown is in progress (otherwise it is held and
					// ends when the stop of that process cancels the run context)
					hold = r.s.ShutdownActive()
				}
				if r.sc.Polite && false {
					hold = false
				}
				if hold && !r.sc.Polite {
					hold = r.pick2("hold", "elapse") == 0
				}
				r.s.SetHold(p.Inst, hold)
				timed = !hold
			}
			if p.Label == "restart_checked" {
				timed = false
			}
			r.s.Release(p.Th, timed)
		}})
	}
	for _, c := range r.s.F.All() {
		c := c
		if !c.Alive() {
			continue
		}
		inst := r.s.InstOf(c.Proc)
		sp := r.spec[c.Name]
		canExit := !sp.Forever
		if r.sigged[c] && sp.OnSignal == "later" {
			canExit = true
		}
		if canExit && r.sc.HoldExit == c.Name && r.sigged[c] && !r.s.SnapshotTaken() {
			canExit = false // still dying when the shutdown starts
		}
		if canExit && r.sc.HoldRelaunch == c.Name && r.launchN[c.Name] >= 2 && r.nextCall < len(r.sc.Calls) {
			canExit = false // the re-run is still going when the later requests arrive
		}
		if canExit && r.sc.Kind == "stopstart" && r.sigged[c] && r.nextCall <= 2 {
			canExit = false // still dying when the start / restart request arrives
		}
		// a slow-dying stop target dies LAST: as long as any supervisor thread can still move, its exit waits (a
		// shutdown that does not wait for it is then seen to return while the command is alive)
		last := r.sc.HoldExit == c.Name && r.sigged[c]
		if canExit && last {
			for _, a := range acts {
				if strings.HasPrefix(a.key, "rel:") {
					canExit = false
				}
			}
		}
		if canExit {
			acts = append(acts, action{key: fmt.Sprintf("exit:%d", inst), w: 4, do: func() {
				code := 0
				if r.sigged[c] {
					code = -1
				} else if len(sp.Codes) > 0 {
					k := r.launchN[c.Name] - 1
					if k >= len(sp.Codes) {
						k = len(sp.Codes) - 1
					}
					if k < 0 {
						k = 0
					}
					code = sp.Codes[k]
				}
				r.s.Log("cmd_exit", inst, code)
				c.Exit(code)
			}})
		}
		if sp.ReadyProbe && r.probeN[c.Name] < len(sp.Probes) {
			acts = append(acts, action{key: fmt.Sprintf("probe:%d", inst), w: 3, do: func() {
				res := sp.Probes[r.probeN[c.Name]]
				r.probeN[c.Name]++
				proc := c.Proc
				ok := res == "ok"
				go func() {
					r.s.Point(nil, nil, "probe", []interface{}{inst, ok, false})
					proc.VerifReadinessResult(ok, false, "")
					r.s.Point(nil, nil, "probe_done", nil)
				}()
			}})
		}
		if r.lineN[c.Name] < len(sp.Lines) {
			acts = append(acts, action{key: fmt.Sprintf("line:%d", inst), w: 3, do: func() {
				l := sp.Lines[r.lineN[c.Name]]
				r.lineN[c.Name]++
				r.s.Log("out_line", inst, l == "READY" && sp.ReadyLine)
				c.WriteOut([]byte(l + "\n"))
			}})
		}
	}
	settled := true
	for _, a := range acts {
		if strings.HasPrefix(a.key, "rel:") {
			settled = false
		}
	}
	if r.nextCall < len(r.sc.Calls) && (!r.sc.WaitUp || settled || r.nextCall != 1) {
		acts = append(acts, action{key: fmt.Sprintf("call:%d", r.nextCall), w: 3, do: func() {
			c := r.sc.Calls[r.nextCall]
			id := r.nextCall
			r.nextCall++
			r.startCall(id, c)
		}})
	}
	return acts
}

// polite scheduling: stop executions and Run()'s spawn loop are atomic, API calls are sequential, and an
// instance that is committed to launching (or to relaunching) does so before anybody else moves.
func (r *runState) polite(acts []action) []action {
	parked := r.s.Parked()
	keep := func(pred func(p sched.ParkedInfo) bool) []action {
		var res []action
		for _, p := range parked {
			if pred(p) {
				for _, a := range acts {
					if a.key == fmt.Sprintf("rel:%d", p.Th) {
						res = append(res, a)
					}
				}
			}
		}
		return res
	}
	stage := r.s.ThreadStages()
	// 1. a thread inside a stop execution or inside Run()'s spawn loop runs to the end of it
	if res := keep(func(p sched.ParkedInfo) bool {
		return stage[p.Th] == "stop" || stage[p.Th] == "spawnloop"
	}); len(res) > 0 {
		return res
	}
	// 2. committed instances launch first
	if res := keep(func(p sched.ParkedInfo) bool {
		switch p.Label {
		case "started", "backoff_elapsed":
			return true
		case "backoff_wait":
			return !r.s.ShutdownActive()
		case "run_checked", "restart_decision":
			return r.s.LastArgTrue(p.Th) == (p.Label == "restart_decision")
		}
		return false
	}); len(res) > 0 {
		return res
	}
	// 3. API calls one after the other
	var res []action
	for _, a := range acts {
		if strings.HasPrefix(a.key, "call:") && r.s.CallsInFlight() > 0 {
			continue
		}
		res = append(res, a)
	}
	return res
}

func (r *runState) pick2(a, b string) int {
	if len(r.replay) > 0 {
		c := r.replay[0]
		r.replay = r.replay[1:]
		r.choices = append(r.choices, c)
		if c == a {
			return 0
		}
		return 1
	}
	k := r.rng.Intn(2)
	if k == 0 {
		r.choices = append(r.choices, a)
	} else {
		r.choices = append(r.choices, b)
	}
	return k
}

func errStr(err error) string {
	if err == nil {
		return "ok"
	}
	return "err"
}

func (r *runState) startCall(id int, c Call) {
	run := r.runner
	switch c.Op {
	case "run":
		r.s.GoNoPark(id, "run", "", func() string { return errStr(run.Run()) })
	case "start":
		r.s.Go(id, "start", c.Name, func() string { return errStr(run.StartProcess(c.Name)) })
	case "stop":
		r.s.Go(id, "stop", c.Name, func() string { return errStr(run.StopProcess(c.Name)) })
	case "restart":
		r.s.Go(id, "restart", c.Name, func() string { return errStr(run.RestartProcess(c.Name)) })
	case "shutdown":
		r.s.Go(id, "shutdown", "", func() string { return errStr(run.ShutDownProject()) })
	}
}

func runScenario(sc *Scenario, maxSteps int) *Result {
	s := sched.New()
	if sc.ParkState {
		s.ParkAlso("state_enter") // inside the state mutex, status written, health / exit-code side effects not yet
	}
	r := &runState{sc: sc, s: s, spec: map[string]*ProcSpec{}, launchN: map[string]int{}, probeN: map[string]int{},
		lineN: map[string]int{}, sigged: map[*fakecmd.Cmd]bool{}, rng: rand.New(rand.NewSource(sc.Seed)),
		replay: append([]string{}, sc.Choices...)}
	for i := range sc.Procs {
		r.spec[sc.Procs[i].Name] = &sc.Procs[i]
	}
	s.F.OnNew = func(c *fakecmd.Cmd) {
		if r.spec[c.Name].StartFail {
			c.StartErr = fmt.Errorf("scripted start failure")
		}
	}
	s.F.OnStart = func(c *fakecmd.Cmd) { r.launchN[c.Name]++ }
	s.F.OnStop = func(c *fakecmd.Cmd, sig int, parentOnly bool) {
		r.sigged[c] = true
		sp := r.spec[c.Name]
		if sp.OnSignal == "" || sp.OnSignal == "die" || sig == 9 {
			if c.Alive() {
				s.Log("cmd_exit", s.InstOf(c.Proc), -1)
				c.Exit(-1)
			}
		}
	}
	proj := buildProject(sc)
	opts := (&app.ProjectOpts{}).WithProject(proj).WithOrderedShutDown(sc.Ordered).WithIsTuiOn(true)
	runner, err := app.NewProjectRunner(opts)
	if err != nil {
		panic(err)
	}
	r.runner = runner
	res := &Result{Scenario: *sc}
	steps := 0
	for {
		if !s.WaitQuiescent() {
			res.Truncated = true
			break
		}
		acts := r.enabled()
		if sc.Polite {
			acts = r.polite(acts)
		}
		// "nothing enabled" decides the liveness clauses (a hang is reported from it): confirm it - a goroutine that has
		// logged its trace point but is only just entering the parked set must not be mistaken for a blocked one
		for confirm := 0; len(acts) == 0 && confirm < 3; confirm++ {
			time.Sleep(15 * time.Millisecond)
			if !s.WaitQuiescent() {
				break
			}
			acts = r.enabled()
			if sc.Polite {
				acts = r.polite(acts)
			}
		}
		if len(acts) == 0 {
			break
		}
		if steps >= maxSteps {
			res.Truncated = true
			break
		}
		steps++
		var a *action
		if len(r.replay) > 0 {
			want := r.replay[0]
			r.replay = r.replay[1:]
			for i := range acts {
				if acts[i].key == want {
					a = &acts[i]
				}
			}
			if a == nil {
				// the recorded schedule no longer fits (the code changed): continue with seeded random choices
				res.Warnings = append(res.Warnings, "replay choice not enabled: "+want+" (continuing randomly)")
				r.replay = nil
			}
		}
		if a == nil {
			tot := 0
			for _, x := range acts {
				tot += x.w
			}
			k := r.rng.Intn(tot)
			for i := range acts {
				if k < acts[i].w {
					a = &acts[i]
					break
				}
				k -= acts[i].w
			}
		}
		r.choices = append(r.choices, a.key)
		a.do()
	}
	// what is still unfinished at quiescence
	res.Events = s.Snapshot()
	if !res.Truncated {
		spawned, gone := map[int]bool{}, map[int]bool{}
		begun, returned := map[int]bool{}, map[int]bool{}
		for _, e := range res.Events {
			switch e.Label {
			case "spawn":
				spawned[e.Inst] = true
			case "inst_gone":
				gone[e.Inst] = true
			case "api_begin", "api_begin_np":
				begun[argInt(e.Args[0])] = true
			case "api_return":
				returned[argInt(e.Args[0])] = true
			}
		}
		for i := range spawned {
			if !gone[i] {
				res.BlockedI = append(res.BlockedI, i)
			}
		}
		for c := range begun {
			if !returned[c] {
				res.BlockedT = append(res.BlockedT, c)
			}
		}
		sort.Ints(res.BlockedI)
		sort.Ints(res.BlockedT)
		for _, c := range s.F.All() {
			if c.Alive() {
				res.AliveAtEnd = append(res.AliveAtEnd, c.Name)
			}
		}
		res.Quiescent = true
	}
	res.Choices = r.choices
	res.Warnings = append(res.Warnings, s.Warnings...)
	res.EarlyBackoff = append(res.EarlyBackoff, s.EarlyBackoff...)
	res.NameOf = map[int]string{}
	for i, n := range s.InstName {
		res.NameOf[i] = n
	}
	// teardown: let everything run free and end every command
	s.ReleaseAll()
	for _, c := range s.F.All() {
		c.Exit(-9)
	}
	return res
}

// ---------------------------------------------------------------------------------------- generators

var politePct = 60

var conds = []string{"completed", "success", "healthy", "log_ready", "started"}
var policies = []string{"no", "always", "on_failure", "exit_on_failure", ""}

func genScenario(rng *rand.Rand, id int, kind string) *Scenario {
	sc := &Scenario{ID: id, Kind: kind, Seed: rng.Int63()}
	n := 2 + rng.Intn(3)
	if kind == "single" {
		n = 1
	}
	for i := 0; i < n; i++ {
		ps := ProcSpec{Name: fmt.Sprintf("p%d", i)}
		// dependencies only on earlier processes (acyclic)
		for j := 0; j < i; j++ {
			if rng.Intn(100) < 55 {
				ps.Deps = append(ps.Deps, DepSpec{Name: fmt.Sprintf("p%d", j), Cond: conds[rng.Intn(len(conds))]})
			}
		}
		ps.Policy = policies[rng.Intn(len(policies))]
		if rng.Intn(3) == 0 {
			ps.MaxRestarts = 1 + rng.Intn(2)
		}
		ps.Backoff = rng.Intn(3)
		nc := 1 + rng.Intn(3)
		for k := 0; k < nc; k++ {
			ps.Codes = append(ps.Codes, []int{0, 0, 1, 2, 42, -1, -1}[rng.Intn(7)]) // -1: the command died by a signal
		}
		ps.Forever = rng.Intn(4) == 0
		if (ps.Policy == "always" || ps.Policy == "on_failure") && ps.MaxRestarts == 0 && rng.Intn(5) != 0 {
			ps.MaxRestarts = 1 + rng.Intn(2)
		}
		switch rng.Intn(6) {
		case 0:
			ps.OnSignal = "later"
		}
		ps.ExitOnEnd = rng.Intn(12) == 0
		ps.ExitOnSkipped = rng.Intn(8) == 0
		ps.BadDir = rng.Intn(14) == 0
		ps.StartFail = rng.Intn(14) == 0
		ps.Disabled = kind == "api" && rng.Intn(7) == 0 // only started through the API
		sc.Procs = append(sc.Procs, ps)
	}
	// make probe / ready-line settings consistent with the conditions used on a process
	for i := range sc.Procs {
		for _, d := range sc.Procs[i].Deps {
			for j := range sc.Procs {
				if sc.Procs[j].Name == d.Name {
					if d.Cond == "healthy" {
						sc.Procs[j].ReadyProbe = true
					}
					if d.Cond == "log_ready" {
						sc.Procs[j].ReadyLine = true
					}
				}
			}
		}
	}
	for j := range sc.Procs {
		ps := &sc.Procs[j]
		if ps.ReadyProbe {
			ps.Probes = [][]string{{"ok"}, {"fail", "ok"}, {"fail"}, {}}[rng.Intn(4)]
		}
		if ps.ReadyLine {
			ps.Lines = [][]string{{"READY"}, {"noise", "READY"}, {"noise"}, {}}[rng.Intn(4)]
		}
	}
	if kind == "trigger" {
		// the project ends itself: the first process to finish carries an exit_on_* setting (half of the time it
		// ends successfully under exit_on_end), the others run until the triggered shutdown terminates them and
		// carry exit_on_* settings themselves, so their termination codes compete for the project exit code
		for i := range sc.Procs {
			ps := &sc.Procs[i]
			ps.Deps, ps.BadDir, ps.StartFail, ps.Disabled, ps.ExitOnSkipped = nil, false, false, false, false
			if i == 0 {
				ps.Forever, ps.MaxRestarts = false, 0
				if rng.Intn(2) == 0 {
					ps.Policy, ps.ExitOnEnd, ps.Codes = "no", true, []int{0}
				} else {
					ps.Policy, ps.ExitOnEnd, ps.Codes = "exit_on_failure", false, []int{3}
				}
				continue
			}
			ps.Forever = true
			switch rng.Intn(4) {
			case 0, 1:
				ps.Policy = "exit_on_failure"
			case 2:
				ps.ExitOnEnd = true
			}
		}
	}
	if kind == "stopstart" {
		for i := range sc.Procs {
			ps := &sc.Procs[i]
			ps.Deps, ps.BadDir, ps.StartFail, ps.Disabled, ps.ExitOnSkipped, ps.ExitOnEnd = nil, false, false, false, false, false
			ps.ReadyProbe, ps.ReadyLine, ps.Probes, ps.Lines = false, false, nil, nil
			ps.Forever = true
			ps.OnSignal = "later"
			if ps.Policy == "exit_on_failure" {
				ps.Policy = "no"
			}
		}
	}
	sc.Ordered = rng.Intn(3) == 0
	if kind == "ordered" {
		// ordered shutdown over a dependency graph in which everything is up and many commands are slow to die:
		// a dependent that was asked to stop shortly before the shutdown is still alive when its turn comes
		sc.Ordered = rng.Intn(3) > 0 // one third with the default, unordered shutdown: same situation, other code path
		sc.WaitUp = rng.Intn(3) > 0
		for i := range sc.Procs {
			ps := &sc.Procs[i]
			ps.Deps, ps.BadDir, ps.StartFail, ps.Disabled, ps.ExitOnSkipped, ps.ExitOnEnd = nil, false, false, false, false, false
			ps.ReadyProbe, ps.ReadyLine, ps.Probes, ps.Lines = false, false, nil, nil
			ps.Forever = true
			if rng.Intn(3) > 0 {
				ps.Policy = "no"
			}
			ps.OnSignal = ""
			if rng.Intn(5) < 3 {
				ps.OnSignal = "later"
			}
			for j := 0; j < i; j++ {
				if j == i-1 || rng.Intn(3) == 0 {
					ps.Deps = append(ps.Deps, DepSpec{Name: fmt.Sprintf("p%d", j), Cond: "started"})
				}
			}
		}
	}
	sc.Polite = rng.Intn(100) < politePct
	sc.ParkState = rng.Intn(3) == 0
	if kind == "skipchain" {
		// a chain under "completed successfully" whose head fails in one of the three ways (non-zero exit, start
		// error, skipped because ITS dependency failed): everything below must be skipped, at any depth
		sc.ParkState = rng.Intn(4) > 0
		for i := range sc.Procs {
			ps := &sc.Procs[i]
			ps.Deps, ps.BadDir, ps.StartFail, ps.Disabled, ps.Forever = nil, false, false, false, false
			ps.ReadyProbe, ps.ReadyLine, ps.Probes, ps.Lines = false, false, nil, nil
			if i == 0 {
				ps.Policy, ps.MaxRestarts = "no", 0
				switch rng.Intn(3) {
				case 0:
					ps.Codes = []int{1 + rng.Intn(3)}
				case 1:
					ps.StartFail = true
				case 2:
					ps.BadDir = true
				}
				continue
			}
			ps.Deps = []DepSpec{{Name: fmt.Sprintf("p%d", i-1), Cond: "success"}}
			if i > 1 && rng.Intn(3) == 0 {
				ps.Deps = append(ps.Deps, DepSpec{Name: "p0", Cond: []string{"completed", "success"}[rng.Intn(2)]})
			}
			ps.Codes = []int{0}
		}
		// a process that is SKIPPED (p1, whose dependency failed) must release every kind of waiter: the last process
		// waits for it under a random condition; with completed/started it runs, with the others it is skipped too
		if n := len(sc.Procs); n >= 3 && rng.Intn(2) == 0 {
			last := &sc.Procs[n-1]
			cond := conds[rng.Intn(len(conds))]
			last.Deps = []DepSpec{{Name: "p1", Cond: cond}}
			if cond == "healthy" {
				sc.Procs[1].ReadyProbe = true
			}
			if cond == "log_ready" {
				sc.Procs[1].ReadyLine = true
			}
		}
		// the leaf is only started later through the API, when the chain above it has already been skipped: its
		// lookups find the skipped dependency in the done registry
		if n := len(sc.Procs); n >= 3 && rng.Intn(3) == 0 {
			sc.Procs[n-1].Disabled = true
			sc.WaitUp = true
			sc.Note2 = "late-start"
			if rng.Intn(2) == 0 {
				sc.Procs[0].StartFail, sc.Procs[0].BadDir = false, false
				if len(sc.Procs[0].Codes) == 0 || sc.Procs[0].Codes[0] == 0 {
					sc.Procs[0].Codes = []int{3}
				}
				// the failed head is restarted through the API and is still running its second time when the leaf,
				// which waits for the head's SUCCESS, is started: the first run failed, the second has not ended
				sc.Note2 = "restart-head-late-start"
				sc.Procs[0].Codes = []int{sc.Procs[0].Codes[0], 0}
				sc.Procs[n-1].Deps = []DepSpec{{Name: "p0", Cond: "success"}}
				sc.HoldRelaunch = "p0"
			}
		}
	}
	sc.Calls = []Call{{Op: "run"}}
	nm := func() string { return sc.Procs[rng.Intn(len(sc.Procs))].Name }
	switch kind {
	case "stopstart":
		// a running process that is slow to die is asked to stop, and a start / restart of it arrives before its
		// command has exited
		k := rng.Intn(len(sc.Procs))
		sc.WaitUp = true
		sc.Calls = append(sc.Calls, Call{Op: "stop", Name: sc.Procs[k].Name})
		sc.Calls = append(sc.Calls, Call{Op: []string{"start", "start", "restart"}[rng.Intn(3)], Name: sc.Procs[k].Name})
		if rng.Intn(2) == 0 {
			sc.Calls = append(sc.Calls, Call{Op: "stop", Name: sc.Procs[k].Name})
		}
		sc.Calls = append(sc.Calls, Call{Op: "shutdown"})
	case "skipchain":
		// nothing lives for ever: Run() returns by itself (a disabled leaf is started when everything has settled)
		if sc.Note2 == "restart-head-late-start" {
			sc.Calls = append(sc.Calls, Call{Op: "restart", Name: "p0"})
		}
		if sc.Note2 == "late-start" || sc.Note2 == "restart-head-late-start" {
			sc.Calls = append(sc.Calls, Call{Op: "start", Name: sc.Procs[len(sc.Procs)-1].Name})
		}
	case "ordered":
		if rng.Intn(3) > 0 {
			// the process asked to stop just before the shutdown is a dependent and slow to die
			k := 1 + rng.Intn(len(sc.Procs)-1)
			sc.Procs[k].OnSignal = "later"
			op := []string{"stop", "stop", "restart"}[rng.Intn(3)]
			if sc.WaitUp && op == "stop" {
				sc.HoldExit = sc.Procs[k].Name
			}
			sc.Calls = append(sc.Calls, Call{Op: op, Name: sc.Procs[k].Name})
		}
		sc.Calls = append(sc.Calls, Call{Op: "shutdown"})
	case "trigger":
		// no request at all: Run() must return by itself
	case "api":
		k := 1 + rng.Intn(4)
		for i := 0; i < k; i++ {
			op := []string{"stop", "start", "restart"}[rng.Intn(3)]
			name := nm()
			if rng.Intn(10) == 0 {
				name = "nosuch"
			}
			sc.Calls = append(sc.Calls, Call{Op: op, Name: name})
		}
		sc.Calls = append(sc.Calls, Call{Op: "shutdown"})
	case "shutdown":
		sc.Calls = append(sc.Calls, Call{Op: "shutdown"})
	default:
		// anything that lives forever needs a final shutdown
		sc.Calls = append(sc.Calls, Call{Op: "shutdown"})
	}
	return sc
}

// ------------------------------------------------------------------------------------------- Gallina

func nameID(sc *Scenario, n string) int {
	for i, p := range sc.Procs {
		if p.Name == n {
			return i
		}
	}
	return 999 // unknown name
}

func coqN(v int) string { return fmt.Sprintf("%d%%N", v) }
func coqZ(v int) string {
	if v < 0 {
		return fmt.Sprintf("(%d)%%Z", v)
	}
	return fmt.Sprintf("%d%%Z", v)
}
func coqB(b bool) string {
	if b {
		return "true"
	}
	return "false"
}
func coqOptInst(v int) string {
	if v <= 0 {
		return "None"
	}
	return "(Some " + coqN(v) + ")"
}

var statusCoq = map[string]string{"Disabled": "SDisabled", "Foreground": "SForeground", "Pending": "SPending",
	"Running": "SRunning", "Launching": "SLaunching", "Launched": "SLaunched", "Restarting": "SRestarting",
	"Terminating": "STerminating", "Completed": "SCompleted", "Skipped": "SSkipped", "Error": "SError"}
var condCoq = map[string]string{"completed": "CCompleted", "success": "CSuccess", "healthy": "CHealthy",
	"log_ready": "CLogReady", "started": "CStarted"}
var polCoq = map[string]string{"no": "PNo", "": "PNo", "always": "PAlways", "on_failure": "POnFailure", "exit_on_failure": "PExitOnFailure"}

func argInt(a interface{}) int {
	switch v := a.(type) {
	case int:
		return v
	case int64:
		return int(v)
	case float64:
		return int(v)
	}
	return 0
}
func argBool(a interface{}) bool  { b, _ := a.(bool); return b }
func argStr(a interface{}) string { s, _ := a.(string); return s }

// project the TP log to the model's event vocabulary
func eventsCoq(res *Result) []string {
	sc := &res.Scenario
	var out []string
	inSD := map[int]bool{}
	for _, e := range res.Events {
		th := coqN(e.Th)
		ev := ""
		a := e.Args
		switch e.Label {
		case "spawn":
			ev = fmt.Sprintf("ESpawn %s %s", coqN(e.Inst), coqN(nameID(sc, res.NameOf[e.Inst])))
		case "new_inst":
			ev = fmt.Sprintf("ENewInst %s %s", coqN(e.Inst), coqN(nameID(sc, res.NameOf[e.Inst])))
		case "reg_add":
			ev = fmt.Sprintf("ERegAdd %s %s", coqN(e.Inst), coqN(nameID(sc, res.NameOf[e.Inst])))
		case "reg_del":
			ev = "ERegDel " + coqN(e.Inst)
		case "reg_get":
			ev = fmt.Sprintf("ERegGet %s %s", coqN(nameID(sc, argStr(a[0]))), coqOptInst(argInt(a[1])))
		case "done_add":
			ev = "EDoneAdd " + coqN(e.Inst)
		case "done_get":
			ev = fmt.Sprintf("EDoneGet %s %s", coqN(nameID(sc, argStr(a[0]))), coqOptInst(argInt(a[1])))
		case "inst_begin":
			ev = "EBegin " + coqN(e.Inst)
		case "dep_wait":
			ev = fmt.Sprintf("EDepWait %s %s", coqN(nameID(sc, argStr(a[1]))), coqOptInst(argInt(a[2])))
		case "dep_done":
			ev = fmt.Sprintf("EDepDone %s %s", coqN(nameID(sc, argStr(a[1]))), coqB(argBool(a[2])))
		case "skip":
			ev = "ESkip"
		case "run_checked":
			ev = "ERunChecked " + coqB(argBool(a[0]))
		case "started":
			ev = "EStarted"
		case "state":
			ev = fmt.Sprintf("EState %s %s", coqN(e.Inst), statusCoq[argStr(a[0])])
		case "launch":
			ev = "ELaunch " + coqB(argBool(a[0]))
		case "wait_return":
			ev = "EWaitReturn " + coqZ(argInt(a[0]))
		case "resume":
			ev = "EResume"
		case "exit_code":
			ev = "EExitCode " + coqZ(argInt(a[0]))
		case "lookup_mid":
			ev = "ELookupMid " + coqN(nameID(sc, argStr(a[0])))
		case "restart_decision":
			ev = "ERestartDecision " + coqB(argBool(a[0]))
		case "backoff_wait":
			ev = "EBackoffWait " + coqN(argInt(a[0]))
		case "backoff_elapsed":
			ev = "EBackoffElapsed"
		case "backoff_cancelled":
			ev = "EBackoffCancelled"
		case "proc_end":
			ev = fmt.Sprintf("EProcEnd %s %s", coqN(e.Inst), statusCoq[argStr(a[0])])
		case "proc_ended":
			ev = fmt.Sprintf("EProcEnded %s %s", coqN(e.Inst), statusCoq[argStr(a[0])])
		case "run_returned":
			ev = "ERunReturned " + coqZ(argInt(a[0]))
		case "inst_done":
			ev = "EInstDone"
		case "exit_trigger":
			ev = "EExitTrigger " + coqZ(argInt(a[1]))
		case "exit_code_set":
			ev = "EExitCodeSet " + coqZ(argInt(a[0]))
		case "inst_exit":
			ev = "EInstExit"
		case "wg_done":
			ev = "EWgDone"
		case "inst_gone":
			ev = "EInstGone"
		case "no_restart":
			if !inSD[e.Th] {
				ev = "ENoRestart " + coqN(e.Inst)
			}
		case "stop_enter":
			ev = fmt.Sprintf("EStopEnter %s %s", coqN(e.Inst), coqB(argBool(a[0])))
		case "stop_running":
			ev = "EStopRunning " + coqN(e.Inst)
		case "stop_pending":
			ev = "EStopPending " + coqN(e.Inst)
		case "signal":
			ev = fmt.Sprintf("ESignal %s %s %s", coqN(e.Inst), coqZ(argInt(a[0])), coqB(argBool(a[1])))
		case "stop_return":
			ev = "EStopReturn " + coqN(e.Inst)
		case "api_begin", "api_begin_np":
			op := argStr(a[1])
			n := coqN(nameID(sc, argStr(a[2])))
			switch op {
			case "run":
				ev = "EApiBegin OpRun"
			case "start":
				ev = "EApiBegin (OpStart " + n + ")"
			case "stop":
				ev = "EApiBegin (OpStop " + n + ")"
			case "restart":
				ev = "EApiBegin (OpRestart " + n + ")"
			case "shutdown":
				ev = "EApiBegin OpShutdown"
			}
		case "api_return":
			ev = "EApiReturn " + coqB(argStr(a[1]) == "ok")
		case "start_checked":
			ev = fmt.Sprintf("EStartChecked %s %s", coqN(nameID(sc, argStr(a[0]))), coqB(argBool(a[1])))
		case "stop_checked":
			ev = fmt.Sprintf("EStopChecked %s %s", coqN(nameID(sc, argStr(a[0]))), coqOptInst(argInt(a[1])))
		case "restart_checked":
			ev = fmt.Sprintf("ERestartChecked %s %s", coqN(nameID(sc, argStr(a[0]))), coqOptInst(argInt(a[1])))
		case "restart_stopped":
			ev = "ERestartStopped " + coqN(nameID(sc, argStr(a[0])))
		case "run_spawned":
			ev = "ERunSpawned"
		case "run_return":
			ev = "ERunReturn " + coqZ(argInt(a[0]))
		case "shutdown_call":
			ev = "EShutdownCall"
		case "shutdown_begin":
			ev = "EShutdownBegin"
		case "shutdown_order":
			var ids []string
			if l, ok := a[0].([]int); ok {
				for _, v := range l {
					ids = append(ids, coqN(v))
				}
			} else if l, ok := a[0].([]interface{}); ok {
				for _, v := range l {
					ids = append(ids, coqN(argInt(v)))
				}
			}
			ev = "EShutdownOrder [" + strings.Join(ids, "; ") + "]"
			inSD[e.Th] = true // prepareForShutDown of every process follows: folded into EShutdownOrder
		case "ordered_go":
			ev = "EOrderedGo " + coqN(e.Inst)
		case "shutdown_end":
			ev = "EShutdownEnd"
			inSD[e.Th] = false
		case "shutdown_unlocked":
			ev = "EShutdownUnlocked"
		case "cmd_exit":
			ev = fmt.Sprintf("ECmdExit %s %s", coqN(e.Inst), coqZ(argInt(a[0])))
		case "out_line":
			ev = fmt.Sprintf("EOutLine %s %s", coqN(e.Inst), coqB(argBool(a[0])))
		case "log_ready":
			ev = "ELogReady " + coqN(e.Inst)
		case "probe":
			ev = fmt.Sprintf("EProbe %s %s %s", coqN(argInt(a[0])), coqB(argBool(a[1])), coqB(argBool(a[2])))
		}
		if ev != "" {
			out = append(out, "("+th+", "+ev+")")
		}
	}
	return out
}

func confCoq(sc *Scenario) string {
	var items []string
	for i, p := range sc.Procs {
		var deps []string
		// dependency order is irrelevant to the model (the implementation iterates a Go map)
		for _, d := range p.Deps {
			deps = append(deps, fmt.Sprintf("(%s, %s)", coqN(nameID(sc, d.Name)), condCoq[d.Cond]))
		}
		items = append(items, fmt.Sprintf("(%s, mkConf [%s] %s %d %s %s %s %s %s %s %s %s)", coqN(i),
			strings.Join(deps, "; "), polCoq[p.Policy], p.MaxRestarts, coqN(p.Backoff), coqB(p.ExitOnEnd),
			coqB(p.ExitOnSkipped), coqB(p.ReadyProbe), coqB(p.ReadyLine), coqB(p.BadDir), coqB(p.StartFail), coqB(p.Disabled)))
	}
	return "[" + strings.Join(items, ";\n    ") + "]"
}

func main() {
	seed := flag.Int64("seed", 1, "PRNG seed")
	n := flag.Int("n", 40, "number of generated scenarios")
	out := flag.String("out", ".", "output directory")
	maxSteps := flag.Int("maxsteps", 600, "max scheduling steps per scenario")
	replay := flag.String("replay", "", "JSON file with scenarios (with choices) to re-run")
	one := flag.Bool("one", false, "worker mode: read ONE scenario (JSON) from stdin, print its Result (JSON)")
	par := flag.Int("par", 16, "parallel worker processes")
	corpus := flag.String("corpus", "", "directory of scenario files that run first")
	kinds := flag.String("kinds", "deps,single,api,shutdown", "scenario kinds to generate")
	flag.IntVar(&politePct, "polite", 60, "percentage of scenarios scheduled politely (outside the known windows)")
	project := flag.String("project", "", "JSON file with recorded results (a list, or a replay object with key histories): re-project them to cases_SUP.v without running anything")
	flag.Parse()
	if *project != "" {
		data, err := os.ReadFile(*project)
		if err != nil {
			fmt.Fprintln(os.Stderr, err)
			os.Exit(2)
		}
		var rs []*Result
		if json.Unmarshal(data, &rs) != nil {
			var obj struct {
				Histories []*Result `json:"histories"`
			}
			if err := json.Unmarshal(data, &obj); err != nil {
				fmt.Fprintln(os.Stderr, *project, err)
				os.Exit(2)
			}
			rs = obj.Histories
		}
		emit(rs, *out)
		return
	}
	zerolog.SetGlobalLevel(zerolog.Disabled)
	if *one {
		var sc Scenario
		if err := json.NewDecoder(os.Stdin).Decode(&sc); err != nil {
			fmt.Fprintln(os.Stderr, err)
			os.Exit(2)
		}
		res := runScenario(&sc, *maxSteps)
		js, _ := json.Marshal(res)
		os.Stdout.Write(js)
		os.Exit(0)
	}

	var scs []*Scenario
	load := func(p string) {
		data, err := os.ReadFile(p)
		if err != nil {
			fmt.Fprintln(os.Stderr, err)
			os.Exit(2)
		}
		var l []*Scenario
		if err := json.Unmarshal(data, &l); err != nil {
			fmt.Fprintln(os.Stderr, p, err)
			os.Exit(2)
		}
		scs = append(scs, l...)
	}
	if *replay != "" {
		load(*replay)
	} else {
		if *corpus != "" {
			files, _ := filepath.Glob(filepath.Join(*corpus, "*.json"))
			sort.Strings(files)
			for _, f := range files {
				load(f)
			}
		}
		rng := rand.New(rand.NewSource(*seed))
		ks := strings.Split(*kinds, ",")
		for i := 0; i < *n; i++ {
			scs = append(scs, genScenario(rng, i, ks[i%len(ks)]))
		}
	}
	// every scenario runs in its own child process (goroutines of a hung or leaking scenario die with it)
	results := make([]*Result, len(scs))
	self, _ := os.Executable()
	var wg sync.WaitGroup
	sem := make(chan struct{}, *par)
	for i, sc := range scs {
		sc.ID = i
		wg.Add(1)
		sem <- struct{}{}
		go func(i int, sc *Scenario) {
			defer wg.Done()
			defer func() { <-sem }()
			in, _ := json.Marshal(sc)
			cmd := exec.Command(self, "-one", "-maxsteps", fmt.Sprint(*maxSteps))
			cmd.Stdin = bytes.NewReader(in)
			var outb, errb bytes.Buffer
			cmd.Stdout, cmd.Stderr = &outb, &errb
			done := make(chan error, 1)
			_ = cmd.Start()
			go func() { done <- cmd.Wait() }()
			var err error
			select {
			case err = <-done:
			case <-time.After(60 * time.Second):
				_ = cmd.Process.Kill()
				err = fmt.Errorf("worker timeout")
			}
			res := &Result{Scenario: *sc}
			if err != nil || json.Unmarshal(outb.Bytes(), res) != nil {
				tail := errb.String()
				if len(tail) > 3000 {
					tail = tail[:3000]
				}
				res = &Result{Scenario: *sc, Crashed: fmt.Sprintf("%v: %s", err, tail), NameOf: map[int]string{}}
			}
			results[i] = res
		}(i, sc)
	}
	wg.Wait()
	emit(results, *out)
}

// emit writes cases_SUP.v / cases_SUP.json for the recorded results and prints the statistics line.
func emit(results []*Result, outDir string) {
	out := &outDir
	var sb strings.Builder
	sb.WriteString("From Coq Require Import List ZArith NArith.\nFrom PC.Base Require Import Assoc.\nFrom PC.Sup Require Import Model Check.\nImport ListNotations.\n")
	for i, r := range results {
		fmt.Fprintf(&sb, "Definition conf_%d : amap pconf :=\n   %s.\n", i, confCoq(&r.Scenario))
		fmt.Fprintf(&sb, "Definition evs_%d : list (tid * event) := [\n  %s].\n", i, strings.Join(eventsCoq(r), ";\n  "))
	}
	sb.WriteString("Definition cases : list trace := [\n")
	for i, r := range results {
		if i > 0 {
			sb.WriteString(";\n")
		}
		fmt.Fprintf(&sb, "  mkTrace conf_%d %s evs_%d", i, coqB(r.Scenario.Ordered), i)
	}
	sb.WriteString("].\n")
	sb.WriteString("Definition r_rejected := Eval vm_compute in rejected cases.\nPrint r_rejected.\n")
	sb.WriteString("Definition r_windows := Eval vm_compute in window_codes cases.\nPrint r_windows.\n")
	for _, p := range []string{"C01", "C02", "C03", "C03x", "C04", "C05", "C08", "C09", "C12"} {
		fmt.Fprintf(&sb, "Definition r_bad_%s := Eval vm_compute in bad_%s cases.\nPrint r_bad_%s.\n", p, p, p)
		fmt.Fprintf(&sb, "Definition r_badw_%s := Eval vm_compute in badwn_%s cases.\nPrint r_badw_%s.\n", p, p, p)
	}
	// evidence only: recorded histories that do NOT satisfy the side conditions of the property's main theorem
	sb.WriteString("Definition r_thm_C12 := Eval vm_compute in thm_C12 cases.\nPrint r_thm_C12.\n")
	if err := os.WriteFile(filepath.Join(*out, "cases_SUP.v"), []byte(sb.String()), 0o644); err != nil {
		panic(err)
	}
	js, _ := json.Marshal(results)
	_ = os.WriteFile(filepath.Join(*out, "cases_SUP.json"), js, 0o644)
	stats := map[string]int{"scenarios": len(results)}
	for _, r := range results {
		stats["events"] += len(r.Events)
		stats["steps"] += len(r.Choices)
		if r.Truncated {
			stats["truncated"]++
		}
		if r.Crashed != "" {
			stats["crashed"]++
		}
		stats["warnings"] += len(r.Warnings)
		stats["kind_"+r.Scenario.Kind]++
		if r.Scenario.Polite {
			stats["polite"]++
		}
	}
	sj, _ := json.Marshal(stats)
	fmt.Println(string(sj))
}
