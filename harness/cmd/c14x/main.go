package main

import (
	"encoding/json"
	"fmt"
	"net"
	"net/http/httptest"
	"os"
	"path/filepath"
	"reflect"
	"strconv"
	"time"

	"github.com/f1bonacc1/process-compose/src/api"
	"github.com/f1bonacc1/process-compose/src/app"
	"github.com/f1bonacc1/process-compose/src/client"
	"github.com/f1bonacc1/process-compose/src/loader"
	"github.com/f1bonacc1/process-compose/src/types"
	"github.com/rs/zerolog"
	"pcverif/fakecmd"
)

func load(dir, name, y string) *types.Project {
	f := filepath.Join(dir, name)
	os.WriteFile(f, []byte(y), 0o644)
	o := &loader.LoaderOptions{FileNames: []string{f}, IsInternalLoader: true}
	o.DisableDotenv(true)
	p, err := loader.Load(o)
	if err != nil {
		panic(err)
	}
	return p
}

func main() {
	zerolog.SetGlobalLevel(zerolog.Disabled)
	dir, _ := os.MkdirTemp("/tmp/C14-scratch", "x")
	y1 := `
environment:
  - G=1
processes:
  a:
    command: "sleep 100"
    description: d1
    vars: {K: 3}
    x-foo: 7
    environment: ["A=1"]
  b:
    entrypoint: ["python3", "a.py"]
    depends_on:
      a:
        condition: process_started
  c:
    command: "echo c"
    readiness_probe:
      exec: {command: "true"}
      initial_delay_seconds: 3600
`
	y2 := `
environment:
  - G=2
processes:
  a:
    command: "sleep 100"
    description: d1
    vars: {K: 3}
    x-foo: 7
    environment: ["A=1"]
  b:
    entrypoint: ["python2", "a.py"]
    depends_on:
      a:
        condition: process_started
  d:
    command: "echo d"
`
	p1 := load(dir, "p.yaml", y1)
	p2 := load(dir, "p2.yaml", y2)
	// json round trip diff
	js, err := json.Marshal(p1)
	fmt.Println("marshal err", err, len(js))
	var rt types.Project
	fmt.Println("unmarshal", json.Unmarshal(js, &rt))
	for n, a := range p1.Processes {
		b := rt.Processes[n]
		va, vb := reflect.ValueOf(a), reflect.ValueOf(b)
		for i := 0; i < va.NumField(); i++ {
			if !reflect.DeepEqual(va.Field(i).Interface(), vb.Field(i).Interface()) {
				fmt.Printf("RT diff %s.%s: %#v vs %#v\n", n, va.Type().Field(i).Name, va.Field(i).Interface(), vb.Field(i).Interface())
			}
		}
		fmt.Println(n, "compare after rt:", a.Compare(&b))
	}
	f := fakecmd.NewFactory()
	f.OnStop = func(c *fakecmd.Cmd, sig int, po bool) { c.Exit(-1) }
	f.Install()
	opts := (&app.ProjectOpts{}).WithProject(p1)
	r, err := app.NewProjectRunner(opts)
	if err != nil {
		panic(err)
	}
	done := make(chan error)
	go func() { done <- r.Run() }()
	time.Sleep(200 * time.Millisecond)
	for _, c := range f.All() {
		fmt.Println("cmd", c.Seq, c.Name, c.Executable, c.Args, c.Dir, c.Alive(), len(c.Env), c.Env[len(c.Env)-3:])
	}
	st, err := r.UpdateProject(p2)
	fmt.Println("status", st, err)
	time.Sleep(200 * time.Millisecond)
	for _, c := range f.All() {
		fmt.Println("cmd", c.Seq, c.Name, c.Executable, c.Args, c.Alive(), c.Signals(), c.Env[len(c.Env)-2:])
	}
	ss, _ := r.GetProcessesState()
	for _, s := range ss.States {
		fmt.Println("state", s.Name, s.Status, s.IsRunning)
	}
	// REST
	srv := httptest.NewServer(api.InitRoutes(false, api.NewPcApi(r)))
	host, port, _ := net.SplitHostPort(srv.Listener.Addr().String())
	pn, _ := strconv.Atoi(port)
	cl := client.NewTcpClient(host, pn, 100)
	st, err = cl.UpdateProject(p2)
	fmt.Println("REST status", st, err)
	time.Sleep(200 * time.Millisecond)
	for _, c := range f.All() {
		fmt.Println("cmd", c.Seq, c.Name, c.Executable, c.Args, c.Alive(), c.Signals())
	}
	st, err = cl.ReloadProject()
	fmt.Println("REST reload status", st, err)
	r.ShutDownProject()
	select {
	case e := <-done:
		fmt.Println("run returned", e)
	case <-time.After(3 * time.Second):
		fmt.Println("run did not return")
	}
}
