// c10: correspondence harness for the health probes (property C10).
//
//	part v: Probe.ValidateAndSetDefaults through the public type (and through loader.Load on YAML)
//	part p: the unmodified health.Prober in real time against harness-controlled exec / HTTP targets
//	part h: the process-level coupling (probe result -> health -> stop -> restart policy), free-running,
//	        on a ProjectRunner whose commands are harness/fakecmd commands
//
// Writes <out>/cases_C10.v (Gallina: what was observed) and <out>/cases_C10.json (the same, for replays).
package main

import (
	"encoding/json"
	"flag"
	"fmt"
	"math"
	"math/rand"
	"net"
	"net/http"
	"net/http/httptest"
	"os"
	"path/filepath"
	"sort"
	"strings"
	"sync"
	"sync/atomic"
	"time"

	"github.com/f1bonacc1/process-compose/src/app"
	"github.com/f1bonacc1/process-compose/src/health"
	"github.com/f1bonacc1/process-compose/src/loader"
	"github.com/rs/zerolog"
	"gopkg.in/yaml.v2"
	"pcverif/coqfmt"
	"pcverif/fakecmd"
)

// ------------------------------------------------------------------------------------------ cases
type HttpJ struct {
	Host    string `json:"host"`
	Scheme  string `json:"scheme"`
	Path    string `json:"path"`
	Port    string `json:"port"`
	NumPort int64  `json:"num_port"`
}

type ProbeJ struct {
	Delay   int64  `json:"delay"`
	Period  int64  `json:"period"`
	Timeout int64  `json:"timeout"`
	Succ    int64  `json:"succ"`
	Fail    int64  `json:"fail"`
	Http    *HttpJ `json:"http,omitempty"`
}

type CfgJ struct {
	Policy          string `json:"policy"` // no | always | on_failure
	Max             int64  `json:"max"`
	Daemon          bool   `json:"daemon"`
	Ready           bool   `json:"ready"`
	Live            bool   `json:"live"`
	StopCode        int64  `json:"stopcode"`
	ShutdownTimeout int    `json:"shutdown_timeout,omitempty"` // seconds; 0 = not configured
}

type OpJ struct {
	K         string `json:"k"` // RR LR EX STOP
	Ok        bool   `json:"ok,omitempty"`
	Fatal     bool   `json:"fatal,omitempty"`
	Code      int64  `json:"code,omitempty"`
	Delivered bool   `json:"delivered"`
	ExtraMs   int    `json:"extra_ms,omitempty"` // additional wait before the observation
}

type ObsJ struct {
	Status   string `json:"status"`
	Health   string `json:"health"`
	Launches int    `json:"launches"`
	Signals  int    `json:"signals"`
	Restarts int64  `json:"restarts"`
}

type Case struct {
	Part string `json:"part"` // v | p | h
	Kind string `json:"kind"`
	// v
	Via  string  `json:"via,omitempty"` // direct | yaml
	In   *ProbeJ `json:"in,omitempty"`
	Out  *ProbeJ `json:"out,omitempty"`
	Out2 *ProbeJ `json:"out2,omitempty"`
	// p
	Target string   `json:"target,omitempty"` // exec | http
	Evs    []string `json:"evs,omitempty"`    // start stop S F
	PObs   [][]bool `json:"pobs,omitempty"`   // per event: [] = no callback, [ok,fatal]
	// h
	Cfg  *CfgJ  `json:"cfg,omitempty"`
	Ops  []OpJ  `json:"ops,omitempty"`
	Obs0 *ObsJ  `json:"obs0,omitempty"`
	Obs  []ObsJ `json:"obs,omitempty"` // one per DELIVERED op
	Note string `json:"note,omitempty"`
}

// ------------------------------------------------------------------------------------------ part v
func toProbe(in *ProbeJ) *health.Probe {
	p := &health.Probe{InitialDelay: int(in.Delay), PeriodSeconds: int(in.Period), TimeoutSeconds: int(in.Timeout),
		SuccessThreshold: int(in.Succ), FailureThreshold: int(in.Fail)}
	if in.Http != nil {
		p.HttpGet = &health.HttpProbe{Host: in.Http.Host, Scheme: in.Http.Scheme, Path: in.Http.Path,
			Port: in.Http.Port, NumPort: int(in.Http.NumPort)}
	} else {
		p.Exec = &health.ExecProbe{Command: "true"}
	}
	return p
}

func fromProbe(p *health.Probe) *ProbeJ {
	o := &ProbeJ{Delay: int64(p.InitialDelay), Period: int64(p.PeriodSeconds), Timeout: int64(p.TimeoutSeconds),
		Succ: int64(p.SuccessThreshold), Fail: int64(p.FailureThreshold)}
	if p.HttpGet != nil {
		o.Http = &HttpJ{Host: p.HttpGet.Host, Scheme: p.HttpGet.Scheme, Path: p.HttpGet.Path, Port: p.HttpGet.Port,
			NumPort: int64(p.HttpGet.NumPort)}
	}
	return o
}

func runV(c *Case, tmp string, idx int) {
	if c.Via == "yaml" {
		runVYaml(c, tmp, idx)
		return
	}
	p := toProbe(c.In)
	p.ValidateAndSetDefaults()
	c.Out = fromProbe(p)
	p.ValidateAndSetDefaults()
	c.Out2 = fromProbe(p)
}

// the same through the loader: YAML decoding + templater.renderProbe (which calls ValidateAndSetDefaults)
func runVYaml(c *Case, tmp string, idx int) {
	probe := map[string]interface{}{
		"initial_delay_seconds": c.In.Delay, "period_seconds": c.In.Period, "timeout_seconds": c.In.Timeout,
		"success_threshold": c.In.Succ, "failure_threshold": c.In.Fail,
	}
	if c.In.Http != nil {
		probe["http_get"] = map[string]interface{}{"host": c.In.Http.Host, "scheme": c.In.Http.Scheme,
			"path": c.In.Http.Path, "port": c.In.Http.Port, "num_port": c.In.Http.NumPort}
	} else {
		probe["exec"] = map[string]interface{}{"command": "true"}
	}
	doc := map[string]interface{}{"version": "0.5", "processes": map[string]interface{}{
		"p": map[string]interface{}{"command": "true", "readiness_probe": probe}}}
	data, err := yaml.Marshal(doc)
	if err != nil {
		panic(err)
	}
	dir := filepath.Join(tmp, fmt.Sprintf("v%d", idx))
	_ = os.MkdirAll(dir, 0o755)
	file := filepath.Join(dir, "pc.yaml")
	if err := os.WriteFile(file, data, 0o644); err != nil {
		panic(err)
	}
	opts := &loader.LoaderOptions{FileNames: []string{file}, IsInternalLoader: true}
	opts.DisableDotenv(true)
	prj, err := loader.Load(opts)
	if err != nil {
		c.Note = "load error: " + err.Error()
		c.Via = "yaml-error"
		c.Out, c.Out2 = c.In, c.In // reported as a mismatch by the model unless in is a fixed point
		return
	}
	pc := prj.Processes["p"]
	if pc.ReadinessProbe == nil {
		c.Note = "no probe after load"
		c.Out, c.Out2 = c.In, c.In
		return
	}
	c.Out = fromProbe(pc.ReadinessProbe)
	cp := *pc.ReadinessProbe
	if cp.HttpGet != nil {
		h := *cp.HttpGet
		cp.HttpGet = &h
	}
	cp.ValidateAndSetDefaults()
	c.Out2 = fromProbe(&cp)
}

var vInts = []int64{-3, -1, 0, 1, 2, 3, 5, 10, 11, 300, 65535, 65536, 70000, math.MaxInt32, math.MaxInt64, math.MinInt64}

var vPorts = []string{"", "0", "1", "80", "443", "8080", "65535", "65536", "70000", "abc", "-1", "-80", "+80", "+0", " 80", "80 ",
	"0080", "000000080", "8_0", "0x50", "80.0", "1e3", "99999999999999999999", "-99999999999999999999",
	"9223372036854775807", "9223372036854775808", "18446744073709551616", "18446744073709551616abc", "123456789012345678",
	"1234567890123456789", "+", "-", "٣", "８０", "6553５", "65535\x00", "\t80", "http"}

var vStrs = []string{"", " ", "\t", " \t\r\n", "localhost", "127.0.0.1", " x ", "https", "/health", "/", "a b", "\v\f"}

func genV(r *rand.Rand, tier string) []*Case {
	var cs []*Case
	add := func(kind, via string, in ProbeJ) {
		cp := in
		if in.Http != nil {
			h := *in.Http
			cp.Http = &h
		}
		cs = append(cs, &Case{Part: "v", Kind: kind, Via: via, In: &cp})
	}
	// full cross product of the five integers over {-1,0,1,2}
	small := []int64{-1, 0, 1, 2}
	for _, a := range small {
		for _, b := range small {
			for _, c := range small {
				for _, d := range small {
					for _, e := range small {
						add("grid5", "direct", ProbeJ{Delay: a, Period: b, Timeout: c, Succ: d, Fail: e})
					}
				}
			}
		}
	}
	// every interesting integer in every field, the others legal
	for f := 0; f < 5; f++ {
		for _, v := range vInts {
			in := ProbeJ{Delay: 4, Period: 5, Timeout: 6, Succ: 7, Fail: 8}
			*[]*int64{&in.Delay, &in.Period, &in.Timeout, &in.Succ, &in.Fail}[f] = v
			add("field", "direct", in)
		}
	}
	// every port string, with legal and with illegal integers, blank and non-blank host/scheme/path
	for i, ps := range vPorts {
		h := &HttpJ{Host: vStrs[i%len(vStrs)], Scheme: vStrs[(i/2)%len(vStrs)], Path: vStrs[(i/3)%len(vStrs)], Port: ps,
			NumPort: []int64{0, 80, -5, 70000}[i%4]}
		add("port", "direct", ProbeJ{Delay: 0, Period: 1, Timeout: 1, Succ: 1, Fail: 1, Http: h})
		add("port", "direct", ProbeJ{Delay: -1, Period: 0, Timeout: -7, Succ: 0, Fail: -2, Http: h})
	}
	// decimal port numbers: around the borders (quick) / everything 0..70000 (thorough)
	var ports []int
	if tier == "thorough" {
		for p := 0; p <= 70000; p++ {
			ports = append(ports, p)
		}
	} else {
		for p := 0; p <= 130; p++ {
			ports = append(ports, p)
		}
		for p := 65400; p <= 65700; p++ {
			ports = append(ports, p)
		}
		for i := 0; i < 150; i++ {
			ports = append(ports, r.Intn(70001))
		}
	}
	for _, p := range ports {
		add("portnum", "direct", ProbeJ{Period: 1, Timeout: 1, Succ: 1, Fail: 1,
			Http: &HttpJ{Host: "h", Scheme: "http", Path: "/", Port: fmt.Sprint(p), NumPort: int64(p % 7)}})
	}
	// random
	nr := 300
	ny := 40
	if tier == "thorough" {
		nr, ny = 6000, 400
	}
	pick := func() int64 {
		switch r.Intn(4) {
		case 0:
			return vInts[r.Intn(len(vInts))]
		case 1:
			return int64(r.Intn(8)) - 3
		case 2:
			return r.Int63() - r.Int63()
		default:
			return int64(r.Intn(70010)) - 5
		}
	}
	randPort := func() string {
		switch r.Intn(5) {
		case 0:
			return vPorts[r.Intn(len(vPorts))]
		case 1:
			return fmt.Sprint(r.Intn(70001))
		case 2:
			return fmt.Sprint(pick())
		default:
			alpha := "0123456789+-_ xe."
			n := r.Intn(7)
			b := make([]byte, n)
			for i := range b {
				if r.Intn(3) > 0 {
					b[i] = alpha[r.Intn(10)]
				} else {
					b[i] = alpha[r.Intn(len(alpha))]
				}
			}
			return string(b)
		}
	}
	randProbe := func(yamlSafe bool) ProbeJ {
		in := ProbeJ{Delay: pick(), Period: pick(), Timeout: pick(), Succ: pick(), Fail: pick()}
		if r.Intn(3) > 0 {
			h := &HttpJ{Host: vStrs[r.Intn(len(vStrs))], Scheme: vStrs[r.Intn(len(vStrs))], Path: vStrs[r.Intn(len(vStrs))],
				Port: randPort(), NumPort: pick()}
			if yamlSafe {
				// strings survive YAML as long as they are valid UTF-8 without NUL
				if strings.ContainsAny(h.Port, "\x00") {
					h.Port = "80"
				}
			}
			in.Http = h
		}
		return in
	}
	for i := 0; i < nr; i++ {
		add("random", "direct", randProbe(false))
	}
	for i := 0; i < ny; i++ {
		add("random", "yaml", randProbe(true))
	}
	for _, ps := range []string{"", "0", "80", "65535", "65536", "abc", "-1", "+80", " 80"} {
		add("port", "yaml", ProbeJ{Delay: -3, Period: 0, Timeout: 2, Succ: -1, Fail: 0,
			Http: &HttpJ{Host: "", Scheme: " ", Path: "/x", Port: ps, NumPort: 70000}})
	}
	return cs
}

// ------------------------------------------------------------------------------------------ part p
type target struct {
	kind string
	file string
	flag atomic.Bool
	srv  *httptest.Server
}

func (t *target) set(ok bool) {
	t.flag.Store(ok)
	if t.kind == "exec" {
		if ok {
			_ = os.WriteFile(t.file, []byte("x"), 0o644)
		} else {
			_ = os.Remove(t.file)
		}
	}
}

func nextOutcome(evs []string, i int) (bool, bool) {
	for j := i; j < len(evs); j++ {
		switch evs[j] {
		case "S":
			return true, true
		case "F":
			return false, true
		}
	}
	return false, false
}

// runP drives one unmodified health.Prober (period 1 s) through the event script and records the callbacks.
func runP(c *Case, tmp string, idx int) {
	t := &target{kind: c.Target, file: filepath.Join(tmp, fmt.Sprintf("probe-target-%d", idx))}
	probe := toProbe(c.In)
	probe.HttpGet, probe.Exec = nil, nil
	if c.Target == "http" {
		t.srv = httptest.NewServer(http.HandlerFunc(func(w http.ResponseWriter, _ *http.Request) {
			if t.flag.Load() {
				w.WriteHeader(200)
			} else {
				w.WriteHeader(503)
			}
		}))
		defer t.srv.Close()
		_, port, _ := net.SplitHostPort(strings.TrimPrefix(t.srv.URL, "http://"))
		// the port goes through validateAndSetHttpDefaults / Atoi / getUrl: "+NNNN" is a legal spelling
		ps := port
		if idx%2 == 1 {
			ps = "+" + port
		}
		probe.HttpGet = &health.HttpProbe{Host: "127.0.0.1", Scheme: "", Path: " ", Port: ps, NumPort: 1}
		c.In.Http = &HttpJ{Host: "127.0.0.1", Scheme: "", Path: " ", Port: ps, NumPort: 1}
	} else {
		probe.Exec = &health.ExecProbe{Command: "test -f " + t.file}
	}
	cb := make(chan [2]bool, 64)
	pr, err := health.New(fmt.Sprintf("prober-%d", idx), *probe, func(ok, fatal bool, _ string) { cb <- [2]bool{ok, fatal} })
	if err != nil {
		c.Note = "health.New: " + err.Error()
		return
	}
	evs := append([]string{}, c.Evs...)
	c.Evs = nil
	record := func(ev string, o []bool) {
		c.Evs = append(c.Evs, ev)
		if o == nil {
			o = []bool{}
		}
		c.PObs = append(c.PObs, o)
	}
	running := false
	for i, ev := range evs {
		switch ev {
		case "start":
			if ok, has := nextOutcome(evs, i+1); has {
				t.set(ok)
			}
			pr.Start()
			running = true
			record("start", nil)
		case "stop":
			if i > 0 && evs[i-1] == "start" && probe.InitialDelay > 0 {
				// a stop inside the initial delay; the pause keeps clear of the Start goroutine's own stopped.Store(false)
				time.Sleep(150 * time.Millisecond)
			}
			pr.Stop()
			running = false
			record("stop", nil)
			// nothing may arrive while stopped: watch for longer than the initial delay plus one period
			watch := 1300 * time.Millisecond
			if probe.InitialDelay > 0 {
				watch += time.Duration(probe.InitialDelay) * time.Second
			}
			select {
			case v := <-cb:
				if t.flag.Load() {
					record("S", v[:])
				} else {
					record("F", v[:])
				}
			case <-time.After(watch):
			}
		case "S", "F":
			if !running {
				continue // a stopped prober performs no checks: the event cannot happen
			}
			select {
			case v := <-cb:
				record(ev, v[:])
			case <-time.After(3500 * time.Millisecond):
				record(ev, nil)
				c.Note += fmt.Sprintf("no callback for event %d; ", i)
			}
			if ok, has := nextOutcome(evs, i+1); has {
				t.set(ok)
			}
		}
	}
	pr.Stop()
	_ = os.Remove(t.file)
}

func genP(r *rand.Rand, tier string) []*Case {
	var cs []*Case
	mk := func(kind string, thr int64, tgt string, evs ...string) {
		cs = append(cs, &Case{Part: "p", Kind: kind, Target: tgt,
			In: &ProbeJ{Delay: 0, Period: 1, Timeout: 1, Succ: 1, Fail: thr}, Evs: append([]string{"start"}, evs...)})
	}
	seqs := func(n int) [][]string {
		var all [][]string
		for m := 0; m < 1<<n; m++ {
			s := make([]string, n)
			for i := 0; i < n; i++ {
				if m>>i&1 == 1 {
					s[i] = "S"
				} else {
					s[i] = "F"
				}
			}
			all = append(all, s)
		}
		return all
	}
	// directed: at / beyond the threshold, the default threshold, reset by success and by stop
	mk("directed", 2, "exec", "F", "F", "F", "F", "S")
	mk("directed", 1, "exec", "F", "F", "S", "F")
	mk("directed", 0, "exec", "F", "F", "F", "F")  // threshold 0 -> 3
	mk("directed", -4, "http", "F", "F", "F", "S") // negative -> 3
	mk("directed", 3, "http", "S", "F", "F", "F", "F")
	mk("directed", 2, "exec", "F", "stop", "start", "F", "F")
	mk("directed", 2, "http", "F", "F", "stop", "start", "F", "F")
	mk("directed", 1, "exec", "S", "stop", "start", "F")
	// a stop inside the initial delay: the pending probe start is cancelled, a later start works again
	mkd := func(thr, delay int64, tgt string, evs ...string) {
		cs = append(cs, &Case{Part: "p", Kind: "directed-delay", Target: tgt,
			In: &ProbeJ{Delay: delay, Period: 1, Timeout: 1, Succ: 1, Fail: thr}, Evs: append([]string{"start"}, evs...)})
	}
	mkd(2, 1, "exec", "stop", "start", "F", "F")
	mkd(1, 1, "http", "S", "stop", "start", "stop", "start", "F")
	n := 16
	ln := 5
	if tier == "thorough" {
		// every outcome sequence of length 6 for thresholds 1..3 would be 192 probers: take all of
		// length 5 for thresholds 1..3 (96) plus random ones of length 6
		for _, thr := range []int64{1, 2, 3} {
			for i, s := range seqs(5) {
				mk("all5", thr, []string{"exec", "exec", "http"}[i%3], s...)
			}
		}
		n, ln = 32, 6
	}
	all := seqs(ln)
	for i := 0; i < n; i++ {
		s := append([]string{}, all[r.Intn(len(all))]...)
		thr := int64(1 + r.Intn(3))
		if r.Intn(6) == 0 {
			thr = int64(r.Intn(3)) - 2
		}
		if r.Intn(3) == 0 { // a stop/start somewhere inside
			k := 1 + r.Intn(len(s)-1)
			s = append(append(append([]string{}, s[:k]...), "stop", "start"), s[k:]...)
		}
		tgt := "exec"
		if r.Intn(4) == 0 {
			tgt = "http"
		}
		mk("random", thr, tgt, s...)
	}
	return cs
}

// ------------------------------------------------------------------------------------------ part h
var factory *fakecmd.Factory
var stopCodes sync.Map // process name -> exit code on a stop signal

func setupFake() {
	factory = fakecmd.NewFactory()
	factory.OnStop = func(c *fakecmd.Cmd, sig int, parentOnly bool) {
		code := -1
		if v, ok := stopCodes.Load(c.Name); ok {
			code = v.(int)
		}
		c.Exit(code)
	}
	app.SetVerifHooks(&app.VerifHooks{
		Commander: factory.New,
		Backoff:   func(p *app.Process, seconds int) (time.Duration, bool) { return 3 * time.Millisecond, true },
	})
}

func observe(runner *app.ProjectRunner, name string) ObsJ {
	o := ObsJ{Status: "?", Health: "?"}
	if st, err := runner.GetProcessState(name); err == nil && st != nil {
		o.Status, o.Health, o.Restarts = st.Status, st.Health, int64(st.Restarts)
	}
	for _, c := range factory.ByName(name) {
		if c.WasStarted() {
			o.Launches++
		}
		for _, sg := range c.Signals() {
			if sg.Sig != 9 { // the configured stop signal; a SIGKILL of the shutdown timer is not a stop request
				o.Signals++
			}
		}
	}
	return o
}

func transient(s string) bool {
	switch s {
	case "Running", "Launching", "Launched", "Completed", "Terminating":
		return false
	}
	return true
}

// settle polls until the observation has been unchanged for `win` (Terminating: 6*win) or `max` has elapsed
func settle(runner *app.ProjectRunner, name string, win, max time.Duration) ObsJ {
	deadline := time.Now().Add(max)
	last := observe(runner, name)
	since := time.Now()
	for time.Now().Before(deadline) {
		time.Sleep(time.Millisecond)
		o := observe(runner, name)
		if o != last {
			last, since = o, time.Now()
			continue
		}
		need := win
		if o.Status == "Terminating" {
			need = 6 * win
		}
		if !transient(o.Status) && time.Since(since) >= need {
			return o
		}
	}
	return last
}

func currentCmd(name string) *fakecmd.Cmd {
	cs := factory.ByName(name)
	if len(cs) == 0 {
		return nil
	}
	return cs[len(cs)-1]
}

func probingStatus(s string) bool { return s == "Running" || s == "Launching" || s == "Launched" }

// IntJ: one INTEGRATED scenario - the unmodified prober (1 s period) drives the unmodified process: a readiness probe
// that fails for ever, restart policy always.  Every run of failure_threshold consecutive failures since the last
// (re)launch must stop and relaunch the process again (the stop winds the prober down, the relaunch starts it afresh).
type IntJ struct {
	Name      string  `json:"name"`
	Threshold int     `json:"threshold"`
	Seconds   float64 `json:"seconds"`
	Launches  int     `json:"launches"`
	MinExpect int     `json:"min_expected"`
	Restarts  int64   `json:"restarts"`
	Status    string  `json:"status"`
	Note      string  `json:"note,omitempty"`
}

func runIntegrated(tmp string, idx int, thr int, dur time.Duration) *IntJ {
	name := fmt.Sprintf("intproc%d", idx)
	res := &IntJ{Name: name, Threshold: thr}
	stopCodes.Store(name, -1)
	probe := map[string]interface{}{"exec": map[string]interface{}{"command": "test -f " + filepath.Join(tmp, "never-there-"+name)},
		"initial_delay_seconds": 0, "period_seconds": 1, "timeout_seconds": 1, "failure_threshold": thr}
	proc := map[string]interface{}{"command": "fake-" + name, "readiness_probe": probe,
		"availability": map[string]interface{}{"restart": "always", "backoff_seconds": 1}}
	doc := map[string]interface{}{"version": "0.5", "processes": map[string]interface{}{name: proc}}
	data, _ := yaml.Marshal(doc)
	dir := filepath.Join(tmp, fmt.Sprintf("i%d", idx))
	_ = os.MkdirAll(dir, 0o755)
	file := filepath.Join(dir, "pc.yaml")
	_ = os.WriteFile(file, data, 0o644)
	lo := &loader.LoaderOptions{FileNames: []string{file}, IsInternalLoader: true}
	lo.DisableDotenv(true)
	prj, err := loader.Load(lo)
	if err != nil {
		res.Note = "load: " + err.Error()
		return res
	}
	opts := (&app.ProjectOpts{}).WithProject(prj).WithIsTuiOn(true)
	opts.WithDotEnvDisabled(true)
	runner, err := app.NewProjectRunner(opts)
	if err != nil {
		res.Note = "runner: " + err.Error()
		return res
	}
	t0 := time.Now()
	go func() { _ = runner.Run() }()
	time.Sleep(dur)
	o := observe(runner, name)
	res.Seconds = time.Since(t0).Seconds()
	res.Launches, res.Restarts, res.Status = int(o.Launches), o.Restarts, o.Status
	// one cycle takes about thr seconds (+ back-off 3 ms through the seam); expect at least the cycles that fit into
	// 60% of the time, and never fewer than two relaunches
	res.MinExpect = 1 + int(0.6*dur.Seconds())/thr
	if res.MinExpect < 3 {
		res.MinExpect = 3
	}
	_ = runner.ShutDownProject()
	return res
}

func runH(c *Case, tmp string, idx int, slow bool) {
	name := fmt.Sprintf("proc%d", idx)
	win, max := 40*time.Millisecond, 2500*time.Millisecond
	if slow {
		win = 200 * time.Millisecond
	}
	stopCodes.Store(name, int(c.Cfg.StopCode))
	probe := map[string]interface{}{"exec": map[string]interface{}{"command": "true"},
		"initial_delay_seconds": 1000000, "period_seconds": 1000000, "failure_threshold": 3}
	proc := map[string]interface{}{"command": "fake-" + name, "is_daemon": c.Cfg.Daemon,
		"availability": map[string]interface{}{"restart": c.Cfg.Policy, "max_restarts": c.Cfg.Max, "backoff_seconds": 1}}
	if c.Cfg.Ready {
		proc["readiness_probe"] = probe
	}
	if c.Cfg.Live {
		proc["liveness_probe"] = probe
	}
	if c.Cfg.ShutdownTimeout > 0 {
		proc["shutdown"] = map[string]interface{}{"timeout_seconds": c.Cfg.ShutdownTimeout}
	}
	doc := map[string]interface{}{"version": "0.5", "processes": map[string]interface{}{name: proc}}
	data, _ := yaml.Marshal(doc)
	dir := filepath.Join(tmp, fmt.Sprintf("h%d", idx))
	_ = os.MkdirAll(dir, 0o755)
	file := filepath.Join(dir, "pc.yaml")
	_ = os.WriteFile(file, data, 0o644)
	lo := &loader.LoaderOptions{FileNames: []string{file}, IsInternalLoader: true}
	lo.DisableDotenv(true)
	prj, err := loader.Load(lo)
	if err != nil {
		c.Note = "load: " + err.Error()
		return
	}
	opts := (&app.ProjectOpts{}).WithProject(prj).WithIsTuiOn(true)
	opts.WithDotEnvDisabled(true)
	runner, err := app.NewProjectRunner(opts)
	if err != nil {
		c.Note = "runner: " + err.Error()
		return
	}
	go func() { _ = runner.Run() }()
	// wait for the first launch
	t0 := time.Now()
	for time.Since(t0) < 3*time.Second {
		if cc := currentCmd(name); cc != nil && cc.WasStarted() {
			break
		}
		time.Sleep(time.Millisecond)
	}
	o0 := settle(runner, name, win, max)
	c.Obs0 = &o0
	last := o0
	proc0 := runner.VerifRunning()[name]
	tokUsed := false
	for i := range c.Ops {
		op := &c.Ops[i]
		op.Delivered = false
		switch op.K {
		case "RR", "LR":
			if proc0 == nil || !probingStatus(last.Status) {
				continue
			}
			if op.K == "RR" && !proc0.VerifHasReadyProber() || op.K == "LR" && !proc0.VerifHasLiveProber() {
				continue
			}
			if op.K == "LR" && op.Fatal && c.Cfg.Daemon {
				if tokUsed {
					continue // a second token could block the caller for ever
				}
				if last.Status != "Launched" {
					tokUsed = true
				}
			}
			op.Delivered = true
			done := make(chan struct{})
			go func() {
				if op.K == "RR" {
					proc0.VerifReadinessResult(op.Ok, op.Fatal, "probe result from the harness")
				} else {
					proc0.VerifLivenessResult(op.Ok, op.Fatal, "probe result from the harness")
				}
				close(done)
			}()
			select {
			case <-done:
			case <-time.After(time.Duration(c.Cfg.ShutdownTimeout)*time.Second + 2*time.Second):
				c.Note += fmt.Sprintf("op %d did not return; ", i)
			}
		case "EX":
			cc := currentCmd(name)
			if cc == nil || !cc.Alive() {
				continue
			}
			op.Delivered = true
			cc.Exit(int(op.Code))
		case "STOP":
			if last.Status == "Completed" {
				continue
			}
			if err := runner.StopProcess(name); err != nil {
				continue
			}
			op.Delivered = true
		}
		if op.ExtraMs > 0 {
			time.Sleep(time.Duration(op.ExtraMs) * time.Millisecond)
		}
		last = settle(runner, name, win, max)
		c.Obs = append(c.Obs, last)
	}
	// release whatever is still alive (goroutines blocked in a stuck state are abandoned)
	for _, cc := range factory.ByName(name) {
		cc.Exit(0)
	}
}

func genH(r *rand.Rand, tier string) []*Case {
	var cs []*Case
	mk := func(kind string, cfg CfgJ, ops ...OpJ) {
		c := cfg
		cs = append(cs, &Case{Part: "h", Kind: kind, Cfg: &c, Ops: ops})
	}
	rr := func(ok, fatal bool) OpJ { return OpJ{K: "RR", Ok: ok, Fatal: fatal} }
	lr := func(ok, fatal bool) OpJ { return OpJ{K: "LR", Ok: ok, Fatal: fatal} }
	ex := func(code int64) OpJ { return OpJ{K: "EX", Code: code} }
	// directed scenarios: one per clause of the property, every policy
	for _, pol := range []string{"no", "always", "on_failure"} {
		for _, max := range []int64{0, 1} {
			base := CfgJ{Policy: pol, Max: max, Ready: true, Live: true, StopCode: -1}
			mk("readiness-fatal", base, rr(true, false), rr(false, false), rr(false, true), rr(true, false), rr(false, true), rr(true, false))
			mk("ready-exit", base, rr(true, false), ex(0), rr(false, false), ex(1), rr(true, false), OpJ{K: "STOP"})
			mk("nondaemon-liveness", base, rr(true, false), lr(false, true), lr(false, false), rr(false, false))
			d := CfgJ{Policy: pol, Max: max, Daemon: true, Live: true, StopCode: -1}
			mk("daemon-liveness", d, lr(true, false), ex(0), lr(false, false), lr(false, true), ex(0), lr(false, true))
			mk("daemon-liveness-early", d, lr(false, true), ex(0), ex(0), lr(false, true))
			mk("daemon-launch-fails", d, ex(3), lr(false, true), ex(0))
		}
	}
	// the stopped command exits with code 0 (it handles the signal): on_failure does not relaunch (finding F11b)
	mk("readiness-fatal-exit0", CfgJ{Policy: "on_failure", Ready: true, StopCode: 0}, rr(true, false), rr(false, true), rr(true, false))
	mk("readiness-fatal-exit0", CfgJ{Policy: "always", Ready: true, StopCode: 0}, rr(true, false), rr(false, true), rr(true, false))
	// a configured shutdown timeout: the relaunched command must not be killed when the timer of the internal stop fires
	f := rr(false, true)
	f.ExtraMs = 1500
	mk("readiness-fatal-shutdown-timeout", CfgJ{Policy: "always", Ready: true, StopCode: -1, ShutdownTimeout: 1}, rr(true, false), f, rr(true, false))
	n := 120
	if tier == "thorough" {
		n = 1500
	}
	for i := 0; i < n; i++ {
		cfg := CfgJ{Policy: []string{"no", "always", "on_failure", "always", "on_failure"}[r.Intn(5)],
			Max: []int64{0, 0, 1, 2, 3}[r.Intn(5)], Daemon: r.Intn(3) == 0, StopCode: []int64{-1, -1, 0, 143, 1}[r.Intn(5)]}
		if cfg.Daemon {
			cfg.Live, cfg.Ready = true, false
		} else {
			cfg.Ready, cfg.Live = r.Intn(8) > 0, r.Intn(3) == 0
		}
		nops := 2 + r.Intn(7)
		var ops []OpJ
		for j := 0; j < nops; j++ {
			k := r.Intn(100)
			switch {
			case k < 22:
				ops = append(ops, rr(true, false))
			case k < 38:
				ops = append(ops, rr(false, false))
			case k < 55:
				ops = append(ops, rr(false, true))
			case k < 67:
				ops = append(ops, lr(false, true))
			case k < 72:
				ops = append(ops, lr(r.Intn(2) == 0, false))
			case k < 95:
				ops = append(ops, ex([]int64{0, 0, 1, 2, -1}[r.Intn(5)]))
			default:
				if !cfg.Daemon {
					ops = append(ops, OpJ{K: "STOP"})
				} else {
					ops = append(ops, ex(0))
				}
			}
		}
		mk("random", cfg, ops...)
	}
	return cs
}

// ------------------------------------------------------------------------------------------ Gallina
func probeCoq(p *ProbeJ) string {
	h := "None"
	if p.Http != nil {
		h = coqfmt.Some(fmt.Sprintf("(mkHttp %s %s %s %s %s)", coqfmt.Bytes(p.Http.Host), coqfmt.Bytes(p.Http.Scheme),
			coqfmt.Bytes(p.Http.Path), coqfmt.Bytes(p.Http.Port), coqfmt.Z(p.Http.NumPort)))
	}
	return fmt.Sprintf("(mkProbe %s %s %s %s %s %s)", coqfmt.Z(p.Delay), coqfmt.Z(p.Period), coqfmt.Z(p.Timeout),
		coqfmt.Z(p.Succ), coqfmt.Z(p.Fail), h)
}

func statusCoq(s string) string {
	switch s {
	case "Running", "Launching", "Launched", "Terminating", "Completed":
		return s
	}
	return "OtherStatus"
}

func healthCoq(s string) string {
	switch s {
	case "Ready":
		return "HReady"
	case "Not Ready":
		return "HNotReady"
	}
	return "HUnknown"
}

func obsCoq(o ObsJ) string {
	return fmt.Sprintf("(mkO %s %s %s %s %s)", statusCoq(o.Status), healthCoq(o.Health), coqfmt.Nat(o.Launches),
		coqfmt.Nat(o.Signals), coqfmt.Z(o.Restarts))
}

func caseCoq(c *Case) string {
	switch c.Part {
	case "v":
		return fmt.Sprintf("mkV %s\n  %s\n  %s", probeCoq(c.In), probeCoq(c.Out), probeCoq(c.Out2))
	case "p":
		evs := make([]string, len(c.Evs))
		obs := make([]string, len(c.Evs))
		for i, e := range c.Evs {
			switch e {
			case "start":
				evs[i] = "PStart"
			case "stop":
				evs[i] = "PStop"
			case "S":
				evs[i] = "PResult true"
			default:
				evs[i] = "PResult false"
			}
			if len(c.PObs[i]) == 2 {
				obs[i] = coqfmt.Some(coqfmt.Pair(coqfmt.Bool(c.PObs[i][0]), coqfmt.Bool(c.PObs[i][1])))
			} else {
				obs[i] = "None"
			}
		}
		return fmt.Sprintf("mkPC %s\n  %s\n  %s", probeCoq(c.In), coqfmt.List(evs), coqfmt.List(obs))
	default:
		pol := map[string]string{"no": "PolNo", "always": "PolAlways", "on_failure": "PolOnFailure"}[c.Cfg.Policy]
		cfg := fmt.Sprintf("(mkCfg %s %s %s %s %s %s true)", pol, coqfmt.Z(c.Cfg.Max), coqfmt.Bool(c.Cfg.Daemon),
			coqfmt.Bool(c.Cfg.Ready), coqfmt.Bool(c.Cfg.Live), coqfmt.Z(c.Cfg.StopCode))
		var ops, obs []string
		for _, o := range c.Ops {
			if !o.Delivered {
				continue
			}
			switch o.K {
			case "RR":
				ops = append(ops, fmt.Sprintf("RR %s %s", coqfmt.Bool(o.Ok), coqfmt.Bool(o.Fatal)))
			case "LR":
				ops = append(ops, fmt.Sprintf("LR %s %s", coqfmt.Bool(o.Ok), coqfmt.Bool(o.Fatal)))
			case "EX":
				ops = append(ops, "EX "+coqfmt.Z(o.Code))
			default:
				ops = append(ops, "STOP")
			}
		}
		for _, o := range c.Obs {
			obs = append(obs, obsCoq(o))
		}
		o0 := ObsJ{Status: "?"}
		if c.Obs0 != nil {
			o0 = *c.Obs0
		}
		return fmt.Sprintf("mkHC %s %s\n  %s\n  %s", cfg, obsCoq(o0), coqfmt.List(ops), coqfmt.List(obs))
	}
}

func writeList(sb *strings.Builder, name, typ string, cs []*Case) {
	fmt.Fprintf(sb, "Definition %s : list %s := [\n", name, typ)
	for i, c := range cs {
		if i > 0 {
			sb.WriteString(";\n")
		}
		sb.WriteString(caseCoq(c))
	}
	sb.WriteString("\n].\n")
}

// ------------------------------------------------------------------------------------------ main
func main() {
	seed := flag.Int64("seed", 1, "PRNG seed")
	tier := flag.String("tier", "quick", "quick | thorough")
	out := flag.String("out", ".", "output directory")
	replay := flag.String("replay", "", "re-run the cases of this JSON file instead of generating")
	corpus := flag.String("corpus", "", "directory with corpus cases (*.json) that run first")
	parts := flag.String("parts", "vph", "which parts to generate")
	shard := flag.Int("shard", 3000, "validate cases per generated .v file")
	slow := flag.Bool("slow", false, "part h: sequential, long settle windows (used to confirm a disagreement)")
	flag.Parse()
	zerolog.SetGlobalLevel(zerolog.Disabled)

	tmp, err := os.MkdirTemp("", "c10-")
	if err != nil {
		panic(err)
	}
	defer os.RemoveAll(tmp)

	var cases []*Case
	addFile := func(p string) {
		data, err := os.ReadFile(p)
		if err != nil {
			fmt.Fprintln(os.Stderr, err)
			os.Exit(2)
		}
		var cs []*Case
		if err := json.Unmarshal(data, &cs); err != nil {
			fmt.Fprintln(os.Stderr, p, err)
			os.Exit(2)
		}
		for _, c := range cs {
			if c == nil {
				continue
			}
			// keep inputs only
			n := &Case{Part: c.Part, Kind: c.Kind, Via: c.Via, In: c.In, Target: c.Target, Cfg: c.Cfg}
			if c.Part == "v" && (n.Via == "" || n.Via == "yaml-error") {
				n.Via = map[string]string{"": "direct", "yaml-error": "yaml"}[n.Via]
			}
			if c.Part == "p" {
				// the script: recorded events, without results that were only observed after a stop
				n.Evs = c.Evs
			}
			for _, o := range c.Ops {
				n.Ops = append(n.Ops, OpJ{K: o.K, Ok: o.Ok, Fatal: o.Fatal, Code: o.Code, ExtraMs: o.ExtraMs})
			}
			cases = append(cases, n)
		}
	}
	if *replay != "" {
		addFile(*replay)
	} else {
		if *corpus != "" {
			files, _ := filepath.Glob(filepath.Join(*corpus, "*.json"))
			sort.Strings(files)
			for _, f := range files {
				addFile(f)
			}
		}
		r := rand.New(rand.NewSource(*seed))
		if strings.Contains(*parts, "v") {
			cases = append(cases, genV(r, *tier)...)
		}
		if strings.Contains(*parts, "p") {
			cases = append(cases, genP(r, *tier)...)
		}
		if strings.Contains(*parts, "h") {
			cases = append(cases, genH(r, *tier)...)
		}
	}
	setupFake()

	var vs, ps, hs []*Case
	for _, c := range cases {
		switch c.Part {
		case "v":
			vs = append(vs, c)
		case "p":
			ps = append(ps, c)
		case "h":
			hs = append(hs, c)
		}
	}
	t0 := time.Now()
	for i, c := range vs {
		runV(c, tmp, i)
	}
	tv := time.Since(t0)
	// probers: all in parallel, in real time
	t0 = time.Now()
	var wg sync.WaitGroup
	sem := make(chan struct{}, 48)
	for i, c := range ps {
		wg.Add(1)
		go func(i int, c *Case) {
			defer wg.Done()
			sem <- struct{}{}
			defer func() { <-sem }()
			runP(c, tmp, i)
		}(i, c)
	}
	// integrated prober + process scenarios, in real time as well
	var ints []*IntJ
	var imu sync.Mutex
	if *replay == "" {
		for k, thr := range []int{1, 2, 3} {
			wg.Add(1)
			go func(k, thr int) {
				defer wg.Done()
				r := runIntegrated(tmp, k, thr, time.Duration(4+3*thr)*time.Second)
				imu.Lock()
				ints = append(ints, r)
				imu.Unlock()
			}(k, thr)
		}
	}
	// process scenarios: a pool of workers, meanwhile
	workers := 12
	if *slow {
		workers = 1
	}
	hch := make(chan int)
	var wg2 sync.WaitGroup
	for w := 0; w < workers; w++ {
		wg2.Add(1)
		go func() {
			defer wg2.Done()
			for i := range hch {
				runH(hs[i], tmp, i, *slow)
			}
		}()
	}
	th0 := time.Now()
	for i := range hs {
		hch <- i
	}
	close(hch)
	wg2.Wait()
	th := time.Since(th0)
	wg.Wait()
	tp := time.Since(t0)

	// Gallina: shard 0 holds the prober and process cases and the first slice of the validate cases
	nshards := 1
	if len(vs) > *shard {
		nshards = (len(vs) + *shard - 1) / *shard
	}
	for k := 0; k < nshards; k++ {
		var sb strings.Builder
		sb.WriteString("From Coq Require Import List ZArith NArith Bool.\nFrom PC.Probe Require Import Model Check.\nImport ListNotations.\n")
		lo, hi := k**shard, (k+1)**shard
		if hi > len(vs) {
			hi = len(vs)
		}
		if lo > hi {
			lo = hi
		}
		writeList(&sb, "vcases", "vcase", vs[lo:hi])
		if k == 0 {
			writeList(&sb, "pcases", "pcase", ps)
			writeList(&sb, "hcases", "hcase", hs)
		} else {
			writeList(&sb, "pcases", "pcase", nil)
			writeList(&sb, "hcases", "hcase", nil)
		}
		sb.WriteString("Open Scope nat_scope.\n")
		for _, x := range []string{"v", "p", "h"} {
			fmt.Fprintf(&sb, "Definition r_bad_model_%s := Eval vm_compute in bad_model_%s %scases.\nPrint r_bad_model_%s.\n", x, x, x, x)
			fmt.Fprintf(&sb, "Definition r_bad_monitor_%s := Eval vm_compute in bad_monitor_%s %scases.\nPrint r_bad_monitor_%s.\n", x, x, x, x)
		}
		sb.WriteString("Definition r_clauses_h := Eval vm_compute in clauses_h hcases.\nPrint r_clauses_h.\n")
		if err := os.WriteFile(filepath.Join(*out, fmt.Sprintf("cases_C10_%d.v", k)), []byte(sb.String()), 0o644); err != nil {
			panic(err)
		}
	}
	all := map[string][]*Case{"v": vs, "p": ps, "h": hs}
	js, _ := json.Marshal(all)
	if err := os.WriteFile(filepath.Join(*out, "cases_C10.json"), js, 0o644); err != nil {
		panic(err)
	}
	stats := map[string]interface{}{"shards": nshards, "shard_size": *shard, "v_cases": len(vs), "p_cases": len(ps), "h_cases": len(hs),
		"v_ms": tv.Milliseconds(), "p_ms": tp.Milliseconds(), "h_ms": th.Milliseconds()}
	kinds := map[string]int{}
	for _, c := range cases {
		kinds[c.Part+":"+c.Kind]++
		if c.Part == "v" && c.Via != "direct" {
			kinds["v:via-"+c.Via]++
		}
	}
	nres, ncb, nfatal := 0, 0, 0
	for _, c := range ps {
		for i, e := range c.Evs {
			if e == "S" || e == "F" {
				nres++
				if len(c.PObs[i]) == 2 {
					ncb++
					if c.PObs[i][1] {
						nfatal++
					}
				}
			}
		}
	}
	nops, ndel := 0, 0
	opk := map[string]int{}
	for _, c := range hs {
		for _, o := range c.Ops {
			nops++
			if o.Delivered {
				ndel++
				k := o.K
				if o.Fatal {
					k += "-fatal"
				}
				opk[k]++
			}
		}
	}
	stats["integrated"] = ints
	stats["kinds"] = kinds
	stats["p_results"], stats["p_callbacks"], stats["p_fatal"] = nres, ncb, nfatal
	stats["h_ops"], stats["h_ops_delivered"], stats["h_delivered_by_kind"] = nops, ndel, opk
	sj, _ := json.Marshal(stats)
	fmt.Println(string(sj))
}
