// c16: correspondence harness for the loader pipeline (property C16).
// Generates process-compose YAML files (structurally: templates are segment lists), loads every file
// N times through loader.Load, projects the loaded project onto the modelled observables and writes
//   <out>/cases_C16.v   (Gallina: file description + the DISTINCT projects observed)
//   <out>/cases_C16.json (the same, for replays)
package main

import (
	"crypto/sha1"
	"encoding/json"
	"flag"
	"fmt"
	"math/rand"
	"os"
	"path/filepath"
	"sort"
	"strings"

	"github.com/f1bonacc1/process-compose/src/command"
	"github.com/f1bonacc1/process-compose/src/health"
	"github.com/f1bonacc1/process-compose/src/loader"
	"github.com/f1bonacc1/process-compose/src/types"
	"github.com/rs/zerolog"
)

// ---------------------------------------------------------------------------------- file description
type Seg struct {
	L string `json:"l,omitempty"` // literal text
	V string `json:"v,omitempty"` // {{.V}}
}
type Tpl []Seg

func (t Tpl) Text() string {
	var sb strings.Builder
	for _, s := range t {
		if s.V != "" {
			sb.WriteString("{{." + s.V + "}}")
		} else {
			sb.WriteString(s.L)
		}
	}
	return sb.String()
}

type KV struct {
	K string `json:"k"`
	S string `json:"s,omitempty"` // string value
	I *int   `json:"i,omitempty"` // or int value
	B *bool  `json:"b,omitempty"` // or bool value
}

func (kv KV) Printed() string {
	if kv.I != nil {
		return fmt.Sprint(*kv.I)
	}
	if kv.B != nil {
		return fmt.Sprint(*kv.B)
	}
	return kv.S
}

type SExec struct {
	Cmd Tpl    `json:"cmd"`
	Wd  string `json:"wd,omitempty"`
}
type SHttp struct {
	Host, Path, Scheme, Port Tpl
}
type SProbe struct {
	Exec                                *SExec `json:"exec,omitempty"`
	Http                                *SHttp `json:"http,omitempty"`
	Delay, Period, Timeout, Succ, Fail int
}
type SProc struct {
	Key       string   `json:"key"`
	Namespace string   `json:"namespace,omitempty"`
	Replicas  int      `json:"replicas"`
	LT        int      `json:"launch_timeout"`
	Command   Tpl      `json:"command"`
	Entry     []string `json:"entrypoint,omitempty"`
	Wd        Tpl      `json:"wd,omitempty"`
	Log       Tpl      `json:"log,omitempty"`
	Desc      Tpl      `json:"desc,omitempty"`
	Vars      []KV     `json:"vars,omitempty"`
	Elev      bool     `json:"elev,omitempty"`
	Ready     *SProbe  `json:"ready,omitempty"`
	Live      *SProbe  `json:"live,omitempty"`
}
type Shell struct{ Cmd, Arg, ECmd, EArg string }

// ------------------------------------------------------------------------------------- observations
type OExec struct{ Cmd, Wd string }
type OHttp struct {
	Host, Path, Scheme, Port string
	Num                      int
}
type OProbe struct {
	Exec                                *OExec
	Http                                *OHttp
	Delay, Period, Timeout, Succ, Fail int
}
type OProc struct {
	Key                                        string
	Name, Namespace                            string
	Replicas, LT                               int
	Command                                    string
	Entry                                      []string
	Wd, Log, Desc                              string
	Vars                                       [][2]string
	Elev                                       bool
	Ready, Live                                *OProbe
	Num                                        int
	RName, Exe                                 string
	Args                                       []string
	Orig                                       string `json:"orig,omitempty"` // hash of OriginalConfig: compared between loads only
}
type Obs struct {
	Shell Shell
	Procs []OProc
	Err   string `json:"err,omitempty"`
}

type Case struct {
	Kind     string  `json:"kind"`
	GVars    []KV    `json:"gvars,omitempty"`
	Shell    *Shell  `json:"shell,omitempty"`
	Tui      bool    `json:"tui,omitempty"`
	Procs    []SProc `json:"procs"`
	NLoads   int     `json:"nloads"`
	Yaml     string  `json:"yaml"`
	Dflt     Shell   `json:"dflt"`
	Obs      []Obs   `json:"obs"`       // distinct observations (first occurrence order)
	ObsCount []int   `json:"obs_count"` // how many loads gave each
	Panic    string  `json:"panic,omitempty"`
}

// -------------------------------------------------------------------------------------------- YAML
func q(s string) string {
	var sb strings.Builder
	sb.WriteByte('"')
	for i := 0; i < len(s); i++ {
		switch c := s[i]; c {
		case '"':
			sb.WriteString(`\"`)
		case '\\':
			sb.WriteString(`\\`)
		case '\t':
			sb.WriteString(`\t`)
		case '\n':
			sb.WriteString(`\n`)
		default:
			sb.WriteByte(c)
		}
	}
	sb.WriteByte('"')
	return sb.String()
}

func writeVars(sb *strings.Builder, ind string, vars []KV) {
	if len(vars) == 0 {
		return
	}
	sb.WriteString(ind + "vars:\n")
	for _, kv := range vars {
		v := q(kv.S)
		if kv.I != nil {
			v = fmt.Sprint(*kv.I)
		} else if kv.B != nil {
			v = fmt.Sprint(*kv.B)
		}
		sb.WriteString(ind + "  " + q(kv.K) + ": " + v + "\n")
	}
}

func writeProbe(sb *strings.Builder, key string, p *SProbe) {
	if p == nil {
		return
	}
	ind := "    "
	sb.WriteString(ind + key + ":\n")
	ind += "  "
	empty := true
	if p.Exec != nil {
		sb.WriteString(ind + "exec:\n")
		sb.WriteString(ind + "  command: " + q(p.Exec.Cmd.Text()) + "\n")
		if p.Exec.Wd != "" {
			sb.WriteString(ind + "  working_dir: " + q(p.Exec.Wd) + "\n")
		}
		empty = false
	}
	if p.Http != nil {
		sb.WriteString(ind + "http_get:\n")
		sb.WriteString(ind + "  host: " + q(p.Http.Host.Text()) + "\n")
		sb.WriteString(ind + "  path: " + q(p.Http.Path.Text()) + "\n")
		sb.WriteString(ind + "  scheme: " + q(p.Http.Scheme.Text()) + "\n")
		sb.WriteString(ind + "  port: " + q(p.Http.Port.Text()) + "\n")
		empty = false
	}
	for _, f := range []struct {
		k string
		v int
	}{{"initial_delay_seconds", p.Delay}, {"period_seconds", p.Period}, {"timeout_seconds", p.Timeout},
		{"success_threshold", p.Succ}, {"failure_threshold", p.Fail}} {
		if f.v != 0 || empty {
			sb.WriteString(fmt.Sprintf("%s%s: %d\n", ind, f.k, f.v))
			empty = false
		}
	}
}

func (c *Case) MakeYaml(r *rand.Rand) string {
	var sb strings.Builder
	sb.WriteString("version: \"0.5\"\n")
	if c.Tui {
		sb.WriteString("is_tui_disabled: true\n")
	}
	writeVars(&sb, "", c.GVars)
	if c.Shell != nil {
		sb.WriteString("shell:\n")
		sb.WriteString("  shell_command: " + q(c.Shell.Cmd) + "\n")
		sb.WriteString("  shell_argument: " + q(c.Shell.Arg) + "\n")
		if c.Shell.ECmd != "" {
			sb.WriteString("  elevated_shell_command: " + q(c.Shell.ECmd) + "\n")
		}
		if c.Shell.EArg != "" {
			sb.WriteString("  elevated_shell_argument: " + q(c.Shell.EArg) + "\n")
		}
	}
	sb.WriteString("processes:\n")
	idx := make([]int, len(c.Procs))
	for i := range idx {
		idx[i] = i
	}
	if r != nil { // the order of the keys in the file must not matter
		r.Shuffle(len(idx), func(i, j int) { idx[i], idx[j] = idx[j], idx[i] })
	}
	for _, i := range idx {
		p := c.Procs[i]
		sb.WriteString("  " + q(p.Key) + ":\n")
		sb.WriteString("    command: " + q(p.Command.Text()) + "\n")
		if len(p.Entry) > 0 {
			sb.WriteString("    entrypoint:\n")
			for _, e := range p.Entry {
				sb.WriteString("      - " + q(e) + "\n")
			}
		}
		if p.Namespace != "" {
			sb.WriteString("    namespace: " + q(p.Namespace) + "\n")
		}
		if p.Replicas != 0 {
			sb.WriteString(fmt.Sprintf("    replicas: %d\n", p.Replicas))
		}
		if p.LT != 0 {
			sb.WriteString(fmt.Sprintf("    launch_timeout_seconds: %d\n", p.LT))
		}
		if len(p.Wd) > 0 {
			sb.WriteString("    working_dir: " + q(p.Wd.Text()) + "\n")
		}
		if len(p.Log) > 0 {
			sb.WriteString("    log_location: " + q(p.Log.Text()) + "\n")
		}
		if len(p.Desc) > 0 {
			sb.WriteString("    description: " + q(p.Desc.Text()) + "\n")
		}
		if p.Elev {
			sb.WriteString("    is_elevated: true\n")
		}
		writeVars(&sb, "    ", p.Vars)
		writeProbe(&sb, "readiness_probe", p.Ready)
		writeProbe(&sb, "liveness_probe", p.Live)
	}
	return sb.String()
}

// -------------------------------------------------------------------------------------- projection
func projProbe(p *health.Probe) *OProbe {
	if p == nil {
		return nil
	}
	o := &OProbe{Delay: p.InitialDelay, Period: p.PeriodSeconds, Timeout: p.TimeoutSeconds,
		Succ: p.SuccessThreshold, Fail: p.FailureThreshold}
	if p.Exec != nil {
		o.Exec = &OExec{p.Exec.Command, p.Exec.WorkingDir}
	}
	if p.HttpGet != nil {
		o.Http = &OHttp{p.HttpGet.Host, p.HttpGet.Path, p.HttpGet.Scheme, p.HttpGet.Port, p.HttpGet.NumPort}
	}
	return o
}

func project(prj *types.Project) Obs {
	var o Obs
	if prj.ShellConfig != nil {
		o.Shell = Shell{prj.ShellConfig.ShellCommand, prj.ShellConfig.ShellArgument,
			prj.ShellConfig.ElevatedShellCmd, prj.ShellConfig.ElevatedShellArg}
	}
	keys := make([]string, 0, len(prj.Processes))
	for k := range prj.Processes {
		keys = append(keys, k)
	}
	sort.Strings(keys)
	for _, k := range keys {
		p := prj.Processes[k]
		op := OProc{Key: k, Name: p.Name, Namespace: p.Namespace, Replicas: p.Replicas, LT: p.LaunchTimeout,
			Command: p.Command, Entry: append([]string{}, p.Entrypoint...), Wd: p.WorkingDir, Log: p.LogLocation,
			Desc: p.Description, Elev: p.IsElevated, Ready: projProbe(p.ReadinessProbe), Live: projProbe(p.LivenessProbe),
			Num: p.ReplicaNum, RName: p.ReplicaName, Exe: p.Executable, Args: append([]string{}, p.Args...),
			Orig: fmt.Sprintf("%x", sha1.Sum([]byte(p.OriginalConfig)))[:12]}
		vk := make([]string, 0, len(p.Vars))
		for n := range p.Vars {
			vk = append(vk, n)
		}
		sort.Strings(vk)
		for _, n := range vk {
			op.Vars = append(op.Vars, [2]string{n, fmt.Sprint(p.Vars[n])})
		}
		o.Procs = append(o.Procs, op)
	}
	return o
}

func loadOnce(file string) (o Obs, pmsg string) {
	defer func() {
		if r := recover(); r != nil {
			pmsg = fmt.Sprint(r)
		}
	}()
	opts := &loader.LoaderOptions{FileNames: []string{file}, IsInternalLoader: true}
	opts.DisableDotenv(true)
	prj, err := loader.Load(opts)
	if prj != nil {
		o = project(prj)
	}
	if err != nil {
		o.Err = err.Error()
	}
	return o, ""
}

const maxDistinct = 2

func runCase(c *Case, dir string, idx int, r *rand.Rand) {
	d := command.DefaultShellConfig()
	c.Dflt = Shell{d.ShellCommand, d.ShellArgument, d.ElevatedShellCmd, d.ElevatedShellArg}
	c.Yaml = c.MakeYaml(r)
	file := filepath.Join(dir, fmt.Sprintf("case%04d.yaml", idx))
	if err := os.WriteFile(file, []byte(c.Yaml), 0o644); err != nil {
		panic(err)
	}
	c.Obs, c.ObsCount, c.Panic = nil, nil, ""
	seen := map[string]int{}
	for i := 0; i < c.NLoads; i++ {
		o, pm := loadOnce(file)
		if pm != "" {
			c.Panic = pm
		}
		js, _ := json.Marshal(o)
		if j, ok := seen[string(js)]; ok {
			c.ObsCount[j]++
			continue
		}
		seen[string(js)] = len(c.Obs)
		if len(c.Obs) >= maxDistinct { // keep the file small: the first few distinct projects are enough
			seen[string(js)] = maxDistinct - 1
			c.ObsCount[maxDistinct-1]++
			continue
		}
		c.Obs = append(c.Obs, o)
		c.ObsCount = append(c.ObsCount, 1)
	}
	os.Remove(file)
}

// --------------------------------------------------------------------------------------- generator
var litAlphabet = []string{"a", "b", "run", "x", "/", "/srv", "-", "_", ".", " ", "  ", ":", "=", "7", "80", "0",
	"log", ".log", "echo ", "check ", "--port=", "%", "@", "#", "~", "+", ",", ";", "(", ")", "[", "]", "<", ">", "|", "&",
	"'", "!", "?", "*", "^", "}", "}}", "\"", "\\", "\t"}

var globalNames = []string{"G", "HOST", "PORT", "BASE", "SHARED", "PC_REPLICA_NUM"}
var procNames = []string{"V", "PORT", "SHARED", "LOCAL_1", "_u", "PC_REPLICA_NUM", "Zz9"}
var missingNames = []string{"MISSING", "nope_2"}

func pick(r *rand.Rand, l []string) string { return l[r.Intn(len(l))] }

func genValue(r *rand.Rand, k string) KV {
	switch r.Intn(5) {
	case 0:
		i := []int{0, 1, 7, 80, 8080, -3, 65535, 65536}[r.Intn(8)]
		return KV{K: k, I: &i}
	case 1:
		b := r.Intn(2) == 0
		return KV{K: k, B: &b}
	default:
		vals := []string{"glob", "v", "local host", "10.0.0.", "808", "", " ", "a/b", "x=y", "<no value>", "q\"q", "1", "svc-"}
		return KV{K: k, S: vals[r.Intn(len(vals))]}
	}
}

func genVars(r *rand.Rand, names []string, max int) []KV {
	n := r.Intn(max + 1)
	perm := r.Perm(len(names))
	var out []KV
	for i := 0; i < n && i < len(perm); i++ {
		out = append(out, genValue(r, names[perm[i]]))
	}
	return out
}

func genTpl(r *rand.Rand, rich bool) Tpl {
	n := r.Intn(5)
	if rich && n == 0 {
		n = 1 + r.Intn(3)
	}
	var t Tpl
	for i := 0; i < n; i++ {
		switch k := r.Intn(10); {
		case k < 4:
			t = append(t, Seg{L: pick(r, litAlphabet)})
		case k < 7:
			t = append(t, Seg{V: "PC_REPLICA_NUM"})
		case k < 8:
			t = append(t, Seg{V: pick(r, globalNames)})
		case k < 9:
			t = append(t, Seg{V: pick(r, procNames)})
		default:
			t = append(t, Seg{V: pick(r, missingNames)})
		}
	}
	return t
}

func genPort(r *rand.Rand) Tpl {
	switch r.Intn(8) {
	case 0:
		return Tpl{{L: "808"}, {V: "PC_REPLICA_NUM"}}
	case 1:
		return Tpl{{V: "PORT"}}
	case 2:
		return Tpl{{L: pick(r, []string{"+80", "-5", "99999", "abc", "0", "65535", "65536", "8 0", "00080", "+", "-", "9223372036854775808"})}}
	case 3:
		return nil
	case 4:
		return Tpl{{V: "PORT"}, {V: "PC_REPLICA_NUM"}}
	default:
		return genTpl(r, false)
	}
}

func genProbe(r *rand.Rand) *SProbe {
	k := r.Intn(10)
	if k < 3 {
		return nil
	}
	num := func() int { return []int{0, 0, 0, 1, 2, 5, -1, 30}[r.Intn(8)] }
	p := &SProbe{Delay: num(), Period: num(), Timeout: num(), Succ: num(), Fail: num()}
	if k < 6 || k == 9 {
		p.Exec = &SExec{Cmd: genTpl(r, true)}
		if r.Intn(3) == 0 {
			p.Exec.Wd = pick(r, []string{"/probe", "rel/dir", "/p{{.PC_REPLICA_NUM}}"})
		}
	}
	if k >= 6 && k <= 9 {
		if k == 9 && r.Intn(2) == 0 {
			return p // exec only
		}
		p.Http = &SHttp{Host: genTpl(r, false), Path: genTpl(r, false), Scheme: nil, Port: genPort(r)}
		if r.Intn(3) == 0 {
			p.Http.Scheme = Tpl{{L: pick(r, []string{"https", "http", " ", "ht"})}, {V: pick(r, []string{"G", "MISSING", "PC_REPLICA_NUM"})}}[:1+r.Intn(2)]
		}
	}
	return p
}

var replicaChoices = []int{0, 1, 2, 3, 10, 12, 2, 3, 1, 2}

func genProc(r *rand.Rand, key string) SProc {
	p := SProc{Key: key}
	p.Replicas = replicaChoices[r.Intn(len(replicaChoices))]
	switch r.Intn(40) {
	case 0:
		p.Replicas = -1 - r.Intn(3)
	case 1:
		p.Replicas = 100 + r.Intn(3)
	case 2:
		p.Replicas = 9 + r.Intn(3)
	}
	p.LT = []int{0, 0, 0, 1, 7, -3, 5, 120}[r.Intn(8)]
	if r.Intn(3) == 0 {
		p.Namespace = pick(r, []string{"ns1", "default", "my ns", "x"})
	}
	p.Command = genTpl(r, true)
	if r.Intn(6) == 0 {
		p.Command = nil
	}
	if r.Intn(5) == 0 {
		p.Entry = [][]string{{"/bin/echo"}, {"/bin/echo", "a b", "{{.PC_REPLICA_NUM}}"}, {"sleep", "1"}}[r.Intn(3)]
	}
	p.Wd = genTpl(r, false)
	p.Log = genTpl(r, false)
	p.Desc = genTpl(r, false)
	p.Vars = genVars(r, procNames, 4)
	p.Elev = r.Intn(6) == 0
	p.Ready = genProbe(r)
	p.Live = genProbe(r)
	return p
}

func genRandom(r *rand.Rand, nloads int) *Case {
	c := &Case{Kind: "random", NLoads: nloads}
	c.GVars = genVars(r, globalNames, 4)
	c.Tui = r.Intn(5) == 0
	switch r.Intn(5) {
	case 0:
		c.Shell = &Shell{Cmd: "sh", Arg: "-c"}
	case 1:
		c.Shell = &Shell{Cmd: "/bin/sh", Arg: "-ec", ECmd: "doas", EArg: "-n"}
	case 2:
		c.Shell = &Shell{Cmd: "bash", Arg: "-c", ECmd: "doas"}
	}
	names := []string{"a", "web", "db-1", "w", "a-0", "svc_x", "a-1", "p2", "web-00", "A.b"}
	perm := r.Perm(len(names))
	n := 1 + r.Intn(4)
	for i := 0; i < n; i++ {
		c.Procs = append(c.Procs, genProc(r, names[perm[i]]))
	}
	return c
}

func iptr(i int) *int { return &i }

// hand-made cases that always run (after the corpus)
func directed(nloads int) []*Case {
	num := Tpl{{V: "PC_REPLICA_NUM"}}
	f4 := &Case{Kind: "directed-f4-shared-probe-and-vars", NLoads: nloads,
		Procs: []SProc{{Key: "a", Replicas: 2, Command: Tpl{{L: "run "}, {V: "PC_REPLICA_NUM"}, {L: " "}, {V: "V"}},
			Vars:  []KV{{K: "V", I: iptr(7)}},
			Ready: &SProbe{Exec: &SExec{Cmd: Tpl{{L: "check "}, {V: "PC_REPLICA_NUM"}}}}}}}
	f4http := &Case{Kind: "directed-f4-http-probe", NLoads: nloads,
		GVars: []KV{{K: "HOST", S: "10.0.0."}},
		Procs: []SProc{{Key: "web", Replicas: 3, Command: Tpl{{L: "serve"}},
			Live: &SProbe{Http: &SHttp{Host: Tpl{{V: "HOST"}, {V: "PC_REPLICA_NUM"}}, Path: Tpl{{L: "/h/"}, {V: "PC_REPLICA_NUM"}},
				Port: Tpl{{L: "808"}, {V: "PC_REPLICA_NUM"}}}}}}}
	neg := &Case{Kind: "directed-f34-negative-replicas", NLoads: nloads,
		Procs: []SProc{{Key: "neg", Replicas: -2, Command: Tpl{{L: "x "}, {V: "PC_REPLICA_NUM"}}}}}
	clash := &Case{Kind: "directed-name-clash", NLoads: nloads,
		Procs: []SProc{{Key: "a", Replicas: 2, Command: Tpl{{L: "multi "}, {V: "PC_REPLICA_NUM"}}},
			{Key: "a-0", Replicas: 1, Command: Tpl{{L: "single"}}}, {Key: "a-1-x", Command: Tpl{{L: "other"}}}}}
	prec := &Case{Kind: "directed-precedence", NLoads: nloads,
		GVars: []KV{{K: "SHARED", S: "global"}, {K: "G", S: "g"}, {K: "PC_REPLICA_NUM", S: "global-num"}},
		Procs: []SProc{{Key: "p", Replicas: 2, Command: Tpl{{V: "SHARED"}, {L: "/"}, {V: "G"}, {L: "/"}, {V: "PC_REPLICA_NUM"}, {L: "/"}, {V: "MISSING"}},
			Vars: []KV{{K: "SHARED", S: "local"}, {K: "PC_REPLICA_NUM", S: "local-num"}},
			Wd:   Tpl{{L: "/w/"}, {V: "PC_REPLICA_NUM"}}, Log: Tpl{{L: "/l/"}, {V: "PC_REPLICA_NUM"}, {L: ".log"}},
			Desc: Tpl{{L: "replica "}, {V: "PC_REPLICA_NUM"}},
			Ready: &SProbe{Exec: &SExec{Cmd: num}},
			Live:  &SProbe{Exec: &SExec{Cmd: num, Wd: "/own"}, Http: &SHttp{Host: num, Path: num, Port: num}}},
			{Key: "single", Command: Tpl{{L: "a{b}c }} {"}}, Desc: num}}}
	var widths []*Case
	for _, n := range []int{9, 10, 11, 12, 99, 100, 101} {
		widths = append(widths, &Case{Kind: fmt.Sprintf("directed-width-%d", n), NLoads: 3,
			Procs: []SProc{{Key: "w", Replicas: n, Command: num}}})
	}
	elev := &Case{Kind: "directed-exec-args", NLoads: nloads, Tui: false,
		Shell: &Shell{Cmd: "sh", Arg: "-c", ECmd: "doas"},
		Procs: []SProc{{Key: "e1", Elev: true, Command: Tpl{{L: "id "}, {V: "PC_REPLICA_NUM"}}, Replicas: 2},
			{Key: "e2", Elev: true, Entry: []string{"/bin/echo", "x"}},
			{Key: "e3", Entry: []string{"/bin/echo", "y", "z"}, Replicas: 2},
			{Key: "e4"}}}
	return append([]*Case{f4, f4http, neg, clash, prec, elev}, widths...)
}

// ----------------------------------------------------------------------------------------- Gallina
func cs(s string) string { return "(b \"" + strings.ReplaceAll(s, "\"", "\"\"") + "\")" }
func clist(items []string) string {
	if len(items) == 0 {
		return "[]"
	}
	return "[" + strings.Join(items, "; ") + "]"
}
func cstrs(l []string) string {
	items := make([]string, len(l))
	for i, s := range l {
		items[i] = cs(s)
	}
	return clist(items)
}
func cz(v int) string {
	if v < 0 {
		return fmt.Sprintf("(%d)%%Z", v)
	}
	return fmt.Sprintf("%d%%Z", v)
}
func cbool(v bool) string {
	if v {
		return "true"
	}
	return "false"
}
func ctpl(t Tpl) string {
	items := make([]string, len(t))
	for i, s := range t {
		if s.V != "" {
			items[i] = "SVar " + cs(s.V)
		} else {
			items[i] = "SLit " + cs(s.L)
		}
	}
	return clist(items)
}
func cvars(v []KV) string {
	items := make([]string, len(v))
	for i, kv := range v {
		items[i] = "(" + cs(kv.K) + ", " + cs(kv.Printed()) + ")"
	}
	return clist(items)
}
func cshell(s Shell) string {
	return "(mkSh " + cs(s.Cmd) + " " + cs(s.Arg) + " " + cs(s.ECmd) + " " + cs(s.EArg) + ")"
}
func csprobe(p *SProbe) string {
	if p == nil {
		return "None"
	}
	ex, ht := "None", "None"
	if p.Exec != nil {
		ex = "(Some (" + ctpl(p.Exec.Cmd) + ", " + cs(p.Exec.Wd) + "))"
	}
	if p.Http != nil {
		ht = "(Some (" + ctpl(p.Http.Host) + ", " + ctpl(p.Http.Path) + ", " + ctpl(p.Http.Scheme) + ", " + ctpl(p.Http.Port) + "))"
	}
	return fmt.Sprintf("(Some (mkSP %s %s %s %s %s %s %s))", ex, ht, cz(p.Delay), cz(p.Period), cz(p.Timeout), cz(p.Succ), cz(p.Fail))
}
func csproc(p SProc) string {
	return fmt.Sprintf("(%s, mkSProc %s %s %s %s %s %s %s %s %s %s %s %s)", cs(p.Key), cs(p.Namespace), cz(p.Replicas), cz(p.LT),
		ctpl(p.Command), cstrs(p.Entry), ctpl(p.Wd), ctpl(p.Log), ctpl(p.Desc), cvars(p.Vars), cbool(p.Elev),
		csprobe(p.Ready), csprobe(p.Live))
}
func coprobe(p *OProbe) string {
	if p == nil {
		return "None"
	}
	ex, ht := "None", "None"
	if p.Exec != nil {
		ex = "(Some (mkE " + cs(p.Exec.Cmd) + " " + cs(p.Exec.Wd) + "))"
	}
	if p.Http != nil {
		ht = fmt.Sprintf("(Some (mkH %s %s %s %s %s))", cs(p.Http.Host), cs(p.Http.Path), cs(p.Http.Scheme), cs(p.Http.Port), cz(p.Http.Num))
	}
	return fmt.Sprintf("(Some (mkP %s %s %s %s %s %s %s))", ex, ht, cz(p.Delay), cz(p.Period), cz(p.Timeout), cz(p.Succ), cz(p.Fail))
}
func coproc(p OProc) string {
	vs := make([]string, len(p.Vars))
	for i, kv := range p.Vars {
		vs[i] = "(" + cs(kv[0]) + ", " + cs(kv[1]) + ")"
	}
	num := p.Num
	if num < 0 {
		num = 0
	}
	return fmt.Sprintf("(%s, mkProc %s %s %s %s %s %s %s %s %s %s %s %s %s %d%%nat %s %s %s)", cs(p.Key), cs(p.Name), cs(p.Namespace),
		cz(p.Replicas), cz(p.LT), cs(p.Command), cstrs(p.Entry), cs(p.Wd), cs(p.Log), cs(p.Desc), clist(vs), cbool(p.Elev),
		coprobe(p.Ready), coprobe(p.Live), num, cs(p.RName), cs(p.Exe), cstrs(p.Args))
}
func caseCoq(c *Case) string {
	sh := "None"
	if c.Shell != nil {
		sh = "(Some " + cshell(*c.Shell) + ")"
	}
	procs := make([]string, len(c.Procs))
	for i, p := range c.Procs {
		procs[i] = csproc(p)
	}
	obs := make([]string, len(c.Obs))
	for i, o := range c.Obs {
		ps := make([]string, len(o.Procs))
		for j, p := range o.Procs {
			ps[j] = coproc(p)
		}
		obs[i] = "(" + cshell(o.Shell) + ",\n    " + clist(ps) + ")"
	}
	return fmt.Sprintf("mkCase %s %s %s %s\n  %s\n  %d%%nat\n  %s", cvars(c.GVars), sh, cshell(c.Dflt), cbool(c.Tui),
		clist(procs), c.NLoads, clist(obs))
}

func main() {
	seed := flag.Int64("seed", 1, "PRNG seed")
	nrand := flag.Int("n", 60, "number of random cases")
	nloads := flag.Int("loads", 20, "loads per file")
	out := flag.String("out", ".", "output directory")
	replay := flag.String("replay", "", "re-run the cases of this JSON file instead of generating")
	corpus := flag.String("corpus", "", "directory with corpus cases (*.json) that run first")
	flag.Parse()
	zerolog.SetGlobalLevel(zerolog.Disabled)

	var cases []*Case
	addFile := func(p string) {
		data, err := os.ReadFile(p)
		if err != nil {
			fmt.Fprintln(os.Stderr, err)
			os.Exit(2)
		}
		var cl []*Case
		if err := json.Unmarshal(data, &cl); err != nil {
			fmt.Fprintln(os.Stderr, p, err)
			os.Exit(2)
		}
		for _, c := range cl {
			if c.NLoads < 2 {
				c.NLoads = *nloads
			}
			cases = append(cases, &Case{Kind: c.Kind, GVars: c.GVars, Shell: c.Shell, Tui: c.Tui, Procs: c.Procs, NLoads: c.NLoads})
		}
	}
	r := rand.New(rand.NewSource(*seed))
	if *replay != "" {
		addFile(*replay)
	} else {
		if *corpus != "" {
			files, _ := filepath.Glob(filepath.Join(*corpus, "*.json"))
			sort.Strings(files)
			for _, f := range files {
				addFile(f)
			}
		}
		cases = append(cases, directed(*nloads)...)
		for i := 0; i < *nrand; i++ {
			cases = append(cases, genRandom(r, *nloads))
		}
	}
	tmp, err := os.MkdirTemp("", "c16-")
	if err != nil {
		panic(err)
	}
	defer os.RemoveAll(tmp)
	// AssignProcessExecutableAndArgs writes a warning to os.Stderr when command and entrypoint are both set
	realStderr := os.Stderr
	if devnull, err := os.OpenFile(os.DevNull, os.O_WRONLY, 0); err == nil {
		os.Stderr = devnull
	}
	shuf := rand.New(rand.NewSource(*seed + 1000003))
	for i, c := range cases {
		runCase(c, tmp, i, shuf)
	}
	os.Stderr = realStderr

	var sb strings.Builder
	sb.WriteString("From Coq Require Import List ZArith NArith String.\nFrom PC.Load Require Import Model Check.\nImport ListNotations.\nOpen Scope string_scope.\n")
	sb.WriteString("Definition cases : list ocase := [\n")
	for i, c := range cases {
		if i > 0 {
			sb.WriteString(";\n")
		}
		sb.WriteString(caseCoq(c))
	}
	sb.WriteString("\n].\n")
	sb.WriteString("Definition r_bad_model := Eval vm_compute in bad_model cases.\nPrint r_bad_model.\n")
	sb.WriteString("Definition r_bad_monitor := Eval vm_compute in bad_monitor cases.\nPrint r_bad_monitor.\n")
	sb.WriteString("Definition r_nondet := Eval vm_compute in nondeterministic cases.\nPrint r_nondet.\n")
	sb.WriteString("Definition r_diag := Eval vm_compute in diags cases.\nPrint r_diag.\n")
	if err := os.WriteFile(filepath.Join(*out, "cases_C16.v"), []byte(sb.String()), 0o644); err != nil {
		panic(err)
	}
	js, _ := json.Marshal(cases)
	if err := os.WriteFile(filepath.Join(*out, "cases_C16.json"), js, 0o644); err != nil {
		panic(err)
	}
	// statistics for the evidence file
	stats := map[string]int{}
	for _, c := range cases {
		stats["cases"]++
		stats["loads"] += c.NLoads
		if len(c.Obs) != 1 {
			stats["cases_with_differing_loads"]++
		}
		if c.Panic != "" {
			stats["cases_with_panic"]++
		}
		for _, o := range c.Obs {
			if o.Err != "" {
				stats["observations_with_load_error"]++
			}
		}
		if len(c.Obs) > 0 {
			stats["replica_records"] += len(c.Obs[0].Procs)
		}
		for _, p := range c.Procs {
			stats["procs"]++
			stats[fmt.Sprintf("replicas_%d", p.Replicas)]++
			for _, pr := range []*SProbe{p.Ready, p.Live} {
				switch {
				case pr == nil:
					stats["probe_none"]++
				case pr.Exec != nil && pr.Http != nil:
					stats["probe_exec_and_http"]++
				case pr.Exec != nil:
					stats["probe_exec"]++
				case pr.Http != nil:
					stats["probe_http"]++
				default:
					stats["probe_empty"]++
				}
			}
			for _, t := range []Tpl{p.Command, p.Wd, p.Log, p.Desc} {
				for _, s := range t {
					if s.V == "PC_REPLICA_NUM" {
						stats["refs_replica_num"]++
					} else if s.V != "" {
						stats["refs_other_vars"]++
					}
				}
			}
			if len(p.Vars) > 0 {
				stats["procs_with_vars"]++
			}
		}
		if len(c.GVars) > 0 {
			stats["cases_with_global_vars"]++
		}
	}
	sj, _ := json.Marshal(stats)
	fmt.Println(string(sj))
}
