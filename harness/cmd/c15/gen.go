package main

import (
	"fmt"
	"math/rand"
)

// value pools: no '$' (environment expansion is property C17's business) and no "{{" (templates: C16)
var anyStrings = []string{
	"a", "b", "x=y", "a=b=c", "=lead", "trail=", " spaced value ", "quo\"te", "it's", "üñí→✓", "k: v", "#hash",
	"- dash", "true", "123", "0", "a\tb", "line1\nline2", "{brace}", "[x]", "*star", "&amp", "!bang", "%pct",
	"@at", "`bt`", "back\\slash", "~", "null", "echo hi && sleep 1", "/usr/bin/env FOO=bar baz", "'single'",
	"\"double\"", "a,b", "?q", "|pipe", ">gt", "key=\"quoted value\"", "日本語",
}
var envKeys = []string{"A", "B", "C", "K1", "LONG_KEY", "a.b", "PATH_X", "ü", "sp ace"}
var envValues = []string{"", "1", "v", "b=c", "x=y=z", "=", "==", " lead", "trail ", "with space", "\"q\"", "'s'", "üñí",
	"a:b", "#c", "http://h:1/p?a=1&b=2", "tab\there", "-", "true", "null", "{}", "[1]"}
var procNames = []string{"p1", "p2", "p3", "web", "db", "w-1", "über", "p.4", "a b", "x=y", "worker_5"}
var varNames = []string{"V1", "V2", "name", "X_Y", "k3"}
var conditions = []string{"process_started", "process_completed", "process_completed_successfully", "process_healthy",
	"process_log_ready", "", "weird cond"}
var relDirs = []string{"sub", "a/b", "dir with space", "x=y", "üdir/ñ", "d.1"}
var absDirs = []string{"/abs", "/var/tmp/x y", "/"}
var ints = []int64{0, 1, 2, 3, 5, 7, 10, 15, 30, 60, 100, 1000, 1001, 65535, -1, -5, 2147483648, 9007199254740993}

func pick(r *rand.Rand, l []string) string { return l[r.Intn(len(l))] }

func genString(r *rand.Rand, class string) string {
	switch class {
	case "wd":
		switch r.Intn(4) {
		case 0:
			return pick(r, absDirs)
		default:
			return pick(r, relDirs)
		}
	case "restart":
		return pick(r, []string{"always", "on_failure", "no", "exit_on_failure", "weird"})
	case "loglevel":
		return pick(r, []string{"info", "debug", "error", "bogus", "trace"})
	case "shell":
		return pick(r, []string{"bash", "sh", "/bin/sh", "no-such-shell"})
	case "port":
		return pick(r, []string{"80", "8080", "0", "99999", "abc", "443"})
	case "nonblank":
		return pick(r, []string{"h", "example.org", "/p?a=b", "https", "x=y", "a b", "üñí"})
	default:
		return pick(r, anyStrings)
	}
}

// zeroP: probability that a mentioned option carries its zero value (the F28 class)
func genScalars(r *rand.Rand, defs []FieldDef, mention, zeroP float64) []SEntry {
	var out []SEntry
	for _, d := range defs {
		if r.Float64() >= mention {
			continue
		}
		zero := r.Float64() < zeroP
		var v Scalar
		switch d.T {
		case "s":
			v = Scalar{T: "s"}
			if !zero {
				v.S = genString(r, d.Gen)
			}
		case "i":
			v = Scalar{T: "i"}
			if !zero {
				if d.Gen == "replicas" {
					v.I = int64(1 + r.Intn(3))
				} else {
					v.I = ints[1+r.Intn(len(ints)-1)]
				}
			}
		default:
			v = Scalar{T: "b", B: !zero}
		}
		out = append(out, SEntry{d.ID, v})
	}
	r.Shuffle(len(out), func(i, j int) { out[i], out[j] = out[j], out[i] })
	return out
}

func genLists(r *rand.Rand, defs []FieldDef, mention float64) []LEntry {
	var out []LEntry
	for _, d := range defs {
		if r.Float64() >= mention {
			continue
		}
		n := r.Intn(4)
		l := []string{}
		for i := 0; i < n; i++ {
			l = append(l, pick(r, anyStrings))
		}
		out = append(out, LEntry{d.ID, l})
	}
	return out
}

func genEnvEntry(r *rand.Rand) string {
	switch r.Intn(12) {
	case 0:
		return pick(r, []string{"NOEQ", "JUSTKEY", "A", "no eq at all"}) // no '=' at all
	case 1:
		return pick(r, []string{"=novalue-key", "", "="})
	default:
		return pick(r, envKeys) + "=" + pick(r, envValues)
	}
}

func genEnv(r *rand.Rand, mention float64) (bool, []string) {
	if r.Float64() >= mention {
		return false, nil
	}
	n := r.Intn(6)
	if r.Intn(8) == 0 {
		n = 0 // `environment: []`
	}
	env := []string{}
	for i := 0; i < n; i++ {
		env = append(env, genEnvEntry(r))
	}
	return true, env
}

func genLeaf(r *rand.Rand, def PtrDef, mention, zeroP float64) *Leaf {
	return &Leaf{Scal: genScalars(r, def.Scal, mention, zeroP)}
}

func genMid(r *rand.Rand, k *MidKind, mention, zeroP float64) *Mid {
	m := &Mid{Scal: genScalars(r, k.Scal, mention, zeroP), Lists: genLists(r, k.Lists, mention)}
	for id := 1; id <= 2; id++ {
		def, ok := k.Ptrs[id]
		if ok && r.Float64() < 0.45 {
			m.Ptrs = append(m.Ptrs, LeafEntry{id, genLeaf(r, def, 0.6, zeroP)})
		}
	}
	return m
}

func genKVMap(r *rand.Rand, keys []string, values []string, depends bool) []KV {
	var out []KV
	for _, k := range keys {
		if r.Intn(3) == 0 {
			v := pick(r, values)
			if depends && r.Intn(6) == 0 {
				v = "\x00"
			}
			out = append(out, KV{k, v})
		}
	}
	return out
}

func genProc(r *rand.Rand, names []string, mention, zeroP float64) *Proc {
	p := &Proc{Scal: genScalars(r, procScalars, mention, zeroP), Lists: genLists(r, procLists, mention)}
	p.HasEnv, p.Env = genEnv(r, 0.55)
	if r.Float64() < 0.4 {
		p.Maps = append(p.Maps, MEntry{mapDependsOn, genKVMap(r, names, conditions, true)})
	}
	if r.Float64() < 0.3 {
		p.Maps = append(p.Maps, MEntry{mapVars, genKVMap(r, varNames, anyStrings, false)})
	}
	for id := 1; id <= 3; id++ {
		if r.Float64() < 0.3 {
			p.Ptrs = append(p.Ptrs, MidEntry{id, genMid(r, procPtrs[id].Kind, 0.5, zeroP)})
		}
	}
	return p
}

// a configuration file; `first` files are fuller, later ones look like overrides
func genProject(r *rand.Rand, names []string, first bool, zeroP float64) *Project {
	mention := 0.22
	if first {
		mention = 0.4
	}
	g := &Project{Scal: genScalars(r, projScalars, mention*0.8, zeroP)}
	g.HasEnv, g.Env = genEnv(r, 0.55)
	if r.Float64() < 0.3 {
		g.Maps = append(g.Maps, MEntry{mapGVars, genKVMap(r, varNames, anyStrings, false)})
	}
	if r.Float64() < 0.25 {
		g.Maps = append(g.Maps, MEntry{mapEnvCmds, genKVMap(r, envKeys[:5], anyStrings, false)})
	}
	if r.Float64() < 0.25 {
		g.Leafs = append(g.Leafs, LeafEntry{1, genLeaf(r, projLeafPtrs[1], 0.6, zeroP)})
	}
	if r.Float64() < 0.25 {
		g.Mids = append(g.Mids, MidEntry{1, genMid(r, &loggerKind, 0.5, zeroP)})
	}
	switch r.Intn(12) {
	case 0: // no `processes` key at all
	case 1:
		g.HasProcs = true // `processes: {}`
	default:
		g.HasProcs = true
		for _, n := range names {
			if r.Float64() < 0.6 {
				g.Procs = append(g.Procs, ProcEntry{n, genProc(r, names, mention, zeroP)})
			}
		}
	}
	return g
}

func genScenario(r *rand.Rand) []*Case {
	// process name universe of this scenario: 2-4 names, so that overlapping and disjoint sets both occur
	perm := r.Perm(len(procNames))
	nn := 2 + r.Intn(3)
	names := make([]string, nn)
	for i := range names {
		names[i] = procNames[perm[i]]
	}
	zeroP := 0.0
	if r.Intn(3) == 0 {
		zeroP = 0.25 // scenarios that mention zero values (finding F28 territory)
	}
	var out []*Case
	switch k := r.Intn(10); {
	case k < 4: // pair: [base], [base, override]
		b := File{Name: "base.yaml", Cfg: genProject(r, names, true, zeroP)}
		o := File{Name: "override.yaml", Cfg: genProject(r, names, false, zeroP)}
		out = append(out, &Case{Kind: "single", Files: []File{b}, Load: []string{b.Name}})
		out = append(out, &Case{Kind: "pair", Files: []File{b, o}, Load: []string{b.Name, o.Name}})
	case k < 6: // chain of 3 or 4
		n := 3 + r.Intn(2)
		var files []File
		var load []string
		for i := 0; i < n; i++ {
			f := File{Name: fmt.Sprintf("f%d.yaml", i), Cfg: genProject(r, names, i == 0, zeroP)}
			files = append(files, f)
			load = append(load, f.Name)
		}
		out = append(out, &Case{Kind: fmt.Sprintf("chain%d", n), Files: files, Load: load})
	case k < 8: // child extends base (base in another directory)
		b := File{Name: pick(r, []string{"basedir/base.yaml", "base.yaml", "x y/deep/base.yaml"}), Cfg: genProject(r, names, true, zeroP)}
		c := File{Name: "child.yaml", Cfg: genProject(r, names, false, zeroP), Extends: b.Name}
		out = append(out, &Case{Kind: "extends", Files: []File{b, c}, Load: []string{c.Name}, Load2: []string{b.Name, c.Name}})
	case k < 9: // child extends mid extends base
		b := File{Name: "lib/base.yaml", Cfg: genProject(r, names, true, zeroP)}
		m := File{Name: "mid/mid.yaml", Cfg: genProject(r, names, false, zeroP), Extends: b.Name}
		c := File{Name: "child.yaml", Cfg: genProject(r, names, false, zeroP), Extends: m.Name}
		out = append(out, &Case{Kind: "extends2", Files: []File{b, m, c}, Load: []string{c.Name}, Load2: []string{b.Name, m.Name, c.Name}})
	default: // [first, child-with-extends]
		f := File{Name: "first.yaml", Cfg: genProject(r, names, true, zeroP)}
		b := File{Name: "lib/base.yaml", Cfg: genProject(r, names, false, zeroP)}
		c := File{Name: "child.yaml", Cfg: genProject(r, names, false, zeroP), Extends: b.Name}
		out = append(out, &Case{Kind: "multi-extends", Files: []File{f, b, c}, Load: []string{f.Name, c.Name}, Load2: []string{f.Name, b.Name, c.Name}})
	}
	return out
}

// ----------------------------------------------------------------------------- directed scenarios
func sS(id int, s string) SEntry { return SEntry{id, Scalar{T: "s", S: s}} }
func sI(id int, i int64) SEntry  { return SEntry{id, Scalar{T: "i", I: i}} }
func sB(id int, b bool) SEntry   { return SEntry{id, Scalar{T: "b", B: b}} }

func directed() []*Case {
	var out []*Case
	// D1 (F2): values with '=' and entries without '=' must survive a merge with a file that has no
	// environment at all, at project and at process level
	b := &Project{HasEnv: true, Env: []string{"GB=x=y", "NOEQ", "Z=1", "A=2", "E="}, HasProcs: true, Procs: []ProcEntry{
		{"p1", &Proc{Scal: []SEntry{sS(3, "c1")}, HasEnv: true, Env: []string{"A=b=c", "K=v", "URL=http://h/?a=1&b=2"}}},
		{"p2", &Proc{Scal: []SEntry{sS(3, "c2")}}}}}
	o := &Project{HasProcs: true, Procs: []ProcEntry{{"p1", &Proc{Scal: []SEntry{sS(10, "descr")}}}}}
	out = append(out, &Case{Kind: "directed:F2-env-frame", Files: []File{{Name: "b.yaml", Cfg: b}, {Name: "o.yaml", Cfg: o}},
		Load: []string{"b.yaml", "o.yaml"}})
	// D2 (F2): the later file overrides one key and adds one; the rest byte for byte
	o2 := &Project{HasEnv: true, Env: []string{"A=new=value", "NEW"}, HasProcs: true, Procs: []ProcEntry{
		{"p1", &Proc{HasEnv: true, Env: []string{"K=w=x"}}}}}
	out = append(out, &Case{Kind: "directed:F2-env-override", Files: []File{{Name: "b.yaml", Cfg: b}, {Name: "o.yaml", Cfg: o2}},
		Load: []string{"b.yaml", "o.yaml"}})
	// D3 (F34): log_length of the earlier file, later file silent
	b3 := &Project{Scal: []SEntry{sI(4, 500)}, HasProcs: true, Procs: []ProcEntry{{"p1", &Proc{Scal: []SEntry{sS(3, "c")}}}}}
	o3 := &Project{HasProcs: true, Procs: []ProcEntry{{"p1", &Proc{Scal: []SEntry{sS(10, "d")}}}}}
	out = append(out, &Case{Kind: "directed:F34-loglength-frame", Files: []File{{Name: "b.yaml", Cfg: b3}, {Name: "o.yaml", Cfg: o3}},
		Load: []string{"b.yaml", "o.yaml"}})
	out = append(out, &Case{Kind: "directed:loglength-default", Files: []File{{Name: "o.yaml", Cfg: o3}}, Load: []string{"o.yaml"}})
	out = append(out, &Case{Kind: "directed:loglength-override", Files: []File{{Name: "o.yaml", Cfg: o3}, {Name: "b.yaml", Cfg: b3}},
		Load: []string{"o.yaml", "b.yaml"}})
	// D4 (F28): zero-valued scalars in the later file
	b4 := &Project{Scal: []SEntry{sB(6, true), sS(3, "debug")}, HasProcs: true, Procs: []ProcEntry{
		{"p1", &Proc{Scal: []SEntry{sS(3, "c"), sB(1, true), sI(21, 5), sS(10, "text")}}}}}
	o4 := &Project{Scal: []SEntry{sB(6, false)}, HasProcs: true, Procs: []ProcEntry{
		{"p1", &Proc{Scal: []SEntry{sB(1, false), sI(21, 0), sS(10, "")}}}}}
	out = append(out, &Case{Kind: "directed:F28-zero-override", Files: []File{{Name: "b.yaml", Cfg: b4}, {Name: "o.yaml", Cfg: o4}},
		Load: []string{"b.yaml", "o.yaml"}})
	// D5: nil / empty environment of the earlier file (mergo calls the transformer only for a non-nil dst)
	e1 := &Project{HasEnv: true, Env: []string{"B=1", "A=2", "A=3"}, HasProcs: true, Procs: []ProcEntry{{"q", &Proc{Scal: []SEntry{sS(3, "q")}}}}}
	out = append(out, &Case{Kind: "directed:env-nil-base", Files: []File{{Name: "n.yaml", Cfg: &Project{HasProcs: true}}, {Name: "e.yaml", Cfg: e1}},
		Load: []string{"n.yaml", "e.yaml"}})
	out = append(out, &Case{Kind: "directed:env-empty-base", Files: []File{{Name: "n.yaml", Cfg: &Project{HasEnv: true}}, {Name: "e.yaml", Cfg: e1}},
		Load: []string{"n.yaml", "e.yaml"}})
	out = append(out, &Case{Kind: "directed:env-nil-empty-chain", Files: []File{{Name: "n.yaml", Cfg: &Project{HasProcs: true}},
		{Name: "m.yaml", Cfg: &Project{HasEnv: true}}, {Name: "e.yaml", Cfg: e1}}, Load: []string{"n.yaml", "m.yaml", "e.yaml"}})
	// D6: depends_on by key, appended entrypoint, pointer structs
	b6 := &Project{HasProcs: true, Procs: []ProcEntry{
		{"p1", &Proc{Scal: []SEntry{sS(3, "c1")}, Lists: []LEntry{{1, []string{"a", "b"}}},
			Maps: []MEntry{{mapDependsOn, []KV{{"p2", "process_healthy"}, {"p3", "process_completed"}}}},
			Ptrs: []MidEntry{{1, &Mid{Scal: []SEntry{sI(2, 7)}, Ptrs: []LeafEntry{{1, &Leaf{Scal: []SEntry{sS(1, "check a=b")}}}}}}}}},
		{"p2", &Proc{Scal: []SEntry{sS(3, "c2")}, Ptrs: []MidEntry{{2, &Mid{Ptrs: []LeafEntry{{2, &Leaf{Scal: []SEntry{sS(4, "8080")}}}}}}}}},
		{"p3", &Proc{Scal: []SEntry{sS(3, "c3"), sS(7, "rel/dir")}}}}}
	o6 := &Project{HasProcs: true, Procs: []ProcEntry{
		{"p1", &Proc{Lists: []LEntry{{1, []string{"c"}}}, Maps: []MEntry{{mapDependsOn, []KV{{"p2", "\x00"}, {"p4", "process_started"}}}},
			Ptrs: []MidEntry{{1, &Mid{Scal: []SEntry{sI(3, 9)}, Ptrs: []LeafEntry{{1, &Leaf{Scal: []SEntry{sS(2, "/probe/wd")}}}}}}}}},
		{"p4", &Proc{Scal: []SEntry{sS(3, "c4")}, HasEnv: true, Env: []string{"B=1", "A=2", "A=3", "X=y=z"}}}}}
	out = append(out, &Case{Kind: "directed:maps-lists-pointers", Files: []File{{Name: "b.yaml", Cfg: b6}, {Name: "o.yaml", Cfg: o6}},
		Load: []string{"b.yaml", "o.yaml"}})
	// D7: extends, base in a sub directory; working dirs "", relative, absolute
	out = append(out, &Case{Kind: "directed:extends-wd", Files: []File{{Name: "sub dir/base.yaml", Cfg: b6}, {Name: "child.yaml", Cfg: o6, Extends: "sub dir/base.yaml"}},
		Load: []string{"child.yaml"}, Load2: []string{"sub dir/base.yaml", "child.yaml"}})
	// D8: two files that both extend (outside the property text: compared with the model only, see notes)
	mk := func(cmd string) *Project {
		return &Project{HasProcs: true, Procs: []ProcEntry{{"p", &Proc{Scal: []SEntry{sS(3, cmd)}}}}}
	}
	out = append(out, &Case{Kind: "directed:two-extends", Files: []File{{Name: "A0.yaml", Cfg: mk("A0")}, {Name: "A.yaml", Cfg: mk("A"), Extends: "A0.yaml"},
		{Name: "B0.yaml", Cfg: mk("B0")}, {Name: "B.yaml", Cfg: &Project{HasProcs: true, Procs: []ProcEntry{{"p", &Proc{Scal: []SEntry{sS(10, "B")}}}}}, Extends: "B0.yaml"}},
		Load: []string{"A.yaml", "B.yaml"}})
	// D9: extends of a file that is already named
	out = append(out, &Case{Kind: "directed:extends-already-listed", Files: []File{{Name: "A0.yaml", Cfg: mk("A0")}, {Name: "A.yaml", Cfg: mk("A"), Extends: "A0.yaml"}},
		Load: []string{"A0.yaml", "A.yaml"}})
	return out
}
