package main

// Field-id tables shared by the YAML writer, the projection of types.Project and the Coq model
// (coq/theories/Merge/Model.v uses the ids 7, 8, 9, 13 of the process, 4 of the project, pointer ids 1, 2).

type FieldDef struct {
	ID   int
	Path []string // yaml key path below the struct (flattened non-pointer structs have 2 elements)
	T    string   // "s" string, "i" int, "b" bool
	Gen  string   // generator class of the values
}

var procScalars = []FieldDef{
	{1, []string{"disabled"}, "b", ""},
	{2, []string{"is_daemon"}, "b", ""},
	{3, []string{"command"}, "s", "any"},
	{4, []string{"log_location"}, "s", "any"},
	{5, []string{"ready_log_line"}, "s", "any"},
	{6, []string{"disable_ansi_colors"}, "b", ""},
	{7, []string{"working_dir"}, "s", "wd"},
	{8, []string{"namespace"}, "s", "any"},
	{9, []string{"replicas"}, "i", "replicas"},
	{10, []string{"description"}, "s", "any"},
	{11, []string{"is_foreground"}, "b", ""},
	{12, []string{"is_tty"}, "b", ""},
	{13, []string{"launch_timeout_seconds"}, "i", "int"},
	{20, []string{"availability", "restart"}, "s", "restart"},
	{21, []string{"availability", "backoff_seconds"}, "i", "int"},
	{22, []string{"availability", "max_restarts"}, "i", "int"},
	{23, []string{"availability", "exit_on_end"}, "b", ""},
	{24, []string{"availability", "exit_on_skipped"}, "b", ""},
	{30, []string{"shutdown", "command"}, "s", "any"},
	{31, []string{"shutdown", "timeout_seconds"}, "i", "int"},
	{32, []string{"shutdown", "signal"}, "i", "int"},
	{33, []string{"shutdown", "parent_only"}, "b", ""},
}

var procLists = []FieldDef{{1, []string{"entrypoint"}, "l", "any"}}

// maps: 1 depends_on (name -> condition), 2 vars (name -> string)
const (
	mapDependsOn = 1
	mapVars      = 2
	mapEnvCmds   = 2 // project level: 1 vars, 2 env_cmds
	mapGVars     = 1
)

// process pointers: 1 liveness_probe, 2 readiness_probe, 3 log_configuration
var probeScalars = []FieldDef{
	{1, []string{"initial_delay_seconds"}, "i", "int"},
	{2, []string{"period_seconds"}, "i", "int"},
	{3, []string{"timeout_seconds"}, "i", "int"},
	{4, []string{"success_threshold"}, "i", "int"},
	{5, []string{"failure_threshold"}, "i", "int"},
}
var execScalars = []FieldDef{
	{1, []string{"command"}, "s", "any"},
	{2, []string{"working_dir"}, "s", "wd"},
}
var httpScalars = []FieldDef{
	{1, []string{"host"}, "s", "nonblank"},
	{2, []string{"path"}, "s", "nonblank"},
	{3, []string{"scheme"}, "s", "nonblank"},
	{4, []string{"port"}, "s", "port"},
}
var loggerScalars = []FieldDef{
	{1, []string{"disable_json"}, "b", ""},
	{2, []string{"timestamp_format"}, "s", "any"},
	{3, []string{"no_color"}, "b", ""},
	{4, []string{"no_metadata"}, "b", ""},
	{5, []string{"add_timestamp"}, "b", ""},
	{6, []string{"flush_each_line"}, "b", ""},
}
var loggerLists = []FieldDef{{1, []string{"fields_order"}, "l", "any"}}
var rotationScalars = []FieldDef{
	{1, []string{"directory"}, "s", "any"},
	{2, []string{"filename"}, "s", "any"},
	{3, []string{"max_size_mb"}, "i", "int"},
	{4, []string{"max_backups"}, "i", "int"},
	{5, []string{"max_age_days"}, "i", "int"},
	{6, []string{"compress"}, "b", ""},
}
var shellScalars = []FieldDef{
	{1, []string{"shell_command"}, "s", "shell"},
	{2, []string{"shell_argument"}, "s", "any"},
	{3, []string{"elevated_shell_command"}, "s", "any"},
	{4, []string{"elevated_shell_argument"}, "s", "any"},
}
var projScalars = []FieldDef{
	{1, []string{"version"}, "s", "any"},
	{2, []string{"log_location"}, "s", "any"},
	{3, []string{"log_level"}, "s", "loglevel"},
	{4, []string{"log_length"}, "i", "int"},
	{5, []string{"log_format"}, "s", "any"},
	{6, []string{"is_strict"}, "b", ""},
	{7, []string{"disable_env_expansion"}, "b", ""},
	{8, []string{"is_tui_disabled"}, "b", ""},
}

// kinds of pointer structs
type MidKind struct {
	Scal  []FieldDef
	Lists []FieldDef
	Ptrs  map[int]PtrDef // leaf pointers
}
type PtrDef struct {
	Key  string
	Scal []FieldDef
}

var probeKind = MidKind{Scal: probeScalars, Ptrs: map[int]PtrDef{1: {"exec", execScalars}, 2: {"http_get", httpScalars}}}
var loggerKind = MidKind{Scal: loggerScalars, Lists: loggerLists, Ptrs: map[int]PtrDef{1: {"rotation", rotationScalars}}}

type MidPtrDef struct {
	Key  string
	Kind *MidKind
}

var procPtrs = map[int]MidPtrDef{1: {"liveness_probe", &probeKind}, 2: {"readiness_probe", &probeKind}, 3: {"log_configuration", &loggerKind}}
var projMidPtrs = map[int]MidPtrDef{1: {"log_configuration", &loggerKind}}
var projLeafPtrs = map[int]PtrDef{1: {"shell", shellScalars}}
var procMaps = map[int]string{mapDependsOn: "depends_on", mapVars: "vars"}
var projMaps = map[int]string{mapGVars: "vars", mapEnvCmds: "env_cmds"}
