// c15: correspondence harness for the configuration merge (property C15).
// Generates pairs/chains (<= 4) of YAML configuration files and `extends` chains over the documented option
// set, writes them to disk, calls loader.Load (the public entry point: YAML decoding, mergo, the special
// transformers, extends handling and the loader's post-processing are all inside the compared behaviour),
// projects the resulting types.Project onto the modelled fields and writes
//
//	<out>/cases_C15.v (Gallina: inputs + what was observed)    <out>/cases_C15.json (the same, for replays)
package main

import (
	"encoding/json"
	"flag"
	"fmt"
	"io"
	"math/rand"
	"os"
	"path/filepath"
	"sort"
	"strings"

	"github.com/f1bonacc1/process-compose/src/command"
	"github.com/f1bonacc1/process-compose/src/health"
	"github.com/f1bonacc1/process-compose/src/loader"
	"github.com/f1bonacc1/process-compose/src/types"
	"github.com/rs/zerolog"
	"github.com/rs/zerolog/log"
	"gopkg.in/yaml.v2"
	"pcverif/coqfmt"
)

// ---------------------------------------------------------------------------------- abstract configuration
type Scalar struct {
	T string `json:"t"`
	S string `json:"s,omitempty"`
	I int64  `json:"i,omitempty"`
	B bool   `json:"b,omitempty"`
}
type SEntry struct {
	F int    `json:"f"`
	V Scalar `json:"v"`
}
type LEntry struct {
	F int      `json:"f"`
	L []string `json:"l"`
}
type Leaf struct {
	Scal  []SEntry `json:"scal,omitempty"`
	Lists []LEntry `json:"lists,omitempty"`
}
type LeafEntry struct {
	F int   `json:"f"`
	V *Leaf `json:"v"`
}
type Mid struct {
	Scal  []SEntry    `json:"scal,omitempty"`
	Lists []LEntry    `json:"lists,omitempty"`
	Ptrs  []LeafEntry `json:"ptrs,omitempty"`
}
type MidEntry struct {
	F int  `json:"f"`
	V *Mid `json:"v"`
}
type KV struct {
	K string `json:"k"`
	V string `json:"v"`
}
type MEntry struct {
	F int  `json:"f"`
	M []KV `json:"m"`
}
type Proc struct {
	Scal   []SEntry   `json:"scal,omitempty"`
	Lists  []LEntry   `json:"lists,omitempty"`
	HasEnv bool       `json:"has_env,omitempty"` // false: nil slice (option not mentioned)
	Env    []string   `json:"env,omitempty"`
	Maps   []MEntry   `json:"maps,omitempty"`
	Ptrs   []MidEntry `json:"ptrs,omitempty"`
}
type ProcEntry struct {
	Name string `json:"name"`
	P    *Proc  `json:"p"`
}
type Project struct {
	Scal     []SEntry    `json:"scal,omitempty"`
	HasEnv   bool        `json:"has_env,omitempty"`
	Env      []string    `json:"env,omitempty"`
	Maps     []MEntry    `json:"maps,omitempty"`
	Leafs    []LeafEntry `json:"leafs,omitempty"`
	Mids     []MidEntry  `json:"mids,omitempty"`
	HasProcs bool        `json:"has_procs,omitempty"` // write a `processes:` key even when empty
	Procs    []ProcEntry `json:"procs,omitempty"`
}
type File struct {
	Name    string   `json:"name"` // path relative to the case directory
	Cfg     *Project `json:"cfg"`
	Extends string   `json:"extends,omitempty"` // Name of the parent file ("" = none)
}
type Case struct {
	Kind  string   `json:"kind"`
	Files []File   `json:"files"`
	Load  []string `json:"load"`            // names passed to loader.Load, in order
	Load2 []string `json:"load2,omitempty"` // the same chain named explicitly (extends clause), child without `extends`
	// observations (filled by runCase)
	Dir      string   `json:"dir,omitempty"`
	DefShell *Leaf    `json:"defshell,omitempty"`
	Obs      *Project `json:"obs,omitempty"`
	ObsErr   string   `json:"obs_err,omitempty"` // error with a nil project
	ValErr   string   `json:"val_err,omitempty"` // validation error delivered together with the project
	Obs2     *Project `json:"obs2,omitempty"`
	Obs2Err  string   `json:"obs2_err,omitempty"`
	Panic    string   `json:"panic,omitempty"`
}

// ---------------------------------------------------------------------------------------- YAML writer
func scalarYaml(v Scalar) interface{} {
	switch v.T {
	case "s":
		return v.S
	case "i":
		return v.I
	default:
		return v.B
	}
}

func setPath(ms *yaml.MapSlice, path []string, val interface{}) {
	if len(path) == 1 {
		*ms = append(*ms, yaml.MapItem{Key: path[0], Value: val})
		return
	}
	for i := range *ms {
		if (*ms)[i].Key == path[0] {
			sub := (*ms)[i].Value.(yaml.MapSlice)
			setPath(&sub, path[1:], val)
			(*ms)[i].Value = sub
			return
		}
	}
	sub := yaml.MapSlice{}
	setPath(&sub, path[1:], val)
	*ms = append(*ms, yaml.MapItem{Key: path[0], Value: sub})
}

func findDef(defs []FieldDef, id int) FieldDef {
	for _, d := range defs {
		if d.ID == id {
			return d
		}
	}
	panic(fmt.Sprintf("no field %d", id))
}

func scalsYaml(ms *yaml.MapSlice, defs []FieldDef, scal []SEntry) {
	for _, e := range scal {
		setPath(ms, findDef(defs, e.F).Path, scalarYaml(e.V))
	}
}
func listsYaml(ms *yaml.MapSlice, defs []FieldDef, ls []LEntry) {
	for _, e := range ls {
		l := e.L
		if l == nil {
			l = []string{}
		}
		setPath(ms, findDef(defs, e.F).Path, l)
	}
}
func leafYaml(def PtrDef, l *Leaf) yaml.MapSlice {
	ms := yaml.MapSlice{}
	scalsYaml(&ms, def.Scal, l.Scal)
	return ms
}
func midYaml(k *MidKind, m *Mid) yaml.MapSlice {
	ms := yaml.MapSlice{}
	scalsYaml(&ms, k.Scal, m.Scal)
	listsYaml(&ms, k.Lists, m.Lists)
	for _, p := range m.Ptrs {
		def := k.Ptrs[p.F]
		ms = append(ms, yaml.MapItem{Key: def.Key, Value: leafYaml(def, p.V)})
	}
	return ms
}
func mapsYaml(ms *yaml.MapSlice, names map[int]string, maps []MEntry, deps int) {
	for _, m := range maps {
		sub := yaml.MapSlice{}
		for _, kv := range m.M {
			if m.F == deps {
				d := yaml.MapSlice{}
				if kv.V != "\x00" { // "\x00": the entry is written as `name: {}`
					d = append(d, yaml.MapItem{Key: "condition", Value: kv.V})
				}
				sub = append(sub, yaml.MapItem{Key: kv.K, Value: d})
			} else {
				sub = append(sub, yaml.MapItem{Key: kv.K, Value: kv.V})
			}
		}
		*ms = append(*ms, yaml.MapItem{Key: names[m.F], Value: sub})
	}
}
func envYaml(ms *yaml.MapSlice, has bool, env []string) {
	if has {
		e := env
		if e == nil {
			e = []string{}
		}
		*ms = append(*ms, yaml.MapItem{Key: "environment", Value: e})
	}
}
func procYaml(p *Proc) yaml.MapSlice {
	ms := yaml.MapSlice{}
	scalsYaml(&ms, procScalars, p.Scal)
	listsYaml(&ms, procLists, p.Lists)
	envYaml(&ms, p.HasEnv, p.Env)
	mapsYaml(&ms, procMaps, p.Maps, mapDependsOn)
	for _, q := range p.Ptrs {
		def := procPtrs[q.F]
		ms = append(ms, yaml.MapItem{Key: def.Key, Value: midYaml(def.Kind, q.V)})
	}
	return ms
}
func projectYaml(g *Project, extends string) []byte {
	ms := yaml.MapSlice{}
	if extends != "" {
		ms = append(ms, yaml.MapItem{Key: "extends", Value: extends})
	}
	scalsYaml(&ms, projScalars, g.Scal)
	envYaml(&ms, g.HasEnv, g.Env)
	mapsYaml(&ms, projMaps, g.Maps, -1)
	for _, q := range g.Leafs {
		def := projLeafPtrs[q.F]
		ms = append(ms, yaml.MapItem{Key: def.Key, Value: leafYaml(def, q.V)})
	}
	for _, q := range g.Mids {
		def := projMidPtrs[q.F]
		ms = append(ms, yaml.MapItem{Key: def.Key, Value: midYaml(def.Kind, q.V)})
	}
	if g.HasProcs || len(g.Procs) > 0 {
		ps := yaml.MapSlice{}
		for _, pe := range g.Procs {
			ps = append(ps, yaml.MapItem{Key: pe.Name, Value: procYaml(pe.P)})
		}
		ms = append(ms, yaml.MapItem{Key: "processes", Value: ps})
	}
	out, err := yaml.Marshal(ms)
	if err != nil {
		panic(err)
	}
	if len(ms) == 0 {
		return []byte("{}\n")
	}
	return out
}

// ----------------------------------------------------------------- projection of the loaded types.Project
func addS(dst *[]SEntry, id int, s string) {
	if s != "" {
		*dst = append(*dst, SEntry{id, Scalar{T: "s", S: s}})
	}
}
func addI(dst *[]SEntry, id int, i int) {
	if i != 0 {
		*dst = append(*dst, SEntry{id, Scalar{T: "i", I: int64(i)}})
	}
}
func addB(dst *[]SEntry, id int, b bool) {
	if b {
		*dst = append(*dst, SEntry{id, Scalar{T: "b", B: true}})
	}
}
func addL(dst *[]LEntry, id int, l []string) {
	if len(l) > 0 {
		*dst = append(*dst, LEntry{id, append([]string{}, l...)})
	}
}

func projProbe(p *health.Probe) *Mid {
	m := &Mid{}
	addI(&m.Scal, 1, p.InitialDelay)
	addI(&m.Scal, 2, p.PeriodSeconds)
	addI(&m.Scal, 3, p.TimeoutSeconds)
	addI(&m.Scal, 4, p.SuccessThreshold)
	addI(&m.Scal, 5, p.FailureThreshold)
	if p.Exec != nil {
		l := &Leaf{}
		addS(&l.Scal, 1, p.Exec.Command)
		addS(&l.Scal, 2, p.Exec.WorkingDir)
		m.Ptrs = append(m.Ptrs, LeafEntry{1, l})
	}
	if p.HttpGet != nil {
		l := &Leaf{}
		addS(&l.Scal, 1, p.HttpGet.Host)
		addS(&l.Scal, 2, p.HttpGet.Path)
		addS(&l.Scal, 3, p.HttpGet.Scheme)
		addS(&l.Scal, 4, p.HttpGet.Port)
		m.Ptrs = append(m.Ptrs, LeafEntry{2, l})
	}
	return m
}
func projLogger(c *types.LoggerConfig) *Mid {
	m := &Mid{}
	addB(&m.Scal, 1, c.DisableJSON)
	addS(&m.Scal, 2, c.TimestampFormat)
	addB(&m.Scal, 3, c.NoColor)
	addB(&m.Scal, 4, c.NoMetadata)
	addB(&m.Scal, 5, c.AddTimestamp)
	addB(&m.Scal, 6, c.FlushEachLine)
	addL(&m.Lists, 1, c.FieldsOrder)
	if c.Rotation != nil {
		l := &Leaf{}
		addS(&l.Scal, 1, c.Rotation.Directory)
		addS(&l.Scal, 2, c.Rotation.Filename)
		addI(&l.Scal, 3, c.Rotation.MaxSize)
		addI(&l.Scal, 4, c.Rotation.MaxBackups)
		addI(&l.Scal, 5, c.Rotation.MaxAge)
		addB(&l.Scal, 6, c.Rotation.Compress)
		m.Ptrs = append(m.Ptrs, LeafEntry{1, l})
	}
	return m
}
func anyStr(v interface{}) string {
	if s, ok := v.(string); ok {
		return s
	}
	return fmt.Sprintf("!nonstring:%T:%v", v, v)
}
func sortedKV(m map[string]string) []KV {
	var r []KV
	for k, v := range m {
		r = append(r, KV{k, v})
	}
	sort.Slice(r, func(i, j int) bool { return r[i].K < r[j].K })
	return r
}
func projProc(p *types.ProcessConfig) *Proc {
	a := &Proc{}
	addB(&a.Scal, 1, p.Disabled)
	addB(&a.Scal, 2, p.IsDaemon)
	addS(&a.Scal, 3, p.Command)
	addS(&a.Scal, 4, p.LogLocation)
	addS(&a.Scal, 5, p.ReadyLogLine)
	addB(&a.Scal, 6, p.DisableAnsiColors)
	addS(&a.Scal, 7, p.WorkingDir)
	addS(&a.Scal, 8, p.Namespace)
	addI(&a.Scal, 9, p.Replicas)
	addS(&a.Scal, 10, p.Description)
	addB(&a.Scal, 11, p.IsForeground)
	addB(&a.Scal, 12, p.IsTty)
	addI(&a.Scal, 13, p.LaunchTimeout)
	addS(&a.Scal, 20, p.RestartPolicy.Restart)
	addI(&a.Scal, 21, p.RestartPolicy.BackoffSeconds)
	addI(&a.Scal, 22, p.RestartPolicy.MaxRestarts)
	addB(&a.Scal, 23, p.RestartPolicy.ExitOnEnd)
	addB(&a.Scal, 24, p.RestartPolicy.ExitOnSkipped)
	addS(&a.Scal, 30, p.ShutDownParams.ShutDownCommand)
	addI(&a.Scal, 31, p.ShutDownParams.ShutDownTimeout)
	addI(&a.Scal, 32, p.ShutDownParams.Signal)
	addB(&a.Scal, 33, p.ShutDownParams.ParentOnly)
	addL(&a.Lists, 1, p.Entrypoint)
	if len(p.Environment) > 0 {
		a.HasEnv = true
		a.Env = append([]string{}, p.Environment...)
	}
	if len(p.DependsOn) > 0 {
		m := map[string]string{}
		for k, d := range p.DependsOn {
			m[k] = d.Condition
		}
		a.Maps = append(a.Maps, MEntry{mapDependsOn, sortedKV(m)})
	}
	vm := map[string]string{}
	for k, v := range p.Vars {
		if k == "PC_REPLICA_NUM" { // injected by the templater
			continue
		}
		vm[k] = anyStr(v)
	}
	if len(vm) > 0 {
		a.Maps = append(a.Maps, MEntry{mapVars, sortedKV(vm)})
	}
	if p.LivenessProbe != nil {
		a.Ptrs = append(a.Ptrs, MidEntry{1, projProbe(p.LivenessProbe)})
	}
	if p.ReadinessProbe != nil {
		a.Ptrs = append(a.Ptrs, MidEntry{2, projProbe(p.ReadinessProbe)})
	}
	if p.LoggerConfig != nil {
		a.Ptrs = append(a.Ptrs, MidEntry{3, projLogger(p.LoggerConfig)})
	}
	return a
}
func projShell(s *command.ShellConfig) *Leaf {
	l := &Leaf{}
	addS(&l.Scal, 1, s.ShellCommand)
	addS(&l.Scal, 2, s.ShellArgument)
	addS(&l.Scal, 3, s.ElevatedShellCmd)
	addS(&l.Scal, 4, s.ElevatedShellArg)
	return l
}
func projProject(p *types.Project) *Project {
	g := &Project{}
	addS(&g.Scal, 1, p.Version)
	addS(&g.Scal, 2, p.LogLocation)
	addS(&g.Scal, 3, p.LogLevel)
	addI(&g.Scal, 4, p.LogLength)
	addS(&g.Scal, 5, p.LogFormat)
	addB(&g.Scal, 6, p.IsStrict)
	addB(&g.Scal, 7, p.DisableEnvExpansion)
	addB(&g.Scal, 8, p.IsTuiDisabled)
	if len(p.Environment) > 0 {
		g.HasEnv = true
		g.Env = append([]string{}, p.Environment...)
	}
	vm := map[string]string{}
	for k, v := range p.Vars {
		vm[k] = anyStr(v)
	}
	if len(vm) > 0 {
		g.Maps = append(g.Maps, MEntry{mapGVars, sortedKV(vm)})
	}
	if len(p.EnvCommands) > 0 {
		g.Maps = append(g.Maps, MEntry{mapEnvCmds, sortedKV(p.EnvCommands)})
	}
	if p.ShellConfig != nil {
		g.Leafs = append(g.Leafs, LeafEntry{1, projShell(p.ShellConfig)})
	}
	if p.LoggerConfig != nil {
		g.Mids = append(g.Mids, MidEntry{1, projLogger(p.LoggerConfig)})
	}
	// one entry per configured process: the replica with number 0, under the configured name
	var keys []string
	for k := range p.Processes {
		keys = append(keys, k)
	}
	sort.Strings(keys)
	for _, k := range keys {
		pc := p.Processes[k]
		if pc.ReplicaNum != 0 {
			continue
		}
		g.Procs = append(g.Procs, ProcEntry{pc.Name, projProc(&pc)})
	}
	sort.Slice(g.Procs, func(i, j int) bool { return g.Procs[i].Name < g.Procs[j].Name })
	return g
}

// ------------------------------------------------------------------------------------------------ running
func doLoad(dir string, names []string) (obs *Project, nilErr, valErr, pnc string) {
	defer func() {
		if r := recover(); r != nil {
			obs, pnc = nil, fmt.Sprint(r)
		}
	}()
	var fn []string
	for _, n := range names {
		fn = append(fn, filepath.Join(dir, n))
	}
	opts := &loader.LoaderOptions{FileNames: fn, IsInternalLoader: true}
	opts.DisableDotenv(true)
	p, err := loader.Load(opts)
	if p == nil {
		return nil, fmt.Sprint(err), "", ""
	}
	if err != nil {
		valErr = err.Error()
	}
	return projProject(p), "", valErr, ""
}

func runCase(c *Case, root string, idx int) {
	dir := filepath.Join(root, fmt.Sprintf("c%05d", idx))
	c.Dir = dir
	byName := map[string]*File{}
	for i := range c.Files {
		byName[c.Files[i].Name] = &c.Files[i]
	}
	for _, f := range c.Files {
		path := filepath.Join(dir, f.Name)
		if err := os.MkdirAll(filepath.Dir(path), 0o755); err != nil {
			panic(err)
		}
		ext := ""
		if f.Extends != "" {
			// relative to the directory of the extending file, as a user writes it
			rel, err := filepath.Rel(filepath.Dir(path), filepath.Join(dir, f.Extends))
			if err != nil {
				panic(err)
			}
			ext = rel
		}
		if err := os.WriteFile(path, projectYaml(f.Cfg, ext), 0o644); err != nil {
			panic(err)
		}
	}
	c.DefShell = projShell(command.DefaultShellConfig())
	c.Obs, c.ObsErr, c.ValErr, c.Panic = doLoad(dir, c.Load)
	if len(c.Load2) > 0 {
		// the same files named explicitly; files of Load2 that carry `extends` are rewritten without it
		for _, n := range c.Load2 {
			f := byName[n]
			if f.Extends != "" {
				alt := filepath.Join(dir, n+".noext.yaml")
				if err := os.WriteFile(alt, projectYaml(f.Cfg, ""), 0o644); err != nil {
					panic(err)
				}
			}
		}
		var names []string
		for _, n := range c.Load2 {
			if byName[n].Extends != "" {
				names = append(names, n+".noext.yaml")
			} else {
				names = append(names, n)
			}
		}
		var p2 string
		c.Obs2, c.Obs2Err, _, p2 = doLoad(dir, names)
		if p2 != "" {
			c.Panic += " load2:" + p2
		}
	}
}

// ------------------------------------------------------------------------------------------- Coq writer
// byte strings are written as Coq string literals (parsed much faster than lists of numerals) and turned
// into list N by Check.b; only '"' needs escaping in a Coq string literal
func bytesCoq(s string) string {
	if s == "" {
		return "[]"
	}
	for i := 0; i < len(s); i++ {
		if s[i] == 0 {
			return coqfmt.Bytes(s)
		}
	}
	return "(b \"" + strings.ReplaceAll(s, "\"", "\"\"") + "\")"
}

type namer struct {
	ids map[string]uint64
}

func (n *namer) id(s string) uint64 {
	if v, ok := n.ids[s]; ok {
		return v
	}
	v := uint64(len(n.ids) + 1)
	n.ids[s] = v
	return v
}

func scalarCoq(v Scalar) string {
	switch v.T {
	case "s":
		return "SStr " + bytesCoq(v.S)
	case "i":
		return "SInt " + coqfmt.Z(v.I)
	default:
		return "SBool " + coqfmt.Bool(v.B)
	}
}
func scalsCoq(s []SEntry) string {
	items := make([]string, len(s))
	for i, e := range s {
		items[i] = "(" + coqfmt.N(uint64(e.F)) + ", " + scalarCoq(e.V) + ")"
	}
	return coqfmt.List(items)
}
func strsCoq(l []string) string {
	items := make([]string, len(l))
	for i, e := range l {
		items[i] = bytesCoq(e)
	}
	return coqfmt.List(items)
}
func listsCoq(s []LEntry) string {
	items := make([]string, len(s))
	for i, e := range s {
		items[i] = "(" + coqfmt.N(uint64(e.F)) + ", " + strsCoq(e.L) + ")"
	}
	return coqfmt.List(items)
}
func leafCoq(l *Leaf) string {
	return "(mkLeaf " + scalsCoq(l.Scal) + " " + listsCoq(l.Lists) + ")"
}
func leafsCoq(ls []LeafEntry) string {
	items := make([]string, len(ls))
	for i, e := range ls {
		items[i] = "(" + coqfmt.N(uint64(e.F)) + ", " + leafCoq(e.V) + ")"
	}
	return coqfmt.List(items)
}
func midCoq(m *Mid) string {
	return "(mkMid " + scalsCoq(m.Scal) + " " + listsCoq(m.Lists) + " " + leafsCoq(m.Ptrs) + ")"
}
func midsCoq(ls []MidEntry) string {
	items := make([]string, len(ls))
	for i, e := range ls {
		items[i] = "(" + coqfmt.N(uint64(e.F)) + ", " + midCoq(e.V) + ")"
	}
	return coqfmt.List(items)
}
func mapsCoq(nm *namer, ms []MEntry) string {
	items := make([]string, len(ms))
	for i, m := range ms {
		kvs := make([]string, len(m.M))
		for j, kv := range m.M {
			v := kv.V
			if v == "\x00" {
				v = ""
			}
			kvs[j] = "(" + coqfmt.N(nm.id(kv.K)) + ", " + bytesCoq(v) + ")"
		}
		items[i] = "(" + coqfmt.N(uint64(m.F)) + ", " + coqfmt.List(kvs) + ")"
	}
	return coqfmt.List(items)
}
func envCoq(has bool, env []string) string {
	if !has {
		return "None"
	}
	return "(Some " + strsCoq(env) + ")"
}
func procCoq(nm *namer, p *Proc) string {
	return "(mkProc " + scalsCoq(p.Scal) + " " + listsCoq(p.Lists) + " " + envCoq(p.HasEnv, p.Env) + " " +
		mapsCoq(nm, p.Maps) + " " + midsCoq(p.Ptrs) + ")"
}
func projectCoq(nm *namer, g *Project) string {
	ps := make([]string, len(g.Procs))
	for i, pe := range g.Procs {
		ps[i] = "(" + coqfmt.N(nm.id(pe.Name)) + ", " + procCoq(nm, pe.P) + ")"
	}
	return "(mkProject " + scalsCoq(g.Scal) + " " + envCoq(g.HasEnv, g.Env) + " " + mapsCoq(nm, g.Maps) + "\n      " +
		leafsCoq(g.Leafs) + " " + midsCoq(g.Mids) + "\n      " + coqfmt.List(ps) + ")"
}
func optProjectCoq(nm *namer, g *Project) string {
	if g == nil {
		return "None"
	}
	return "(Some " + projectCoq(nm, g) + ")"
}

func caseCoq(c *Case) string {
	nm := &namer{ids: map[string]uint64{}}
	byName := map[string]int{}
	for i, f := range c.Files {
		byName[f.Name] = i
	}
	plain := func(name string) (string, File) {
		i, ok := byName[name]
		if !ok {
			panic("bad file reference " + name)
		}
		f := c.Files[i]
		dir := filepath.Dir(filepath.Join(c.Dir, f.Name))
		return "(mkFile " + coqfmt.N(uint64(i+1)) + " " + bytesCoq(dir) + "\n    " + projectCoq(nm, f.Cfg) + ")", f
	}
	files := make([]string, len(c.Load))
	for i, n := range c.Load {
		s, f := plain(n)
		var anc []string
		for depth := 0; f.Extends != ""; depth++ {
			if depth > 8 {
				panic("extends chain too long")
			}
			var a string
			a, f = plain(f.Extends)
			anc = append(anc, a)
		}
		files[i] = "(" + s + ",\n   " + coqfmt.List(anc) + ")"
	}
	obs2 := "None"
	if len(c.Load2) > 0 {
		obs2 = "(Some " + optProjectCoq(nm, c.Obs2) + ")"
	}
	return "mkCase " + coqfmt.List(files) + "\n  " + leafCoq(c.DefShell) + "\n  " + optProjectCoq(nm, c.Obs) + "\n  " + obs2
}

// ------------------------------------------------------------------------------------------------- main
func main() {
	seed := flag.Int64("seed", 1, "PRNG seed")
	nrand := flag.Int("n", 250, "number of random scenarios")
	out := flag.String("out", ".", "output directory")
	replay := flag.String("replay", "", "re-run the cases of this JSON file instead of generating")
	corpus := flag.String("corpus", "", "directory with corpus cases (*.json) that run first")
	shard := flag.Int("shard", 40, "cases per generated .v file")
	flag.Parse()

	log.Logger = zerolog.New(io.Discard)
	if devnull, err := os.OpenFile(os.DevNull, os.O_WRONLY, 0); err == nil {
		os.Stderr = devnull // AssignProcessExecutableAndArgs writes warnings there
	}

	var cases []*Case
	addFile := func(p string) {
		data, err := os.ReadFile(p)
		if err != nil {
			fmt.Println(err)
			os.Exit(2)
		}
		var cs []*Case
		if err := json.Unmarshal(data, &cs); err != nil {
			fmt.Println(p, err)
			os.Exit(2)
		}
		for _, c := range cs {
			cases = append(cases, &Case{Kind: c.Kind, Files: c.Files, Load: c.Load, Load2: c.Load2})
		}
	}
	if *replay != "" {
		addFile(*replay)
	} else {
		if *corpus != "" {
			files, _ := filepath.Glob(filepath.Join(*corpus, "*.json"))
			sort.Strings(files)
			for _, f := range files {
				addFile(f)
			}
		}
		cases = append(cases, directed()...)
		r := rand.New(rand.NewSource(*seed))
		for i := 0; i < *nrand; i++ {
			cases = append(cases, genScenario(r)...)
		}
	}
	root := filepath.Join(*out, "w")
	os.RemoveAll(root)
	for i, c := range cases {
		runCase(c, root, i)
	}

	// shards of at most *shard cases: cases_C15_<k>.v (coqc spends its time elaborating the big literal, so the
	// check plugin compiles the shards in parallel); indices in a shard are relative to k * shard
	nshards := 0
	for lo := 0; lo < len(cases) || lo == 0; lo += *shard {
		hi := lo + *shard
		if hi > len(cases) {
			hi = len(cases)
		}
		var sb strings.Builder
		sb.WriteString("From Coq Require Import List ZArith NArith.\nFrom Coq Require Import String.\nFrom PC.Merge Require Import Model Check.\nImport ListNotations.\nOpen Scope string_scope.\n")
		sb.WriteString("Definition cases : list ocase := [\n")
		for i, c := range cases[lo:hi] {
			if i > 0 {
				sb.WriteString(";\n")
			}
			sb.WriteString(caseCoq(c))
		}
		sb.WriteString("\n].\n")
		for _, d := range []string{"bad_model", "bad_struct", "bad_struct_nz", "bad_env", "bad_extends"} {
			sb.WriteString("Definition r_" + d + " := Eval vm_compute in " + d + " cases.\nPrint r_" + d + ".\n")
		}
		if err := os.WriteFile(filepath.Join(*out, fmt.Sprintf("cases_C15_%d.v", nshards)), []byte(sb.String()), 0o644); err != nil {
			panic(err)
		}
		nshards++
	}
	js, _ := json.Marshal(cases)
	if err := os.WriteFile(filepath.Join(*out, "cases_C15.json"), js, 0o644); err != nil {
		panic(err)
	}
	fmt.Println(string(statsJSON(cases, nshards, *shard)))
}

func statsJSON(cases []*Case, nshards, shard int) []byte {
	st := map[string]int{"cases": len(cases), "shards": nshards, "shard_size": shard}
	for _, c := range cases {
		st["kind_"+strings.SplitN(c.Kind, ":", 2)[0]]++
		st[fmt.Sprintf("files_loaded_%d", len(c.Load))]++
		if c.Obs == nil {
			st["load_error_nil_project"]++
		}
		if c.ValErr != "" {
			st["validation_error_with_project"]++
		}
		if c.Panic != "" {
			st["panic"]++
		}
		if len(c.Load2) > 0 {
			st["with_explicit_twin_load"]++
		}
		for _, f := range c.Files {
			st["files"]++
			if f.Extends != "" {
				st["files_with_extends"]++
			}
			countEnv := func(has bool, env []string) {
				if has {
					st["env_lists"]++
					if len(env) == 0 {
						st["env_lists_empty_nonnil"]++
					}
				}
				for _, e := range env {
					st["env_entries"]++
					switch n := strings.Count(e, "="); {
					case n == 0:
						st["env_entries_no_eq"]++
					case n > 1:
						st["env_entries_multi_eq"]++
					}
					if strings.HasSuffix(e, "=") {
						st["env_entries_empty_value"]++
					}
				}
			}
			countScal := func(s []SEntry) {
				for _, e := range s {
					st["scalar_mentions"]++
					if (e.V.T == "s" && e.V.S == "") || (e.V.T == "i" && e.V.I == 0) || (e.V.T == "b" && !e.V.B) {
						st["scalar_mentions_zero"]++
					}
				}
			}
			countEnv(f.Cfg.HasEnv, f.Cfg.Env)
			countScal(f.Cfg.Scal)
			for _, pe := range f.Cfg.Procs {
				st["process_definitions"]++
				countEnv(pe.P.HasEnv, pe.P.Env)
				countScal(pe.P.Scal)
				for _, q := range pe.P.Ptrs {
					st["pointer_structs"]++
					countScal(q.V.Scal)
				}
				for _, m := range pe.P.Maps {
					st["map_entries"] += len(m.M)
				}
			}
		}
	}
	js, _ := json.Marshal(st)
	return js
}
