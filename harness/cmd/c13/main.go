// c13: correspondence harness for scaling (property C13).
//
// Builds projects through loader.Load from generated YAML (templates with {{.PC_REPLICA_NUM}}, a probe, a
// dependency, other processes), runs them free-running on the scripted commander (harness/fakecmd; commands
// stay alive until they are signalled), issues sequences of ProjectRunner.ScaleProcess requests and, after every
// request, waits until the supervisor is quiet and records
//   - the keys of the four maps (project.Processes, processStates, processLogs, runningProcesses),
//   - every replica's configuration (GetProcessInfo) and a digest of it,
//   - the reference: a FRESH loader.Load of the same YAML with replicas: n,
//   - which command instances are alive / were signalled / were launched, the log and the state of each replica.
// Output: <out>/cases_C13.v (Gallina: what was observed), <out>/cases_C13.json (the same, for replays) and one
// JSON line of statistics on stdout.
package main

import (
	"encoding/json"
	"flag"
	"fmt"
	"math/rand"
	"os"
	"path/filepath"
	"sort"
	"strconv"
	"strings"
	"sync"
	"time"

	"github.com/f1bonacc1/process-compose/src/app"
	"github.com/f1bonacc1/process-compose/src/loader"
	"github.com/f1bonacc1/process-compose/src/types"
	"github.com/rs/zerolog"
	"pcverif/coqfmt"
	"pcverif/fakecmd"
)

// ---------------------------------------------------------------------------------------------- scenario

type ProcSpec struct {
	Name     string `json:"name"`
	Replicas int    `json:"replicas"`
	Probe    string `json:"probe,omitempty"` // "", "exec", "http"
	Vars     bool   `json:"vars,omitempty"`  // process-level vars (string)
	BigVar   bool   `json:"bigvar,omitempty"` // process-level integer var >= 10^6 used in the command
	Ext      bool   `json:"ext,omitempty"`   // a nested extension key (x-meta: {a: b})
	DependsOn string `json:"depends_on,omitempty"`
}

type Req struct {
	Proc int    `json:"proc"`           // index into Procs
	Mode string `json:"mode"`           // rep | base | unknown | stale
	Idx  int    `json:"idx,omitempty"`  // which replica (mod current count) for mode rep
	N    int    `json:"n"`
	Name string `json:"name,omitempty"` // resolved at run time
}

type Entry struct {
	Key     string `json:"key"`
	Base    string `json:"base"`
	Num     int    `json:"num"`
	Reps    int    `json:"reps"`
	RName   string `json:"rname"`
	Tmpl    int    `json:"tmpl"`
	Rend    int    `json:"rend"`
	PRend   int    `json:"prend"`
	Inst    uint64 `json:"inst"`
	NAlive  int    `json:"nalive"`
	LogW    uint64 `json:"logw"`
	LogN    int    `json:"logn"`
	StInst  uint64 `json:"stinst"`
	SName   string `json:"sname"`
	Status  string `json:"status"`
	RunName string `json:"runname"`
	Cfg     uint64 `json:"cfg"`
	Command string `json:"command,omitempty"`
	ProbeS  string `json:"probe,omitempty"`
}

type RefEntry struct {
	Key   string `json:"key"`
	Base  string `json:"base"`
	Num   int    `json:"num"`
	Reps  int    `json:"reps"`
	Tmpl  int    `json:"tmpl"`
	Rend  int    `json:"rend"`
	PRend int    `json:"prend"`
	Cfg   uint64 `json:"cfg"`
	Command string `json:"command,omitempty"`
	ProbeS  string `json:"probe,omitempty"`
}

type Stopped struct {
	Inst      uint64 `json:"inst"`
	Signalled bool   `json:"signalled"`
}

type Obs struct {
	Err       bool       `json:"err"`
	ErrMsg    string     `json:"errmsg,omitempty"`
	Panic     string     `json:"panic,omitempty"`
	Quiet     bool       `json:"quiet"`
	Entries   []Entry    `json:"entries"`
	StateKeys []string   `json:"statekeys"`
	LogKeys   []string   `json:"logkeys"`
	RunKeys   []string   `json:"runkeys"`
	ApiStates []string   `json:"apistates"`
	Orphans   []uint64   `json:"orphans"`
	Stopped   []Stopped  `json:"stopped"`
	Launched  []uint64   `json:"launched"`
	Ref       []RefEntry `json:"ref"`
	RefErr    string     `json:"referr,omitempty"`
}

type Case struct {
	Kind  string     `json:"kind"`
	Procs []ProcSpec `json:"procs"`
	Reqs  []Req      `json:"reqs"`
	Init  *Obs       `json:"init,omitempty"`
	Steps []Obs      `json:"steps,omitempty"`
	Note  string     `json:"note,omitempty"`
}

type NameCase struct {
	Base string `json:"base"`
	Reps int    `json:"reps"`
	Num  int    `json:"num"`
	Got  string `json:"got"`
}

// ---------------------------------------------------------------------------------------------- YAML

func yamlOf(procs []ProcSpec, counts []int) string {
	var sb strings.Builder
	sb.WriteString("version: \"0.5\"\nlog_length: 60\nvars:\n  G: \"g\"\nprocesses:\n")
	for i, p := range procs {
		t := i + 1
		fmt.Fprintf(&sb, "  %s:\n", p.Name)
		big := ""
		if p.BigVar {
			big = " {{.BIG}}"
		}
		fmt.Fprintf(&sb, "    command: \"run T%d {{.PC_REPLICA_NUM}} end%s\"\n", t, big)
		fmt.Fprintf(&sb, "    description: \"d T%d {{.PC_REPLICA_NUM}} {{.G}}\"\n", t)
		fmt.Fprintf(&sb, "    replicas: %d\n", counts[i])
		if p.DependsOn != "" {
			fmt.Fprintf(&sb, "    depends_on:\n      %s:\n        condition: process_started\n", p.DependsOn)
		}
		switch p.Probe {
		case "exec":
			fmt.Fprintf(&sb, "    readiness_probe:\n      exec:\n        command: \"check T%d {{.PC_REPLICA_NUM}}\"\n      initial_delay_seconds: 3600\n      period_seconds: 3600\n", t)
		case "http":
			fmt.Fprintf(&sb, "    liveness_probe:\n      http_get:\n        host: \"127.0.0.1\"\n        path: \"/check/T%d/{{.PC_REPLICA_NUM}}\"\n        port: \"80{{.PC_REPLICA_NUM}}\"\n      initial_delay_seconds: 3600\n      period_seconds: 3600\n", t)
		}
		if p.Vars || p.BigVar {
			sb.WriteString("    vars:\n")
			if p.Vars {
				sb.WriteString("      TAG: \"x\"\n")
			}
			if p.BigVar {
				sb.WriteString("      BIG: 1000000\n")
			}
		}
		if p.Ext {
			sb.WriteString("    x-meta:\n      a: b\n")
		}
	}
	return sb.String()
}

func loadYaml(dir, name, y string) (*types.Project, error) {
	fn := filepath.Join(dir, name)
	if err := os.WriteFile(fn, []byte(y), 0o644); err != nil {
		return nil, err
	}
	return loader.Load(&loader.LoaderOptions{FileNames: []string{fn}, IsInternalLoader: true})
}

// ---------------------------------------------------------------------------------------------- digests

type digester struct {
	ids map[string]uint64
}

func (d *digester) id(s string) uint64 {
	if v, ok := d.ids[s]; ok {
		return v
	}
	v := uint64(len(d.ids) + 1)
	d.ids[s] = v
	return v
}

// everything a replica's configuration consists of, except the pre-render copy (OriginalConfig)
func cfgDigest(c *types.ProcessConfig) string {
	cp := *c
	cp.OriginalConfig = ""
	cp.Extensions = nil // yaml.v2 nested maps cannot be marshalled; extensions are not rendered anyway
	b, err := json.Marshal(cp)
	if err != nil {
		return "marshal-error:" + err.Error()
	}
	return string(b)
}

func parse2(s, format string) (int, int) {
	var t, n int
	if k, err := fmt.Sscanf(s, format, &t, &n); err != nil || k != 2 {
		return -1, -1
	}
	return t, n
}

// the replica number every rendered field was rendered for (7777 = fields disagree / unparsable)
func rendOf(c *types.ProcessConfig, big bool) (tmpl, rend int) {
	t1, n1 := parse2(c.Command, "run T%d %d end")
	if big && !strings.HasSuffix(c.Command, " end 1000000") {
		return t1, 7776
	}
	t2, n2 := parse2(c.Description, "d T%d %d g")
	n3 := -2
	if v, ok := c.Vars["PC_REPLICA_NUM"]; ok {
		switch x := v.(type) {
		case int:
			n3 = x
		case float64:
			n3 = int(x)
		}
	}
	n4 := -3
	if len(c.Args) == 2 && c.Args[1] == c.Command {
		n4 = n1
	}
	if t1 < 0 || t1 != t2 || n1 != n2 || n1 != n3 || n1 != n4 {
		return t1, 7777
	}
	return t1, n1
}

func probeOf(c *types.ProcessConfig, spec string) (string, int) {
	switch spec {
	case "exec":
		if c.ReadinessProbe == nil || c.ReadinessProbe.Exec == nil {
			return "<missing>", 8888
		}
		s := c.ReadinessProbe.Exec.Command
		_, n := parse2(s, "check T%d %d")
		if n < 0 {
			return s, 8887
		}
		return s, n
	case "http":
		if c.LivenessProbe == nil || c.LivenessProbe.HttpGet == nil {
			return "<missing>", 8888
		}
		h := c.LivenessProbe.HttpGet
		s := h.Path + " port=" + h.Port + " num=" + strconv.Itoa(h.NumPort)
		var t, n int
		if k, err := fmt.Sscanf(h.Path, "/check/T%d/%d", &t, &n); err != nil || k != 2 {
			return s, 8887
		}
		if h.Port != "80"+strconv.Itoa(n) { // NumPort (0 above 65535) is part of the digest
			return s, 8886
		}
		return s, n
	}
	if c.ReadinessProbe != nil || c.LivenessProbe != nil {
		return "<unexpected probe>", 8885
	}
	return "", c.ReplicaNum
}

// ---------------------------------------------------------------------------------------------- running

type world struct {
	mu     sync.Mutex
	step   int
	cid    map[*fakecmd.Cmd]uint64
	byPid  map[int]*fakecmd.Cmd
	newIn  map[int][]uint64 // step -> launched cids
	bidx   map[string]int
}

func specOf(procs []ProcSpec, base string) (int, *ProcSpec) {
	for i := range procs {
		if procs[i].Name == base {
			return i, &procs[i]
		}
	}
	return -1, nil
}

func sortedCopy(s []string) []string {
	r := append([]string{}, s...)
	sort.Strings(r)
	return r
}

func runCase(c *Case, tmp string, dg *digester) {
	c.Init, c.Steps = nil, nil
	counts := make([]int, len(c.Procs))
	for i, p := range c.Procs {
		counts[i] = p.Replicas
		if counts[i] == 0 {
			counts[i] = 1
		}
	}
	project, err := loadYaml(tmp, "run.yaml", yamlOf(c.Procs, counts))
	if err != nil {
		c.Note = "load failed: " + err.Error()
		return
	}
	w := &world{cid: map[*fakecmd.Cmd]uint64{}, byPid: map[int]*fakecmd.Cmd{}, newIn: map[int][]uint64{}, bidx: map[string]int{}}
	for i, p := range c.Procs {
		w.bidx[p.Name] = i
	}
	f := fakecmd.NewFactory()
	f.OnNew = func(cmd *fakecmd.Cmd) {
		conf := cmd.Proc.VerifConf()
		w.mu.Lock()
		var id uint64
		if w.step == 0 {
			id = uint64(w.bidx[conf.Name]*1000 + conf.ReplicaNum + 1)
		} else {
			id = uint64(w.step*100000 + conf.ReplicaNum + 1)
		}
		w.cid[cmd] = id
		w.byPid[cmd.Pid()] = cmd
		w.mu.Unlock()
	}
	f.OnStart = func(cmd *fakecmd.Cmd) {
		w.mu.Lock()
		w.newIn[w.step] = append(w.newIn[w.step], w.cid[cmd])
		w.mu.Unlock()
	}
	f.Install()
	defer app.SetVerifHooks(nil)
	runner, err := app.NewProjectRunner((&app.ProjectOpts{}).WithProject(project).WithIsTuiOn(true))
	if err != nil {
		c.Note = "runner failed: " + err.Error()
		return
	}
	done := make(chan struct{})
	go func() {
		defer func() {
			if r := recover(); r != nil {
				c.Note += fmt.Sprint(" Run panic: ", r)
			}
			close(done)
		}()
		_ = runner.Run()
	}()
	prevAlive := map[*fakecmd.Cmd]bool{}
	observe := func(o *Obs) {
		o.Quiet = waitQuiet(runner, f)
		writeMarkers(runner, f, w)
		snapshot(c, runner, f, w, dg, o, prevAlive)
	}
	// wait until Run() has created its registries
	time.Sleep(5 * time.Millisecond)
	init := &Obs{}
	observe(init)
	init.Ref = refOf(c, tmp, counts, dg, &init.RefErr)
	c.Init = init
	for i := range c.Reqs {
		rq := &c.Reqs[i]
		w.mu.Lock()
		w.step = i + 1
		w.mu.Unlock()
		names, _ := runner.GetLexicographicProcessNames()
		base := c.Procs[rq.Proc%len(c.Procs)].Name
		var mine []string
		for _, n := range names {
			if info, err := runner.GetProcessInfo(n); err == nil && info.Name == base {
				mine = append(mine, n)
			}
		}
		switch rq.Mode {
		case "rep":
			if len(mine) > 0 {
				rq.Name = mine[rq.Idx%len(mine)]
			} else {
				rq.Name = base
			}
		case "base":
			rq.Name = base
		case "stale":
			rq.Name = base + "-0"
		default:
			rq.Name = base + "-nosuch"
		}
		valid := false
		for _, n := range names {
			if n == rq.Name {
				valid = true
			}
		}
		o := Obs{}
		func() {
			defer func() {
				if r := recover(); r != nil {
					o.Panic = fmt.Sprint(r)
					o.Err = true
				}
			}()
			if err := runner.ScaleProcess(rq.Name, rq.N); err != nil {
				o.Err = true
				o.ErrMsg = err.Error()
			}
		}()
		if valid && rq.N >= 1 {
			counts[rq.Proc%len(c.Procs)] = rq.N
		}
		observe(&o)
		o.Ref = refOf(c, tmp, counts, dg, &o.RefErr)
		c.Steps = append(c.Steps, o)
		if o.Panic != "" {
			break
		}
	}
	// end of scenario: everything down
	finished := make(chan struct{})
	go func() {
		defer func() { _ = recover(); close(finished) }()
		_ = runner.ShutDownProject()
	}()
	select {
	case <-finished:
	case <-time.After(5 * time.Second):
		c.Note += " shutdown timeout"
	}
	select {
	case <-done:
	case <-time.After(3 * time.Second):
		c.Note += " run did not return"
		for _, cmd := range f.All() {
			cmd.Exit(-1)
		}
	}
}

func refOf(c *Case, tmp string, counts []int, dg *digester, errOut *string) []RefEntry {
	p, err := loadYaml(tmp, "ref.yaml", yamlOf(c.Procs, counts))
	if err != nil {
		*errOut = err.Error()
		return nil
	}
	var res []RefEntry
	names, _ := p.GetLexicographicProcessNames()
	for _, n := range names {
		conf := p.Processes[n]
		_, spec := specOf(c.Procs, conf.Name)
		big, pk := false, ""
		if spec != nil {
			big, pk = spec.BigVar, spec.Probe
		}
		t, r := rendOf(&conf, big)
		ps, pr := probeOf(&conf, pk)
		res = append(res, RefEntry{Key: n, Base: conf.Name, Num: conf.ReplicaNum, Reps: conf.Replicas, Tmpl: t, Rend: r,
			PRend: pr, Cfg: dg.id(cfgDigest(&conf)), Command: conf.Command, ProbeS: ps})
	}
	return res
}

type live struct {
	cmd  *fakecmd.Cmd
	name string
}

func aliveCmds(f *fakecmd.Factory) []live {
	var r []live
	for _, c := range f.All() {
		if c.Alive() {
			r = append(r, live{c, c.Proc.VerifName()})
		}
	}
	return r
}

func quietNow(runner *app.ProjectRunner, f *fakecmd.Factory) (bool, string) {
	names, _ := runner.GetLexicographicProcessNames()
	al := aliveCmds(f)
	cnt := map[string]int{}
	pid := map[string]int{}
	sig := []string{}
	for _, l := range al {
		cnt[l.name]++
		pid[l.name] = l.cmd.Pid()
		sig = append(sig, fmt.Sprintf("%s=%d", l.name, l.cmd.Pid()))
	}
	sort.Strings(sig)
	ok := len(al) == len(names)
	for _, n := range names {
		st, err := runner.GetProcessState(n)
		if err != nil || cnt[n] != 1 || st.Status != types.ProcessStateRunning || st.Pid != pid[n] {
			ok = false
		}
	}
	if len(runner.VerifRunning()) != len(names) {
		ok = false
	}
	return ok, strings.Join(sig, ",")
}

// quiet: every configured replica has exactly one live command, reports Running with that pid, nothing else is
// alive, and this has been so (unchanged) for several consecutive polls.  A time-out is recorded, not hidden.
func waitQuiet(runner *app.ProjectRunner, f *fakecmd.Factory) bool {
	deadline := time.Now().Add(4 * time.Second)
	stable, last := 0, ""
	for time.Now().Before(deadline) {
		ok, sig := quietNow(runner, f)
		if ok && sig == last {
			stable++
			if stable >= 4 {
				return true
			}
		} else {
			stable = 0
		}
		last = sig
		time.Sleep(2 * time.Millisecond)
	}
	// not quiet: let things settle a little more so that the snapshot is at least stable
	time.Sleep(50 * time.Millisecond)
	return false
}

func markerOf(id uint64) string { return fmt.Sprintf("M%d", id) }

func logMarkers(runner *app.ProjectRunner, name string) []uint64 {
	var res []uint64
	func() {
		defer func() { _ = recover() }()
		lines, err := runner.GetProcessLog(name, 1<<30, 0)
		if err != nil {
			return
		}
		for _, l := range lines {
			var v uint64
			if k, err := fmt.Sscanf(l, "M%d", &v); err == nil && k == 1 {
				res = append(res, v)
			}
		}
	}()
	return res
}

// every live command prints one marker line; wait until each shows up in the log stored under its current name
func writeMarkers(runner *app.ProjectRunner, f *fakecmd.Factory, w *world) {
	al := aliveCmds(f)
	before := map[string]int{}
	for _, l := range al {
		before[l.name] = len(logMarkers(runner, l.name))
	}
	var wg sync.WaitGroup
	for _, l := range al {
		wg.Add(1)
		go func(l live) {
			defer wg.Done()
			w.mu.Lock()
			id := w.cid[l.cmd]
			w.mu.Unlock()
			l.cmd.WriteOut([]byte(markerOf(id) + "\n"))
		}(l)
	}
	fin := make(chan struct{})
	go func() { wg.Wait(); close(fin) }()
	select {
	case <-fin:
	case <-time.After(2 * time.Second):
	}
	deadline := time.Now().Add(1 * time.Second)
	for time.Now().Before(deadline) {
		all := true
		for _, l := range al {
			if len(logMarkers(runner, l.name)) <= before[l.name] {
				all = false
				break
			}
		}
		if all {
			return
		}
		time.Sleep(1 * time.Millisecond)
	}
}

func snapshot(c *Case, runner *app.ProjectRunner, f *fakecmd.Factory, w *world, dg *digester, o *Obs, prevAlive map[*fakecmd.Cmd]bool) {
	names, _ := runner.GetLexicographicProcessNames()
	al := aliveCmds(f)
	w.mu.Lock()
	defer w.mu.Unlock()
	byName := map[string][]*fakecmd.Cmd{}
	for _, l := range al {
		byName[l.name] = append(byName[l.name], l.cmd)
	}
	running := runner.VerifRunning()
	inProject := map[string]bool{}
	for _, n := range names {
		inProject[n] = true
		e := Entry{Key: n}
		if info, err := runner.GetProcessInfo(n); err == nil {
			_, spec := specOf(c.Procs, info.Name)
			big, pk := false, ""
			if spec != nil {
				big, pk = spec.BigVar, spec.Probe
			}
			e.Base, e.Num, e.Reps, e.RName = info.Name, info.ReplicaNum, info.Replicas, info.ReplicaName
			e.Tmpl, e.Rend = rendOf(info, big)
			e.ProbeS, e.PRend = probeOf(info, pk)
			e.Cfg = dg.id(cfgDigest(info))
			e.Command = info.Command
		}
		e.NAlive = len(byName[n])
		if len(byName[n]) > 0 {
			e.Inst = w.cid[byName[n][0]]
		}
		ms := logMarkers(runner, n)
		e.LogN = len(ms)
		if len(ms) > 0 {
			e.LogW = ms[len(ms)-1]
			for _, m := range ms {
				if m != e.LogW {
					e.LogW = 999999999 // lines of different instances in one log
				}
			}
		}
		if st, err := runner.GetProcessState(n); err == nil {
			e.SName, e.Status = st.Name, st.Status
			if cmd, ok := w.byPid[st.Pid]; ok {
				e.StInst = w.cid[cmd]
			}
		} else {
			e.Status = "<no state>"
		}
		if rp, ok := running[n]; ok {
			e.RunName = rp.VerifName()
		}
		o.Entries = append(o.Entries, e)
	}
	o.StateKeys = sortedCopy(runner.VerifProcessStateNames())
	o.LogKeys = sortedCopy(runner.VerifProcessLogNames())
	for k := range running {
		o.RunKeys = append(o.RunKeys, k)
	}
	sort.Strings(o.RunKeys)
	if sts, err := runner.GetProcessesState(); err == nil {
		for _, s := range sts.States {
			o.ApiStates = append(o.ApiStates, s.Name)
		}
		sort.Strings(o.ApiStates)
	} else {
		o.ApiStates = []string{"<error: " + err.Error() + ">"}
	}
	o.Orphans = []uint64{}
	nowAlive := map[*fakecmd.Cmd]bool{}
	for _, l := range al {
		nowAlive[l.cmd] = true
		if !inProject[l.name] {
			o.Orphans = append(o.Orphans, w.cid[l.cmd])
		}
	}
	sort.Slice(o.Orphans, func(i, j int) bool { return o.Orphans[i] < o.Orphans[j] })
	o.Stopped = []Stopped{}
	for cmd := range prevAlive {
		if !nowAlive[cmd] {
			o.Stopped = append(o.Stopped, Stopped{Inst: w.cid[cmd], Signalled: len(cmd.Signals()) > 0})
		}
	}
	sort.Slice(o.Stopped, func(i, j int) bool { return o.Stopped[i].Inst < o.Stopped[j].Inst })
	o.Launched = append([]uint64{}, w.newIn[w.step]...)
	sort.Slice(o.Launched, func(i, j int) bool { return o.Launched[i] < o.Launched[j] })
	for k := range prevAlive {
		delete(prevAlive, k)
	}
	for k := range nowAlive {
		prevAlive[k] = true
	}
}

// ---------------------------------------------------------------------------------------------- generation

var quickCounts = []int{1, 2, 3, 9, 10, 11, 12}
var thoroughCounts = []int{1, 2, 3, 9, 10, 11, 12, 99, 100, 101}
var baseNames = []string{"web", "w", "api-1", "x-09", "a.b", "Web_2"}

func genReqs(r *rand.Rand, counts []int, nprocs, maxReq int) []Req {
	n := 1 + r.Intn(maxReq)
	var reqs []Req
	for i := 0; i < n; i++ {
		rq := Req{Proc: 0, Mode: "rep", Idx: r.Intn(200)}
		if nprocs > 1 && r.Intn(4) == 0 {
			rq.Proc = 1 + r.Intn(nprocs-1)
		}
		switch k := r.Intn(20); {
		case k == 0:
			rq.Mode = "unknown"
		case k == 1:
			rq.Mode = "base"
		case k == 2:
			rq.Mode = "stale"
		}
		switch k := r.Intn(16); {
		case k == 0:
			rq.N = 0
		case k == 1:
			rq.N = -1 - r.Intn(3)
		default:
			rq.N = counts[r.Intn(len(counts))]
			if rq.Proc != 0 && rq.N > 12 {
				rq.N = 1 + r.Intn(4)
			}
			if rq.Proc == 1 {
				// "db" is a dependency of the main process: a project in which it has replicas is rejected by the
				// loader (finding F18, properties C07/C01), so there is no reference to compare with
				rq.N = 1
			}
		}
		reqs = append(reqs, rq)
	}
	return reqs
}

func genRandom(r *rand.Rand, counts []int, maxReq int) *Case {
	c := &Case{Kind: "random"}
	main := ProcSpec{Name: baseNames[r.Intn(len(baseNames))], Replicas: counts[r.Intn(len(counts))]}
	switch r.Intn(3) {
	case 0:
		main.Probe = "exec"
	case 1:
		main.Probe = "http"
	}
	main.Vars = r.Intn(2) == 0
	main.DependsOn = "db"
	c.Procs = []ProcSpec{main, {Name: "db"}, {Name: "side", Replicas: 1 + r.Intn(3), Probe: []string{"", "exec"}[r.Intn(2)]}}
	if r.Intn(3) == 0 {
		c.Procs = append(c.Procs, ProcSpec{Name: "solo", Vars: true})
	}
	c.Reqs = genReqs(r, counts, len(c.Procs), maxReq)
	return c
}

// directed: every ordered pair of counts (a -> b), request by the first and by the last replica name
func genPairs(counts []int) []*Case {
	var res []*Case
	for _, a := range counts {
		for _, b := range counts {
			if a > 12 && b > 12 && a != b {
				// large -> large only in one direction each (time)
				if a < b {
					continue
				}
			}
			c := &Case{Kind: fmt.Sprintf("pair-%d-%d", a, b)}
			c.Procs = []ProcSpec{{Name: "web", Replicas: a, Probe: "exec", Vars: true, DependsOn: "db"}, {Name: "db"}, {Name: "side", Replicas: 2}}
			c.Reqs = []Req{{Proc: 0, Mode: "rep", Idx: a - 1, N: b}, {Proc: 0, Mode: "rep", Idx: 0, N: a}}
			res = append(res, c)
		}
	}
	return res
}

func genErrors() []*Case {
	c := &Case{Kind: "errors"}
	c.Procs = []ProcSpec{{Name: "web", Replicas: 3, Probe: "exec", DependsOn: "db"}, {Name: "db"}, {Name: "side", Replicas: 1}}
	c.Reqs = []Req{{Proc: 0, Mode: "base", N: 2}, {Proc: 0, Mode: "unknown", N: 2}, {Proc: 0, Mode: "rep", Idx: 1, N: 0},
		{Proc: 0, Mode: "rep", Idx: 2, N: -5}, {Proc: 2, Mode: "stale", N: 2}, {Proc: 0, Mode: "rep", Idx: 1, N: 3}}
	return []*Case{c}
}

// ---------------------------------------------------------------------------------------------- Gallina

func coqString(s string) string {
	// Coq string literal: only the double quote is special
	return "\"" + strings.ReplaceAll(s, "\"", "\"\"") + "\""
}

func bs(s string) string { return "(b " + coqString(s) + ")" }

func strList(l []string) string {
	items := make([]string, len(l))
	for i, s := range l {
		items[i] = bs(s)
	}
	return coqfmt.List(items)
}

func tmplOrMarker(v int) uint64 {
	if v < 0 {
		return 999999
	}
	return uint64(v)
}

func natOrMarker(v int) int {
	if v < 0 {
		return 999999
	}
	return v
}

func entryCoq(e Entry) string {
	return fmt.Sprintf("mkO %s %s %s %s %s %s %s %s %s %s %s %s %s %s %s %s", bs(e.Key), bs(e.Base), coqfmt.Nat(natOrMarker(e.Num)),
		coqfmt.Nat(natOrMarker(e.Reps)), bs(e.RName), coqfmt.N(tmplOrMarker(e.Tmpl)), coqfmt.Nat(natOrMarker(e.Rend)), coqfmt.Nat(natOrMarker(e.PRend)),
		coqfmt.N(e.Inst), coqfmt.Nat(e.NAlive), coqfmt.N(e.LogW), coqfmt.Nat(e.LogN), coqfmt.N(e.StInst), bs(e.SName),
		bs(e.RunName), coqfmt.N(e.Cfg))
}

func refCoq(e RefEntry) string {
	return fmt.Sprintf("mkR %s %s %s %s %s %s %s %s", bs(e.Key), bs(e.Base), coqfmt.Nat(natOrMarker(e.Num)), coqfmt.Nat(natOrMarker(e.Reps)),
		coqfmt.N(tmplOrMarker(e.Tmpl)), coqfmt.Nat(natOrMarker(e.Rend)), coqfmt.Nat(natOrMarker(e.PRend)), coqfmt.N(e.Cfg))
}

func obsCoq(o *Obs) string {
	es := make([]string, len(o.Entries))
	for i, e := range o.Entries {
		es[i] = entryCoq(e)
	}
	rs := make([]string, len(o.Ref))
	for i, e := range o.Ref {
		rs[i] = refCoq(e)
	}
	st := make([]string, len(o.Stopped))
	for i, s := range o.Stopped {
		st[i] = coqfmt.Pair(coqfmt.N(s.Inst), coqfmt.Bool(s.Signalled))
	}
	return fmt.Sprintf("mkObs %s %s\n    %s\n    %s %s %s %s\n    %s %s %s\n    %s", coqfmt.Bool(o.Err), coqfmt.Bool(o.Quiet && o.Panic == ""),
		coqfmt.List(es), strList(o.StateKeys), strList(o.LogKeys), strList(o.RunKeys), strList(o.ApiStates),
		coqfmt.ListN(o.Orphans), coqfmt.List(st), coqfmt.ListN(o.Launched), coqfmt.List(rs))
}

func caseCoq(c *Case) string {
	cfg := make([]string, len(c.Procs))
	for i, p := range c.Procs {
		k := p.Replicas
		cfg[i] = fmt.Sprintf("(%s, %s, %s)", bs(p.Name), coqfmt.Nat(k), coqfmt.N(uint64(i+1)))
	}
	reqs := make([]string, len(c.Steps))
	steps := make([]string, len(c.Steps))
	for i := range c.Steps {
		reqs[i] = coqfmt.Pair(bs(c.Reqs[i].Name), coqfmt.Z(int64(c.Reqs[i].N)))
		steps[i] = obsCoq(&c.Steps[i])
	}
	return fmt.Sprintf("mkCase %s\n  %s\n  (%s)\n  %s", coqfmt.List(cfg), coqfmt.List(reqs), obsCoq(c.Init), coqfmt.List(steps))
}

// ---------------------------------------------------------------------------------------------- names

func digitsOf(n int) int {
	d := 1
	for n >= 10 {
		n /= 10
		d++
	}
	return d
}

// integer reference of CalculateReplicaName (no floating point)
func refName(base string, reps, num int) string {
	if reps <= 1 {
		return base
	}
	s := strconv.Itoa(num)
	for len(s) < digitsOf(reps) {
		s = "0" + s
	}
	return base + "-" + s
}

func nameSweep(limit int, r *rand.Rand) (cases []NameCase, checked int, mismatches []NameCase) {
	add := func(base string, reps, num int, keep bool) {
		pc := types.ProcessConfig{Name: base, Replicas: reps, ReplicaNum: num}
		got := pc.CalculateReplicaName()
		checked++
		nc := NameCase{Base: base, Reps: reps, Num: num, Got: got}
		if got != refName(base, reps, num) {
			mismatches = append(mismatches, nc)
			keep = true
		}
		if keep && len(cases) < 4000 {
			cases = append(cases, nc)
		}
	}
	for reps := -1; reps <= limit; reps++ {
		keep := reps <= 120 || digitsOf(reps) != digitsOf(reps+1) || digitsOf(reps) != digitsOf(reps-1)
		add("p", reps, 0, keep)
		if reps > 1 {
			add("p", reps, reps-1, keep)
			add("p", reps, r.Intn(reps), keep && reps <= 1100)
		}
	}
	for _, reps := range []int{9999999, 10000000, 10000001, 99999999, 100000000, 999999999, 1000000000, 999999999999, 1000000000000,
		99999999999999, 100000000000000, 999999999999999} {
		add("q-1", reps, 0, true)
		add("q-1", reps, reps-1, true)
		add("q-1", reps, 12345, true)
	}
	return
}

func nameCoq(n NameCase) string {
	reps := n.Reps
	if reps < 0 {
		reps = 0 // Replicas <= 1 gives the bare name; the model takes a nat
	}
	return fmt.Sprintf("(%s, %d%%N, %d%%N, %s)", bs(n.Base), reps, n.Num, bs(n.Got))
}

// ---------------------------------------------------------------------------------------------- main

func main() {
	seed := flag.Int64("seed", 1, "PRNG seed")
	nrand := flag.Int("n", 40, "number of random scenarios")
	out := flag.String("out", ".", "output directory")
	replay := flag.String("replay", "", "re-run the cases of this JSON file instead of generating")
	corpus := flag.String("corpus", "", "directory with corpus cases (*.json) that run first")
	thorough := flag.Bool("thorough", false, "thorough tier: counts 99,100,101, more pairs")
	flag.Parse()
	zerolog.SetGlobalLevel(zerolog.Disabled)
	stdout := os.Stdout
	if devnull, err := os.OpenFile(os.DevNull, os.O_WRONLY, 0); err == nil {
		os.Stdout = devnull
		os.Stderr = devnull
	}
	tmp, err := os.MkdirTemp("", "c13-")
	if err != nil {
		panic(err)
	}
	defer os.RemoveAll(tmp)

	var cases []*Case
	addFile := func(p string) {
		data, err := os.ReadFile(p)
		if err != nil {
			fmt.Fprintln(stdout, err)
			os.Exit(2)
		}
		var cs []*Case
		if err := json.Unmarshal(data, &cs); err != nil {
			fmt.Fprintln(stdout, p, err)
			os.Exit(2)
		}
		for _, c := range cs {
			reqs := make([]Req, len(c.Reqs))
			for i, q := range c.Reqs {
				reqs[i] = Req{Proc: q.Proc, Mode: q.Mode, Idx: q.Idx, N: q.N}
			}
			cases = append(cases, &Case{Kind: c.Kind, Procs: c.Procs, Reqs: reqs})
		}
	}
	r := rand.New(rand.NewSource(*seed))
	counts := quickCounts
	maxReq := 6
	if *thorough {
		counts = thoroughCounts
	}
	if *replay != "" {
		addFile(*replay)
	} else {
		if *corpus != "" {
			files, _ := filepath.Glob(filepath.Join(*corpus, "*.json"))
			sort.Strings(files)
			for _, f := range files {
				addFile(f)
			}
		}
		cases = append(cases, genErrors()...)
		if *thorough {
			cases = append(cases, genPairs(thoroughCounts)...)
		} else {
			cases = append(cases, genPairs([]int{1, 2, 9, 10, 11})...)
			big := &Case{Kind: "pair-99-100-101"}
			big.Procs = []ProcSpec{{Name: "web", Replicas: 99, Probe: "exec", DependsOn: "db"}, {Name: "db"}, {Name: "side", Replicas: 2}}
			big.Reqs = []Req{{Proc: 0, Mode: "rep", Idx: 98, N: 100}, {Proc: 0, Mode: "rep", Idx: 5, N: 101}, {Proc: 0, Mode: "rep", Idx: 100, N: 99}}
			cases = append(cases, big)
		}
		for i := 0; i < *nrand; i++ {
			cases = append(cases, genRandom(r, counts, maxReq))
		}
	}
	dg := &digester{ids: map[string]uint64{}}
	t0 := time.Now()
	for _, c := range cases {
		runCase(c, tmp, dg)
	}
	runSecs := time.Since(t0).Seconds()
	limit := 200000
	if *thorough {
		limit = 3000000
	}
	var ncases, nmis []NameCase
	nchecked := 0
	if *replay == "" {
		ncases, nchecked, nmis = nameSweep(limit, r)
	}

	header := "From Coq Require Import List ZArith NArith String.\nFrom PC.Replica Require Import Model Check.\nImport ListNotations.\nLocal Open Scope string_scope.\n"
	results := []string{"bad_model", "bad_monitor", "bad_init", "bad_error", "bad_names", "bad_config", "bad_maps", "bad_kept", "bad_removed", "bad_added", "bad_others", "bad_quiet"}
	var kept []*Case
	for _, c := range cases {
		if c.Init != nil {
			kept = append(kept, c)
		}
	}
	// shards of bounded size: one coqc process per shard (memory), indices are offset by the check
	var shards [][2]int
	start, size := 0, 0
	for i, c := range kept {
		sz := len(c.Init.Entries)
		for _, st := range c.Steps {
			sz += len(st.Entries)
		}
		if size > 0 && (size+sz > 2500 || i-start >= 80) {
			shards = append(shards, [2]int{start, i})
			start, size = i, 0
		}
		size += sz
	}
	shards = append(shards, [2]int{start, len(kept)})
	for k, sh := range shards {
		var sb strings.Builder
		sb.WriteString(header)
		sb.WriteString("Definition cases : list ocase := [\n")
		for i := sh[0]; i < sh[1]; i++ {
			if i > sh[0] {
				sb.WriteString(";\n")
			}
			sb.WriteString(caseCoq(kept[i]))
		}
		sb.WriteString("\n].\n")
		for _, nm := range results {
			fmt.Fprintf(&sb, "Definition r_%s := Eval vm_compute in %s cases.\nPrint r_%s.\n", nm, nm, nm)
		}
		if k == 0 {
			sb.WriteString("Definition ncases : list (bytes * N * N * bytes) := [\n")
			for i, n := range ncases {
				if i > 0 {
					sb.WriteString(";\n")
				}
				sb.WriteString(nameCoq(n))
			}
			sb.WriteString("\n].\n")
			sb.WriteString("Definition r_bad_namecases := Eval vm_compute in bad_namecases ncases.\nPrint r_bad_namecases.\n")
		}
		if err := os.WriteFile(filepath.Join(*out, fmt.Sprintf("cases_C13_%03d.v", k)), []byte(sb.String()), 0o644); err != nil {
			panic(err)
		}
	}
	js, _ := json.Marshal(kept)
	if err := os.WriteFile(filepath.Join(*out, "cases_C13.json"), js, 0o644); err != nil {
		panic(err)
	}
	js, _ = json.Marshal(ncases)
	_ = os.WriteFile(filepath.Join(*out, "namecases_C13.json"), js, 0o644)

	stats := map[string]interface{}{}
	nreq, nerr, nup, ndown, nsame, ncross, notquiet, failedLoad := 0, 0, 0, 0, 0, 0, 0, 0
	pairs := map[string]bool{}
	for _, c := range cases {
		if c.Init == nil {
			failedLoad++
			continue
		}
		cur := map[string]int{}
		for _, e := range c.Init.Entries {
			cur[e.Base]++
		}
		if !c.Init.Quiet {
			notquiet++
		}
		for i := range c.Steps {
			nreq++
			st := &c.Steps[i]
			if !st.Quiet {
				notquiet++
			}
			if st.Err {
				nerr++
				continue
			}
			base := c.Procs[c.Reqs[i].Proc%len(c.Procs)].Name
			a, b := cur[base], c.Reqs[i].N
			pairs[fmt.Sprintf("%d>%d", a, b)] = true
			switch {
			case b > a:
				nup++
			case b < a:
				ndown++
			default:
				nsame++
			}
			if digitsOf(a) != digitsOf(b) || (a == 1) != (b == 1) {
				ncross++
			}
			cur[base] = b
		}
	}
	stats["scenarios"] = len(kept)
	stats["load_failed"] = failedLoad
	stats["requests"] = nreq
	stats["requests_failed"] = nerr
	stats["scale_up"] = nup
	stats["scale_down"] = ndown
	stats["scale_same"] = nsame
	stats["width_or_bare_boundary_crossings"] = ncross
	stats["distinct_count_pairs"] = len(pairs)
	stats["not_quiet_observations"] = notquiet
	stats["name_function_points_checked_in_go"] = nchecked
	stats["name_function_points_sent_to_coq"] = len(ncases)
	stats["name_function_mismatches_vs_integer_reference"] = len(nmis)
	if len(nmis) > 0 {
		stats["name_function_first_mismatch"] = nmis[0]
	}
	stats["run_seconds"] = runSecs
	shardInfo := make([][2]int, len(shards))
	copy(shardInfo, shards)
	stats["shards"] = shardInfo
	line, _ := json.Marshal(stats)
	fmt.Fprintln(stdout, string(line))
}
