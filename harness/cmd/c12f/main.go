// c12f: fault cases for C12 that the controlled-scheduling harness (cmd/sup) cannot express: the stop signal of a
// DEPENDENT cannot be delivered (Commander.Stop returns an error, the command stays alive and ends by itself later).
// Free running (no scheduler), real ProjectRunner with ordered shutdown, fake commands.  For every dependency edge
// dependent -> dependency the oracle is the property text: the dependency receives its stop signal only when the
// dependent's command is no longer alive.  Output: one JSON object per case on stdout (last line = summary).
//
//	c12f -out <dir> [-n N] [-seed S]
package main

import (
	"encoding/json"
	"errors"
	"flag"
	"fmt"
	"math/rand"
	"os"
	"path/filepath"
	"strings"
	"sync"
	"time"

	"github.com/f1bonacc1/process-compose/src/app"
	"github.com/f1bonacc1/process-compose/src/loader"
	"github.com/rs/zerolog"
	"pcverif/fakecmd"
)

type Case struct {
	ID        int        `json:"id"`
	Names     []string   `json:"names"`
	Deps      [][]string `json:"deps"`       // deps[i] = names that names[i] depends on (process_started)
	FailStop  []string   `json:"fail_stop"`  // processes whose Stop fails and that stay alive ...
	LingerMs  int        `json:"linger_ms"`  // ... for this long after the failed stop
	Violation []string   `json:"violations"` // "dependency X signalled while dependent Y alive"
	Returned  bool       `json:"shutdown_returned"`
	Err       string     `json:"err,omitempty"`
}

func yamlOf(c *Case) string {
	var sb strings.Builder
	sb.WriteString("version: \"0.5\"\nprocesses:\n")
	for i, n := range c.Names {
		sb.WriteString("  " + n + ":\n    command: \"" + n + "\"\n")
		if len(c.Deps[i]) > 0 {
			sb.WriteString("    depends_on:\n")
			for _, d := range c.Deps[i] {
				sb.WriteString("      " + d + ":\n        condition: process_started\n")
			}
		}
	}
	return sb.String()
}

func runCase(c *Case, dir string) {
	f := filepath.Join(dir, fmt.Sprintf("c12f-%d.yaml", c.ID))
	if err := os.WriteFile(f, []byte(yamlOf(c)), 0o644); err != nil {
		c.Err = err.Error()
		return
	}
	prj, err := loader.Load(&loader.LoaderOptions{FileNames: []string{f}, IsInternalLoader: true})
	if err != nil {
		c.Err = "load: " + err.Error()
		return
	}
	fail := map[string]bool{}
	for _, n := range c.FailStop {
		fail[n] = true
	}
	dependents := map[string][]string{} // dependency -> dependents
	for i, n := range c.Names {
		for _, d := range c.Deps[i] {
			dependents[d] = append(dependents[d], n)
		}
	}
	var mu sync.Mutex
	live := map[string]*fakecmd.Cmd{}
	fac := fakecmd.NewFactory()
	fac.OnStart = func(cm *fakecmd.Cmd) { mu.Lock(); live[cm.Name] = cm; mu.Unlock() }
	fac.OnStop = func(cm *fakecmd.Cmd, sig int, parentOnly bool) {
		mu.Lock()
		for _, dn := range dependents[cm.Name] {
			if d := live[dn]; d != nil && d.Alive() {
				c.Violation = append(c.Violation, fmt.Sprintf("%s received its stop signal while its dependent %s was alive", cm.Name, dn))
			}
		}
		mu.Unlock()
		if fail[cm.Name] {
			go func() { time.Sleep(time.Duration(c.LingerMs) * time.Millisecond); cm.Exit(0) }()
			return // the signal is not delivered: the command lives on
		}
		cm.Exit(-1)
	}
	fac.StopErr = func(cm *fakecmd.Cmd, sig int, parentOnly bool) error {
		if fail[cm.Name] {
			return errors.New("operation not permitted")
		}
		return nil
	}
	fac.Install()
	defer app.SetVerifHooks(nil)
	runner, err := app.NewProjectRunner((&app.ProjectOpts{}).WithProject(prj).WithOrderedShutDown(true))
	if err != nil {
		c.Err = "runner: " + err.Error()
		return
	}
	saved := os.Stdout
	if dn, e := os.OpenFile(os.DevNull, os.O_WRONLY, 0); e == nil {
		os.Stdout = dn
		defer func() { os.Stdout = saved; dn.Close() }()
	}
	done := make(chan struct{})
	go func() { _ = runner.Run(); close(done) }()
	deadline := time.Now().Add(3 * time.Second)
	for time.Now().Before(deadline) {
		mu.Lock()
		n := len(live)
		mu.Unlock()
		if n == len(c.Names) {
			break
		}
		time.Sleep(5 * time.Millisecond)
	}
	sd := make(chan struct{})
	go func() { _ = runner.ShutDownProject(); close(sd) }()
	select {
	case <-sd:
		c.Returned = true
	case <-time.After(time.Duration(c.LingerMs+4000) * time.Millisecond):
	}
	select {
	case <-done:
	case <-time.After(2 * time.Second):
	}
	// let lingering commands finish so that nothing outlives the case
	time.Sleep(time.Duration(c.LingerMs) * time.Millisecond)
}

func main() {
	out := flag.String("out", ".", "")
	n := flag.Int("n", 12, "random cases besides the directed ones")
	seed := flag.Int64("seed", 1, "")
	flag.Parse()
	zerolog.SetGlobalLevel(zerolog.Disabled)
	rng := rand.New(rand.NewSource(*seed))
	var cases []*Case
	add := func(names []string, deps [][]string, failStop []string, linger int) {
		cases = append(cases, &Case{ID: len(cases), Names: names, Deps: deps, FailStop: failStop, LingerMs: linger})
	}
	add([]string{"db", "web"}, [][]string{{}, {"db"}}, []string{"web"}, 300)
	add([]string{"db", "api", "web"}, [][]string{{}, {"db"}, {"api"}}, []string{"web"}, 250)
	add([]string{"db", "api", "web"}, [][]string{{}, {"db"}, {"api"}}, []string{"api"}, 250)
	add([]string{"db", "a", "b"}, [][]string{{}, {"db"}, {"db"}}, []string{"a"}, 300)
	add([]string{"db", "web"}, [][]string{{}, {"db"}}, nil, 0) // control: no fault
	for k := 0; k < *n; k++ {
		m := 2 + rng.Intn(3)
		names := make([]string, m)
		deps := make([][]string, m)
		for i := range names {
			names[i] = fmt.Sprintf("p%d", i)
			for j := 0; j < i; j++ {
				if j == i-1 || rng.Intn(3) == 0 {
					deps[i] = append(deps[i], names[j])
				}
			}
		}
		var fs []string
		for i := 1; i < m; i++ {
			if rng.Intn(2) == 0 {
				fs = append(fs, names[i])
			}
		}
		add(names, deps, fs, 150+rng.Intn(250))
	}
	bad := 0
	for _, c := range cases {
		runCase(c, *out)
		if len(c.Violation) > 0 {
			bad++
		}
	}
	js, _ := json.Marshal(cases)
	_ = os.WriteFile(filepath.Join(*out, "cases_C12f.json"), js, 0o644)
	sj, _ := json.Marshal(map[string]int{"cases": len(cases), "violating": bad})
	fmt.Println(string(sj))
}
