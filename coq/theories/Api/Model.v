(* Model of the REST layer (src/api/pc_api.go, routes.go, ws_api.go) and of the bundled client
   (src/client/*.go).  No proofs in this file: it must stay evaluable when a proof is broken.

   Go code modelled (pinned commit + the proposed repairs fixes/F10-*.diff and fixes/F30-*.diff):
     handlers                     src/api/pc_api.go:36-418     -> [call_of], [respond], [handle]
     websocket entry              src/api/ws_api.go:19-33      -> the OWs lines of [call_of]/[handle]
     routing of path parameters   src/api/routes.go:27-46      -> [routed] (gin: a parameter is never empty)
     client methods               src/client/*.go              -> [req_of] (what is sent), [client_decode]
     the unrepaired client        (getProcessInfo, getProcessPorts, GetRemoteProcessesState,
                                   getProjectState, GetProcessLog) -> [client_decode_orig]

   Abstractions (what the harness maps to what):
     * byte strings are [list N]; process names are byte strings;
     * values that cross the wire (ProcessState, ProcessConfig, ProcessesState, ProcessPorts, ProjectState,
       log slices, host name, error texts) are identifiers [N] of their projected canonical JSON: the JSON
       codec is modelled, not verified; it is inside the compared behaviour of the correspondence run;
     * a numeric path parameter is [PInt z] (an optionally signed decimal literal of value z, any size),
       [PJunk] (any other non-empty text) or [PEmpty];  strconv.Atoi accepts exactly the literals that fit
       in a 64-bit int;
     * a request body is classified by what encoding/json does with it for the target type. *)
From Coq Require Import List ZArith Bool NArith.
Import ListNotations.

Definition str := list N.

Inductive op :=
| OLive | OHostname | OStates | OState | OInfo | OUpdateProcess | OPorts | OLogs | OStop | OStopMany
| OStart | ORestart | OShutdown | OUpdateProject | OReload | OProjectState | OScale | OWs.

Definition all_ops : list op :=
  [OLive; OHostname; OStates; OState; OInfo; OUpdateProcess; OPorts; OLogs; OStop; OStopMany;
   OStart; ORestart; OShutdown; OUpdateProject; OReload; OProjectState; OScale; OWs].

Inductive numparam := PInt (z : Z) | PJunk | PEmpty.

(* JNone: no body at all; JMalformed: not JSON (truncated, syntax error); JWrongType: JSON of another
   shape than the target; JNull: the literal null (decodes to the zero value); JVal: a value of the
   target type *)
Inductive jbody := JNone | JMalformed | JWrongType | JNull | JVal.

Record request := mkReq {
  r_op    : op;
  r_name  : str;          (* :name *)
  r_p1    : numparam;     (* :endOffset | :scale | ?offset= (ws) *)
  r_p2    : numparam;     (* :limit *)
  r_query : str;          (* ?withMemory= *)
  r_body  : jbody;
  r_names : list str;     (* decoded body of PATCH /processes/stop when r_body = JVal *)
  r_bid   : N;            (* identifier of the decoded body of POST /process, POST /project *)
  r_wsok  : bool          (* the request carries a websocket handshake *)
}.

(* the IProject call a handler makes *)
Inductive call :=
| KHostname | KStates | KState (n : str) | KInfo (n : str) | KUpdateProcess (v : N) | KPorts (n : str)
| KLogs (n : str) (off lim : Z) | KStop (n : str) | KStopMany (ns : list str) | KStart (n : str)
| KRestart (n : str) | KShutdown | KUpdateProject (v : N) | KReload | KProjectState (mem : bool)
| KScale (n : str) (k : Z).

Definition op_of (k : call) : op :=
  match k with
  | KHostname => OHostname | KStates => OStates | KState _ => OState | KInfo _ => OInfo
  | KUpdateProcess _ => OUpdateProcess | KPorts _ => OPorts | KLogs _ _ _ => OLogs | KStop _ => OStop
  | KStopMany _ => OStopMany | KStart _ => OStart | KRestart _ => ORestart | KShutdown => OShutdown
  | KUpdateProject _ => OUpdateProject | KReload => OReload | KProjectState _ => OProjectState
  | KScale _ _ => OScale
  end.

(* what an IProject method returns: (value, error) pairs of Go, error checked first by every handler *)
Inductive rres :=
| RErr (e : N)                                   (* err != nil (value ignored) *)
| ROk                                            (* err == nil, no value *)
| RVal (v : N)                                   (* err == nil, value v *)
| RMap (m : list (str * N)) (err : option N).    (* status map together with an optional error *)

Definition is_error (r : rres) : bool :=
  match r with RErr _ => true | RMap _ (Some _) => true | _ => false end.

(* Go's static typing of the IProject methods *)
Definition shape_ok (o : op) (r : rres) : bool :=
  match o with
  | OHostname | OStates | OState | OInfo | OPorts | OLogs | OProjectState =>
      match r with RErr _ | RVal _ => true | _ => false end
  | OUpdateProcess | OStop | OStart | ORestart | OScale | OShutdown =>
      match r with RErr _ | ROk => true | _ => false end
  | OStopMany | OUpdateProject | OReload =>
      match r with RMap _ _ => true | _ => false end
  | OLive | OWs => true
  end.

(* ---------- server ---------------------------------------------------------------------------- *)
Definition in_int (z : Z) : bool := ((- 9223372036854775808 <=? z) && (z <=? 9223372036854775807))%Z.

(* strconv.Atoi *)
Definition atoi (p : numparam) : option Z :=
  match p with PInt z => if in_int z then Some z else None | _ => None end.

Definition s_true : list str :=
  [[49]; [116]; [84]; [84;82;85;69]; [116;114;117;101]; [84;114;117;101]]%N.   (* 1 t T TRUE true True *)
Fixpoint str_eqb (a b : str) : bool :=
  match a, b with
  | [], [] => true
  | x :: a', y :: b' => N.eqb x y && str_eqb a' b'
  | _, _ => false
  end.
(* checkMem, _ := strconv.ParseBool(withMemory): errors are ignored, the value is then false *)
Definition parse_bool (s : str) : bool := existsb (str_eqb s) s_true.

Definition nonempty_param (p : numparam) : bool := match p with PEmpty => false | _ => true end.
Definition slash : N := 47.
Definition no_slash (n : str) : bool := negb (existsb (N.eqb slash) n).
Definition name_routable (n : str) : bool := match n with [] => false | _ => no_slash n end.

(* gin matches a route when every path parameter is one segment (no '/'); the LAST parameter must be
   non-empty (an empty one in the middle is matched and reaches the handler as "") *)
Definition routed (q : request) : bool :=
  match r_op q with
  | OState | OInfo | OPorts | OStop | OStart | ORestart => name_routable (r_name q)
  | OLogs => no_slash (r_name q) && nonempty_param (r_p2 q)
  | OScale => no_slash (r_name q) && nonempty_param (r_p1 q)
  | _ => true
  end.

Inductive parsed := PReject | PStatic | PCall (k : call).

(* c.ShouldBindJSON(&x) succeeded? *)
Definition bind_ok (b : jbody) : bool := match b with JNull | JVal => true | _ => false end.

Definition call_of (q : request) : parsed :=
  match r_op q with
  | OLive => PStatic
  | OHostname => PCall KHostname
  | OStates => PCall KStates
  | OState => PCall (KState (r_name q))
  | OInfo => PCall (KInfo (r_name q))
  | OPorts => PCall (KPorts (r_name q))
  | OLogs => match atoi (r_p1 q) with
             | None => PReject
             | Some off => match atoi (r_p2 q) with
                           | None => PReject
                           | Some lim => PCall (KLogs (r_name q) off lim)
                           end
             end
  | OStop => PCall (KStop (r_name q))
  | OStart => PCall (KStart (r_name q))
  | ORestart => PCall (KRestart (r_name q))
  | OScale => match atoi (r_p1 q) with
              | None => PReject
              | Some k => PCall (KScale (r_name q) k)
              end
  | OStopMany => if bind_ok (r_body q)
                 then PCall (KStopMany (match r_body q with JVal => r_names q | _ => [] end))
                 else PReject
  | OUpdateProcess => if bind_ok (r_body q) then PCall (KUpdateProcess (r_bid q)) else PReject
  | OUpdateProject => if bind_ok (r_body q) then PCall (KUpdateProject (r_bid q)) else PReject
  | OShutdown => PCall KShutdown
  | OReload => PCall KReload
  | OProjectState => PCall (KProjectState (parse_bool (r_query q)))
  | OWs => match atoi (r_p1 q) with None => PReject | Some _ => PStatic end
  end.

Inductive body :=
| BErr (e : N)                 (* {"error": text}; 0 = text of a parse/bind error (not modelled) *)
| BName (n : str)              (* {"name": n} *)
| BVal (v : N)                 (* the value, as JSON *)
| BLogs (v : N)                (* {"logs": v} *)
| BHost (v : N)                (* {"name": host} *)
| BMap (m : list (str * N))    (* the status map *)
| BProc                        (* the (updated) process config echoed by POST /process *)
| BAlive | BStopped            (* {"status": "alive"} / {"status": "stopped"} *)
| BUpgraded                    (* 101 switching protocols *)
| BOther.                      (* not JSON / empty *)

Definition e_parse : N := 0.
Definition e_empty : N := 1.               (* the empty text *)

Definition err_or (r : rres) (ok : nat * body) : nat * body :=
  match r with RErr e => (400, BErr e) | _ => ok end.

(* the part of a handler after the IProject call *)
Definition respond (o : op) (name : str) (r : rres) : nat * body :=
  match o with
  | OShutdown => (200, BStopped)                        (* answered before the call, result dropped *)
  | OProjectState =>
      match r with RErr e => (500, BErr e) | RVal v => (200, BVal v) | _ => (200, BOther) end
  | OHostname => err_or r (match r with RVal v => (200, BHost v) | _ => (200, BOther) end)
  | OLogs => err_or r (match r with RVal v => (200, BLogs v) | _ => (200, BOther) end)
  | OStates | OState | OInfo | OPorts =>
      err_or r (match r with RVal v => (200, BVal v) | _ => (200, BOther) end)
  | OStop | OStart | ORestart | OScale => err_or r (200, BName name)
  | OUpdateProcess => err_or r (200, BProc)
  | OStopMany | OUpdateProject | OReload =>
      match r with
      | RMap m None => (200, BMap m)
      | RMap [] (Some e) => (400, BErr e)
      | RMap m (Some _) => (207, BMap m)
      | RErr e => (400, BErr e)
      | _ => (200, BOther)
      end
  | OLive | OWs => (200, BOther)
  end.

Definition handle (q : request) (r : rres) : nat * body :=
  if negb (routed q) then (404, BOther) else
  match call_of q with
  | PReject => (400, BErr e_parse)
  | PStatic => match r_op q with
               | OLive => (200, BAlive)
               | _ => if r_wsok q then (101, BUpgraded) else (400, BOther)
               end
  | PCall _ => respond (r_op q) (r_name q) r
  end.

(* a request the client is to blame for *)
Definition malformed (q : request) : bool :=
  match call_of q with PReject => true | _ => false end.

(* ---------- client ---------------------------------------------------------------------------- *)
Inductive cmsg := CM (e : N) | CStatus (st : nat).   (* server's text / "unexpected status <st>" *)

Inductive cres :=
| CErr (m : cmsg)
| COk
| CVal (v : N)
| CMap (m : list (str * N)) (e : option N)
| CZero            (* zero value and NO error *)
| CDecodeFail      (* JSON decoding error *)
| CPanic.

(* what the decoders of the client make of a body *)
Definition dec_err (b : body) : cres :=
  match b with BErr e => CErr (CM e) | BOther | BUpgraded => CDecodeFail | _ => CErr (CM e_empty) end.
Definition dec_val (b : body) : cres :=
  match b with BVal v => CVal v | BOther | BUpgraded => CDecodeFail | _ => CZero end.
Definition dec_logs (b : body) : cres :=
  match b with BLogs v => CVal v | BOther | BUpgraded => CDecodeFail | _ => CZero end.
Definition dec_map (b : body) : cres :=
  match b with BMap m => CMap m None | BOther | BUpgraded => CDecodeFail | _ => CZero end.

(* the repaired client (every method checks the status code; GetProcessLog implemented) *)
Definition client_decode (o : op) (resp : nat * body) : cres :=
  let '(st, b) := resp in
  let ok := Nat.eqb st 200 in
  match o with
  | OLive | OShutdown => if ok then COk else CErr (CStatus st)
  | OHostname => if ok then match b with BHost v => CVal v | BOther => CDecodeFail | _ => CZero end
                 else CErr (CStatus st)
  | OStates | OState | OInfo | OPorts | OProjectState => if ok then dec_val b else dec_err b
  | OLogs => if ok then dec_logs b else dec_err b
  | OUpdateProcess | OStop | OStart | ORestart | OScale => if ok then COk else dec_err b
  | OStopMany | OUpdateProject | OReload => if ok || Nat.eqb st 207 then dec_map b else dec_err b
  | OWs => CDecodeFail
  end.

(* the client of the pinned commit *)
Definition client_decode_orig (o : op) (resp : nat * body) : cres :=
  match o with
  | OStates | OInfo | OPorts | OProjectState => dec_val (snd resp)     (* status code ignored: F10 *)
  | OLogs => CPanic                                                    (* "implement me": F30 *)
  | _ => client_decode o resp
  end.

(* what a local caller sees of a result; [view] is what a remote caller can see of it: the error that
   accompanies a non-empty status map is not transported (207 carries the map only) *)
Definition strict_view (r : rres) : cres :=
  match r with
  | RErr e => CErr (CM e) | ROk => COk | RVal v => CVal v
  | RMap [] (Some e) => CErr (CM e)
  | RMap m e => CMap m e
  end.
Definition view (r : rres) : cres :=
  match r with
  | RMap (x :: m) (Some _) => CMap (x :: m) None
  | _ => strict_view r
  end.

(* request sent by the client method for a call *)
Definition b_true : str := [116;114;117;101]%N.
Definition b_false : str := [102;97;108;115;101]%N.
Definition req0 (o : op) : request := mkReq o [] PEmpty PEmpty [] JNone [] 0 false.
Definition req_of (k : call) : request :=
  match k with
  | KHostname => req0 OHostname
  | KStates => req0 OStates
  | KState n => mkReq OState n PEmpty PEmpty [] JNone [] 0 false
  | KInfo n => mkReq OInfo n PEmpty PEmpty [] JNone [] 0 false
  | KPorts n => mkReq OPorts n PEmpty PEmpty [] JNone [] 0 false
  | KLogs n off lim => mkReq OLogs n (PInt off) (PInt lim) [] JNone [] 0 false
  | KStop n => mkReq OStop n PEmpty PEmpty [] JNone [] 0 false
  | KStart n => mkReq OStart n PEmpty PEmpty [] JNone [] 0 false
  | KRestart n => mkReq ORestart n PEmpty PEmpty [] JNone [] 0 false
  | KScale n z => mkReq OScale n (PInt z) PEmpty [] JNone [] 0 false
  | KStopMany ns => mkReq OStopMany [] PEmpty PEmpty [] JVal ns 0 false
  | KUpdateProcess v => mkReq OUpdateProcess [] PEmpty PEmpty [] JVal [] v false
  | KUpdateProject v => mkReq OUpdateProject [] PEmpty PEmpty [] JVal [] v false
  | KShutdown => req0 OShutdown
  | KReload => req0 OReload
  | KProjectState mem => mkReq OProjectState [] PEmpty PEmpty (if mem then b_true else b_false) JNone [] 0 false
  end.

(* the arguments a Go caller can pass and that survive fmt.Sprintf into a URL path *)
Definition url_unsafe : list N := [47; 63; 35; 37]%N.    (* / ? # % *)
Definition name_ok (n : str) : bool :=
  match n with [] => false | _ => negb (existsb (fun c => existsb (N.eqb c) url_unsafe) n) end.
Definition wf_call (k : call) : bool :=
  match k with
  | KState n | KInfo n | KPorts n | KStop n | KStart n | KRestart n => name_ok n
  | KLogs n off lim => name_ok n && in_int off && in_int lim
  | KScale n z => name_ok n && in_int z
  | _ => true
  end.

(* cases in which the client cannot report what the runner returned (never produced by the bundled
   runner: GetHostName and ShutDownProject have no error path) *)
Definition reportable (o : op) (r : rres) : bool :=
  match o, r with
  | OHostname, RErr _ => false
  | OShutdown, RErr _ => false
  | _, _ => true
  end.

(* ---------- sessions: request sequences against a runner whose answers depend on the history ---- *)
Definition runner := list call -> call -> rres.

Fixpoint local_session (R : runner) (h : list call) (ks : list call) : list rres :=
  match ks with
  | [] => []
  | k :: rest => R h k :: local_session R (h ++ [k]) rest
  end.

(* one exchange: the server handles q on top of history h *)
Definition serve1 (R : runner) (h : list call) (q : request) : (nat * body) * list call :=
  if negb (routed q) then ((404, BOther), h) else
  match call_of q with
  | PCall k => (handle q (R h k), h ++ [k])
  | _ => (handle q ROk, h)
  end.

Fixpoint serve (R : runner) (h : list call) (qs : list request) : list (nat * body) * list call :=
  match qs with
  | [] => ([], h)
  | q :: rest => let '(resp, h') := serve1 R h q in
                 let '(resps, hf) := serve R h' rest in (resp :: resps, hf)
  end.

Fixpoint remote_session (R : runner) (h : list call) (ks : list call) : list cres :=
  match ks with
  | [] => []
  | k :: rest => let '(resp, h') := serve1 R h (req_of k) in
                 client_decode (op_of k) resp :: remote_session R h' rest
  end.

(* the calls among a request sequence that reach the runner *)
Fixpoint calls_of (qs : list request) : list call :=
  match qs with
  | [] => []
  | q :: rest => if routed q then match call_of q with PCall k => k :: calls_of rest | _ => calls_of rest end
                 else calls_of rest
  end.
