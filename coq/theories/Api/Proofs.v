From Coq Require Import List ZArith Bool NArith Lia Arith.
From PC.Api Require Import Model.
Import ListNotations.

(* ---------- single exchange: status classes ---------------------------------------------------- *)

Lemma handle_routed q r : routed q = true ->
  handle q r = match call_of q with
               | PReject => (400, BErr e_parse)
               | PStatic => match r_op q with
                            | OLive => (200, BAlive)
                            | _ => if r_wsok q then (101, BUpgraded) else (400, BOther)
                            end
               | PCall _ => respond (r_op q) (r_name q) r
               end.
Proof. intros H. unfold handle. now rewrite H. Qed.

(* a malformed parameter or body: 400 with an error text, whatever the runner would say *)
Theorem reject_400 q r : routed q = true -> malformed q = true -> handle q r = (400, BErr e_parse).
Proof.
  intros Hr Hm. rewrite (handle_routed _ _ Hr). unfold malformed in Hm.
  destruct (call_of q); try discriminate. reflexivity.
Qed.

(* which requests are malformed, spelled out per route (nothing else is) *)
Theorem malformed_iff q :
  malformed q = match r_op q with
                | OLogs => match atoi (r_p1 q), atoi (r_p2 q) with Some _, Some _ => false | _, _ => true end
                | OScale | OWs => match atoi (r_p1 q) with Some _ => false | None => true end
                | OStopMany | OUpdateProcess | OUpdateProject => negb (bind_ok (r_body q))
                | _ => false
                end.
Proof.
  unfold malformed, call_of. destruct (r_op q); try reflexivity;
    try (destruct (atoi (r_p1 q)); [|reflexivity]; try reflexivity; destruct (atoi (r_p2 q)); reflexivity);
    destruct (bind_ok (r_body q)); reflexivity.
Qed.

(* the response to an error result *)
Definition error_response (r : rres) : nat * body :=
  match r with
  | RErr e => (400, BErr e)
  | RMap [] (Some e) => (400, BErr e)
  | RMap m (Some _) => (207, BMap m)
  | _ => (200, BOther)
  end.

Theorem error_4xx q r k : routed q = true -> call_of q = PCall k ->
  shape_ok (r_op q) r = true -> is_error r = true ->
  r_op q <> OProjectState -> r_op q <> OShutdown ->
  handle q r = error_response r /\
  (fst (handle q r) = 400 \/ fst (handle q r) = 207).
Proof.
  intros Hr Hc Hs He Hn1 Hn2. rewrite (handle_routed _ _ Hr), Hc.
  assert (E : respond (r_op q) (r_name q) r = error_response r).
  { assert (Hl : r_op q <> OLive) by (intros E; unfold call_of in Hc; rewrite E in Hc; discriminate).
    assert (Hw : r_op q <> OWs).
    { intros E; unfold call_of in Hc; rewrite E in Hc; destruct (atoi (r_p1 q)); discriminate. }
    destruct (r_op q) eqn:Eo; try congruence;
      destruct r as [e| |v|m [e|]]; try discriminate; try reflexivity;
      try (destruct m; reflexivity). }
  rewrite E. split; [reflexivity|].
  destruct r as [e| |v|m [e|]]; try discriminate; cbn; auto. destruct m; cbn; auto.
Qed.

Lemma respond_lt_500 o n r : (o = OProjectState -> is_error r = false) -> fst (respond o n r) < 500.
Proof.
  intros H. destruct o; cbn;
    try (destruct r as [e| |v|m [e|]]; cbn; try lia; destruct m; cbn; lia).
  destruct r as [e| |v|m [e|]]; cbn; try lia. specialize (H eq_refl). discriminate.
Qed.

Theorem never_5xx q r : (r_op q = OProjectState -> is_error r = false) -> fst (handle q r) < 500.
Proof.
  intros H. unfold handle. destruct (routed q); cbn [negb]; [|cbn; lia].
  destruct (call_of q).
  - cbn; lia.
  - destruct (r_op q); destruct (r_wsok q); cbn; lia.
  - now apply respond_lt_500.
Qed.

Theorem project_state_error_is_500 :
  exists q r, routed q = true /\ shape_ok (r_op q) r = true /\ malformed q = false /\
              fst (handle q r) = 500.
Proof. exists (req0 OProjectState), (RErr 7%N). vm_compute. auto. Qed.

(* success results: 200 and the value / name / map *)
Theorem success_200 q r k : routed q = true -> call_of q = PCall k ->
  shape_ok (r_op q) r = true -> is_error r = false -> fst (handle q r) = 200.
Proof.
  intros Hr Hc Hs He. rewrite (handle_routed _ _ Hr), Hc.
  destruct (r_op q); destruct r as [e| |v|m [e|]]; try discriminate; try reflexivity;
    destruct m; reflexivity.
Qed.

(* ---------- what the client sends arrives as the same call -------------------------------------- *)
Lemma no_unsafe_no_slash l :
  existsb (fun c => existsb (N.eqb c) url_unsafe) l = false -> existsb (N.eqb slash) l = false.
Proof.
  induction l as [|x l IH]; [reflexivity|]. cbn [existsb]. intros H.
  apply orb_false_iff in H. destruct H as [H1 H2]. rewrite (IH H2).
  unfold url_unsafe in H1. cbn [existsb] in H1. apply orb_false_iff in H1. destruct H1 as [H1 _].
  unfold slash. rewrite N.eqb_sym, H1. reflexivity.
Qed.

Lemma name_ok_routable n : name_ok n = true -> name_routable n = true.
Proof.
  destruct n as [|c n]; [discriminate|]. unfold name_ok, name_routable, no_slash.
  intros H. apply negb_true_iff in H. apply negb_true_iff. now apply no_unsafe_no_slash.
Qed.

Lemma name_ok_no_slash n : name_ok n = true -> no_slash n = true.
Proof. intros H. apply name_ok_routable in H. destruct n; [discriminate|exact H]. Qed.

Theorem req_of_arrives k : wf_call k = true ->
  routed (req_of k) = true /\ call_of (req_of k) = PCall k.
Proof.
  intros H. destruct k; cbn in H |- *; unfold routed; cbn;
    repeat match goal with
           | H : (_ && _)%bool = true |- _ => apply andb_true_iff in H; destruct H
           end;
    try (split; reflexivity);
    try (rewrite (name_ok_routable _ H); split; reflexivity).
  - (* KLogs *) rewrite (name_ok_no_slash _ H). unfold call_of; cbn. rewrite H1, H0. split; reflexivity.
  - (* KProjectState *) destruct mem; split; reflexivity.
  - (* KScale *) rewrite (name_ok_no_slash _ H). unfold call_of; cbn. rewrite H0. split; reflexivity.
Qed.

Lemma op_req_of k : r_op (req_of k) = op_of k.
Proof. destruct k; try reflexivity. Qed.

(* ---------- the client reads back what the runner returned -------------------------------------- *)
Lemma decode_respond o n r : shape_ok o r = true -> reportable o r = true ->
  o <> OLive -> o <> OWs ->
  client_decode o (respond o n r) = view r.
Proof.
  intros Hs Hp H1 H2.
  destruct o; try congruence; destruct r as [e| |v|m [e|]]; try discriminate; try reflexivity;
    destruct m; reflexivity.
Qed.

Theorem faithful1 k r : wf_call k = true -> shape_ok (op_of k) r = true ->
  reportable (op_of k) r = true ->
  client_decode (op_of k) (handle (req_of k) r) = view r.
Proof.
  intros Hw Hs Hp. destruct (req_of_arrives k Hw) as [Hr Hc].
  rewrite (handle_routed _ _ Hr), Hc, op_req_of.
  apply decode_respond; auto; destruct k; discriminate.
Qed.

(* strict equality with the local result fails exactly where an error accompanies a non-empty map *)
Theorem view_strict r : view r = strict_view r \/
  exists x m e, r = RMap (x :: m) (Some e) /\ view r = CMap (x :: m) None /\ strict_view r = CMap (x :: m) (Some e).
Proof.
  destruct r as [e| |v|m [e|]]; try (left; reflexivity);
    destruct m as [|x m]; try (left; reflexivity). right. exists x, m, e. auto.
Qed.

Theorem faithful_strict_refuted :
  exists k r, wf_call k = true /\ shape_ok (op_of k) r = true /\ reportable (op_of k) r = true /\
              client_decode (op_of k) (handle (req_of k) r) <> strict_view r.
Proof.
  exists (KStopMany [[97%N]; [98%N]]), (RMap [([97%N], 5%N); ([98%N], 6%N)] (Some 9%N)).
  vm_compute. repeat split; discriminate.
Qed.

Theorem hostname_error_unreportable :
  exists r, shape_ok OHostname r = true /\
            client_decode OHostname (handle (req_of KHostname) r) <> view r.
Proof. exists (RErr 9%N). vm_compute. split; [reflexivity|discriminate]. Qed.

(* the unrepaired client: F10 (status ignored) and F30 (panic) *)
Theorem orig_client_F10 : forall k, In k [KInfo [97%N]; KPorts [97%N]; KStates; KProjectState false] ->
  forall e, client_decode_orig (op_of k) (handle (req_of k) (RErr e)) = CZero /\ view (RErr e) = CErr (CM e).
Proof.
  intros k Hk e. cbn in Hk. repeat (destruct Hk as [<-|Hk]; [vm_compute; auto|]). contradiction.
Qed.

Theorem orig_client_F30 : forall n off lim r, client_decode_orig OLogs (handle (req_of (KLogs n off lim)) r) = CPanic.
Proof. reflexivity. Qed.

(* ---------- sessions ---------------------------------------------------------------------------- *)
Definition typed (R : runner) : Prop :=
  forall h k, shape_ok (op_of k) (R h k) = true /\ reportable (op_of k) (R h k) = true.

Lemma serve1_req_of R h k : wf_call k = true ->
  serve1 R h (req_of k) = (handle (req_of k) (R h k), h ++ [k]).
Proof.
  intros Hw. destruct (req_of_arrives k Hw) as [Hr Hc]. unfold serve1. now rewrite Hr, Hc.
Qed.

Theorem remote_eq_local R : typed R -> forall ks h, forallb wf_call ks = true ->
  remote_session R h ks = map view (local_session R h ks).
Proof.
  intros HT ks. induction ks as [|k ks IH]; intros h Hw; [reflexivity|].
  cbn in Hw. apply andb_true_iff in Hw. destruct Hw as [Hk Hks].
  cbn [remote_session local_session map]. rewrite (serve1_req_of R h k Hk).
  destruct (HT h k) as [Hs Hp]. rewrite (faithful1 k (R h k) Hk Hs Hp). f_equal. now apply IH.
Qed.

Lemma serve_cons R h q qs :
  serve R h (q :: qs) = (fst (serve1 R h q) :: fst (serve R (snd (serve1 R h q)) qs),
                         snd (serve R (snd (serve1 R h q)) qs)).
Proof.
  cbn [serve]. destruct (serve1 R h q) as [resp h']. cbn [fst snd].
  destruct (serve R h' qs) as [resps hf]. reflexivity.
Qed.

Lemma serve1_lt_500 R h q :
  (forall h k, op_of k = OProjectState -> is_error (R h k) = false) ->
  fst (fst (serve1 R h q)) < 500.
Proof.
  intros HR. unfold serve1. destruct (routed q) eqn:Hr; cbn [negb]; [|cbn; lia].
  destruct (call_of q) as [| |k] eqn:Hc; cbn [fst]; apply never_5xx; try reflexivity.
  intros Ho. apply HR.
  clear -Hc Ho. unfold call_of in Hc. rewrite Ho in Hc. inversion Hc. reflexivity.
Qed.

(* no request sequence, with whatever parameters and bodies, produces a 5xx as long as the runner's
   GetProjectState does not fail *)
Theorem serve_never_5xx R :
  (forall h k, op_of k = OProjectState -> is_error (R h k) = false) ->
  forall qs h, Forall (fun resp => fst resp < 500) (fst (serve R h qs)).
Proof.
  intros HR qs. induction qs as [|q qs IH]; intros h; [constructor|].
  rewrite serve_cons. cbn [fst]. constructor; [now apply serve1_lt_500|apply IH].
Qed.

(* only well-formed requests reach the runner, in order; rejected ones leave no trace *)
Theorem serve_history R qs : forall h, snd (serve R h qs) = h ++ calls_of qs.
Proof.
  induction qs as [|q qs IH]; intros h; [cbn; now rewrite app_nil_r|].
  rewrite serve_cons. cbn [snd]. rewrite IH. unfold serve1. cbn [calls_of].
  destruct (routed q); cbn [negb snd]; [|reflexivity].
  destruct (call_of q); cbn [snd]; try reflexivity. now rewrite <- app_assoc.
Qed.

Theorem rejected_no_effect R h q : routed q = false \/ malformed q = true ->
  snd (serve1 R h q) = h /\ 400 <= fst (fst (serve1 R h q)) < 500.
Proof.
  intros [Hr|Hm]; unfold serve1.
  - rewrite Hr. cbn. split; [reflexivity|lia].
  - unfold malformed in Hm. destruct (routed q) eqn:Hr; cbn [negb]; [|cbn; split; [reflexivity|lia]].
    destruct (call_of q) eqn:Hc; try discriminate. cbn [snd fst]. split; [reflexivity|].
    unfold handle. rewrite Hr, Hc. cbn. lia.
Qed.

(* every response of a session is the response to the direct call's result *)
Theorem serve_reports R : forall qs h,
  fst (serve R h qs) =
  (fix go (h : list call) (qs : list request) : list (nat * body) :=
     match qs with
     | [] => []
     | q :: rest =>
         (if routed q then match call_of q with
                           | PCall k => handle q (R h k)
                           | _ => handle q ROk
                           end
          else (404, BOther)) ::
         go (if routed q then match call_of q with PCall k => h ++ [k] | _ => h end else h) rest
     end) h qs.
Proof.
  induction qs as [|q qs IH]; intros h; [reflexivity|].
  rewrite serve_cons. cbn [fst]. rewrite IH. unfold serve1.
  destruct (routed q); cbn [negb]; [|reflexivity].
  destruct (call_of q); reflexivity.
Qed.
