(* The monitor accepts every observation the model itself predicts: holds_C19 (observe q r via) = true.
   (So a monitor failure on an exchange that the model matches would contradict this lemma.) *)
From Coq Require Import List ZArith Bool NArith Lia Arith.
From PC.Base Require Import Util.
From PC.Api Require Import Model Proofs Check.
Import ListNotations.

Lemma str_eqb_refl s : str_eqb s s = true.
Proof. induction s as [|x s IH]; [reflexivity|]. cbn. now rewrite N.eqb_refl, IH. Qed.

Lemma list_eqb_refl {A} (e : A -> A -> bool) : (forall x, e x x = true) -> forall l, list_eqb e l l = true.
Proof. intros H l. induction l as [|x l IH]; [reflexivity|]. cbn. now rewrite H, IH. Qed.

Lemma names_eqb_refl l : names_eqb l l = true.
Proof. apply list_eqb_refl, str_eqb_refl. Qed.

Lemma map_eqb_refl m : map_eqb m m = true.
Proof.
  apply list_eqb_refl. intros [a b]. unfold pair_eqb. cbn. now rewrite str_eqb_refl, N.eqb_refl.
Qed.

Lemma body_eqb_refl b : body_eqb b b = true.
Proof. destruct b; cbn; auto using N.eqb_refl, str_eqb_refl, map_eqb_refl. Qed.

Lemma cres_eqb_refl c : cres_eqb c c = true.
Proof.
  destruct c as [[e|s]| |v|m e| | |]; cbn; auto using N.eqb_refl, Nat.eqb_refl.
  rewrite map_eqb_refl. destruct e; cbn; auto using N.eqb_refl.
Qed.

Lemma call_eqb_refl k : call_eqb k k = true.
Proof.
  destruct k; cbn; rewrite ?str_eqb_refl, ?N.eqb_refl, ?Z.eqb_refl, ?names_eqb_refl; auto.
  destruct mem; reflexivity.
Qed.

(* the model's call is the request's operation on the request's arguments *)
Lemma call_of_same_operation q k : call_of q = PCall k -> same_operation q k = true.
Proof.
  unfold call_of, same_operation. destruct (r_op q) eqn:Eo; intros H; try discriminate;
    try (inversion H; subst; cbn; rewrite ?str_eqb_refl, ?N.eqb_refl, ?names_eqb_refl; reflexivity).
  - (* OUpdateProcess *) destruct (bind_ok (r_body q)); inversion H. now rewrite N.eqb_refl.
  - (* OLogs *) unfold atoi in H. destruct (r_p1 q) as [a| |]; try discriminate.
    destruct (in_int a); try discriminate. destruct (r_p2 q) as [b| |]; try discriminate.
    destruct (in_int b); try discriminate. inversion H. now rewrite str_eqb_refl, !Z.eqb_refl.
  - (* OStopMany *) destruct (bind_ok (r_body q)); inversion H. apply names_eqb_refl.
  - (* OUpdateProject *) destruct (bind_ok (r_body q)); inversion H. now rewrite N.eqb_refl.
  - (* OProjectState *) inversion H. destruct (parse_bool (r_query q)); reflexivity.
  - (* OScale *) unfold atoi in H. destruct (r_p1 q) as [a| |]; try discriminate.
    destruct (in_int a); try discriminate. inversion H. now rewrite str_eqb_refl, Z.eqb_refl.
  - (* OWs *) destruct (atoi (r_p1 q)); discriminate.
Qed.

(* the model's response reports the result *)
Lemma respond_reports o n r : shape_ok o r = true -> o <> OLive -> o <> OWs ->
  reports o n (fst (respond o n r)) (snd (respond o n r)) r = true.
Proof.
  intros Hs H1 H2. destruct o; try congruence; destruct r as [e| |v|m [e|]]; try discriminate;
    cbn; rewrite ?N.eqb_refl, ?str_eqb_refl, ?map_eqb_refl; try reflexivity;
    destruct m as [|p m]; cbn [reports respond fst snd andb Nat.eqb Nat.leb Nat.ltb body_eqb];
    rewrite ?N.eqb_refl, ?map_eqb_refl; try reflexivity;
    (change (pair_eqb str_eqb N.eqb p p && list_eqb (pair_eqb str_eqb N.eqb) m m) with (map_eqb (p :: m) (p :: m));
     rewrite map_eqb_refl; reflexivity).
Qed.

Lemma num_bad_atoi p : num_bad p = match atoi p with Some _ => false | None => true end.
Proof. destruct p as [a| |]; cbn; [destruct (in_int a)| |]; reflexivity. Qed.

Lemma invalid_iff_malformed q : invalid q = malformed q.
Proof.
  rewrite malformed_iff. unfold invalid. rewrite !num_bad_atoi. unfold body_bad, bind_ok.
  destruct (r_op q); try reflexivity.
  - destruct (r_body q); reflexivity.
  - destruct (atoi (r_p1 q)); destruct (atoi (r_p2 q)); reflexivity.
  - destruct (r_body q); reflexivity.
  - destruct (r_body q); reflexivity.
Qed.

Theorem model_obs_holds q r via : shape_ok (r_op q) r = true ->
  (r_op q = OProjectState -> is_error r = false) ->
  holds_C19 (observe q r via) = true.
Proof.
  intros Hs Hp. unfold holds_C19, observe, model_call. cbn [c_alive c_argok c_effect c_req c_status c_body c_call c_res c_direct c_client].
  rewrite (proj2 (Nat.ltb_lt _ _) (never_5xx q r Hp)). cbn [andb orb].
  destruct (routed q) eqn:Hr; cbn [negb]; [|reflexivity].
  rewrite invalid_iff_malformed. unfold malformed.
  rewrite (handle_routed q r Hr).
  destruct (call_of q) as [| |k] eqn:Hc.
  - (* rejected *) unfold call_of in Hc. destruct (r_op q) eqn:Eo; try discriminate; cbn; destruct via; reflexivity.
  - (* static *)
    assert (Ho : r_op q = OLive \/ r_op q = OWs).
    { unfold call_of in Hc. destruct (r_op q); try discriminate; auto;
        destruct (bind_ok (r_body q)) || idtac; try discriminate;
        repeat match type of Hc with context[match ?x with _ => _ end] => destruct x end; discriminate. }
    destruct Ho as [Ho|Ho]; rewrite Ho; cbn.
    + destruct via; reflexivity.
    + destruct (r_wsok q); destruct via; reflexivity.
  - (* call *)
    assert (H1 : r_op q <> OLive) by (intros E; unfold call_of in Hc; rewrite E in Hc; discriminate).
    assert (H2 : r_op q <> OWs).
    { intros E; unfold call_of in Hc; rewrite E in Hc; destruct (atoi (r_p1 q)); discriminate. }
    cbn [andb]. rewrite (call_of_same_operation q k Hc), (respond_reports _ _ _ Hs H1 H2). cbn [andb].
    destruct via; [|reflexivity].
    destruct (reportable (r_op q) r) eqn:Hrep; cbn [negb orb]; [|reflexivity].
    rewrite (decode_respond _ _ _ Hs Hrep H1 H2). apply cres_eqb_refl.
Qed.
