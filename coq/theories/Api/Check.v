(* Correspondence checker and property monitor for C19, evaluated by vm_compute on exchanges that the Go
   harness observed on the implementation (gin router from api.InitRoutes + client.PcClient). *)
From Coq Require Import List ZArith Bool NArith.
From PC.Base Require Import Util.
From PC.Api Require Import Model.
Import ListNotations.

(* one HTTP exchange, observed at the server (recording middleware + recording IProject wrapper), plus
   what the PcClient method returned when the exchange was started by the client, plus the direct call
   on the same runner at the same quiescent point (read-only operations) *)
Record ocase := mkCase {
  c_req    : request;
  c_call   : option call;     (* the IProject call the handler made (None: none) *)
  c_res    : rres;            (* what that call returned to the handler (ROk when there was none) *)
  c_status : nat;
  c_body   : body;
  c_direct : option rres;     (* the same call made directly on the runner *)
  c_client : option cres;     (* result of the PcClient method *)
  c_alive  : bool;            (* GET /live still answers 200 afterwards *)
  c_argok  : bool;            (* decoded body arguments = independent decode of the sent bytes *)
  c_effect : bool             (* effect through a following read: see harness (true when not applicable) *)
}.

(* ---------- decidable equalities ---------------------------------------------------------------- *)
Definition names_eqb := list_eqb str_eqb.
Definition map_eqb := list_eqb (pair_eqb str_eqb N.eqb).

Definition call_eqb (a b : call) : bool :=
  match a, b with
  | KHostname, KHostname | KStates, KStates | KShutdown, KShutdown | KReload, KReload => true
  | KState n, KState n' | KInfo n, KInfo n' | KPorts n, KPorts n' | KStop n, KStop n'
  | KStart n, KStart n' | KRestart n, KRestart n' => str_eqb n n'
  | KUpdateProcess v, KUpdateProcess v' | KUpdateProject v, KUpdateProject v' => N.eqb v v'
  | KLogs n o l, KLogs n' o' l' => str_eqb n n' && Z.eqb o o' && Z.eqb l l'
  | KStopMany ns, KStopMany ns' => names_eqb ns ns'
  | KProjectState m, KProjectState m' => Bool.eqb m m'
  | KScale n z, KScale n' z' => str_eqb n n' && Z.eqb z z'
  | _, _ => false
  end.

Definition body_eqb (a b : body) : bool :=
  match a, b with
  | BErr e, BErr e' | BVal e, BVal e' | BLogs e, BLogs e' | BHost e, BHost e' => N.eqb e e'
  | BName n, BName n' => str_eqb n n'
  | BMap m, BMap m' => map_eqb m m'
  | BProc, BProc | BAlive, BAlive | BStopped, BStopped | BUpgraded, BUpgraded | BOther, BOther => true
  | _, _ => false
  end.

Definition cres_eqb (a b : cres) : bool :=
  match a, b with
  | CErr (CM e), CErr (CM e') => N.eqb e e'
  | CErr (CStatus s), CErr (CStatus s') => Nat.eqb s s'
  | COk, COk | CZero, CZero | CDecodeFail, CDecodeFail | CPanic, CPanic => true
  | CVal v, CVal v' => N.eqb v v'
  | CMap m e, CMap m' e' => map_eqb m m' && option_eqb N.eqb e e'
  | _, _ => false
  end.

(* ---------- model agreement ---------------------------------------------------------------------- *)
Definition unrouted_status (st : nat) : bool :=
  Nat.eqb st 404 || Nat.eqb st 301 || Nat.eqb st 307 || Nat.eqb st 405.

Definition model_call (q : request) : option call :=
  if routed q then match call_of q with PCall k => Some k | _ => None end else None.

Definition model_ok (c : ocase) : bool :=
  let q := c_req c in
  if negb (routed q)
  then unrouted_status (c_status c) && option_eqb call_eqb (c_call c) None
  else
    let '(st, b) := handle q (c_res c) in
    Nat.eqb st (c_status c) && body_eqb b (c_body c) &&
    option_eqb call_eqb (c_call c) (model_call q) &&
    match c_client c with
    | None => true
    | Some x => cres_eqb x (client_decode (r_op q) (c_status c, c_body c))
    end.

(* ---------- property monitor: the text of C19 on one exchange, independent of [handle], [respond],
   [call_of] and [client_decode] ---------------------------------------------------------------------- *)
Definition num_bad (p : numparam) : bool :=
  match p with PInt z => negb (in_int z) | PJunk | PEmpty => true end.
Definition body_bad (b : jbody) : bool :=
  match b with JNone | JMalformed | JWrongType => true | _ => false end.

(* "non-numeric or out-of-range path parameters, malformed bodies" *)
Definition invalid (q : request) : bool :=
  match r_op q with
  | OLogs => num_bad (r_p1 q) || num_bad (r_p2 q)
  | OScale | OWs => num_bad (r_p1 q)
  | OStopMany | OUpdateProcess | OUpdateProject => body_bad (r_body q)
  | _ => false
  end.

(* "performs the same operation": the call that reached the runner is the request's operation on the
   request's arguments *)
Definition same_operation (q : request) (k : call) : bool :=
  match r_op q, k with
  | OHostname, KHostname | OStates, KStates | OShutdown, KShutdown | OReload, KReload => true
  | OState, KState n | OInfo, KInfo n | OPorts, KPorts n | OStop, KStop n | OStart, KStart n
  | ORestart, KRestart n => str_eqb n (r_name q)
  | OLogs, KLogs n off lim =>
      str_eqb n (r_name q) &&
      match r_p1 q, r_p2 q with PInt a, PInt b => Z.eqb a off && Z.eqb b lim | _, _ => false end
  | OScale, KScale n z => str_eqb n (r_name q) && match r_p1 q with PInt a => Z.eqb a z | _ => false end
  | OStopMany, KStopMany ns => names_eqb ns (match r_body q with JVal => r_names q | _ => [] end)
  | OUpdateProcess, KUpdateProcess v | OUpdateProject, KUpdateProject v => N.eqb v (r_bid q)
  | OProjectState, KProjectState m => Bool.eqb m (parse_bool (r_query q))
  | _, _ => false
  end.

(* "reports the same result": status and body carry exactly the result r of the call *)
Definition reports (o : op) (name : str) (st : nat) (b : body) (r : rres) : bool :=
  match r with
  | RErr e => (Nat.leb 400 st && Nat.ltb st 500 && body_eqb b (BErr e))
              || match o with
                 | OShutdown => Nat.eqb st 200          (* answered before the call *)
                 | OProjectState => Nat.eqb st 500 && body_eqb b (BErr e)
                                    (* the runner itself failed (no request can cause it): reported as such *)
                 | _ => false
                 end
  | ROk => Nat.eqb st 200 &&
           match o with
           | OUpdateProcess => body_eqb b BProc
           | OShutdown => body_eqb b BStopped
           | _ => body_eqb b (BName name)
           end
  | RVal v => Nat.eqb st 200 &&
              match o with
              | OHostname => body_eqb b (BHost v)
              | OLogs => body_eqb b (BLogs v)
              | _ => body_eqb b (BVal v)
              end
  | RMap m None => Nat.eqb st 200 && body_eqb b (BMap m)
  | RMap [] (Some e) => Nat.leb 400 st && Nat.ltb st 500 && body_eqb b (BErr e)
  | RMap m (Some _) => Nat.eqb st 207 && body_eqb b (BMap m)
  end.

Definition is_err_body (b : body) : bool := match b with BErr _ => true | _ => false end.

Definition holds_C19 (c : ocase) : bool :=
  let q := c_req c in
  let st := c_status c in
  (* never 5xx, never stops serving *)
  c_alive c && c_argok c && c_effect c &&
  (Nat.ltb st 500 ||
   match r_op q, c_call c, c_res c with OProjectState, Some _, RErr _ => true | _, _, _ => false end) &&
  (if negb (routed q) then option_eqb call_eqb (c_call c) None else
   (* invalid requests: 4xx + error message, and nothing is executed *)
   (if invalid q
    then Nat.leb 400 st && Nat.ltb st 500 && option_eqb call_eqb (c_call c) None &&
         (is_err_body (c_body c) || match r_op q with OWs => true | _ => false end)
    else true) &&
   (* the same operation, the same result *)
   match c_call c with
   | Some k => same_operation q k && reports (r_op q) (r_name q) st (c_body c) (c_res c)
   | None => invalid q || match r_op q with OLive | OWs => true | _ => false end
   end &&
   match c_direct c with
   | Some d => reports (r_op q) (r_name q) st (c_body c) d
   | None => true
   end &&
   (* the client reads back the runner's result *)
   match c_client c with
   | None => true
   | Some x =>
       match c_call c with
       | Some k => negb (reportable (r_op q) (c_res c)) ||
                   cres_eqb x (view (match c_direct c with Some d => d | None => c_res c end))
       | None => match r_op q with OLive => cres_eqb x COk | _ => true end
       end
   end).

Definition bad_model (cs : list ocase) : list nat := failing model_ok cs.
Definition bad_monitor (cs : list ocase) : list nat := failing holds_C19 cs.

(* the observation the model itself predicts for request q and runner result r, seen through the client *)
Definition observe (q : request) (r : rres) (through_client : bool) : ocase :=
  let resp := handle q r in
  mkCase q (model_call q) (match model_call q with Some _ => r | None => ROk end)
         (fst resp) (snd resp) None
         (if through_client then Some (client_decode (r_op q) resp) else None) true true true.
