(* The Compare half of the C14 monitor (Update/Check.v: cmp_holds) holds on the MODEL's own answer for
   every pair of configurations: "model => monitor" for Compare cases.  Together with the differential
   run (cmp_model_ok: implementation = model on every observed pair) it says that a Compare case the
   monitor rejects is a case on which the implementation left the model. *)
From Coq Require Import List NArith Bool.
From PC.Base Require Import Util.
From PC.Update Require Import Model Proofs Check.
Import ListNotations.

Lemma compared_real : forall f, In f compared -> In f real_fields.
Proof.
  intros f Hf. unfold compared, compared_orig in Hf. unfold real_fields.
  repeat (destruct Hf as [<-|Hf]; [cbn; tauto|]). destruct Hf.
Qed.

Lemma compare_with_mono fs gs a b :
  (forall f, In f fs -> In f gs) -> compare_with gs a b = true -> compare_with fs a b = true.
Proof.
  intros Hsub H. apply compare_with_spec. intros f Hf.
  apply (proj1 (compare_with_spec _ _ _) H), Hsub, Hf.
Qed.

Theorem cmp_monitor_on_model a b : cmp_holds (mkC a b (compare a b)) = true.
Proof.
  unfold cmp_holds, eq_on. cbn [cc_res cc_a cc_b]. apply andb_true_intro. split.
  - destruct (compare a b) eqn:E; [|reflexivity].
    apply (compare_with_mono _ compared); [exact launch_relevant_compared|exact E].
  - destruct (compare_with real_fields a b) eqn:E; [|reflexivity].
    apply (compare_with_mono _ real_fields); [exact compared_real|exact E].
Qed.

Theorem cmp_model_on_model a b : cmp_model_ok (mkC a b (compare a b)) = true.
Proof. unfold cmp_model_ok. cbn. apply Bool.eqb_reflx. Qed.

(* conversely the UNREPAIRED field list fails the monitor on some pair: the monitor is not vacuous *)
Theorem cmp_monitor_rejects_unfixed :
  exists a b, cmp_holds (mkC a b (compare_with compared_orig a b)) = false.
Proof. exists [(FExecutable, 1%N); (FArgs, 7%N)], [(FExecutable, 2%N); (FArgs, 7%N)]. vm_compute. reflexivity. Qed.
