(* Proofs about the Update model (property C14). *)
From Coq Require Import List NArith Bool Lia.
From PC.Update Require Import Model.
Import ListNotations.
Local Open Scope N_scope.

(* ---------------------------------------------------------------- fields *)
Lemma field_beq_refl f : field_beq f f = true.
Proof. destruct f; reflexivity. Qed.

Lemma field_beq_eq f g : field_beq f g = true <-> f = g.
Proof.
  split; [apply internal_field_dec_bl|intros ->; apply field_beq_refl].
Qed.

(* ---------------------------------------------------------------- Compare *)
Lemma compare_with_spec fs a b :
  compare_with fs a b = true <-> forall f, In f fs -> get f a = get f b.
Proof.
  unfold compare_with. rewrite forallb_forall. split; intros H f Hf.
  - apply N.eqb_eq, H, Hf.
  - apply N.eqb_eq, H, Hf.
Qed.

Lemma compare_refl a : compare a a = true.
Proof. apply compare_with_spec; reflexivity. Qed.

Lemma compare_sym a b : compare a b = compare b a.
Proof.
  destruct (compare b a) eqn:E.
  - apply compare_with_spec. intros f Hf. symmetry. revert f Hf. apply compare_with_spec, E.
  - destruct (compare a b) eqn:E2; [|reflexivity].
    rewrite <- E. symmetry. apply compare_with_spec. intros f Hf. symmetry. revert f Hf.
    apply compare_with_spec, E2.
Qed.

Lemma compare_trans a b c : compare a b = true -> compare b c = true -> compare a c = true.
Proof.
  intros H1 H2. apply compare_with_spec. intros f Hf.
  rewrite (proj1 (compare_with_spec _ _ _) H1 f Hf). apply (proj1 (compare_with_spec _ _ _) H2 f Hf).
Qed.

Lemma launch_relevant_compared : forall f, In f launch_relevant -> In f compared.
Proof.
  intros f Hf. unfold launch_relevant in Hf. unfold compared, compared_orig.
  repeat (destruct Hf as [<-|Hf]; [cbn; tauto|]). destruct Hf.
Qed.

(* compare_sensitive: the repaired Compare looks at every launch-relevant field *)
Lemma compare_sensitive a b :
  compare a b = true -> forall f, In f launch_relevant -> get f a = get f b.
Proof.
  intros H f Hf. apply (proj1 (compare_with_spec _ _ _) H). apply launch_relevant_compared, Hf.
Qed.

(* ... the unchanged one does not (F9) *)
Lemma compare_orig_insensitive :
  exists a b, compare_with compared_orig a b = true /\ In FExecutable launch_relevant /\
              get FExecutable a <> get FExecutable b.
Proof.
  exists [(FExecutable, 1); (FArgs, 7)], [(FExecutable, 2); (FArgs, 7)].
  split; [vm_compute; reflexivity|]. split; [cbn; tauto|]. vm_compute. discriminate.
Qed.

(* the field list of the unchanged code misses exactly Executable among the launch-relevant fields *)
Lemma compare_orig_sensitive_but_executable a b :
  compare_with compared_orig a b = true ->
  forall f, In f launch_relevant -> f <> FExecutable -> get f a = get f b.
Proof.
  intros H f Hf Hne. apply (proj1 (compare_with_spec _ _ _) H).
  destruct (launch_relevant_compared f Hf) as [E|E]; [congruence|exact E].
Qed.

(* Compare is stricter than "launch-relevant fields agree": a cosmetic change is a change *)
Lemma compare_not_minimal :
  exists a b, (forall f, In f launch_relevant -> get f a = get f b) /\
              (forall f, ~ In f cosmetic -> get f a = get f b) /\ compare a b = false.
Proof.
  exists [(FDescription, 1)], [(FDescription, 2)]. split; [|split].
  - intros f Hf. unfold launch_relevant in Hf.
    repeat (destruct Hf as [<-|Hf]; [reflexivity|]). destruct Hf.
  - intros f Hf. destruct f; try reflexivity. exfalso. apply Hf. cbn. tauto.
  - vm_compute. reflexivity.
Qed.

(* ---------------------------------------------------------------- association lists *)
Section AssocLemmas.
Context {A : Type}.
Implicit Types (l : list (N * A)) (n m : N).

Lemma lookup_In l n v : lookup n l = Some v -> In (n, v) l.
Proof.
  induction l as [|[k w] r IH]; cbn; [discriminate|].
  destruct (N.eqb_spec n k) as [->|]; [intros [= ->]; auto|auto].
Qed.

Lemma lookup_None l n : lookup n l = None <-> ~ In n (keys l).
Proof.
  induction l as [|[k w] r IH]; cbn; [tauto|].
  destruct (N.eqb_spec n k) as [->|Hne].
  - split; [discriminate|]. intros H. exfalso. apply H. auto.
  - rewrite IH. split; [intros H [E|E]; [congruence|auto]|tauto].
Qed.

Lemma lookup_Some_keys l n v : lookup n l = Some v -> In n (keys l).
Proof. intros H. apply lookup_In in H. apply (in_map fst) in H. exact H. Qed.

Lemma In_keys_lookup l n : In n (keys l) <-> exists v, lookup n l = Some v.
Proof.
  destruct (lookup n l) eqn:E.
  - split; [eauto|]. intros _. eapply lookup_Some_keys; eauto.
  - apply lookup_None in E. split; [tauto|]. intros [v Hv]. discriminate.
Qed.

Lemma NoDup_lookup l n v : NoDup (keys l) -> In (n, v) l -> lookup n l = Some v.
Proof.
  induction l as [|[k w] r IH]; cbn; [tauto|].
  intros Hnd [E|E].
  - inversion E; subst. rewrite N.eqb_refl. reflexivity.
  - inversion Hnd; subst. destruct (N.eqb_spec n k) as [->|]; [|auto].
    exfalso. apply H1. apply (in_map fst) in E. exact E.
Qed.

Lemma has_true l n : has n l = true <-> In n (keys l).
Proof.
  unfold has. rewrite In_keys_lookup. destruct (lookup n l); split; eauto; try discriminate.
  intros [v Hv]. discriminate.
Qed.

Lemma has_false l n : has n l = false <-> ~ In n (keys l).
Proof. rewrite <- has_true. destruct (has n l); split; congruence. Qed.

Lemma lookup_remove_same l n : lookup n (remove_key n l) = None.
Proof.
  induction l as [|[k w] r IH]; cbn; [reflexivity|].
  destruct (N.eqb_spec n k) as [->|Hne]; cbn; [exact IH|].
  destruct (N.eqb_spec n k); [congruence|exact IH].
Qed.

Lemma lookup_remove_other l n m : n <> m -> lookup n (remove_key m l) = lookup n l.
Proof.
  intros Hne. induction l as [|[k w] r IH]; cbn; [reflexivity|].
  destruct (N.eqb_spec m k) as [->|Hmk]; cbn.
  - destruct (N.eqb_spec n k); [congruence|exact IH].
  - destruct (N.eqb_spec n k); [reflexivity|exact IH].
Qed.

Lemma lookup_app l1 l2 n :
  lookup n (l1 ++ l2) = match lookup n l1 with Some v => Some v | None => lookup n l2 end.
Proof.
  induction l1 as [|[k w] r IH]; cbn; [reflexivity|].
  destruct (N.eqb n k); [reflexivity|exact IH].
Qed.

Lemma lookup_set_same l n v : lookup n (set_key n v l) = Some v.
Proof. unfold set_key. rewrite lookup_app, lookup_remove_same. cbn. rewrite N.eqb_refl. reflexivity. Qed.

Lemma lookup_set_other l n m v : n <> m -> lookup n (set_key m v l) = lookup n l.
Proof.
  intros Hne. unfold set_key. rewrite lookup_app, lookup_remove_other by exact Hne.
  destruct (lookup n l); [reflexivity|]. cbn. destruct (N.eqb_spec n m); [congruence|reflexivity].
Qed.

Lemma keys_filter_incl (f : N * A -> bool) l n : In n (keys (filter f l)) -> In n (keys l).
Proof.
  unfold keys. rewrite !in_map_iff. intros [p [Hp Hin]]. apply filter_In in Hin. exists p. tauto.
Qed.

Lemma NoDup_keys_filter (f : N * A -> bool) l : NoDup (keys l) -> NoDup (keys (filter f l)).
Proof.
  induction l as [|p r IH]; cbn; [auto|]. intros H. inversion H; subst.
  destruct (f p); cbn; [constructor; [|auto]|auto].
  intros Hin. apply H2. eapply keys_filter_incl; eauto.
Qed.

Lemma NoDup_remove_key l n : NoDup (keys l) -> NoDup (keys (remove_key n l)).
Proof. apply NoDup_keys_filter. Qed.

Lemma keys_remove_key l n m : In m (keys (remove_key n l)) <-> In m (keys l) /\ m <> n.
Proof.
  rewrite !In_keys_lookup. destruct (N.eq_dec m n) as [->|Hne].
  - rewrite lookup_remove_same. split; [intros [v Hv]; discriminate|tauto].
  - rewrite lookup_remove_other by exact Hne. tauto.
Qed.

Lemma NoDup_snoc (B : Type) (l : list B) x : NoDup l -> ~ In x l -> NoDup (l ++ [x]).
Proof.
  induction l as [|y r IH]; cbn; intros Hnd Hx.
  - constructor; [tauto|constructor].
  - inversion Hnd; subst. constructor.
    + rewrite in_app_iff. cbn. intros [H|[H|[]]]; [tauto|subst; tauto].
    + apply IH; tauto.
Qed.

Lemma NoDup_set_key l n v : NoDup (keys l) -> NoDup (keys (set_key n v l)).
Proof.
  intros H. unfold set_key, keys. rewrite map_app. cbn. apply NoDup_snoc.
  - apply NoDup_remove_key, H.
  - intros Hin. apply keys_remove_key in Hin. tauto.
Qed.
End AssocLemmas.

(* ---------------------------------------------------------------- per-process view of a state *)
Definition lview : Type := option pconf * option N * list event.
Definition view (n : N) (s : st) : lview := (lookup n (procs s), lookup n (live s), evs_of n (evs s)).

Definition stop_evs (n : N) (li : option N) : list event :=
  match li with Some i => [EStop n i; EEnd n i] | None => [] end.

(* local effect of removeProcess / addProcessAndRun / UpdateProcess on the process they name *)
Definition rm_v (n : N) (v : lview) : lview :=
  let '(_, li, ev) := v in (None, None, ev ++ stop_evs n li).
Definition add_v (n : N) (c : pconf) (j : N) (v : lview) : lview :=
  let '(_, li, ev) := v in
  if deferred c then (Some c, li, ev) else (Some c, Some j, ev ++ [ELaunch n j c]).
Definition upd_v (n : N) (c : pconf) (j : N) (v : lview) : lview := add_v n c j (rm_v n v).

Lemma evs_of_app n l1 l2 : evs_of n (l1 ++ l2) = evs_of n l1 ++ evs_of n l2.
Proof. apply filter_app. Qed.

Lemma remove_proc_next m s : next (remove_proc m s) = next s.
Proof. unfold remove_proc. destruct (lookup m (live s)); reflexivity. Qed.

Lemma evs_of_one_other n m e : ev_name e = m -> n <> m -> evs_of n [e] = [].
Proof. intros <- H. cbn. destruct (N.eqb_spec (ev_name e) n); [congruence|reflexivity]. Qed.

Lemma remove_proc_frame n m s : n <> m -> view n (remove_proc m s) = view n s.
Proof.
  intros Hne. unfold remove_proc, view. destruct (lookup m (live s)) as [i|]; cbn [procs live evs].
  - rewrite !lookup_remove_other by exact Hne. rewrite evs_of_app.
    replace (evs_of n [EStop m i; EEnd m i]) with (@nil event).
    + rewrite app_nil_r. reflexivity.
    + cbn. destruct (N.eqb_spec m n); [congruence|reflexivity].
  - rewrite lookup_remove_other by exact Hne. reflexivity.
Qed.

Lemma remove_proc_loc m s : view m (remove_proc m s) = rm_v m (view m s).
Proof.
  unfold remove_proc, view, rm_v. destruct (lookup m (live s)) as [i|] eqn:E; cbn [procs live evs].
  - rewrite !lookup_remove_same, evs_of_app. cbn. rewrite N.eqb_refl. reflexivity.
  - rewrite lookup_remove_same, E. cbn. rewrite app_nil_r. reflexivity.
Qed.

Lemma add_proc_next m c s : next s <= next (add_proc m c s).
Proof. unfold add_proc. destruct (deferred c); cbn; lia. Qed.

Lemma add_proc_fresh m c s : deferred c = false -> next s < next (add_proc m c s).
Proof. unfold add_proc. intros ->. cbn. lia. Qed.

Lemma add_proc_frame n m c s : n <> m -> view n (add_proc m c s) = view n s.
Proof.
  intros Hne. unfold add_proc, view. destruct (deferred c); cbn [procs live evs].
  - rewrite lookup_set_other by exact Hne. reflexivity.
  - rewrite !lookup_set_other by exact Hne. rewrite evs_of_app.
    replace (evs_of n [ELaunch m (next s) c]) with (@nil event).
    + rewrite app_nil_r. reflexivity.
    + cbn. destruct (N.eqb_spec m n); [congruence|reflexivity].
Qed.

Lemma add_proc_loc m c s : view m (add_proc m c s) = add_v m c (next s) (view m s).
Proof.
  unfold add_proc, view, add_v. destruct (deferred c); cbn [procs live evs].
  - rewrite lookup_set_same. reflexivity.
  - rewrite !lookup_set_same, evs_of_app. cbn. rewrite N.eqb_refl. reflexivity.
Qed.

Lemma update_proc_next m c s : next s <= next (update_proc m c s).
Proof. unfold update_proc. etransitivity; [|apply add_proc_next]. rewrite remove_proc_next. lia. Qed.

Lemma update_proc_fresh m c s : deferred c = false -> next s < next (update_proc m c s).
Proof.
  intros H. unfold update_proc. pose proof (add_proc_fresh m c (remove_proc m s) H) as L.
  rewrite remove_proc_next in L. exact L.
Qed.

Lemma update_proc_frame n m c s : n <> m -> view n (update_proc m c s) = view n s.
Proof. intros H. unfold update_proc. rewrite add_proc_frame, remove_proc_frame by exact H. reflexivity. Qed.

Lemma update_proc_loc m c s : view m (update_proc m c s) = upd_v m c (next s) (view m s).
Proof. unfold update_proc, upd_v. rewrite add_proc_loc, remove_proc_loc, remove_proc_next. reflexivity. Qed.

(* ---------------------------------------------------------------- folding an operation over a list *)
Section Fold.
Context (op : N -> pconf -> st -> st) (F : N -> pconf -> N -> lview -> lview) (launches : pconf -> bool).
Context (Hframe : forall n m c s, n <> m -> view n (op m c s) = view n s)
        (Hnext : forall m c s, next s <= next (op m c s))
        (Hfresh : forall m c s, launches c = true -> next s < next (op m c s))
        (Hloc : forall m c s, view m (op m c s) = F m c (next s) (view m s)).

Definition fold_op (l : list (N * pconf)) (s : st) : st :=
  fold_left (fun s p => op (fst p) (snd p) s) l s.

Lemma fold_next l s : next s <= next (fold_op l s).
Proof.
  revert s. induction l as [|p r IH]; intros s; cbn; [lia|].
  etransitivity; [apply (Hnext (fst p) (snd p) s)|apply IH].
Qed.

Lemma fold_frame l n s : ~ In n (keys l) -> view n (fold_op l s) = view n s.
Proof.
  revert s. induction l as [|p r IH]; intros s Hn; cbn; [reflexivity|].
  cbn in Hn. unfold fold_op in IH. rewrite IH by tauto. apply Hframe. intros ->. tauto.
Qed.

Lemma fold_loc l n c s : NoDup (keys l) -> In (n, c) l ->
  exists j, next s <= j /\ (launches c = true -> j < next (fold_op l s)) /\
            view n (fold_op l s) = F n c j (view n s).
Proof.
  revert s. induction l as [|p r IH]; intros s Hnd Hin; [destruct Hin|].
  cbn in Hnd. inversion Hnd; subst. destruct Hin as [->|Hin].
  - cbn. exists (next s). split; [lia|]. split.
    + intros HL. eapply N.lt_le_trans; [apply (Hfresh n c s HL)|apply fold_next].
    + pose proof (fold_frame r n (op n c s) H1) as E. unfold fold_op in E. rewrite E. apply Hloc.
  - cbn. destruct (IH (op (fst p) (snd p) s) H2 Hin) as [j [Hj [Hl Hv]]].
    exists j. split; [etransitivity; [apply (Hnext (fst p) (snd p) s)|exact Hj]|].
    split; [exact Hl|]. unfold fold_op in Hv. rewrite Hv. f_equal. apply Hframe.
    intros ->. apply H1. apply (in_map fst) in Hin. exact Hin.
Qed.
End Fold.

(* ---------------------------------------------------------------- classification *)
Arguments compare : simpl never.
Arguments deferred : simpl never.
Lemma has_filter {A} (f : N * A -> bool) (l : list (N * A)) n : NoDup (keys l) ->
  has n (filter f l) = match lookup n l with Some v => f (n, v) | None => false end.
Proof.
  induction l as [|[k w] r IH]; cbn; [reflexivity|]. intros Hnd. inversion Hnd; subst.
  destruct (N.eqb_spec n k) as [->|Hne].
  - destruct (f (k, w)) eqn:E; cbn.
    + unfold has. cbn. rewrite N.eqb_refl. reflexivity.
    + apply has_false. intros Hin. apply H1. eapply keys_filter_incl; eauto.
  - destruct (f (k, w)); cbn; [|auto]. unfold has in *. cbn.
    destruct (N.eqb_spec n k); [congruence|auto].
Qed.

Lemma In_filter_lookup {A} (f : N * A -> bool) (l : list (N * A)) n v :
  lookup n l = Some v -> f (n, v) = true -> In (n, v) (filter f l).
Proof. intros H1 H2. apply filter_In. split; [apply lookup_In, H1|exact H2]. Qed.

Lemma has_lookup {A} (l : list (N * A)) n : has n l = match lookup n l with Some _ => true | None => false end.
Proof. reflexivity. Qed.

Lemma lookup_map_const {A B} (k : B) (l : list (N * A)) n :
  lookup n (map (fun p => (fst p, k)) l) = if has n l then Some k else None.
Proof.
  unfold has. induction l as [|[m w] r IH]; cbn; [reflexivity|].
  destruct (N.eqb n m); [reflexivity|exact IH].
Qed.

Definition status_spec (oc nc : option pconf) : option ukind :=
  match oc, nc with
  | None, None => None
  | Some _, None => Some URemoved
  | None, Some _ => Some UAdded
  | Some c, Some c' => if compare c c' then None else Some UUpdated
  end.

Lemma status_exact cur new n : NoDup (keys cur) -> NoDup (keys new) ->
  lookup n (status_of cur new) = status_spec (lookup n cur) (lookup n new).
Proof.
  intros Hc Hn. unfold status_of, dels, news, upds.
  rewrite !lookup_app, !lookup_map_const, !has_filter by assumption.
  unfold is_deleted, is_new, is_updated, status_spec. cbn [fst snd]. rewrite !has_lookup.
  destruct (lookup n cur) as [c|], (lookup n new) as [c'|]; cbn; try reflexivity.
  destruct (compare c c'); reflexivity.
Qed.

(* ---------------------------------------------------------------- the effect of one update, per process *)
Definition rm_op (m : N) (_ : pconf) (s : st) : st := remove_proc m s.

Lemma update_unfold s new :
  fst (update s new) =
  fold_op update_proc (upds (procs s) new)
    (fold_op add_proc (news (procs s) new) (fold_op rm_op (dels (procs s) new) s)).
Proof. reflexivity. Qed.

Definition update_spec (n : N) (s s' : st) (oc nc : option pconf) : Prop :=
  match oc, nc with
  | None, None => view n s' = view n s
  | Some _, None => view n s' = rm_v n (view n s)
  | None, Some c' => exists j, next s <= j /\ (deferred c' = false -> j < next s') /\
                               view n s' = add_v n c' j (view n s)
  | Some c, Some c' =>
      if compare c c' then view n s' = view n s
      else exists j, next s <= j /\ (deferred c' = false -> j < next s') /\
                     view n s' = upd_v n c' j (view n s)
  end.

Lemma update_next s new : next s <= next (fst (update s new)).
Proof.
  rewrite update_unfold.
  etransitivity; [|apply (fold_next update_proc update_proc_next)].
  etransitivity; [|apply (fold_next add_proc add_proc_next)].
  apply (fold_next rm_op). intros m c s0. unfold rm_op. rewrite remove_proc_next. lia.
Qed.

Theorem update_view s new n : NoDup (keys (procs s)) -> NoDup (keys new) ->
  update_spec n s (fst (update s new)) (lookup n (procs s)) (lookup n new).
Proof.
  intros Hc Hn. rewrite update_unfold.
  set (cur := procs s).
  set (s1 := fold_op rm_op (dels cur new) s).
  set (s2 := fold_op add_proc (news cur new) s1).
  set (s3 := fold_op update_proc (upds cur new) s2).
  assert (Hrm_frame : forall n m c s, n <> m -> view n (rm_op m c s) = view n s)
    by (intros; apply remove_proc_frame; assumption).
  assert (Hrm_next : forall m c s, next s <= next (rm_op m c s))
    by (intros; unfold rm_op; rewrite remove_proc_next; lia).
  assert (Hrm_fresh : forall m c s, (fun _ : pconf => false) c = true -> next s < next (rm_op m c s))
    by (intros; discriminate).
  assert (Hrm_loc : forall m c s, view m (rm_op m c s) = (fun m _ _ v => rm_v m v) m c (next s) (view m s))
    by (intros; apply remove_proc_loc).
  assert (N1 : next s <= next s1) by (apply (fold_next rm_op Hrm_next)).
  assert (N2 : next s1 <= next s2) by (apply (fold_next add_proc add_proc_next)).
  assert (N3 : next s2 <= next s3) by (apply (fold_next update_proc update_proc_next)).
  assert (Hd := has_filter (is_deleted new) cur n Hc).
  assert (Hw := has_filter (is_new cur new) new n Hn).
  assert (Hu := has_filter (is_updated cur) new n Hn).
  fold (dels cur new) in Hd. fold (news cur new) in Hw. fold (upds cur new) in Hu.
  unfold is_deleted, is_new, is_updated in Hd, Hw, Hu. cbn [fst snd] in Hd, Hw, Hu.
  rewrite (has_lookup new n) in Hd. rewrite (has_lookup cur n) in Hw.
  unfold update_spec.
  destruct (lookup n cur) as [c|] eqn:Ec, (lookup n new) as [c'|] eqn:En;
    cbv beta iota in Hd, Hw, Hu; cbn [negb] in Hd, Hw, Hu.
  - (* in both *)
    apply has_false in Hd, Hw.
    destruct (compare c c') eqn:Ecmp; cbn [negb] in Hu.
    + apply has_false in Hu.
      unfold s3. rewrite (fold_frame update_proc update_proc_frame _ _ _ Hu).
      unfold s2. rewrite (fold_frame add_proc add_proc_frame _ _ _ Hw).
      unfold s1. apply (fold_frame rm_op Hrm_frame _ _ _ Hd).
    + assert (Hin : In (n, c') (upds cur new)).
      { apply In_filter_lookup; [exact En|]. unfold is_updated. cbn. rewrite Ec, Ecmp. reflexivity. }
      destruct (fold_loc update_proc upd_v (fun c => negb (deferred c))
                  update_proc_frame update_proc_next
                  (fun m c s H => update_proc_fresh m c s (proj1 (negb_true_iff _) H))
                  update_proc_loc (upds cur new) n c' s2
                  (NoDup_keys_filter _ _ Hn) Hin) as [j [Hj [Hl Hv]]].
      exists j. split; [lia|]. split.
      * intros Hdef. apply Hl. rewrite Hdef. reflexivity.
      * fold s3 in Hv. rewrite Hv. f_equal.
        unfold s2. rewrite (fold_frame add_proc add_proc_frame _ _ _ Hw).
        unfold s1. apply (fold_frame rm_op Hrm_frame _ _ _ Hd).
  - (* removed *)
    apply has_false in Hw, Hu.
    unfold s3. rewrite (fold_frame update_proc update_proc_frame _ _ _ Hu).
    unfold s2. rewrite (fold_frame add_proc add_proc_frame _ _ _ Hw).
    assert (Hin : In (n, c) (dels cur new)).
    { apply In_filter_lookup; [exact Ec|]. unfold is_deleted. cbn. rewrite has_lookup, En. reflexivity. }
    destruct (fold_loc rm_op (fun m _ _ v => rm_v m v) (fun _ => false)
                Hrm_frame Hrm_next Hrm_fresh Hrm_loc (dels cur new) n c s
                (NoDup_keys_filter _ _ Hc) Hin) as [j [_ [_ Hv]]].
    exact Hv.
  - (* added *)
    apply has_false in Hd, Hu.
    assert (Hin : In (n, c') (news cur new)).
    { apply In_filter_lookup; [exact En|]. unfold is_new. cbn. rewrite has_lookup, Ec. reflexivity. }
    destruct (fold_loc add_proc add_v (fun c => negb (deferred c))
                add_proc_frame add_proc_next
                (fun m c s H => add_proc_fresh m c s (proj1 (negb_true_iff _) H))
                add_proc_loc (news cur new) n c' s1
                (NoDup_keys_filter _ _ Hn) Hin) as [j [Hj [Hl Hv]]].
    exists j. split; [lia|]. split.
    + intros Hdef. eapply N.lt_le_trans; [apply Hl; rewrite Hdef; reflexivity|exact N3].
    + unfold s3. rewrite (fold_frame update_proc update_proc_frame _ _ _ Hu).
      fold s2 in Hv. rewrite Hv. f_equal. unfold s1. apply (fold_frame rm_op Hrm_frame _ _ _ Hd).
  - (* in neither *)
    apply has_false in Hd, Hw, Hu.
    unfold s3. rewrite (fold_frame update_proc update_proc_frame _ _ _ Hu).
    unfold s2. rewrite (fold_frame add_proc add_proc_frame _ _ _ Hw).
    unfold s1. apply (fold_frame rm_op Hrm_frame _ _ _ Hd).
Qed.

(* ---------------------------------------------------------------- readable corollaries *)
Definition launch_evs (n : N) (c : pconf) (j : N) : list event :=
  if deferred c then [] else [ELaunch n j c].
Definition launch_live (c : pconf) (j : N) (old : option N) : option N :=
  if deferred c then old else Some j.

Lemma add_v_eq n c j pc li ev :
  add_v n c j (pc, li, ev) = (Some c, launch_live c j li, ev ++ launch_evs n c j).
Proof. unfold add_v, launch_live, launch_evs. destruct (deferred c); [rewrite app_nil_r|]; reflexivity. Qed.

Lemma upd_v_eq n c j pc li ev :
  upd_v n c j (pc, li, ev) = (Some c, launch_live c j None, ev ++ stop_evs n li ++ launch_evs n c j).
Proof. unfold upd_v, rm_v. rewrite add_v_eq, app_assoc. reflexivity. Qed.

Lemma view_eq n s' pc li ev :
  view n s' = (pc, li, ev) ->
  lookup n (procs s') = pc /\ lookup n (live s') = li /\ evs_of n (evs s') = ev.
Proof. unfold view. intros [= <- <- <-]. auto. Qed.

Section OneUpdate.
Context (s : st) (new : list (N * pconf)).
Context (Hc : NoDup (keys (procs s))) (Hn : NoDup (keys new)).
Let s' := fst (update s new).
Let stat := snd (update s new).

Lemma stat_eq : stat = status_of (procs s) new.
Proof. reflexivity. Qed.

(* a process whose configuration compares equal keeps its instance: nothing about it happens *)
Lemma unchanged_kept n c c' :
  lookup n (procs s) = Some c -> lookup n new = Some c' -> compare c c' = true ->
  lookup n (procs s') = Some c /\ lookup n (live s') = lookup n (live s) /\
  evs_of n (evs s') = evs_of n (evs s) /\ lookup n stat = None.
Proof.
  intros H1 H2 H3. pose proof (update_view s new n Hc Hn) as U. rewrite H1, H2 in U. unfold update_spec in U; cbv beta iota in U.
  rewrite H3 in U. fold s' in U. apply view_eq in U. destruct U as [U1 [U2 U3]].
  rewrite U1, U2, U3, H1. repeat split.
  rewrite stat_eq, status_exact, H1, H2 by assumption. cbn. rewrite H3. reflexivity.
Qed.

(* a process whose configuration compares unequal: its old instance (if any) is signalled and has ended
   before a fresh instance is spawned with exactly the new configuration *)
Lemma changed_replaced n c c' :
  lookup n (procs s) = Some c -> lookup n new = Some c' -> compare c c' = false ->
  exists j, next s <= j /\ (deferred c' = false -> j < next s') /\
    lookup n (procs s') = Some c' /\
    lookup n (live s') = launch_live c' j None /\
    evs_of n (evs s') = evs_of n (evs s) ++ stop_evs n (lookup n (live s)) ++ launch_evs n c' j /\
    lookup n stat = Some UUpdated.
Proof.
  intros H1 H2 H3. pose proof (update_view s new n Hc Hn) as U. rewrite H1, H2 in U. unfold update_spec in U; cbv beta iota in U.
  rewrite H3 in U. fold s' in U. destruct U as [j [Hj [Hl U]]]. unfold view at 2 in U.
  rewrite upd_v_eq in U. apply view_eq in U. destruct U as [U1 [U2 U3]].
  exists j. repeat split; try assumption.
  rewrite stat_eq, status_exact, H1, H2 by assumption. cbn. rewrite H3. reflexivity.
Qed.

Lemma removed_terminated n c :
  lookup n (procs s) = Some c -> lookup n new = None ->
  lookup n (procs s') = None /\ lookup n (live s') = None /\
  evs_of n (evs s') = evs_of n (evs s) ++ stop_evs n (lookup n (live s)) /\
  lookup n stat = Some URemoved.
Proof.
  intros H1 H2. pose proof (update_view s new n Hc Hn) as U. rewrite H1, H2 in U. unfold update_spec in U; cbv beta iota in U.
  fold s' in U. unfold view at 2, rm_v in U. apply view_eq in U. destruct U as [U1 [U2 U3]].
  repeat split; try assumption.
  rewrite stat_eq, status_exact, H1, H2 by assumption. reflexivity.
Qed.

Lemma added_launched n c' :
  lookup n (procs s) = None -> lookup n new = Some c' ->
  exists j, next s <= j /\ (deferred c' = false -> j < next s') /\
    lookup n (procs s') = Some c' /\
    lookup n (live s') = launch_live c' j (lookup n (live s)) /\
    evs_of n (evs s') = evs_of n (evs s) ++ launch_evs n c' j /\
    lookup n stat = Some UAdded.
Proof.
  intros H1 H2. pose proof (update_view s new n Hc Hn) as U. rewrite H1, H2 in U. unfold update_spec in U; cbv beta iota in U.
  fold s' in U. destruct U as [j [Hj [Hl U]]]. unfold view at 2 in U.
  rewrite add_v_eq in U. apply view_eq in U. destruct U as [U1 [U2 U3]].
  exists j. repeat split; try assumption.
  rewrite stat_eq, status_exact, H1, H2 by assumption. reflexivity.
Qed.

Lemma untouched n :
  lookup n (procs s) = None -> lookup n new = None ->
  view n s' = view n s /\ lookup n stat = None.
Proof.
  intros H1 H2. pose proof (update_view s new n Hc Hn) as U. rewrite H1, H2 in U. unfold update_spec in U; cbv beta iota in U.
  split; [exact U|]. rewrite stat_eq, status_exact, H1, H2 by assumption. reflexivity.
Qed.

(* the configured set afterwards is that of the new project; each stored configuration equals the new
   one as far as Compare can tell, and is literally the new one for added and updated processes *)
Lemma configured_after n :
  match lookup n new with
  | None => lookup n (procs s') = None
  | Some c' => exists c, lookup n (procs s') = Some c /\ compare c c' = true /\
                         (lookup n stat <> None -> c = c')
  end.
Proof.
  destruct (lookup n new) as [c'|] eqn:E2, (lookup n (procs s)) as [c|] eqn:E1.
  - destruct (compare c c') eqn:E3.
    + destruct (unchanged_kept n c c' E1 E2 E3) as [A [_ [_ B]]]. exists c. split; [exact A|].
      split; [exact E3|]. intros X. congruence.
    + destruct (changed_replaced n c c' E1 E2 E3) as [j [_ [_ [A _]]]]. exists c'.
      split; [exact A|]. split; [apply compare_refl|reflexivity].
  - destruct (added_launched n c' E1 E2) as [j [_ [_ [A _]]]]. exists c'.
    split; [exact A|]. split; [apply compare_refl|reflexivity].
  - apply (removed_terminated n c E1 E2).
  - destruct (untouched n E1 E2) as [A _]. apply view_eq in A. unfold view in A.
    destruct A as [A _]. rewrite A. exact E1.
Qed.

Lemma names_after n : In n (keys (procs s')) <-> In n (keys new).
Proof.
  rewrite !In_keys_lookup. pose proof (configured_after n) as C.
  destruct (lookup n new) as [c'|].
  - destruct C as [c [C _]]. split; eauto.
  - rewrite C. split; intros [v Hv]; discriminate.
Qed.

Lemma status_names n k :
  lookup n stat = Some k ->
  match k with
  | UAdded => ~ In n (keys (procs s)) /\ In n (keys new)
  | URemoved => In n (keys (procs s)) /\ ~ In n (keys new)
  | UUpdated => exists c c', lookup n (procs s) = Some c /\ lookup n new = Some c' /\ compare c c' = false
  end.
Proof.
  rewrite stat_eq, status_exact by assumption. unfold status_spec.
  destruct (lookup n (procs s)) as [c|] eqn:E1, (lookup n new) as [c'|] eqn:E2.
  - destruct (compare c c') eqn:E3; [discriminate|]. intros [= <-]. eauto.
  - intros [= <-]. split; [eapply lookup_Some_keys; eauto|apply lookup_None, E2].
  - intros [= <-]. split; [apply lookup_None, E1|eapply lookup_Some_keys; eauto].
  - discriminate.
Qed.
End OneUpdate.

(* ---------------------------------------------------------------- invariant, sequences of updates *)
Definition inv (s : st) : Prop :=
  NoDup (keys (procs s)) /\
  forall n i, lookup n (live s) = Some i -> i < next s /\ has n (procs s) = true.

Lemma has_set_key {A} (l : list (N * A)) n m v :
  has n (set_key m v l) = if N.eqb n m then true else has n l.
Proof.
  unfold has. destruct (N.eqb_spec n m) as [->|Hne].
  - rewrite lookup_set_same. reflexivity.
  - rewrite lookup_set_other by exact Hne. reflexivity.
Qed.

Lemma inv_remove m s : inv s -> inv (remove_proc m s).
Proof.
  intros [H1 H2]. unfold remove_proc. destruct (lookup m (live s)) as [i0|] eqn:E; split; cbn [procs live next].
  - apply NoDup_remove_key, H1.
  - intros n i Hl. destruct (N.eq_dec n m) as [->|Hne]; [rewrite lookup_remove_same in Hl; discriminate|].
    rewrite lookup_remove_other in Hl by exact Hne. destruct (H2 n i Hl) as [A B]. split; [exact A|].
    unfold has in *. rewrite lookup_remove_other by exact Hne. exact B.
  - apply NoDup_remove_key, H1.
  - intros n i Hl. destruct (N.eq_dec n m) as [->|Hne]; [congruence|].
    destruct (H2 n i Hl) as [A B]. split; [exact A|].
    unfold has in *. rewrite lookup_remove_other by exact Hne. exact B.
Qed.

Lemma inv_add m c s : inv s -> inv (add_proc m c s).
Proof.
  intros [H1 H2]. unfold add_proc. destruct (deferred c); split; cbn [procs live next].
  - apply NoDup_set_key, H1.
  - intros n i Hl. destruct (H2 n i Hl) as [A B]. split; [exact A|].
    rewrite has_set_key. destruct (N.eqb n m); [reflexivity|exact B].
  - apply NoDup_set_key, H1.
  - intros n i Hl. rewrite has_set_key. destruct (N.eqb_spec n m) as [->|Hne].
    + rewrite lookup_set_same in Hl. injection Hl as <-. split; [lia|reflexivity].
    + rewrite lookup_set_other in Hl by exact Hne. destruct (H2 n i Hl) as [A B]. split; [lia|exact B].
Qed.

Lemma inv_fold (op : N -> pconf -> st -> st) :
  (forall m c s, inv s -> inv (op m c s)) -> forall l s, inv s -> inv (fold_op op l s).
Proof.
  intros H l. induction l as [|p r IH]; intros s Hs; [exact Hs|]. cbn. apply IH, H, Hs.
Qed.

Lemma inv_update s new : inv s -> inv (fst (update s new)).
Proof.
  intros H. rewrite update_unfold. apply inv_fold.
  - intros m c s0 H0. apply inv_add, inv_remove, H0.
  - apply inv_fold; [intros; apply inv_add; assumption|].
    apply inv_fold; [intros; apply inv_remove; assumption|exact H].
Qed.

Lemma inv_boot p : inv (boot p).
Proof.
  apply (inv_fold add_proc); [intros; apply inv_add; assumption|].
  split; cbn; [constructor|discriminate].
Qed.

Definition wf_all (ps : list (list (N * pconf))) : Prop := Forall (fun p => NoDup (keys p)) ps.

Lemma updates_inv ps : forall s, inv s -> inv (updates s ps).
Proof.
  induction ps as [|p r IH]; intros s H; [exact H|]. cbn. apply IH, inv_update, H.
Qed.

Lemma updates_app s ps qs : updates s (ps ++ qs) = updates (updates s ps) qs.
Proof. apply fold_left_app. Qed.

(* whatever happened before, after the last update the configured names are those of its project *)
Lemma updates_names s ps p : inv s -> NoDup (keys p) ->
  forall n, In n (keys (procs (updates s (ps ++ [p])))) <-> In n (keys p).
Proof.
  intros H Hp n. rewrite updates_app. cbn. apply names_after; [|exact Hp].
  apply (updates_inv ps s H).
Qed.

(* a process whose configuration compares equal in every project of a sequence of updates is never
   touched: same stored configuration, same instance, no event *)
Lemma updates_stable ps : forall s n c, inv s -> wf_all ps -> lookup n (procs s) = Some c ->
  Forall (fun p => exists c', lookup n p = Some c' /\ compare c c' = true) ps ->
  view n (updates s ps) = view n s.
Proof.
  induction ps as [|p r IH]; intros s n c H Hwf Hc Hall; [reflexivity|].
  inversion Hwf; subst. inversion Hall; subst. destruct H4 as [c' [E1 E2]].
  destruct (unchanged_kept s p (proj1 H) H2 n c c' Hc E1 E2) as [A [B [C _]]].
  change (updates s (p :: r)) with (updates (fst (update s p)) r).
  rewrite (IH (fst (update s p)) n c (inv_update s p H) H3 A H5).
  unfold view. rewrite A, B, C, Hc. reflexivity.
Qed.

(* an instance that replaces another one is a different, younger instance *)
Lemma replaced_is_fresh s new n c c' i :
  inv s -> NoDup (keys new) ->
  lookup n (procs s) = Some c -> lookup n new = Some c' -> compare c c' = false ->
  lookup n (live s) = Some i -> deferred c' = false ->
  exists j, i < j /\ lookup n (live (fst (update s new))) = Some j /\
    evs_of n (evs (fst (update s new))) =
      evs_of n (evs s) ++ [EStop n i; EEnd n i; ELaunch n j c'].
Proof.
  intros [H1 H2] Hn Ec En Ecmp El Hd.
  destruct (changed_replaced s new H1 Hn n c c' Ec En Ecmp) as [j [Hj [_ [_ [A [B _]]]]]].
  exists j. destruct (H2 n i El) as [Hi _]. split; [lia|].
  unfold launch_live, launch_evs in *. rewrite Hd in *. rewrite El in B. split; [exact A|exact B].
Qed.

(* every live instance belongs to a configured process; instance ids are below the counter *)
Lemma live_configured s n i : inv s -> lookup n (live s) = Some i -> In n (keys (procs s)).
Proof. intros [_ H] Hl. apply has_true. apply (H n i Hl). Qed.

(* ---------------------------------------------------------------- statements used by Props/C14.v *)
Lemma update_status s new n : NoDup (keys (procs s)) -> NoDup (keys new) ->
  lookup n (snd (update s new)) = status_spec (lookup n (procs s)) (lookup n new).
Proof. intros Hc Hn. apply status_exact; assumption. Qed.

Definition reachable (s : st) : Prop :=
  exists p0 ps, wf_all ps /\ s = updates (boot p0) ps.

Lemma reachable_inv s : reachable s -> inv s.
Proof. intros [p0 [ps [_ ->]]]. apply updates_inv, inv_boot. Qed.

(* the clause "launch-relevant configuration unchanged => instance kept" read literally is false of the
   code: a change of the description alone restarts the process *)
Lemma keep_if_launch_config_unchanged_refuted :
  exists s new n c c' i, reachable s /\ NoDup (keys new) /\
    lookup n (procs s) = Some c /\ lookup n new = Some c' /\
    (forall f, In f launch_relevant -> get f c = get f c') /\
    lookup n (live s) = Some i /\ In (EStop n i) (evs (fst (update s new))).
Proof.
  exists (boot [(1, [(FDescription, 1)])]), [(1, [(FDescription, 2)])], 1,
         [(FDescription, 1)], [(FDescription, 2)], 1.
  split; [exists [(1, [(FDescription, 1)])], []; split; [constructor|reflexivity]|].
  split; [repeat constructor; cbn; tauto|].
  split; [reflexivity|]. split; [reflexivity|]. split.
  - intros f Hf. unfold launch_relevant in Hf.
    repeat (destruct Hf as [<-|Hf]; [reflexivity|]). destruct Hf.
  - split; [reflexivity|]. vm_compute. tauto.
Qed.
