(* Correspondence checker and property monitor for C14, evaluated by vm_compute on what the Go harness
   observed on the implementation (harness/cmd/c14).

   Two kinds of cases:
   - ccase: one call of ProcessConfig.Compare on two loader-built configurations;
   - ocase: a project run by a ProjectRunner with the scripted commander, followed by a sequence of
     updates (UpdateProject / ReloadProject / REST), with what was observed after every step. *)
From Coq Require Import List NArith Bool.
From PC.Base Require Import Util.
From PC.Update Require Import Model.
Import ListNotations.

(* ------------------------------------------------------------------------------ field sets *)
Definition real_fields : list field :=
  [FName; FDisabled; FIsDaemon; FCommand; FEntrypoint; FLogLocation; FLoggerConfig; FEnvironment;
   FRestartPolicy; FDependsOn; FLiveness; FReadiness; FReadyLogLine; FShutdown; FDisableAnsi;
   FWorkingDir; FNamespace; FReplicas; FExtensions; FDescription; FVars; FIsForeground; FIsTty;
   FIsElevated; FLaunchTimeout; FOriginalConfig; FReplicaNum; FReplicaName; FExecutable; FArgs].
Definition all_fields : list field := real_fields ++ [FEffEnv].
Definition lr_plus : list field := launch_relevant ++ [FEffEnv].
Definition mem_field (f : field) (l : list field) : bool := existsb (field_beq f) l.
(* everything except the cosmetic fields (and OriginalConfig, which embeds them) *)
Definition noncosmetic : list field :=
  filter (fun f => negb (mem_field f cosmetic) && negb (field_beq f FOriginalConfig)) all_fields.
Definition launch_fields : list field := [FExecutable; FArgs; FEffEnv; FWorkingDir].
Definition launch_params (c : pconf) : pconf := map (fun f => (f, get f c)) launch_fields.
(* what the running supervisor really hands to the command: the project-level environment is the one
   it was started with *)
Definition model_launch_params (c : pconf) : pconf :=
  [(FExecutable, get FExecutable c); (FArgs, get FArgs c); (FEffEnv, get FEffEnv0 c);
   (FWorkingDir, get FWorkingDir c)].

Definition eq_on (fs : list field) (a b : pconf) : bool := compare_with fs a b.
Definition oeqN := option_eqb N.eqb.
Definition memN (n : N) (l : list N) : bool := existsb (N.eqb n) l.
Definition is_some {A} (o : option A) : bool := match o with Some _ => true | None => false end.

(* ------------------------------------------------------------------------------ Compare cases *)
Record ccase := mkC { cc_a : pconf; cc_b : pconf; cc_res : bool }.

Definition cmp_model_ok (c : ccase) : bool := Bool.eqb (compare (cc_a c) (cc_b c)) (cc_res c).

(* spec-level: "equal" must imply agreement on every launch-relevant field; identical configurations
   must be equal *)
Definition cmp_holds (c : ccase) : bool :=
  (if cc_res c then eq_on launch_relevant (cc_a c) (cc_b c) else true) &&
  (if eq_on real_fields (cc_a c) (cc_b c) then cc_res c else true).

(* ------------------------------------------------------------------------------ update cases *)
Record ostep := mkStep {
  o_boot   : bool;               (* the step is Run() of the initial project: no status map *)
  o_new    : list (N * pconf);   (* the project handed over, as the harness loaded it *)
  o_err    : bool;               (* the call returned an error *)
  o_status : list (N * N);       (* status map: name |-> 1 added, 2 removed, 3 updated, 4 other *)
  o_names  : list N;             (* names listed by GetProcessesState *)
  o_info   : list (N * pconf);   (* GetProcessInfo of the listed names *)
  o_alive  : list (N * N);       (* commands alive afterwards: name |-> instance id *)
  o_reg    : list (N * N);       (* registered running instances: name |-> id of their command *)
  o_events : list event          (* this step's events; a launch carries the parameters actually used *)
}.
Record ocase := mkCase { c_steps : list ostep }.

Definition kind_code (k : ukind) : N := match k with UAdded => 1 | URemoved => 2 | UUpdated => 3 end%N.

Definition event_eqb (a b : event) : bool :=
  match a, b with
  | EStop n i, EStop m j => N.eqb n m && N.eqb i j
  | EEnd n i, EEnd m j => N.eqb n m && N.eqb i j
  | ELaunch n i c, ELaunch m j d => N.eqb n m && N.eqb i j && eq_on launch_fields c d
  | _, _ => false
  end.

Definition stop_evs (n : N) (li : option N) : list event :=
  match li with Some i => [EStop n i; EEnd n i] | None => [] end.

Definition maxid (l : list (N * N)) : N := fold_left (fun m p => N.max m (snd p)) l 0%N.

(* the universe of names a step talks about *)
Definition step_names (prev : list (N * pconf)) (before : list (N * N)) (o : ostep) : list N :=
  nodup N.eq_dec (keys prev ++ keys (o_new o) ++ keys before ++ o_names o ++ keys (o_status o) ++
                  keys (o_alive o) ++ keys (o_info o) ++ map ev_name (o_events o)).

Fixpoint nodupb (l : list N) : bool :=
  match l with [] => true | x :: r => negb (memN x r) && nodupb r end.

(* ---- model agreement: the model's state after the step against the observation, per name.
   Instance ids are compared up to renaming: what must agree is which events happened, to which
   instance (the one alive before / the one alive afterwards), and with which launch parameters. *)
Definition abs_ev (lp : pconf -> pconf) (li li' : option N) (e : event) : option (N * pconf) :=
  match e with
  | EStop _ i => if oeqN li (Some i) then Some (1%N, []) else None
  | EEnd _ i => if oeqN li (Some i) then Some (2%N, []) else None
  | ELaunch _ i c => if oeqN li' (Some i) then Some (3%N, lp c) else None
  end.
Definition shape_eqb (a b : option (N * pconf)) : bool :=
  match a, b with
  | Some (k, c), Some (l, d) => N.eqb k l && eq_on launch_fields c d
  | _, _ => false        (* an event about an unexpected instance never matches *)
  end.

Definition name_model_ok (s s' : st) (stat : list (N * ukind)) (before : list (N * N)) (o : ostep)
                         (n : N) : bool :=
  let li_m := lookup n (live s) in
  let li_m' := lookup n (live s') in
  let ev_m := evs_of n (skipn (length (evs s)) (evs s')) in
  let li := lookup n before in
  let li' := lookup n (o_alive o) in
  let ev_o := evs_of n (o_events o) in
  (o_boot o || oeqN (option_map kind_code (lookup n stat)) (lookup n (o_status o))) &&
  Bool.eqb (has n (procs s')) (memN n (o_names o)) &&
  match lookup n (procs s'), lookup n (o_info o) with
  | Some a, Some b => eq_on real_fields a b
  | None, None => true
  | _, _ => false
  end &&
  list_eqb shape_eqb (map (abs_ev model_launch_params li_m li_m') ev_m)
                     (map (abs_ev launch_params li li') ev_o) &&
  Bool.eqb (is_some li_m) (is_some li) && Bool.eqb (is_some li_m') (is_some li') &&
  Bool.eqb (oeqN li_m li_m') (oeqN li li') &&
  oeqN (lookup n (o_reg o)) li' &&
  match li, li' with Some i, Some j => N.eqb i j || N.ltb (maxid before) j | _, _ => true end.

Definition step_model_ok (s : st) (before : list (N * N)) (o : ostep) : bool * st :=
  let '(s', stat) := if o_boot o then (boot (o_new o), []) else update s (o_new o) in
  (negb (o_err o) && nodupb (keys (o_alive o)) && nodupb (keys (o_new o)) &&
   forallb (name_model_ok s s' stat before o) (step_names (procs s) before o), s').

Fixpoint steps_model_ok (s : st) (before : list (N * N)) (l : list ostep) : bool :=
  match l with
  | [] => true
  | o :: r => let '(b, s') := step_model_ok s before o in b && steps_model_ok s' (o_alive o) r
  end.

Definition model_ok (c : ocase) : bool := steps_model_ok (mkSt [] [] 1%N []) [] (c_steps c).

(* diagnosis for replay files: (step index, name) pairs on which the model disagrees; name 0 stands for
   a step-level condition (error returned, duplicate names) *)
Fixpoint steps_model_diag (i : nat) (s : st) (before : list (N * N)) (l : list ostep) : list (nat * N) :=
  match l with
  | [] => []
  | o :: r =>
      let '(s', stat) := if o_boot o then (boot (o_new o), []) else update s (o_new o) in
      (if negb (o_err o) && nodupb (keys (o_alive o)) && nodupb (keys (o_new o)) then [] else [(i, 0%N)]) ++
      map (fun n => (i, n))
          (filter (fun n => negb (name_model_ok s s' stat before o n)) (step_names (procs s) before o)) ++
      steps_model_diag (S i) s' (o_alive o) r
  end.
Definition model_diag (c : ocase) : list (nat * N) := steps_model_diag 0 (mkSt [] [] 1%N []) [] (c_steps c).

(* ---- property monitor: spec-level, independent of Compare and of the model state.  It uses only the
   previous project, the new project and what was observed.  Verdict per name:
     0 fine | 1 listing wrong | 2 status map wrong | 3 process without any change was disturbed
     4 changed process not replaced as required | 5 process with a cosmetic-only change was restarted
     6 removed process not terminated | 7 added process not launched as configured
     8 stored configuration differs from the new one on a launch-relevant field
     9 something happened to a name that is in neither project
     10 only the project-level environment changed and the process was not relaunched with it *)
Definition launch_ok (expect : pconf -> pconf) (n : N) (c' : pconf) (li' : option N) (maxb : N)
                     (tail : list event) : bool :=
  if deferred c' then match tail, li' with [], None => true | _, _ => false end
  else match li', tail with
       | Some j, [ELaunch m j' p] =>
           N.eqb m n && N.eqb j j' && N.ltb maxb j && eq_on launch_fields p (expect c')
       | _, _ => false
       end.

Definition replaced_ok (expect : pconf -> pconf) (n : N) (c' : pconf) (li li' : option N) (maxb : N)
                       (ev : list event) : bool :=
  match li with
  | Some i =>
      match ev with
      | EStop a b :: EEnd a' b' :: tail =>
          N.eqb a n && N.eqb b i && N.eqb a' n && N.eqb b' i && launch_ok expect n c' li' maxb tail
      | _ => false
      end
  | None => launch_ok expect n c' li' maxb ev
  end.

Definition mon_name (prev : list (N * pconf)) (before : list (N * N)) (o : ostep) (n : N) : nat :=
  let oc := lookup n prev in
  let nc := lookup n (o_new o) in
  let li := lookup n before in
  let li' := lookup n (o_alive o) in
  let ev := evs_of n (o_events o) in
  let stn := lookup n (o_status o) in
  let st_is (k : option N) := o_boot o || oeqN stn k in
  let listed := memN n (o_names o) in
  let info := lookup n (o_info o) in
  let maxb := maxid before in
  let info_ok c' := match info with Some i => eq_on launch_relevant i c' | None => false end in
  match oc, nc with
  | None, None =>
      if list_eqb event_eqb ev [] && negb (is_some li') && st_is None && negb listed then 0 else 9
  | Some c, None =>
      if listed || is_some info then 1
      else if negb (negb (is_some li') && list_eqb event_eqb ev (stop_evs n li)) then 6
      else if st_is (Some 2%N) then 0 else 2
  | None, Some c' =>
      if negb listed then 1
      else if negb (info_ok c') then 8
      else if negb (replaced_ok launch_params n c' li li' maxb ev) then
        (if replaced_ok model_launch_params n c' li li' maxb ev then 10 else 7)
      else if st_is (Some 1%N) then 0 else 2
  | Some c, Some c' =>
      let kept := oeqN li' li && list_eqb event_eqb ev [] in
      let replaced := replaced_ok launch_params n c' li li' maxb ev in
      (* replaced, but with the project-level environment the supervisor was started with *)
      let replaced_stale_env := replaced_ok model_launch_params n c' li li' maxb ev in
      if negb listed then 1
      else if negb (info_ok c') then 8
      else if eq_on all_fields c c' then
        (if kept then (if st_is None then 0 else 2) else 3)
      else if negb (eq_on lr_plus c c') then
        (if replaced then (if st_is (Some 3%N) then 0 else 2)
         else if (eq_on launch_relevant c c' && kept) || replaced_stale_env then 10 else 4)
      else if eq_on noncosmetic c c' then
        (if kept && st_is None then 0 else if replaced && st_is (Some 3%N) then 5 else 4)
      else
        (if (kept && st_is None) || (replaced && st_is (Some 3%N)) then 0 else 4)
  end.

(* verdicts of one step: (name, code) for every name whose code is not 0 *)
Definition step_verdicts (prev : list (N * pconf)) (before : list (N * N)) (o : ostep) : list (N * nat) :=
  let names := step_names prev before o in
  let vs := map (fun n => (n, mon_name prev before o n)) names in
  let dup := if nodupb (keys (o_alive o)) then [] else [(0%N, 6)] in
  filter (fun p => negb (Nat.eqb (snd p) 0)) vs ++ dup.

(* a step whose call reported an error is outside the premise "the update succeeds" *)
Fixpoint case_verdicts (i : nat) (prev : list (N * pconf)) (before : list (N * N)) (l : list ostep)
  : list (nat * N * nat) :=
  match l with
  | [] => []
  | o :: r =>
      (if o_err o then [] else map (fun p => (i, fst p, snd p)) (step_verdicts prev before o)) ++
      case_verdicts (S i) (o_new o) (o_alive o) r
  end.

Definition verdicts (c : ocase) : list (nat * N * nat) := case_verdicts 0 [] [] (c_steps c).
Definition holds_C14 (c : ocase) : bool := match verdicts c with [] => true | _ => false end.

Definition bad_model (cs : list ocase) : list nat := failing model_ok cs.
Definition bad_monitor (cs : list ocase) : list nat := failing holds_C14 cs.
Definition bad_cmp_model (cs : list ccase) : list nat := failing cmp_model_ok cs.
Definition bad_cmp_monitor (cs : list ccase) : list nat := failing cmp_holds cs.

(* flat list for the driver: case index, step index, name id, code *)
Fixpoint flat_from (i : nat) (cs : list ocase) : list nat :=
  match cs with
  | [] => []
  | c :: r => flat_map (fun v => let '(sx, n, code) := v in [i; sx; N.to_nat n; code]) (verdicts c)
              ++ flat_from (S i) r
  end.
Definition findings (cs : list ocase) : list nat := flat_from 0 cs.

Fixpoint diag_from (i : nat) (cs : list ocase) : list nat :=
  match cs with
  | [] => []
  | c :: r => flat_map (fun v => [i; fst v; N.to_nat (snd v)]) (model_diag c) ++ diag_from (S i) r
  end.
Definition model_findings (cs : list ocase) : list nat := diag_from 0 cs.
