(* Model of the live project update (property C14).  No proofs in this file.

   Go code modelled (process-compose, pinned commit + the repairs fixes/F9, fixes/F27, fixes/F12):
     ProcessConfig.Compare                 src/types/process.go:81-120      -> [compare]
     ProjectRunner.UpdateProject           src/app/project_runner.go:968-1022 -> [classify], [update]
     ProjectRunner.UpdateProcess           src/app/project_runner.go:1044-1080 -> [update_proc]
     ProjectRunner.removeProcess           src/app/project_runner.go:800-816 -> [remove_proc]
     ProjectRunner.addProcessAndRun        src/app/project_runner.go:818-827 -> [add_proc]

   A process configuration is an association list  field |-> value identifier.  The harness interns
   every field value (canonical JSON of the Go value) per field, so that two configurations carry the
   same identifier for a field iff the Go values are equal in the sense Compare uses for that field.
   Processes are keyed by N identifiers of their replica name (the key of project.Processes). *)
From Coq Require Import List NArith Bool.
Import ListNotations.

(* every field of types.ProcessConfig (src/types/process.go:23-55) + one derived launch parameter *)
Inductive field :=
| FName | FDisabled | FIsDaemon | FCommand | FEntrypoint | FLogLocation | FLoggerConfig
| FEnvironment | FRestartPolicy | FDependsOn | FLiveness | FReadiness | FReadyLogLine | FShutdown
| FDisableAnsi | FWorkingDir | FNamespace | FReplicas | FExtensions | FDescription | FVars
| FIsForeground | FIsTty | FIsElevated | FLaunchTimeout | FOriginalConfig | FReplicaNum
| FReplicaName | FExecutable | FArgs
| FEffEnv    (* derived: project-level environment of the SAME project ++ process environment *)
| FEffEnv0.  (* derived: project-level environment the supervisor was started with ++ process
                environment = what a command launched by the running supervisor actually gets
                (UpdateProject never replaces project.Environment) *)

Scheme Equality for field.

Definition pconf := list (field * N).

Fixpoint get (f : field) (c : pconf) : N :=
  match c with
  | [] => 0%N
  | (g, v) :: r => if field_beq f g then v else get f r
  end.

(* --- ProcessConfig.Compare ------------------------------------------------------------------- *)
Definition compare_with (fs : list field) (a b : pconf) : bool :=
  forallb (fun f => N.eqb (get f a) (get f b)) fs.

(* the field list of the unchanged code: 14 simple fields compared with !=, 10 with reflect.DeepEqual *)
Definition compared_orig : list field :=
  [FName; FDisabled; FIsDaemon; FCommand; FLogLocation; FReadyLogLine; FDisableAnsi; FWorkingDir;
   FNamespace; FReplicas; FDescription; FIsForeground; FIsTty; FIsElevated;
   FLoggerConfig; FLiveness; FReadiness; FShutdown; FVars; FExtensions; FDependsOn; FRestartPolicy;
   FEnvironment; FArgs].

(* after fixes/F9-compare-executable.diff *)
Definition compared : list field := FExecutable :: compared_orig.

Definition compare : pconf -> pconf -> bool := compare_with compared.

(* the launch-relevant fields named by the property text: executable, arguments, environment,
   working directory, probes, policies, dependencies *)
Definition launch_relevant : list field :=
  [FExecutable; FArgs; FEnvironment; FWorkingDir; FLiveness; FReadiness; FRestartPolicy; FShutdown;
   FDependsOn].

(* fields whose change cannot alter how the process is launched, supervised or observed at run time
   (used only to name the over-restart finding) *)
Definition cosmetic : list field := [FDescription; FNamespace; FVars; FExtensions].

(* IsDeferred(): IsForeground || Disabled; booleans are interned as 0 = false, 1 = true *)
Definition deferred (c : pconf) : bool :=
  negb (N.eqb (get FIsForeground c) 0) || negb (N.eqb (get FDisabled c) 0).

(* --- supervisor state as far as an update is concerned ------------------------------------------ *)
Inductive event :=
| EStop (n i : N)                (* instance i of process n received its stop signal *)
| EEnd (n i : N)                 (* instance i of process n ended (removeProcess waited for it) *)
| ELaunch (n i : N) (c : pconf). (* instance i of process n was spawned with configuration c *)

Inductive ukind := UAdded | URemoved | UUpdated.

Record st := mkSt {
  procs : list (N * pconf);   (* project.Processes *)
  live  : list (N * N);       (* runningProcesses: name |-> instance id *)
  next  : N;                  (* next fresh instance id *)
  evs   : list event          (* chronological *)
}.

Section Assoc.
Context {A : Type}.
Fixpoint lookup (n : N) (l : list (N * A)) : option A :=
  match l with
  | [] => None
  | (k, v) :: r => if N.eqb n k then Some v else lookup n r
  end.
Definition has (n : N) (l : list (N * A)) : bool :=
  match lookup n l with Some _ => true | None => false end.
Definition remove_key (n : N) (l : list (N * A)) : list (N * A) :=
  filter (fun p => negb (N.eqb n (fst p))) l.
Definition set_key (n : N) (v : A) (l : list (N * A)) : list (N * A) := remove_key n l ++ [(n, v)].
Definition keys (l : list (N * A)) : list N := map fst l.
End Assoc.

(* removeProcess: delete the configuration; if an instance is registered, stop it and wait for its end *)
Definition remove_proc (n : N) (s : st) : st :=
  match lookup n (live s) with
  | Some i => mkSt (remove_key n (procs s)) (remove_key n (live s)) (next s)
                   (evs s ++ [EStop n i; EEnd n i])
  | None => mkSt (remove_key n (procs s)) (live s) (next s) (evs s)
  end.

(* addProcessAndRun: store the configuration; spawn an instance unless IsDeferred() *)
Definition add_proc (n : N) (c : pconf) (s : st) : st :=
  if deferred c then mkSt (set_key n c (procs s)) (live s) (next s) (evs s)
  else mkSt (set_key n c (procs s)) (set_key n (next s) (live s)) (N.succ (next s))
            (evs s ++ [ELaunch n (next s) c]).

(* UpdateProcess for a process that compares unequal: removeProcess then addProcessAndRun.
   (ScaleProcess is called when Replicas changed; for loader-built projects it finds the replica count
   already right and does nothing - see notes/C14.md; the harness exercises replica changes.) *)
Definition update_proc (n : N) (c : pconf) (s : st) : st := add_proc n c (remove_proc n s).

(* classification of UpdateProject (by name, then by Compare) *)
Definition is_new (cur new : list (N * pconf)) (p : N * pconf) : bool := negb (has (fst p) cur).
Definition is_updated (cur : list (N * pconf)) (p : N * pconf) : bool :=
  match lookup (fst p) cur with
  | Some c => negb (compare c (snd p))
  | None => false
  end.
Definition is_deleted (new : list (N * pconf)) (p : N * pconf) : bool := negb (has (fst p) new).

Definition news (cur new : list (N * pconf)) := filter (is_new cur new) new.
Definition upds (cur new : list (N * pconf)) := filter (is_updated cur) new.
Definition dels (cur new : list (N * pconf)) := filter (is_deleted new) cur.

Definition status_of (cur new : list (N * pconf)) : list (N * ukind) :=
  map (fun p => (fst p, URemoved)) (dels cur new) ++
  map (fun p => (fst p, UAdded)) (news cur new) ++
  map (fun p => (fst p, UUpdated)) (upds cur new).

(* UpdateProject: deleted ones first, then new ones, then updated ones (classification is computed
   before anything is changed).  Returns the new state and the status map. *)
Definition update (s : st) (new : list (N * pconf)) : st * list (N * ukind) :=
  let cur := procs s in
  let s1 := fold_left (fun s p => remove_proc (fst p) s) (dels cur new) s in
  let s2 := fold_left (fun s p => add_proc (fst p) (snd p) s) (news cur new) s1 in
  let s3 := fold_left (fun s p => update_proc (fst p) (snd p) s) (upds cur new) s2 in
  (s3, status_of cur new).

Definition updates (s : st) (ps : list (list (N * pconf))) : st :=
  fold_left (fun s p => fst (update s p)) ps s.

(* initial state: Run() spawns every non-deferred process of the project *)
Definition boot (p : list (N * pconf)) : st :=
  fold_left (fun s q => add_proc (fst q) (snd q) s) p (mkSt [] [] 1%N []).

(* events about one process *)
Definition ev_name (e : event) : N :=
  match e with EStop n _ => n | EEnd n _ => n | ELaunch n _ _ => n end.
Definition evs_of (n : N) (l : list event) : list event := filter (fun e => N.eqb (ev_name e) n) l.
