From Coq Require Import List ZArith Bool NArith Lia Arith.
From PC.LogBuf Require Import Model.
Import ListNotations.

Section P.
Context {A : Type}.
Implicit Types (b xs : list A) (s : st A) (ops : list (op A)) (ss : list (N * list A)) (x : A).

(* ---------- write: suffix + bounds ---------------------------------------------------------- *)

Definition buf_inv (size : nat) (w b : list A) : Prop :=
  (exists pre, w = pre ++ b) /\ Nat.min (length w) size <= length b <= size + slack.

Lemma write_inv size w b x : buf_inv size w b -> buf_inv size (w ++ [x]) (write size b x).
Proof.
  intros [[pre Hpre] [Hlo Hhi]]. unfold write.
  destruct (Nat.ltb_spec (size + slack) (length (b ++ [x]))) as [Hlt|Hge].
  - split.
    + exists (pre ++ firstn slack (b ++ [x])). subst w.
      rewrite <- !app_assoc. f_equal. symmetry. apply (firstn_skipn slack (b ++ [x])).
    + rewrite skipn_length, !app_length in *. cbn [length] in *. unfold slack in *. lia.
  - split.
    + exists pre. subst w. now rewrite app_assoc.
    + rewrite !app_length in *. cbn [length] in *. lia.
Qed.

Lemma sz_step s o : sz (fst (step s o)) = sz s.
Proof. destruct o; reflexivity. Qed.

Lemma sz_run ops : forall s, sz (run s ops) = sz s.
Proof.
  induction ops as [|o ops IH]; intros s; [reflexivity|].
  cbn [run fold_left]. fold (run (fst (step s o)) ops). now rewrite IH, sz_step.
Qed.

Lemma run_cons s o ops : run s (o :: ops) = run (fst (step s o)) ops.
Proof. reflexivity. Qed.

Lemma run_app s ops1 ops2 : run s (ops1 ++ ops2) = run (run s ops1) ops2.
Proof. unfold run. now rewrite fold_left_app. Qed.

Lemma run_buf_inv ops : forall s w, buf_inv (sz s) w (buf s) ->
  buf_inv (sz s) (w ++ written ops) (buf (run s ops)).
Proof.
  induction ops as [|o ops IH]; intros s w H.
  - cbn. now rewrite app_nil_r.
  - rewrite run_cons. destruct o as [x|id tail|id|id| |off lim]; cbn [written];
      try (match goal with |- context[step s ?o] => specialize (IH (fst (step s o)) w) end;
           cbn in IH |- *; now apply IH).
    specialize (IH (fst (step s (OWrite x))) (w ++ [x])). cbn in IH |- *.
    rewrite <- app_assoc in IH. cbn in IH. apply IH. now apply write_inv.
Qed.

Theorem buffer_suffix (size : nat) ops :
  let s := run (init size) ops in
  (exists pre, written ops = pre ++ buf s) /\
  Nat.min (length (written ops)) size <= length (buf s) <= size + slack.
Proof.
  cbn zeta. pose proof (run_buf_inv ops (init size) []) as H. cbn in H. apply H.
  split; [now exists []|cbn; lia].
Qed.

(* ---------- get_range: exactly the window, total ------------------------------------------- *)

Definition clamp_off b (off : Z) : Z := Z.max 0 (Z.min off (Z.of_nat (length b))).
Definition window_len b (off lim : Z) : Z :=
  if (lim <? 1)%Z then clamp_off b off else Z.min lim (clamp_off b off).

Theorem get_range_window b off lim :
  exists pre post, b = pre ++ get_range b off lim ++ post /\
    Z.of_nat (length pre) = (Z.of_nat (length b) - clamp_off b off)%Z /\
    Z.of_nat (length (get_range b off lim)) = window_len b off lim.
Proof.
  unfold get_range, window_len, clamp_off.
  set (n := Z.of_nat (length b)).
  destruct (Z.eqb_spec n 0) as [Hn|Hn].
  - exists [], []. assert (b = []) by (destruct b; [reflexivity|cbn in n; lia]). subst b. subst n. cbn [length Z.of_nat app].
    repeat split; destruct (Z.ltb_spec lim 1); lia.
  - set (o := if (off <? 0)%Z then 0%Z else if (off >? n)%Z then n else off).
    assert (Ho : o = Z.max 0 (Z.min off n)).
    { unfold o. destruct (Z.ltb_spec off 0); [lia|]. destruct (off >? n)%Z eqn:E; lia. }
    assert (Hor : (0 <= o <= n)%Z) by lia.
    rewrite <- Ho.
    set (l0 := if (lim <? 1)%Z then 0%Z else if (lim >? n)%Z then n else lim).
    set (l := if (l0 >? o)%Z then o else l0).
    set (start := Z.to_nat (n - o)).
    assert (Hst : start <= length b) by (unfold start, n in *; lia).
    assert (Hsk : length (skipn start b) = Z.to_nat o).
    { rewrite skipn_length. unfold start, n in *. lia. }
    destruct (Z.eqb_spec l 0) as [Hl|Hl].
    + exists (firstn start b), []. rewrite app_nil_r, firstn_skipn. split; [reflexivity|].
      rewrite firstn_length, Hsk. split; [unfold start, n in *; lia|].
      unfold l, l0 in Hl.
      destruct (Z.ltb_spec lim 1); [lia|].
      destruct (lim >? n)%Z eqn:E1; destruct (_ >? o)%Z eqn:E2 in Hl; lia.
    + exists (firstn start b), (skipn (Z.to_nat l) (skipn start b)).
      rewrite firstn_skipn, firstn_skipn. split; [reflexivity|].
      rewrite !firstn_length, Hsk. split; [unfold start, n in *; lia|].
      unfold l, l0 in *.
      destruct (Z.ltb_spec lim 1).
      * exfalso. apply Hl. destruct (0 >? o)%Z eqn:E; lia.
      * destruct (lim >? n)%Z eqn:E1; destruct (_ >? o)%Z eqn:E2; lia.
Qed.

(* the window is the LAST clamp_off lines cut to the limit: position-wise characterisation *)
Corollary get_range_nth b off lim d i :
  (i < length (get_range b off lim))%nat ->
  nth i (get_range b off lim) d = nth (Z.to_nat (Z.of_nat (length b) - clamp_off b off) + i) b d.
Proof.
  intros Hi. destruct (get_range_window b off lim) as (pre & post & Hb & Hpre & _).
  set (r := get_range b off lim) in *.
  replace (Z.to_nat (Z.of_nat (length b) - clamp_off b off)) with (length pre) by lia.
  transitivity (nth (length pre + i) (pre ++ r ++ post) d); [|now rewrite <- Hb].
  rewrite app_nth2 by lia. replace (length pre + i - length pre) with i by lia. now rewrite app_nth1.
Qed.

Local Arguments mem : simpl never.
(* ---------- observers ------------------------------------------------------------------------ *)

Lemma stream_push_same id xs ss : stream_of id (push_stream id xs ss) = stream_of id ss ++ xs.
Proof.
  induction ss as [|[i l] r IH]; cbn.
  - now rewrite N.eqb_refl.
  - destruct (N.eqb_spec i id); cbn.
    + subst. now rewrite N.eqb_refl.
    + destruct (N.eqb_spec i id); [contradiction|exact IH].
Qed.

Lemma stream_push_other id j xs ss : j <> id -> stream_of id (push_stream j xs ss) = stream_of id ss.
Proof.
  intros Hne. induction ss as [|[i l] r IH]; cbn.
  - destruct (N.eqb_spec j id); [contradiction|reflexivity].
  - destruct (N.eqb_spec i j); cbn.
    + subst. destruct (N.eqb_spec j id); [contradiction|reflexivity].
    + destruct (N.eqb_spec i id); [reflexivity|exact IH].
Qed.

Lemma mem_spec id l : mem id l = true <-> In id l.
Proof.
  unfold mem. rewrite existsb_exists. split.
  - intros (x & Hin & E). apply N.eqb_eq in E. now subst.
  - intros H. exists id. now rewrite N.eqb_refl.
Qed.

Lemma fanout_stream x id act : NoDup act -> forall ss,
  stream_of id (fanout x act ss) = stream_of id ss ++ (if mem id act then [x] else []).
Proof.
  unfold fanout. induction act as [|j act IH]; intros Hnd ss; cbn [fold_left].
  - cbn. now rewrite app_nil_r.
  - inversion Hnd as [|? ? Hnotin Hnd']; subst. rewrite IH by assumption.
    unfold mem at 2. cbn [existsb]. fold (mem id act).
    destruct (N.eqb_spec id j) as [->|Hne].
    + rewrite stream_push_same. cbn [orb].
      destruct (mem j act) eqn:E; [apply mem_spec in E; contradiction|]. now rewrite app_nil_r.
    + rewrite stream_push_other by congruence. reflexivity.
Qed.

Lemma add_id_nodup id l : NoDup l -> NoDup (add_id id l).
Proof.
  intros H. unfold add_id. destruct (mem id l) eqn:E; [assumption|].
  constructor; [|assumption]. intros Hx. apply mem_spec in Hx. congruence.
Qed.

Lemma del_id_nodup id l : NoDup l -> NoDup (del_id id l).
Proof. intros H. unfold del_id. now apply NoDup_filter. Qed.

Lemma mem_add_same id l : mem id (add_id id l) = true.
Proof.
  unfold add_id. destruct (mem id l) eqn:E; [assumption|].
  apply mem_spec. now left.
Qed.

Lemma mem_add_other id j l : j <> id -> mem id (add_id j l) = mem id l.
Proof.
  intros Hne. unfold add_id. destruct (mem j l); [reflexivity|].
  destruct (mem id l) eqn:E.
  - apply mem_spec. right. now apply mem_spec.
  - destruct (mem id (j :: l)) eqn:E2; [|reflexivity].
    apply mem_spec in E2. destruct E2 as [H|H]; [congruence|].
    apply mem_spec in H. congruence.
Qed.

Lemma mem_del_same id l : mem id (del_id id l) = false.
Proof.
  destruct (mem id (del_id id l)) eqn:E; [|reflexivity].
  apply mem_spec in E. unfold del_id in E. apply filter_In in E. destruct E as [_ E].
  now rewrite N.eqb_refl in E.
Qed.

Lemma mem_del_other id j l : j <> id -> mem id (del_id j l) = mem id l.
Proof.
  intros Hne. destruct (mem id l) eqn:E.
  - apply mem_spec. unfold del_id. apply filter_In. split; [now apply mem_spec|].
    destruct (N.eqb_spec id j); [congruence|reflexivity].
  - destruct (mem id (del_id j l)) eqn:E2; [|reflexivity].
    apply mem_spec in E2. unfold del_id in E2. apply filter_In in E2. destruct E2 as [E2 _].
    apply mem_spec in E2. congruence.
Qed.

Lemma step_nodup s o : NoDup (active s) -> NoDup (active (fst (step s o))).
Proof.
  intros H. destruct o; cbn; auto using add_id_nodup, del_id_nodup. constructor.
Qed.

Lemma run_nodup ops : forall s, NoDup (active s) -> NoDup (active (run s ops)).
Proof.
  induction ops as [|o ops IH]; intros s H; [exact H|]. rewrite run_cons. apply IH. now apply step_nodup.
Qed.

(* an operation that (re)registers, unregisters or closes observer [id] *)
Definition touches (id : N) (o : op A) : bool :=
  match o with
  | OSub j _ | OSubPlain j | OUnsub j => N.eqb j id
  | OClose => true
  | _ => false
  end.

Lemma quiet_stream id ops : forallb (fun o => negb (touches id o)) ops = true ->
  forall s, NoDup (active s) ->
  mem id (active (run s ops)) = mem id (active s) /\
  stream_of id (streams (run s ops)) =
    stream_of id (streams s) ++ (if mem id (active s) then written ops else []).
Proof.
  induction ops as [|o ops IH]; intros Hq s Hnd.
  - cbn. split; [reflexivity|]. destruct (mem id (active s)); now rewrite app_nil_r.
  - cbn [forallb] in Hq. apply andb_true_iff in Hq. destruct Hq as [Ho Hq].
    rewrite run_cons. destruct (IH Hq (fst (step s o)) (step_nodup s o Hnd)) as [IHa IHs].
    rewrite IHa, IHs. clear IH IHa IHs.
    destruct o as [x|j tail|j|j| |off lim]; cbn in Ho |- *.
    + split; [reflexivity|]. rewrite fanout_stream by assumption.
      destruct (mem id (active s)); rewrite <- app_assoc; reflexivity.
    + apply negb_true_iff, N.eqb_neq in Ho.
      rewrite mem_add_other, stream_push_other by assumption. now split.
    + apply negb_true_iff, N.eqb_neq in Ho.
      rewrite mem_add_other, stream_push_other by assumption. now split.
    + apply negb_true_iff, N.eqb_neq in Ho. rewrite mem_del_other by assumption. now split.
    + discriminate.
    + now split.
Qed.

(* The follower theorem: subscribe with a tail at any reachable point, then any further operations
   that do not unregister this observer: it has received the tail window and then every later line,
   once, in order. *)
Theorem follower_stream size ops1 id tail ops2 :
  forallb (fun o => negb (touches id o)) ops2 = true ->
  let s1 := run (init size) ops1 in
  let s2 := run s1 (OSub id tail :: ops2) in
  stream_of id (streams s2) =
    stream_of id (streams s1) ++ get_range (buf s1) tail 0 ++ written ops2.
Proof.
  intros Hq s1 s2. subst s2. rewrite run_cons.
  assert (Hnd : NoDup (active s1)) by (apply run_nodup; constructor).
  destruct (quiet_stream id ops2 Hq (fst (step s1 (OSub id tail))) (step_nodup _ _ Hnd)) as [_ H].
  rewrite H. cbn. rewrite mem_add_same, stream_push_same. now rewrite <- app_assoc.
Qed.

(* hand-over: what a fresh follower receives is a suffix of everything ever written: no gap, no
   duplicate, and the tail part has the requested length clamped to what the buffer holds. *)
Corollary follower_no_gap size ops1 id tail ops2 :
  forallb (fun o => negb (touches id o)) ops2 = true ->
  let s1 := run (init size) ops1 in
  let s2 := run s1 (OSub id tail :: ops2) in
  stream_of id (streams s1) = [] ->
  (exists pre, written ops1 ++ written ops2 = pre ++ stream_of id (streams s2)) /\
  Z.of_nat (length (stream_of id (streams s2))) =
     (clamp_off (buf s1) tail + Z.of_nat (length (written ops2)))%Z.
Proof.
  intros Hq s1 s2 Hfresh. subst s2.
  pose proof (follower_stream size ops1 id tail ops2 Hq) as Hf. cbn zeta in Hf. fold s1 in Hf.
  rewrite Hf, Hfresh. cbn [app].
  destruct (buffer_suffix size ops1) as [[pre Hpre] _]. fold s1 in Hpre.
  destruct (get_range_window (buf s1) tail 0) as (p2 & post & Hb & Hlen1 & Hlen2).
  unfold window_len in Hlen2. cbn in Hlen2.
  assert (Hpost : post = []).
  { apply length_zero_iff_nil. apply (f_equal (@length A)) in Hb. rewrite !app_length in Hb. lia. }
  subst post. rewrite app_nil_r in Hb. split.
  - exists (pre ++ p2). rewrite Hpre. rewrite Hb at 1. now rewrite <- !app_assoc.
  - rewrite app_length. lia.
Qed.

(* after an unsubscribe nothing more is delivered *)
Theorem unsub_silent s id ops :
  NoDup (active s) ->
  forallb (fun o => negb (touches id o)) ops = true ->
  stream_of id (streams (run s (OUnsub id :: ops))) = stream_of id (streams s).
Proof.
  intros Hnd Hq. rewrite run_cons.
  destruct (quiet_stream id ops Hq (fst (step s (OUnsub id))) (step_nodup _ _ Hnd)) as [_ H].
  rewrite H. cbn. rewrite mem_del_same. now rewrite app_nil_r.
Qed.

(* ---------- bounded follower: the writer IS held up by a full queue (finding F29) ------------- *)
Theorem bounded_follower_blocks :
  exists fs : list follower,
    write_enabled fs = true /\
    write_enabled (Nat.iter 256 deliver fs) = false.
Proof. exists [mkF 256 0]. split; vm_compute; reflexivity. Qed.

(* ... and a follower that keeps draining never does *)
Theorem draining_follower_ok cap q : q < cap ->
  write_enabled (drain 1 (deliver [mkF cap q])) = true.
Proof.
  intros H. cbn. rewrite andb_true_r. apply Nat.ltb_lt. lia.
Qed.

(* what OTHER observers do (subscribe, re-subscribe, unsubscribe, range reads, in any number and order)
   cannot change what observer [id] receives: its stream depends only on the lines written *)
Theorem followers_independent s id ops ops' :
  NoDup (active s) ->
  forallb (fun o => negb (touches id o)) ops = true ->
  forallb (fun o => negb (touches id o)) ops' = true ->
  written ops = written ops' ->
  stream_of id (streams (run s ops)) = stream_of id (streams (run s ops')) /\
  mem id (active (run s ops)) = mem id (active (run s ops')).
Proof.
  intros Hnd Hq Hq' Hw.
  destruct (quiet_stream id ops Hq s Hnd) as [Ha Hs].
  destruct (quiet_stream id ops' Hq' s Hnd) as [Ha' Hs'].
  rewrite Ha, Ha', Hs, Hs', Hw. split; reflexivity.
Qed.

(* ---------- end to end: a range request on ANY reachable buffer is a window of the written history --- *)

(* The answer to GetLogRange(off, lim) after any operation sequence is the contiguous block of
   EVERYTHING WRITTEN SO FAR that ends clamp(off) - len lines before the last written line. *)
Theorem range_of_history (size : nat) ops off lim :
  let s := run (init size) ops in
  let r := get_range (buf s) off lim in
  exists pre post, written ops = pre ++ r ++ post /\
    Z.of_nat (length post) = (clamp_off (buf s) off - window_len (buf s) off lim)%Z /\
    Z.of_nat (length r) = window_len (buf s) off lim.
Proof.
  cbn zeta. destruct (buffer_suffix size ops) as [[pre0 Hw] _]. cbn zeta in Hw.
  destruct (get_range_window (buf (run (init size) ops)) off lim) as (pre & post & Hb & Hpre & Hlen).
  exists (pre0 ++ pre), post. split; [|split; [|exact Hlen]].
  - rewrite Hw at 1. rewrite Hb at 1. now rewrite <- app_assoc.
  - apply (f_equal (@length A)) in Hb. rewrite !app_length in Hb. lia.
Qed.

(* "at least the configured length once that many were written": a request that asks for no more than
   min(#written, size) lines back is never clamped - it is served with exactly min(lim, off) lines
   (all off lines when lim < 1), whatever was trimmed in between. *)
Theorem range_served_in_full (size : nat) ops off lim :
  (0 <= off <= Z.of_nat (Nat.min (length (written ops)) size))%Z ->
  let s := run (init size) ops in
  clamp_off (buf s) off = off /\
  Z.of_nat (length (get_range (buf s) off lim)) = (if (lim <? 1)%Z then off else Z.min lim off).
Proof.
  intros Hoff. cbn zeta. destruct (buffer_suffix size ops) as [_ [Hlo _]]. cbn zeta in Hlo.
  assert (Hc : clamp_off (buf (run (init size) ops)) off = off) by (unfold clamp_off; lia).
  split; [exact Hc|].
  destruct (get_range_window (buf (run (init size) ops)) off lim) as (pre & post & _ & _ & Hlen).
  rewrite Hlen. unfold window_len. now rewrite Hc.
Qed.

End P.
