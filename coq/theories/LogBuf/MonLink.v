(* model => monitor for C18: the property monitor of the check (LogBuf/Check.v: holds_C18, written from
   the property text - declarative window over the history of written lines, length discipline, expected
   follower streams) accepts the observation the MODEL produces, for every buffer size, every operation
   sequence and every set of observer ids.  Hence a history the monitor rejects is one on which the
   implementation left the model (never an alarm on code that agrees with the model). *)
From Coq Require Import List ZArith Bool NArith Lia Arith.
From PC.Base Require Import Util.
From PC.LogBuf Require Import Model Proofs Check.
Import ListNotations.

Lemma leqb_refl l : leqb l l = true.
Proof. apply (list_eqb_eq N.eqb N.eqb_eq). reflexivity. Qed.

Lemma lastn_suffix {A} (pre b : list A) : lastn (length b) (pre ++ b) = b.
Proof.
  unfold lastn. rewrite app_length.
  replace (length pre + length b - length b) with (length pre) by lia.
  rewrite skipn_app, skipn_all, Nat.sub_diag. reflexivity.
Qed.

(* the monitor's declarative window is the model's GetLogRange, for all buffers and all integers *)
Theorem window_spec_get_range (b : list N) off lim : window_spec b off lim = get_range b off lim.
Proof.
  unfold window_spec, get_range, lastn. cbv zeta. set (n := Z.of_nat (length b)).
  destruct (Z.eqb_spec n 0) as [Hn|Hn].
  - assert (b = []) by (destruct b; [reflexivity|cbn in n; lia]). subst b.
    rewrite skipn_nil. destruct (lim <? 1)%Z; [reflexivity|apply firstn_nil].
  - assert (Ho : (if (off <? 0)%Z then 0%Z else if (off >? n)%Z then n else off) = Z.max 0 (Z.min off n)).
    { destruct (Z.ltb_spec off 0); [lia|]. destruct (off >? n)%Z eqn:E; lia. }
    rewrite Ho. set (o := Z.max 0 (Z.min off n)). assert (Hor : (0 <= o <= n)%Z) by lia.
    replace (length b - Z.to_nat o) with (Z.to_nat (n - o)) by (unfold n; lia).
    destruct (Z.ltb_spec lim 1) as [Hl|Hl].
    + replace (if (0 >? o)%Z then o else 0%Z) with 0%Z by (destruct (0 >? o)%Z eqn:E; lia). reflexivity.
    + assert (Hl' : (let l0 := if (lim >? n)%Z then n else lim in if (l0 >? o)%Z then o else l0) = Z.min lim o).
      { cbv zeta. destruct (lim >? n)%Z eqn:E1; destruct (_ >? o)%Z eqn:E2; lia. }
      cbv zeta in Hl'. rewrite Hl'.
      destruct (Z.eqb_spec (Z.min lim o) 0) as [Hz|Hz]; [|reflexivity].
      rewrite Hz. cbn [Z.to_nat firstn].
      replace (Z.to_nat (n - o)) with (length b) by (unfold n; lia). now rewrite skipn_all.
Qed.

Definition mon_of (w : list N) (s : st N) : mon := mkMon w (active s) (streams s) true.
Definition w_after (w : list N) (o : op N) : list N := match o with OWrite v => w ++ [v] | _ => w end.

Lemma step_inv size s w o :
  sz s = size -> buf_inv size w (buf s) -> buf_inv size (w_after w o) (buf (fst (step s o))).
Proof.
  intros Hs H. destruct o; cbn [step fst buf w_after]; try exact H. rewrite Hs. now apply write_inv.
Qed.

Lemma mon_step_sim size s w o :
  sz s = size -> buf_inv size w (buf s) ->
  mon_step size (mon_of w s) (o, (Some (snd (step s o)), length (buf (fst (step s o)))))
    = mon_of (w_after w o) (fst (step s o)).
Proof.
  intros Hs H. pose proof (step_inv size s w o Hs H) as [[pre Hpre] [Hlo Hhi]].
  set (L := length (buf (fst (step s o)))) in *.
  assert (Hcur : lastn L (w_after w o) = buf (fst (step s o))) by (rewrite Hpre; apply lastn_suffix).
  assert (Hlen : Nat.leb (Nat.min (length (w_after w o)) size) L && Nat.leb L (size + slack)
                 && Nat.leb L (length (w_after w o)) = true).
  { rewrite !andb_true_iff, !Nat.leb_le. repeat split; try lia.
    rewrite Hpre, app_length. unfold L. lia. }
  unfold mon_step, mon_of. cbn [m_written m_act m_exp m_ok andb].
  destruct o; cbn [w_after] in *; rewrite Hlen, ?Hcur; cbn [step fst snd active streams buf sz andb];
    try reflexivity.
  - cbn [step fst buf] in Hcur. rewrite window_spec_get_range. reflexivity.
  - cbn [step fst buf] in Hcur. rewrite window_spec_get_range. cbn [option_eqb]. now rewrite leqb_refl.
Qed.

Lemma written_after w o r : w ++ written (o :: r) = w_after w o ++ written r.
Proof. destruct o; cbn [written w_after]; try reflexivity. now rewrite <- app_assoc. Qed.

Lemma sim_run size : forall ops s w,
  sz s = size -> buf_inv size w (buf s) ->
  let t := fst (model_trace s ops) in
  let sf := snd (model_trace s ops) in
  fold_left (mon_step size) (combine ops (combine (map (fun p => Some (fst p)) t) (map snd t))) (mon_of w s)
    = mon_of (w ++ written ops) sf
  /\ buf_inv size (w ++ written ops) (buf sf) /\ length t = length ops.
Proof.
  induction ops as [|o r IH]; intros s w Hs H; cbv zeta.
  - cbn. rewrite app_nil_r. auto.
  - pose proof (mon_step_sim size s w o Hs H) as Hstep.
    pose proof (step_inv size s w o Hs H) as Hinv.
    cbn [model_trace]. destruct (step s o) as [s' out] eqn:Es. cbn [fst snd] in Hstep, Hinv.
    assert (Hs' : sz s' = size) by (rewrite <- Hs, <- (sz_step s o), Es; reflexivity).
    specialize (IH s' (w_after w o) Hs' Hinv). cbv zeta in IH.
    destruct (model_trace s' r) as [t sf] eqn:Et. cbn [fst snd] in IH |- *.
    destruct IH as (IH1 & IH2 & IH3).
    cbn [map combine fold_left fst snd]. rewrite Hstep, written_after. split; [exact IH1|split; [exact IH2|]].
    cbn [length]. now rewrite IH3.
Qed.

(* what the model would hand to the harness *)
Definition observe (size : nat) (ops : list (op N)) (ids : list N) : ocase :=
  let t := fst (model_trace (init size) ops) in
  let sf := snd (model_trace (init size) ops) in
  mkCase size ops (map (fun p => Some (fst p)) t) (map snd t) (Some (buf sf))
         (map (fun id => (id, stream_of id (streams sf))) ids).

Theorem monitor_accepts_model size ops ids : holds_C18 (observe size ops ids) = true.
Proof.
  assert (H0 : buf_inv size ([] : list N) (buf (init size))) by (split; [now exists []|cbn; lia]).
  destruct (sim_run size ops (init size) [] eq_refl H0) as (Hf & [[pre Hpre] _] & Hlen). cbv zeta in *.
  unfold holds_C18, observe. cbv zeta. cbn [c_size c_ops c_outs c_lens c_final c_streams].
  change (mkMon [] [] [] true) with (mon_of [] (init size)). rewrite Hf.
  cbn [mon_of m_ok m_written m_exp andb]. rewrite !map_length, Hlen, Nat.eqb_refl. cbn [andb].
  apply andb_true_intro. split.
  - cbn [app] in Hpre |- *. rewrite Hpre, lastn_suffix. apply leqb_refl.
  - rewrite forallb_forall. intros [id l] Hin. apply in_map_iff in Hin. destruct Hin as (id' & E & _).
    inversion E; subst. cbn [fst snd]. apply leqb_refl.
Qed.

Theorem model_accepts_model size ops ids : model_ok (observe size ops ids) = true.
Proof.
  unfold model_ok, observe. cbv zeta. cbn [c_size c_ops c_outs c_lens c_final c_streams].
  destruct (model_trace (init size) ops) as [t sf]. cbn [fst snd option_eqb].
  assert (R1 : forall l, list_eqb (option_eqb leqb) l l = true).
  { induction l as [|[x|] l IH]; cbn; [reflexivity| |exact IH]. now rewrite leqb_refl. }
  assert (R2 : forall l, list_eqb Nat.eqb l l = true).
  { induction l as [|x l IH]; cbn; [reflexivity|]. now rewrite Nat.eqb_refl. }
  rewrite R1, R2, leqb_refl. cbn [andb]. rewrite forallb_forall. intros [id l] Hin.
  apply in_map_iff in Hin. destruct Hin as (id' & E & _). inversion E; subst. cbn [fst snd]. apply leqb_refl.
Qed.
