(* Model of src/pclog/process_log_buffer.go (ProcessLogBuffer) and of its observers.
   No proofs in this file: it must stay evaluable when a proof is broken.

   Go code modelled (line numbers of the pinned commit, after the fix for GetLogRange):
     Write               process_log_buffer.go:26-37
     GetLogRange         process_log_buffer.go:39-63
     GetLogsAndSubscribe process_log_buffer.go:69-74
     Subscribe/UnSubscribe/Close  :76-92
   Lines are abstract values of a type A (the harness uses N identifiers of the strings it writes). *)
From Coq Require Import List ZArith Bool NArith.
Import ListNotations.

Definition slack : nat := 100.

Section Buf.
Context {A : Type}.

(* b.buffer = append(b.buffer, m); if len(b.buffer) > b.size+slack { b.buffer = b.buffer[slack:] } *)
Definition write (size : nat) (b : list A) (x : A) : list A :=
  let b' := b ++ [x] in
  if Nat.ltb (size + slack) (length b') then skipn slack b' else b'.

(* GetLogRange(offsetFromEnd, limit) on Go ints, modelled on Z (no overflow is involved: every value
   is clamped into [0, len] before any addition). *)
Definition get_range (b : list A) (off lim : Z) : list A :=
  let n := Z.of_nat (length b) in
  if (n =? 0)%Z then [] else
  let o := if (off <? 0)%Z then 0%Z else if (off >? n)%Z then n else off in
  let l := if (lim <? 1)%Z then 0%Z else if (lim >? n)%Z then n else lim in
  let l := if (l >? o)%Z then o else l in
  let start := Z.to_nat (n - o) in
  if (l =? 0)%Z then skipn start b else firstn (Z.to_nat l) (skipn start b).

(* --- observers --------------------------------------------------------------------------------- *)
(* An observer is identified by its unique id; the model keeps, per id ever seen, everything that
   observer has been handed so far (SetLines contents followed by WriteString calls). *)
Inductive op :=
| OWrite (x : A)
| OSub (id : N) (tail : Z)        (* GetLogsAndSubscribe with GetTailLength() = tail *)
| OSubPlain (id : N)              (* Subscribe: no snapshot *)
| OUnsub (id : N)
| OClose
| ORange (off lim : Z).           (* GetLogRange: output only *)

Record st := mkSt {
  sz      : nat;
  buf     : list A;
  active  : list N;                 (* registered observer ids, no duplicates *)
  streams : list (N * list A)       (* id |-> lines handed to it so far *)
}.

Definition init (size : nat) : st := mkSt size [] [] [].

Fixpoint stream_of (id : N) (ss : list (N * list A)) : list A :=
  match ss with
  | [] => []
  | (i, l) :: r => if N.eqb i id then l else stream_of id r
  end.

Fixpoint has_stream (id : N) (ss : list (N * list A)) : bool :=
  match ss with
  | [] => false
  | (i, _) :: r => N.eqb i id || has_stream id r
  end.

Fixpoint push_stream (id : N) (xs : list A) (ss : list (N * list A)) : list (N * list A) :=
  match ss with
  | [] => [(id, xs)]
  | (i, l) :: r => if N.eqb i id then (i, l ++ xs) :: r else (i, l) :: push_stream id xs r
  end.

Definition mem (id : N) (l : list N) : bool := existsb (N.eqb id) l.
Definition add_id (id : N) (l : list N) : list N := if mem id l then l else id :: l.
Definition del_id (id : N) (l : list N) : list N := filter (fun i => negb (N.eqb i id)) l.

Definition fanout (x : A) (act : list N) (ss : list (N * list A)) : list (N * list A) :=
  fold_left (fun acc id => push_stream id [x] acc) act ss.

Definition step (s : st) (o : op) : st * list A :=
  match o with
  | OWrite x => (mkSt (sz s) (write (sz s) (buf s) x) (active s) (fanout x (active s) (streams s)), [])
  | OSub id tail =>
      (mkSt (sz s) (buf s) (add_id id (active s)) (push_stream id (get_range (buf s) tail 0) (streams s)), [])
  | OSubPlain id => (mkSt (sz s) (buf s) (add_id id (active s)) (push_stream id [] (streams s)), [])
  | OUnsub id => (mkSt (sz s) (buf s) (del_id id (active s)) (streams s), [])
  | OClose => (mkSt (sz s) (buf s) [] (streams s), [])
  | ORange off lim => (s, get_range (buf s) off lim)
  end.

Definition run (s : st) (ops : list op) : st := fold_left (fun s o => fst (step s o)) ops s.

(* everything written by an operation sequence, in order *)
Fixpoint written (ops : list op) : list A :=
  match ops with
  | [] => []
  | OWrite x :: r => x :: written r
  | _ :: r => written r
  end.

(* outputs of the whole sequence, one entry per operation *)
Fixpoint outputs (s : st) (ops : list op) : list (list A) :=
  match ops with
  | [] => []
  | o :: r => let '(s', out) := step s o in out :: outputs s' r
  end.

(* --- bounded follower queue (websocket connector: chan LogMessage of capacity 256, filled while
       the buffer mutex is held).  A write is enabled only if every bounded follower has room. ------ *)
Record follower := mkF { f_cap : nat; f_queued : nat }.
Definition write_enabled (fs : list follower) : bool :=
  forallb (fun f => Nat.ltb (f_queued f) (f_cap f)) fs.
Definition deliver (fs : list follower) : list follower :=
  map (fun f => mkF (f_cap f) (S (f_queued f))) fs.
Definition drain (k : nat) (fs : list follower) : list follower :=
  match fs with
  | [] => []
  | f :: r => mkF (f_cap f) (f_queued f - k) :: r
  end.

End Buf.

Arguments op : clear implicits.
Arguments st : clear implicits.
