(* Correspondence checker and property monitor for C18, evaluated by vm_compute on cases that the
   Go harness observed on the implementation. *)
From Coq Require Import List ZArith Bool NArith.
From PC.Base Require Import Util.
From PC.LogBuf Require Import Model.
Import ListNotations.

Record ocase := mkCase {
  c_size    : nat;
  c_ops     : list (op N);
  c_outs    : list (option (list N));   (* per op: output (None = the call panicked) *)
  c_lens    : list nat;                 (* per op: GetLogLength() afterwards *)
  c_final   : option (list N);          (* whole buffer at the end *)
  c_streams : list (N * list N)         (* per observer id: everything it was handed *)
}.

Definition leqb := list_eqb N.eqb.

(* --- model agreement ------------------------------------------------------------------------- *)
Fixpoint model_trace (s : st N) (ops : list (op N)) : list (list N * nat) * st N :=
  match ops with
  | [] => ([], s)
  | o :: r => let '(s', out) := step s o in
              let '(t, sf) := model_trace s' r in ((out, length (buf s')) :: t, sf)
  end.

Definition model_ok (c : ocase) : bool :=
  let '(t, sf) := model_trace (init (c_size c)) (c_ops c) in
  list_eqb (option_eqb leqb) (map (fun p => Some (fst p)) t) (c_outs c) &&
  list_eqb Nat.eqb (map snd t) (c_lens c) &&
  option_eqb leqb (Some (buf sf)) (c_final c) &&
  forallb (fun p => leqb (stream_of (fst p) (streams sf)) (snd p)) (c_streams c).

(* --- property monitor: independent of [write] and of the model state; only the declarative window
       and the history of written lines are used.  The implementation's buffer at a step is taken to
       be the last GetLogLength() lines of what was written so far. -------------------------------- *)
Definition window_spec (b : list N) (off lim : Z) : list N :=
  let n := Z.of_nat (length b) in
  let o := Z.max 0 (Z.min off n) in
  let w := lastn (Z.to_nat o) b in
  if (lim <? 1)%Z then w else firstn (Z.to_nat (Z.min lim o)) w.  (* min: never build a huge nat *)

Record mon := mkMon {
  m_written : list N;
  m_act     : list N;
  m_exp     : list (N * list N);   (* expected stream per id *)
  m_ok      : bool
}.

Definition mon_step (size : nat) (m : mon) (x : op N * (option (list N) * nat)) : mon :=
  let '(o, (out, len)) := x in
  let w' := match o with OWrite v => m_written m ++ [v] | _ => m_written m end in
  let cur := lastn len w' in
  (* length discipline: at least min(#written, size), at most size + 100, never more than written *)
  let len_ok := Nat.leb (Nat.min (length w') size) len && Nat.leb len (size + slack)
                && Nat.leb len (length w') in
  match o with
  | OWrite v => mkMon w' (m_act m) (fanout v (m_act m) (m_exp m)) (m_ok m && len_ok)
  | OSub id tail => mkMon w' (add_id id (m_act m)) (push_stream id (window_spec cur tail 0) (m_exp m))
                          (m_ok m && len_ok)
  | OSubPlain id => mkMon w' (add_id id (m_act m)) (push_stream id [] (m_exp m)) (m_ok m && len_ok)
  | OUnsub id => mkMon w' (del_id id (m_act m)) (m_exp m) (m_ok m && len_ok)
  | OClose => mkMon w' [] (m_exp m) (m_ok m && len_ok)
  | ORange off lim =>
      mkMon w' (m_act m) (m_exp m)
            (m_ok m && len_ok && option_eqb leqb out (Some (window_spec cur off lim)))
  end.

Definition holds_C18 (c : ocase) : bool :=
  let m := fold_left (mon_step (c_size c)) (combine (c_ops c) (combine (c_outs c) (c_lens c)))
                     (mkMon [] [] [] true) in
  m_ok m &&
  Nat.eqb (length (c_outs c)) (length (c_ops c)) && Nat.eqb (length (c_lens c)) (length (c_ops c)) &&
  match c_final c with
  | Some f => leqb f (lastn (length f) (m_written m))
  | None => false
  end &&
  forallb (fun p => leqb (stream_of (fst p) (m_exp m)) (snd p)) (c_streams c).

Definition bad_model (cs : list ocase) : list nat := failing model_ok cs.
Definition bad_monitor (cs : list ocase) : list nat := failing holds_C18 cs.
