(* Small executable helpers shared by the correspondence checkers (no proofs needed by them). *)
From Coq Require Import List ZArith Bool NArith.
Import ListNotations.

Fixpoint list_eqb {A} (eqb : A -> A -> bool) (l1 l2 : list A) : bool :=
  match l1, l2 with
  | [], [] => true
  | x :: r1, y :: r2 => eqb x y && list_eqb eqb r1 r2
  | _, _ => false
  end.

Definition option_eqb {A} (eqb : A -> A -> bool) (o1 o2 : option A) : bool :=
  match o1, o2 with
  | None, None => true
  | Some x, Some y => eqb x y
  | _, _ => false
  end.

Definition pair_eqb {A B} (ea : A -> A -> bool) (eb : B -> B -> bool) (p q : A * B) : bool :=
  ea (fst p) (fst q) && eb (snd p) (snd q).

(* indices (from 0) of the elements on which f is false *)
Fixpoint failing_from {A} (f : A -> bool) (i : nat) (l : list A) : list nat :=
  match l with
  | [] => []
  | x :: r => if f x then failing_from f (S i) r else i :: failing_from f (S i) r
  end.
Definition failing {A} (f : A -> bool) (l : list A) : list nat := failing_from f 0 l.

Definition lastn {A} (n : nat) (l : list A) : list A := skipn (length l - n) l.

Lemma list_eqb_eq {A} (eqb : A -> A -> bool) :
  (forall x y, eqb x y = true <-> x = y) -> forall l1 l2, list_eqb eqb l1 l2 = true <-> l1 = l2.
Proof.
  intros H l1. induction l1 as [|x r IH]; intros [|y r2]; cbn; try (split; congruence).
  rewrite andb_true_iff, H, IH. split; [intros [-> ->]; reflexivity|intros E; inversion E; auto].
Qed.
