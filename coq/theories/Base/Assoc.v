(* Association lists keyed by N, with the few lemmas the Sup proofs need. *)
From Coq Require Import List NArith Bool Lia.
Import ListNotations.

Section Assoc.
Context {V : Type}.
Definition amap := list (N * V).

Fixpoint get (k : N) (m : amap) : option V :=
  match m with
  | [] => None
  | (k', v) :: r => if N.eqb k' k then Some v else get k r
  end.

Fixpoint set (k : N) (v : V) (m : amap) : amap :=
  match m with
  | [] => [(k, v)]
  | (k', v') :: r => if N.eqb k' k then (k, v) :: r else (k', v') :: set k v r
  end.

Fixpoint del (k : N) (m : amap) : amap :=
  match m with
  | [] => []
  | (k', v') :: r => if N.eqb k' k then del k r else (k', v') :: del k r
  end.

Definition has (k : N) (m : amap) : bool := match get k m with Some _ => true | None => false end.
Definition keys (m : amap) : list N := map fst m.
Definition vals (m : amap) : list V := map snd m.

Lemma get_set_same k v m : get k (set k v m) = Some v.
Proof.
  induction m as [|[k' v'] r IH]; cbn.
  - now rewrite N.eqb_refl.
  - destruct (N.eqb_spec k' k); cbn.
    + now rewrite N.eqb_refl.
    + destruct (N.eqb_spec k' k); [contradiction|exact IH].
Qed.

Lemma get_set_other k k' v m : k' <> k -> get k (set k' v m) = get k m.
Proof.
  intros Hne. induction m as [|[k2 v2] r IH]; cbn.
  - destruct (N.eqb_spec k' k); [contradiction|reflexivity].
  - destruct (N.eqb_spec k2 k'); cbn.
    + subst. destruct (N.eqb_spec k' k); [contradiction|reflexivity].
    + destruct (N.eqb_spec k2 k); [reflexivity|exact IH].
Qed.

Lemma get_set k k' v m : get k (set k' v m) = if N.eqb k' k then Some v else get k m.
Proof.
  destruct (N.eqb_spec k' k).
  - subst. apply get_set_same.
  - now apply get_set_other.
Qed.

Lemma get_del_same k m : get k (del k m) = None.
Proof.
  induction m as [|[k' v'] r IH]; cbn; [reflexivity|].
  destruct (N.eqb_spec k' k); [exact IH|]. cbn. destruct (N.eqb_spec k' k); [contradiction|exact IH].
Qed.

Lemma get_del_other k k' m : k' <> k -> get k (del k' m) = get k m.
Proof.
  intros Hne. induction m as [|[k2 v2] r IH]; cbn; [reflexivity|].
  destruct (N.eqb_spec k2 k'); cbn.
  - subst. destruct (N.eqb_spec k' k); [contradiction|exact IH].
  - destruct (N.eqb_spec k2 k); [reflexivity|exact IH].
Qed.

Lemma get_del k k' m : get k (del k' m) = if N.eqb k' k then None else get k m.
Proof.
  destruct (N.eqb_spec k' k).
  - subst. apply get_del_same.
  - now apply get_del_other.
Qed.

Lemma get_in k v m : get k m = Some v -> In (k, v) m.
Proof.
  induction m as [|[k' v'] r IH]; cbn; [discriminate|].
  destruct (N.eqb_spec k' k).
  - intros E. inversion E. subst. now left.
  - intros E. right. now apply IH.
Qed.

End Assoc.
Arguments amap : clear implicits.

Definition memN (k : N) (l : list N) : bool := existsb (N.eqb k) l.
Definition removeN (k : N) (l : list N) : list N := filter (fun x => negb (N.eqb x k)) l.

Lemma memN_In k l : memN k l = true <-> In k l.
Proof.
  unfold memN. rewrite existsb_exists. split.
  - intros (x & Hin & E). apply N.eqb_eq in E. now subst.
  - intros H. exists k. now rewrite N.eqb_refl.
Qed.
