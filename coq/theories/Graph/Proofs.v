(* Proofs about the run-plan model (property C07): the depth-first cycle check is sound and complete
   for every iteration order, the post-order traversal yields a topological order of exactly the
   reachable processes, selection = closure.  Fuel: proved sufficient, never assumed. *)
From Coq Require Import List Bool NArith Arith Lia.
From PC.Graph Require Import Model.
Import ListNotations.

(* ---------------------------------------------------------------- basic facts *)
Lemma mem_In x l : mem x l = true <-> In x l.
Proof.
  unfold mem. rewrite existsb_exists. split.
  - intros [y [Hy E]]. apply N.eqb_eq in E. now subst.
  - intros H. exists x. split; auto. apply N.eqb_refl.
Qed.

Lemma mem_nIn x l : mem x l = false <-> ~ In x l.
Proof. rewrite <- mem_In. destruct (mem x l); split; congruence. Qed.

Lemma del_In x y l : In y (del x l) <-> In y l /\ y <> x.
Proof.
  unfold del. rewrite filter_In, negb_true_iff, N.eqb_neq. tauto.
Qed.

Lemma del_notin x l : ~ In x l -> del x l = l.
Proof.
  induction l as [|a r IH]; cbn; auto. intros H.
  destruct (N.eqb_spec a x); cbn.
  - subst. exfalso. apply H. now left.
  - f_equal. apply IH. intros Hx. apply H. now right.
Qed.

Lemma del_cons_same x l : ~ In x l -> del x (x :: l) = l.
Proof. intros H. cbn. rewrite N.eqb_refl. cbn. now apply del_notin. Qed.

Definition ord_ok (ord : oracle) : Prop := forall s A (l : list A) x, In x (ord s A l) <-> In x l.

Lemma id_oracle_ok : ord_ok id_oracle.
Proof. intros s A l x. reflexivity. Qed.
Lemma rev_oracle_ok : ord_ok rev_oracle.
Proof. intros s A l x. unfold rev_oracle. symmetry. apply in_rev. Qed.

(* ---------------------------------------------------------------- counting unvisited names *)
Definition cnt (U v : list N) : nat := length (filter (fun x => negb (mem x v)) U).

Lemma cnt_mono U v v' : incl v v' -> cnt U v' <= cnt U v.
Proof.
  intros Hi. unfold cnt. induction U as [|x r IH]; cbn; auto.
  destruct (mem x v') eqn:E'; destruct (mem x v) eqn:E; cbn; try lia.
  apply mem_In in E. apply Hi in E. apply mem_In in E. congruence.
Qed.

Lemma cnt_lt U v n : In n U -> ~ In n v -> cnt U (n :: v) < cnt U v.
Proof.
  intros Hn Hv. unfold cnt. induction U as [|x r IH]; [contradiction|].
  assert (Hm : length (filter (fun x => negb (mem x (n :: v))) r) <= length (filter (fun x => negb (mem x v)) r)).
  { apply (cnt_mono r v (n :: v)). intros y Hy. now right. }
  cbn [filter]. destruct (N.eqb_spec x n) as [->|Hne].
  - assert (E1 : mem n (n :: v) = true) by (apply mem_In; now left).
    apply mem_nIn in Hv. rewrite E1, Hv. cbn [negb length]. lia.
  - destruct Hn as [->|Hn]; [congruence|]. specialize (IH Hn).
    assert (E : mem x (n :: v) = mem x v).
    { cbn. destruct (N.eqb_spec x n); [congruence|reflexivity]. }
    rewrite E. destruct (mem x v); cbn [negb length]; lia.
Qed.

Lemma cnt_le_length U v : cnt U v <= length U.
Proof. unfold cnt. induction U as [|x r IH]; cbn; auto. destruct (negb (mem x v)); cbn; lia. Qed.

(* ---------------------------------------------------------------- the dependency relation *)
Inductive path (R : N -> N -> Prop) : N -> N -> Prop :=
| path_refl a : path R a a
| path_step a b c : R a b -> path R b c -> path R a c.

(* a path with at least one step *)
Definition tpath (R : N -> N -> Prop) (a c : N) : Prop := exists b, R a b /\ path R b c.

Lemma path_snoc R a b c : path R a b -> R b c -> path R a c.
Proof. induction 1; intros; eauto using path. Qed.

Lemma path_trans R a b c : path R a b -> path R b c -> path R a c.
Proof. induction 1; intros; eauto using path. Qed.

Lemma tpath_snoc R a b c : tpath R a b -> R b c -> tpath R a c.
Proof. intros [x [H1 H2]] H. exists x. split; auto. eapply path_snoc; eauto. Qed.

(* process a lists b under depends_on *)
Definition edge (g : graph) (a b : N) : Prop := exists p, In p g /\ key p = a /\ In b (deps p).
Definition has_cycle (g : graph) : Prop := exists n, tpath (edge g) n n.
Definition dangling (g : graph) : Prop := exists p d, In p g /\ In d (deps p) /\ ~ In d (keys g).
Definition closed (g : graph) : Prop := forall p d, In p g -> In d (deps p) -> In d (keys g).
Definition wf (g : graph) : Prop := NoDup (keys g).
Definition disabled_dep (g : graph) : Prop :=
  exists p d q, In p g /\ In d (deps p) /\ In q g /\ key q = d /\ dis q = true /\ dis p = false.

Lemma find_key_In g k p : find_key g k = Some p -> In p g /\ key p = k.
Proof.
  unfold find_key. intros H. apply find_some in H. destruct H as [H1 H2].
  apply N.eqb_eq in H2. auto.
Qed.

Lemma find_key_some g k : In k (keys g) -> exists p, find_key g k = Some p.
Proof.
  unfold keys, find_key. induction g as [|q r IH]; cbn; [contradiction|].
  intros [E|H].
  - exists q. rewrite E, N.eqb_refl. reflexivity.
  - destruct (N.eqb (key q) k); eauto.
Qed.

Lemma find_key_none g k : find_key g k = None -> ~ In k (keys g).
Proof.
  intros H Hk. apply find_key_some in Hk. destruct Hk as [p Hp]. congruence.
Qed.

Lemma wf_unique g p q : wf g -> In p g -> In q g -> key p = key q -> p = q.
Proof.
  unfold wf, keys. induction g as [|a r IH]; cbn; [contradiction|].
  intros Hnd Hp Hq E. inversion Hnd as [|? ? Hna Hr]; subst.
  destruct Hp as [->|Hp], Hq as [->|Hq]; auto.
  - exfalso. apply Hna. rewrite E. now apply in_map.
  - exfalso. apply Hna. rewrite <- E. now apply in_map.
Qed.

Lemma find_key_wf g p : wf g -> In p g -> find_key g (key p) = Some p.
Proof.
  intros Hwf Hp. destruct (find_key_some g (key p)) as [q Hq]; [now apply in_map|].
  rewrite Hq. f_equal. apply find_key_In in Hq. destruct Hq. eapply wf_unique; eauto.
Qed.

Lemma has_undefined_iff g : has_undefined g = true <-> dangling g.
Proof.
  unfold has_undefined, dangling. rewrite existsb_exists. split.
  - intros [p [Hp H]]. apply existsb_exists in H. destruct H as [d [Hd H]].
    exists p, d. repeat split; auto. apply negb_true_iff in H. now apply mem_nIn in H.
  - intros [p [d [Hp [Hd H]]]]. exists p. split; auto. apply existsb_exists. exists d. split; auto.
    apply negb_true_iff. now apply mem_nIn.
Qed.

Lemma not_dangling_closed g : ~ dangling g -> closed g.
Proof.
  intros H p d Hp Hd. destruct (mem d (keys g)) eqn:E; [now apply mem_In|].
  exfalso. apply H. exists p, d. repeat split; auto. now apply mem_nIn.
Qed.

Lemma has_disabled_dep_iff g : wf g -> (has_disabled_dep g = true <-> disabled_dep g).
Proof.
  intros Hwf. unfold has_disabled_dep, disabled_dep. rewrite existsb_exists. split.
  - intros [p [Hp H]]. apply existsb_exists in H. destruct H as [d [Hd H]].
    unfold dep_disabled in H. destruct (find_key g d) as [q|] eqn:E; [|discriminate].
    apply find_key_In in E. destruct E as [Hq Hk]. apply andb_true_iff in H. destruct H as [H1 H2].
    apply negb_true_iff in H2. exists p, d, q. auto 10.
  - intros [p [d [q [Hp [Hd [Hq [Hk [H1 H2]]]]]]]]. exists p. split; auto. apply existsb_exists.
    exists d. split; auto. unfold dep_disabled. subst d. rewrite (find_key_wf g q Hwf Hq).
    rewrite H1, H2. reflexivity.
Qed.

(* ================================================================ the cycle check *)
Section Cycle.
Context (ord : oracle) (g : graph) (Hord : ord_ok ord).

Notation U := (universe g).
Notation E := (edge g).

Lemma resolve1_incl c n ps : resolve1 ord g c n = Some ps -> incl ps g.
Proof.
  unfold resolve1. destruct (find_key g n) eqn:Ek.
  - intros H; inversion H; subst. intros q [<-|[]]. apply find_key_In in Ek. tauto.
  - destruct (ord (SProcs c n) proc (by_name g n)) eqn:E2; [discriminate|].
    intros H; inversion H; subst. intros q Hq. rewrite <- E2 in Hq. apply Hord in Hq.
    unfold by_name in Hq. apply filter_In in Hq. tauto.
Qed.

Lemma nbrs_In n ps m : In m (nbrs ord n ps) <-> exists q, In q ps /\ In m (deps q).
Proof.
  unfold nbrs. rewrite in_flat_map. split; intros [q [H1 H2]]; exists q; split; auto.
  - now apply Hord in H2.
  - now apply Hord.
Qed.

Lemma deps_in_U q m : In q g -> In m (deps q) -> In m U.
Proof.
  intros Hq Hm. unfold universe. apply in_or_app. right. apply in_flat_map. eauto.
Qed.

(* ---- enough fuel: no assumption on the graph ---- *)
Definition cyc_term_P (f : nat) : Prop := forall n v s, In n U -> ~ In n v -> cnt U v <= f ->
  exists b st', cyc_helper ord g f n (v, s) = Some (b, st') /\ incl (n :: v) (fst st').

Lemma cyc_loop_term f (IH : cyc_term_P f) : forall l v s, incl l U -> cnt U v <= f ->
  exists b st', cyc_loop (cyc_helper ord g f) l (v, s) = Some (b, st') /\ incl v (fst st').
Proof.
  induction l as [|m r IHl]; intros v s Hl Hc.
  - exists false, (v, s). split; [reflexivity|apply incl_refl].
  - cbn [cyc_loop fst snd]. destruct (mem m v) eqn:Em; cbn [negb].
    + destruct (mem m s).
      * exists true, (v, s). split; [reflexivity|apply incl_refl].
      * apply IHl; auto. intros x Hx. apply Hl. now right.
    + apply mem_nIn in Em. destruct (IH m v s) as [b [st1 [Eh Hi]]]; auto.
      { apply Hl. now left. }
      rewrite Eh. destruct b.
      * exists true, st1. split; auto. intros x Hx. apply Hi. now right.
      * destruct st1 as [v1 s1]. cbn [fst] in Hi.
        assert (Hvv : incl v v1) by (intros x Hx; apply Hi; now right).
        destruct (IHl v1 s1) as [b2 [st2 [El Hi2]]].
        { intros x Hx. apply Hl. now right. }
        { pose proof (cnt_mono U v v1 Hvv). lia. }
        exists b2, st2. split; auto. eapply incl_tran; eauto.
Qed.

Lemma cyc_term : forall f, cyc_term_P f.
Proof.
  induction f as [|f IHf]; intros n v s Hn Hv Hc.
  - pose proof (cnt_lt U v n Hn Hv). lia.
  - cbn [cyc_helper fst snd]. destruct (resolve1 ord g n n) as [ps|] eqn:Er.
    + destruct (cyc_loop_term f IHf (nbrs ord n ps) (n :: v) (n :: s)) as [b [st1 [El Hi]]].
      { intros m Hm. apply nbrs_In in Hm. destruct Hm as [q [Hq Hm]].
        apply (resolve1_incl _ _ _ Er) in Hq. eapply deps_in_U; eauto. }
      { pose proof (cnt_lt U v n Hn Hv). lia. }
      rewrite El. destruct b.
      * exists true, st1. auto.
      * exists false, (fst st1, del n (snd st1)). auto.
    + exists false, (n :: v, n :: s). split; auto. apply incl_refl.
Qed.

Lemma cyc_roots_term fuel : forall l st, incl l U -> cnt U (fst st) <= fuel ->
  exists b, cyc_roots ord g fuel l st = Some b.
Proof.
  induction l as [|n r IHl]; intros [v s] Hl Hc; cbn [cyc_roots fst].
  - eauto.
  - cbn [fst] in Hc. destruct (mem n v) eqn:Em.
    + apply IHl; auto. intros x Hx. apply Hl. now right.
    + apply mem_nIn in Em. destruct (cyc_term fuel n v s) as [b [st1 [Eh Hi]]]; auto.
      { apply Hl. now left. }
      rewrite Eh. destruct b; eauto. apply IHl.
      * intros x Hx. apply Hl. now right.
      * assert (Hvv : incl v (fst st1)) by (intros x Hx; apply Hi; now right).
        pose proof (cnt_mono U v (fst st1) Hvv). lia.
Qed.

Lemma is_cyclic_term : exists b, is_cyclic ord g (cyc_fuel g) = Some b.
Proof.
  unfold is_cyclic. apply cyc_roots_term.
  - intros x Hx. apply Hord in Hx. unfold universe. apply in_or_app. now left.
  - cbn [fst]. pose proof (cnt_le_length U []). unfold cyc_fuel. lia.
Qed.

(* ---- soundness and completeness on graphs whose dependencies are all map keys ---- *)
Context (Hwf : wf g) (Hcl : closed g).

Definition black (v s : list N) (m : N) : Prop := In m v /\ ~ In m s.
(* finished names: their successors are finished and they lie on no cycle *)
Definition Inv (v s : list N) : Prop :=
  forall m, black v s m -> (forall m', E m m' -> black v s m') /\ ~ tpath E m m.

Lemma black_path v s m x : Inv v s -> black v s m -> path E m x -> black v s x.
Proof.
  intros HI Hb Hp. induction Hp; auto. apply IHHp. apply (HI a Hb). assumption.
Qed.

Lemma edge_key n m : E n m -> In m (keys g).
Proof. intros [p [Hp [_ Hm]]]. eapply Hcl; eauto. Qed.

Definition cyc_spec_P (f : nat) : Prop := forall n v s b st',
  cyc_helper ord g f n (v, s) = Some (b, st') ->
  In n (keys g) -> ~ In n v -> incl s v -> (forall m, In m s -> path E m n) -> Inv v s ->
  (b = true -> has_cycle g) /\
  (b = false -> snd st' = s /\ incl v (fst st') /\ In n (fst st') /\ Inv (fst st') s).

Lemma cyc_loop_spec f (IH : cyc_spec_P f) : forall l n v s b st',
  cyc_loop (cyc_helper ord g f) l (v, s) = Some (b, st') ->
  (forall m, In m l -> E n m) -> In n s -> incl s v -> (forall m, In m s -> path E m n) -> Inv v s ->
  (b = true -> has_cycle g) /\
  (b = false -> snd st' = s /\ incl v (fst st') /\ Inv (fst st') s /\
                forall m, In m l -> black (fst st') s m).
Proof.
  induction l as [|m r IHl]; intros n v s b st' H Hl Hns Hsv Hst HI.
  - cbn in H. inversion H; subst. split; [discriminate|]. intros _. cbn.
    split; [reflexivity|]. split; [apply incl_refl|]. split; [assumption|]. intros m [].
  - cbn [cyc_loop fst snd] in H. destruct (mem m v) eqn:Em; cbn [negb] in H.
    + destruct (mem m s) eqn:Es.
      * inversion H; subst. split; [|discriminate]. intros _. exists n. exists m. split.
        { apply Hl. now left. } { apply Hst. now apply mem_In. }
      * destruct (IHl n v s b st' H) as [Ht Hf]; auto.
        { intros x Hx. apply Hl. now right. }
        split; auto. intros Hb. destruct (Hf Hb) as [H1 [H2 [H3 H4]]].
        split; [exact H1|]. split; [exact H2|]. split; [exact H3|].
        intros x [<-|Hx]; auto. split.
        { apply H2. now apply mem_In. } { now apply mem_nIn. }
    + apply mem_nIn in Em.
      destruct (cyc_helper ord g f m (v, s)) as [[b1 st1]|] eqn:Eh; [|discriminate].
      assert (Hnm : E n m) by (apply Hl; now left).
      destruct (IH m v s b1 st1 Eh) as [Ht Hf]; auto.
      { eapply edge_key; eauto. }
      { intros x Hx. eapply path_snoc; eauto. }
      destruct b1.
      * inversion H; subst. split; auto. discriminate.
      * destruct (Hf eq_refl) as [H1 [H2 [H3 H4]]]. destruct st1 as [v1 s1]. cbn [fst snd] in *. subst s1.
        destruct (IHl n v1 s b st' H) as [Ht2 Hf2]; auto.
        { intros x Hx. apply Hl. now right. }
        { eapply incl_tran; eauto. }
        split; auto. intros Hb. destruct (Hf2 Hb) as [G1 [G2 [G3 G4]]].
        split; [exact G1|]. split; [eapply incl_tran; eauto|]. split; [exact G3|].
        intros x [<-|Hx]; [|now apply G4]. split; [now apply G2|].
        intros Hms. apply Em. now apply Hsv.
Qed.

Lemma cyc_spec : forall f, cyc_spec_P f.
Proof.
  induction f as [|f IHf]; intros n v s b st' H Hn Hnv Hsv Hst HI; [discriminate|].
  cbn [cyc_helper fst snd] in H.
  destruct (find_key_some g n Hn) as [p Ep]. unfold resolve1 in H. rewrite Ep in H.
  destruct (find_key_In _ _ _ Ep) as [Hpg Hpk].
  destruct (cyc_loop (cyc_helper ord g f) (nbrs ord n [p]) (n :: v, n :: s)) as [[b1 st1]|] eqn:El; [|discriminate].
  assert (Hns : ~ In n s) by (intros Hx; apply Hnv; now apply Hsv).
  destruct (cyc_loop_spec f IHf _ n _ _ _ _ El) as [Ht Hf].
  { intros m Hm. apply nbrs_In in Hm. destruct Hm as [q [[<-|[]] Hm]]. exists p. auto. }
  { now left. }
  { intros x [<-|Hx]; [now left|right; now apply Hsv]. }
  { intros x [<-|Hx]; [constructor|now apply Hst]. }
  { intros m [Hm1 Hm2]. assert (Hmn : m <> n) by (intros ->; apply Hm2; now left).
    assert (Hb : black v s m).
    { split. { destruct Hm1; congruence. } { intros Hx. apply Hm2. now right. } }
    destruct (HI m Hb) as [Hs Hc]. split; auto. intros m' He. destruct (Hs m' He) as [B1 B2]. split.
    { now right. } { intros [<-|Hx]; auto. } }
  destruct b1.
  - injection H as <- <-. split; auto. discriminate.
  - injection H as <- <-. split; [discriminate|]. intros _.
    destruct (Hf eq_refl) as [H1 [H2 [H3 H4]]]. cbn [fst snd]. rewrite H1.
    split; [now apply del_cons_same|]. split; [intros x Hx; apply H2; now right|].
    split; [apply H2; now left|].
    intros m [Hm1 Hm2]. destruct (N.eq_dec m n) as [->|Hmn].
    + split.
      * intros m' [q [Hq [Hqk Hm']]]. assert (q = p) by (eapply wf_unique; eauto; congruence). subst q.
        assert (Hb : black (fst st1) (n :: s) m').
        { apply H4. apply nbrs_In. exists p. split; auto. now left. }
        destruct Hb as [B1 B2]. split; auto. intros Hx. apply B2. now right.
      * intros [m' [He Hp]]. destruct He as [q [Hq [Hqk Hm']]].
        assert (q = p) by (eapply wf_unique; eauto; congruence). subst q.
        assert (Hb : black (fst st1) (n :: s) m').
        { apply H4. apply nbrs_In. exists p. split; auto. now left. }
        pose proof (black_path _ _ _ _ H3 Hb Hp) as [_ B]. apply B. now left.
    + assert (Hb : black (fst st1) (n :: s) m).
      { split; auto. intros [Hx|Hx]; auto. }
      destruct (H3 m Hb) as [Hs Hc]. split; auto. intros m' He. destruct (Hs m' He) as [B1 B2].
      split; auto. intros Hx. apply B2. now right.
Qed.

Lemma cyc_roots_spec fuel : forall l v b, cyc_roots ord g fuel l (v, []) = Some b ->
  incl l (keys g) -> Inv v [] ->
  (b = true -> has_cycle g) /\
  (b = false -> exists v', incl v v' /\ Inv v' [] /\ forall n, In n l -> In n v').
Proof.
  induction l as [|n r IHl]; intros v b H Hl HI.
  - cbn in H. inversion H; subst. split; [discriminate|]. intros _. exists v.
    split; [apply incl_refl|]. split; [assumption|]. intros n [].
  - cbn [cyc_roots fst] in H. destruct (mem n v) eqn:Em.
    + destruct (IHl v b H) as [Ht Hf]; auto. { intros x Hx. apply Hl. now right. }
      split; auto. intros Hb. destruct (Hf Hb) as [v' [H1 [H2 H3]]]. exists v'.
      split; [exact H1|]. split; [exact H2|]. intros x [<-|Hx]; auto. apply H1. now apply mem_In.
    + apply mem_nIn in Em.
      destruct (cyc_helper ord g fuel n (v, [])) as [[b1 st1]|] eqn:Eh; [|discriminate].
      destruct (cyc_spec fuel n v [] b1 st1 Eh) as [Ht Hf]; auto.
      { apply Hl. now left. } { intros x []. } { intros x []. }
      destruct b1.
      * inversion H; subst. split; auto. discriminate.
      * destruct (Hf eq_refl) as [H1 [H2 [H3 H4]]]. destruct st1 as [v1 s1]. cbn [fst snd] in *. subst s1.
        destruct (IHl v1 b H) as [Ht2 Hf2]; auto. { intros x Hx. apply Hl. now right. }
        split; auto. intros Hb. destruct (Hf2 Hb) as [v' [G1 [G2 G3]]]. exists v'.
        split; [eapply incl_tran; eauto|]. split; auto.
        intros x [<-|Hx]; auto.
Qed.

Lemma is_cyclic_closed fuel b : is_cyclic ord g fuel = Some b -> (b = true <-> has_cycle g).
Proof.
  unfold is_cyclic. intros H.
  destruct (cyc_roots_spec fuel _ [] b H) as [Ht Hf].
  { intros x Hx. now apply Hord in Hx. }
  { intros m [[] _]. }
  split; auto. intros [n Hc]. destruct b; auto. exfalso.
  destruct (Hf eq_refl) as [v' [_ [HI Hall]]].
  assert (Hk : In n (keys g)).
  { destruct Hc as [m [[p [Hp [Hk _]]] _]]. subst n. now apply in_map. }
  assert (Hb : black v' [] n). { split; [|intros []]. apply Hall. now apply Hord. }
  apply (HI n Hb). assumption.
Qed.

End Cycle.

(* ================================================================ validation as a whole *)
Theorem validate_iff ord g strict : ord_ok ord -> wf g ->
  exists v, validate ord g (cyc_fuel g) strict = Some v /\
    (v <> VOk <-> has_cycle g \/ dangling g \/ (strict = true /\ disabled_dep g)).
Proof.
  intros Hord Hwf. destruct (is_cyclic_term ord g Hord) as [b Hb]. unfold validate. rewrite Hb.
  destruct (has_undefined g) eqn:Eu.
  - apply has_undefined_iff in Eu.
    destruct b; eexists; (split; [reflexivity|]); (split; [intros _; auto|discriminate]).
  - assert (Hnd : ~ dangling g). { rewrite <- has_undefined_iff. congruence. }
    pose proof (is_cyclic_closed ord g Hord Hwf (not_dangling_closed g Hnd) _ b Hb) as Hc.
    destruct b.
    + exists VCycle. split; auto. split; [intros _; left; now apply Hc|discriminate].
    + assert (Hnc : ~ has_cycle g) by (intros X; apply Hc in X; discriminate).
      destruct strict; cbn [andb].
      * destruct (has_disabled_dep g) eqn:Ed.
        -- exists VDisabledDep. split; auto. split; [|discriminate]. intros _. right; right.
           split; auto. now apply has_disabled_dep_iff.
        -- exists VOk. split; auto. split; [congruence|]. intros [X|[X|[_ X]]]; try contradiction.
           apply has_disabled_dep_iff in X; auto. congruence.
      * exists VOk. split; auto. split; [congruence|].
        intros [X|[X|[X _]]]; try contradiction; discriminate.
Qed.

(* ================================================================ the post-order traversal *)
Fixpoint ordered (seen : list N) (acc : list proc) : Prop :=
  match acc with
  | [] => True
  | p :: r => (forall dn, In dn (deps p) -> In dn seen) /\ ordered (key p :: seen) r
  end.

Lemma ordered_snoc s a p : ordered s a -> (forall dn, In dn (deps p) -> In dn s \/ In dn (keys a)) ->
  ordered s (a ++ [p]).
Proof.
  revert s. induction a as [|q r IH]; intros s H Hp; cbn.
  - split; auto. intros dn Hd. destruct (Hp dn Hd) as [X|[]]; auto.
  - destruct H as [H1 H2]. split; auto. apply IH; auto.
    intros dn Hd. destruct (Hp dn Hd) as [X|[X|X]]; [left; now right|left; now left|now right].
Qed.

Lemma ordered_split s l1 p l2 : ordered s (l1 ++ p :: l2) ->
  forall dn, In dn (deps p) -> In dn s \/ In dn (keys l1).
Proof.
  revert s. induction l1 as [|q r IH]; intros s H dn Hd; cbn in H.
  - left. now apply H.
  - destruct H as [_ H]. destruct (IH _ H dn Hd) as [[X|X]|X]; [right; now left|now left|right; now right].
Qed.

Lemma NoDup_snoc (l : list N) x : NoDup l -> ~ In x l -> NoDup (l ++ [x]).
Proof.
  induction l as [|a r IH]; intros H Hx; cbn.
  - constructor; [intros []|constructor].
  - inversion H; subst. constructor.
    + intros Hi. apply in_app_or in Hi. destruct Hi as [Hi|[Hi|[]]]; auto. apply Hx. now left.
    + apply IH; auto. intros Hi. apply Hx. now right.
Qed.

Lemma keys_app a b : keys (a ++ b) = keys a ++ keys b.
Proof. apply map_app. Qed.

Section Order.
Context (ord : oracle) (g : graph) (Hord : ord_ok ord).
Notation K := (keys g).
Notation E := (edge g).

Lemma get_procs_incl c names ps : get_procs ord g c names = Some ps -> incl ps g.
Proof.
  revert ps. induction names as [|n r IH]; cbn; intros ps H.
  - inversion H. intros x [].
  - destruct (resolve1 ord g c n) eqn:E1; [|discriminate].
    destruct (get_procs ord g c r) eqn:E2; [|discriminate]. inversion H; subst.
    apply incl_app; [eapply resolve1_incl; eauto|auto].
Qed.

(* ---- enough fuel, and everything handed to fn is a process of the project: any graph ---- *)
Definition wp_term_P (f : nat) : Prop := forall c names d acc, cnt K d < f -> incl acc g ->
  exists e st', wp ord g f c names (d, acc) = Some (e, st') /\ incl d (fst st') /\ incl (snd st') g.

Lemma wp_loop_term f (IH : wp_term_P f) : forall ps d acc err, incl ps g -> cnt K d <= f -> incl acc g ->
  exists e st', wp_loop ord (wp ord g f) ps (d, acc) err = Some (e, st') /\ incl d (fst st') /\ incl (snd st') g.
Proof.
  induction ps as [|p r IHl]; intros d acc err Hps Hc Ha.
  - exists err, (d, acc). cbn. auto using incl_refl.
  - cbn [wp_loop fst snd]. assert (Hr : incl r g) by (intros x Hx; apply Hps; now right).
    assert (Hp : In p g) by (apply Hps; now left).
    destruct (mem (key p) d) eqn:Em; [apply IHl; auto|]. apply mem_nIn in Em.
    assert (Hlt : cnt K (key p :: d) < cnt K d) by (apply cnt_lt; auto; now apply in_map).
    destruct (deps p) eqn:Ed.
    + destruct (IHl (key p :: d) (acc ++ [p]) err) as [e [st' [H1 [H2 H3]]]]; auto; try lia.
      { apply incl_app; auto. intros x [<-|[]]; auto. }
      exists e, st'. repeat split; auto. intros x Hx. apply H2. now right.
    + rewrite <- Ed.
      destruct (IH (key p) (ord (SDeps (key p) (key p)) N (deps p)) (key p :: d) acc) as [e1 [[d1 a1] [H1 [H2 H3]]]]; auto; try lia.
      rewrite H1. cbn [fst snd] in *.
      assert (Hd1 : cnt K d1 <= f) by (pose proof (cnt_mono K _ _ H2); lia).
      assert (Hdd : incl d d1) by (intros x Hx; apply H2; now right).
      destruct e1.
      * destruct (IHl d1 a1 true) as [e [st' [G1 [G2 G3]]]]; auto.
        exists e, st'. repeat split; auto. eapply incl_tran; eauto.
      * destruct (IHl d1 (a1 ++ [p]) err) as [e [st' [G1 [G2 G3]]]]; auto.
        { apply incl_app; auto. intros x [<-|[]]; auto. }
        exists e, st'. repeat split; auto. eapply incl_tran; eauto.
Qed.

Lemma wp_term : forall f, wp_term_P f.
Proof.
  induction f as [|f IHf]; intros c names d acc Hc Ha; [lia|].
  cbn [wp]. destruct (get_procs ord g c names) as [ps|] eqn:Eg.
  - apply wp_loop_term; auto; try lia. eapply get_procs_incl; eauto.
  - exists true, (d, acc). cbn. auto using incl_refl.
Qed.

Lemma keys_length : length K = length g.
Proof. apply map_length. Qed.

Lemma post_order_term roots : exists e post, post_order ord g (wp_fuel g) roots = Some (e, post) /\ incl post g.
Proof.
  unfold post_order, wp_fuel. destruct roots as [|r0 rr].
  - destruct (wp_loop_term _ (wp_term (length g)) (ord SRoots proc g) [] [] false) as [e [st' [H1 [H2 H3]]]].
    + intros x Hx. now apply Hord in Hx.
    + pose proof (cnt_le_length K []). rewrite keys_length in H. lia.
    + intros x [].
    + rewrite H1. exists e, (snd st'). cbn. auto.
  - destruct (wp_term (S (length g)) 0%N (r0 :: rr) [] []) as [e [st' [H1 [H2 H3]]]].
    + pose proof (cnt_le_length K []). rewrite keys_length in H. lia.
    + intros x [].
    + rewrite H1. exists e, (snd st'). cbn. auto.
Qed.

(* ---- the order itself: closed, acyclic graphs ---- *)
Context (Hwf : wf g) (Hcl : closed g) (Hac : ~ has_cycle g).

Section WithR.
Context (R : N -> Prop) (HR : forall a b, R a -> E a b -> R b).

Definition W (d : list N) (acc : list proc) : Prop :=
  incl (keys acc) d /\ NoDup (keys acc) /\ ordered [] acc /\ incl acc g /\ (forall p, In p acc -> R (key p)).
Definition grey (d : list N) (acc : list proc) (x : N) : Prop := In x d /\ ~ In x (keys acc).

Definition wp_post (d : list N) (acc : list proc) (st' : wstate) : Prop :=
  W (fst st') (snd st') /\ incl d (fst st') /\ (exists new, snd st' = acc ++ new) /\
  (forall x, grey (fst st') (snd st') x <-> grey d acc x).

Definition wp_spec_P (f : nat) : Prop := forall c names d acc e st',
  wp ord g f c names (d, acc) = Some (e, st') ->
  incl names K -> W d acc -> (forall dn, In dn names -> R dn) ->
  (forall x, grey d acc x -> forall dn, In dn names -> tpath E x dn) ->
  e = false /\ wp_post d acc st' /\ (forall dn, In dn names -> In dn (keys (snd st'))).

Lemma W_emit d acc p : W d acc -> In p g -> R (key p) -> In (key p) d -> ~ In (key p) (keys acc) ->
  (forall dn, In dn (deps p) -> In dn (keys acc)) -> W d (acc ++ [p]).
Proof.
  intros [W1 [W2 [W3 [W4 W5]]]] Hp HRp Hd Hn Hdeps. unfold W. rewrite keys_app. cbn [keys map].
  split; [|split; [|split; [|split]]].
  - apply incl_app; auto. intros x [<-|[]]; auto.
  - now apply NoDup_snoc.
  - apply ordered_snoc; auto.
  - apply incl_app; auto. intros x [<-|[]]; auto.
  - intros q Hq. apply in_app_or in Hq. destruct Hq as [Hq|[<-|[]]]; auto.
Qed.

Lemma W_weaken d d' acc : W d acc -> incl d d' -> W d' acc.
Proof.
  intros [W1 [W2 [W3 [W4 W5]]]] Hi. unfold W. split; [eapply incl_tran; eauto|auto].
Qed.

Lemma wp_loop_spec f (IH : wp_spec_P f) : forall ps d acc err e st',
  wp_loop ord (wp ord g f) ps (d, acc) err = Some (e, st') ->
  incl ps g -> W d acc -> (forall p, In p ps -> R (key p)) ->
  (forall x, grey d acc x -> forall p, In p ps -> tpath E x (key p)) ->
  e = err /\ wp_post d acc st' /\ (forall p, In p ps -> In (key p) (keys (snd st'))).
Proof.
  induction ps as [|p r IHl]; intros d acc err e st' H Hps HW HRps Hg.
  - cbn in H. inversion H; subst. split; auto. split; [|intros p []].
    unfold wp_post. cbn. split; auto. split; [apply incl_refl|]. split; [exists []; now rewrite app_nil_r|tauto].
  - cbn [wp_loop fst snd] in H.
    assert (Hr : incl r g) by (intros x Hx; apply Hps; now right).
    assert (Hp : In p g) by (apply Hps; now left).
    assert (HRr : forall q, In q r -> R (key q)) by (intros q Hq; apply HRps; now right).
    assert (HRp : R (key p)) by (apply HRps; now left).
    pose proof HW as HW0. destruct HW as [W1 [W2 [W3 [W4 W5]]]].
    assert (Hdd : incl d (key p :: d)) by (intros x Hx; now right).
    destruct (mem (key p) d) eqn:Em.
    + (* already done: it must already have been emitted, else a cycle *)
      apply mem_In in Em.
      destruct (IHl d acc err e st' H) as [He [Hpost Hall]]; auto.
      { intros x Hx q Hq. apply Hg; auto. now right. }
      split; auto. split; auto. intros q [<-|Hq]; auto.
      destruct Hpost as [_ [_ [[new Hn] _]]]. rewrite Hn, keys_app. apply in_or_app. left.
      destruct (mem (key p) (keys acc)) eqn:Ea; [now apply mem_In|]. apply mem_nIn in Ea.
      exfalso. apply Hac. exists (key p). apply Hg; [split; auto|now left].
    + apply mem_nIn in Em.
      assert (Hna : ~ In (key p) (keys acc)) by (intros Hx; apply Em; now apply W1).
      destruct (deps p) eqn:Ed.
      * assert (HW1 : W (key p :: d) (acc ++ [p])).
        { apply W_emit; [eapply W_weaken; eauto|exact Hp|exact HRp|now left|exact Hna|].
          rewrite Ed. intros dn []. }
        assert (Hgeq : forall x, grey (key p :: d) (acc ++ [p]) x <-> grey d acc x).
        { intros x. unfold grey. rewrite keys_app. cbn [keys map]. split.
          - intros [[<-|Hx] Hn]; [exfalso; apply Hn; apply in_or_app; right; now left|].
            split; auto. intros Hy. apply Hn. apply in_or_app. now left.
          - intros [Hx Hn]. split; [now right|]. intros Hy. apply in_app_or in Hy.
            destruct Hy as [Hy|[<-|[]]]; auto. }
        destruct (IHl _ _ err e st' H) as [He [Hpost Hall]]; auto.
        { intros x Hx q Hq. apply Hg; [now apply Hgeq|now right]. }
        destruct Hpost as [P1 [P2 [[new P3] P4]]].
        split; auto. split.
        { split; auto. split; [intros x Hx; apply P2; now right|].
          split; [exists ([p] ++ new); now rewrite P3, app_assoc|].
          intros x. rewrite P4. apply Hgeq. }
        intros q [<-|Hq]; auto. rewrite P3, !keys_app. apply in_or_app. left. apply in_or_app. right. now left.
      * rewrite <- Ed in H.
        set (names := ord (SDeps (key p) (key p)) N (deps p)) in *.
        destruct (wp ord g f (key p) names (key p :: d, acc)) as [[e1 [d1 a1]]|] eqn:Ew; [|discriminate].
        assert (Hnames : forall dn, In dn names <-> In dn (deps p)) by (intros dn; apply Hord).
        assert (Hedge : forall dn, In dn names -> E (key p) dn).
        { intros dn Hdn. exists p. repeat split; auto. now apply Hnames. }
        destruct (IH (key p) names (key p :: d) acc e1 (d1, a1) Ew) as [He1 [Hpost1 Hall1]].
        { intros dn Hdn. apply Hnames in Hdn. eapply Hcl; eauto. }
        { eapply W_weaken; eauto. }
        { intros dn Hdn. eapply HR; [exact HRp|apply Hedge; auto]. }
        { intros x [[<-|Hx] Hn] dn Hdn.
          - exists dn. split; [now apply Hedge|constructor].
          - eapply tpath_snoc; [|apply Hedge; auto]. apply Hg; [split; auto|now left]. }
        subst e1. destruct Hpost1 as [Q1 [Q2 [[new1 Q3] Q4]]]. cbn [fst snd] in *.
        assert (Hpg : grey d1 a1 (key p)). { apply Q4. split; [now left|auto]. }
        assert (HW1 : W d1 (a1 ++ [p])).
        { apply W_emit; [exact Q1|exact Hp|exact HRp|apply Q2; now left|apply Hpg|].
          intros dn Hdn. apply Hall1. now apply Hnames. }
        assert (Hgeq : forall x, grey d1 (a1 ++ [p]) x <-> grey d acc x).
        { intros x. unfold grey. rewrite keys_app. cbn [keys map]. split.
          - intros [Hx Hn].
            assert (Hx1 : grey d1 a1 x) by (split; auto; intros Hy; apply Hn; apply in_or_app; now left).
            apply Q4 in Hx1. destruct Hx1 as [[<-|Hx1] Hn1]; [exfalso; apply Hn; apply in_or_app; right; now left|].
            split; auto.
          - intros [Hx Hn]. assert (Hx1 : grey d1 a1 x) by (apply Q4; split; [now right|auto]).
            destruct Hx1 as [X1 X2]. split; auto. intros Hy. apply in_app_or in Hy.
            destruct Hy as [Hy|[<-|[]]]; auto. }
        destruct (IHl _ _ err e st' H) as [He [Hpost Hall]]; auto.
        { intros x Hx q Hq. apply Hg; [now apply Hgeq|now right]. }
        destruct Hpost as [P1 [P2 [[new P3] P4]]].
        split; auto. split.
        { split; auto. split; [intros x Hx; apply P2; apply Q2; now right|].
          split; [exists (new1 ++ [p] ++ new); now rewrite P3, Q3, <- !app_assoc|].
          intros x. rewrite P4. apply Hgeq. }
        intros q [<-|Hq]; auto. rewrite P3, !keys_app. apply in_or_app. left. apply in_or_app. right. now left.
Qed.

Lemma get_procs_keys c names : incl names K ->
  exists ps, get_procs ord g c names = Some ps /\ incl ps g /\
             (forall q, In q ps -> In (key q) names) /\ (forall dn, In dn names -> exists q, In q ps /\ key q = dn).
Proof.
  induction names as [|n r IH]; intros Hn.
  - exists []. cbn. split; [reflexivity|]. split; [intros x []|]. split; intros x [].
  - destruct IH as [ps [H1 [H2 [H3 H4]]]]. { intros x Hx. apply Hn. now right. }
    destruct (find_key_some g n) as [p Hp]. { apply Hn. now left. }
    destruct (find_key_In _ _ _ Hp) as [Hpg Hpk].
    exists ([p] ++ ps). cbn [get_procs]. unfold resolve1. rewrite Hp, H1. split; auto.
    split. { apply incl_app; auto. intros x [<-|[]]; auto. }
    split.
    + intros q [<-|Hq]; [left; auto|right; auto].
    + intros dn [<-|Hd]; [exists p; split; auto; now left|].
      destruct (H4 dn Hd) as [q [Hq1 Hq2]]. exists q. split; auto. now right.
Qed.

Lemma wp_spec : forall f, wp_spec_P f.
Proof.
  induction f as [|f IHf]; intros c names d acc e st' H Hn HW HRn Hg; [discriminate|].
  cbn [wp] in H. destruct (get_procs_keys c names Hn) as [ps [G1 [G2 [G3 G4]]]]. rewrite G1 in H.
  destruct (wp_loop_spec f IHf ps d acc false e st' H G2 HW) as [He [Hpost Hall]].
  { intros q Hq. apply HRn. now apply G3. }
  { intros x Hx q Hq. apply Hg; auto. }
  split; auto. split; auto. intros dn Hdn. destruct (G4 dn Hdn) as [q [Hq <-]]. auto.
Qed.

End WithR.
End Order.

(* ================================================================ top-level statements *)
Definition precedes (o : list N) (a b : N) : Prop := exists l1 l2, o = l1 ++ b :: l2 /\ In a l1.

Lemma NoDup_map_filter (f : proc -> bool) l : NoDup (keys l) -> NoDup (keys (filter f l)).
Proof.
  induction l as [|a r IH]; cbn; intros H; [constructor|]. inversion H; subst.
  destruct (f a); cbn; auto. constructor; auto. intros Hi. apply H2.
  apply in_map_iff in Hi. destruct Hi as [q [Hq1 Hq2]]. apply filter_In in Hq2.
  apply in_map_iff. exists q. tauto.
Qed.

Section Top.
Context (ord : oracle) (g : graph) (Hord : ord_ok ord) (Hwf : wf g) (Hcl : closed g) (Hac : ~ has_cycle g).
Notation E := (edge g).

Lemma loop_top (R : N -> Prop) (HR : forall a b, R a -> E a b -> R b) ps e st' :
  wp_loop ord (wp ord g (wp_fuel g)) ps ([], []) false = Some (e, st') ->
  incl ps g -> (forall p, In p ps -> R (key p)) ->
  e = false /\ NoDup (keys (snd st')) /\ ordered [] (snd st') /\ incl (snd st') g /\
  (forall p, In p (snd st') -> R (key p)) /\ (forall p, In p ps -> In (key p) (keys (snd st'))).
Proof.
  intros H Hps HRps.
  destruct (wp_loop_spec ord g Hord Hcl Hac R HR (wp_fuel g)
              (wp_spec ord g Hord Hcl Hac R HR (wp_fuel g)) ps [] [] false e st' H Hps) as [He [Hpost Hall]]; auto.
  - unfold W. cbn. split; [intros x []|]. split; [constructor|]. split; auto. split; intros x [].
  - intros x [[] _].
  - destruct Hpost as [[W1 [W2 [W3 [W4 W5]]]] _]. auto 10.
Qed.

Lemma ordered_closed post a b : ordered [] post -> incl post g ->
  In a (keys post) -> E a b -> In b (keys post).
Proof.
  intros Ho Hi Ha [q [Hq [Hk Hb]]]. apply in_map_iff in Ha. destruct Ha as [pa [Hpk Hpa]].
  assert (q = pa) by (eapply wf_unique; eauto; congruence). subst q.
  destruct (in_split _ _ Hpa) as [l1 [l2 Hs]]. rewrite Hs in Ho.
  destruct (ordered_split _ _ _ _ Ho b Hb) as [[]|X]. rewrite Hs, keys_app. apply in_or_app. now left.
Qed.

Lemma post_order_all : exists post, post_order ord g (wp_fuel g) [] = Some (false, post) /\
  NoDup (keys post) /\ ordered [] post /\ incl post g /\ (forall p, In p g -> In p post).
Proof.
  destruct (post_order_term ord g Hord []) as [e [post [H Hi]]]. pose proof H as H0.
  unfold post_order in H.
  destruct (wp_loop ord (wp ord g (wp_fuel g)) (ord SRoots proc g) ([], []) false) as [[e' st']|] eqn:El; [|discriminate].
  cbn in H. injection H as <- <-.
  destruct (loop_top (fun _ => True) (fun _ _ _ _ => I) _ _ _ El) as [He [H1 [H2 [H3 [_ H5]]]]]; auto.
  { intros x Hx. now apply Hord in Hx. }
  subst e'. exists (snd st'). split; auto. split; auto. split; auto. split; auto.
  intros p Hp. assert (Hk : In (key p) (keys (snd st'))) by (apply H5; now apply Hord).
  apply in_map_iff in Hk. destruct Hk as [p' [Hk Hp']].
  assert (p' = p) by (apply (wf_unique g); auto; apply H3; auto). now subst.
Qed.

Lemma post_order_sel r0 rr ps : get_procs ord g 0%N (r0 :: rr) = Some ps ->
  exists post, post_order ord g (wp_fuel g) (r0 :: rr) = Some (false, post) /\
  NoDup (keys post) /\ ordered [] post /\ incl post g /\
  (forall k, In k (keys post) <-> exists r, In r ps /\ path E (key r) k).
Proof.
  intros Hg.
  destruct (post_order_term ord g Hord (r0 :: rr)) as [e [post [H Hi]]]. pose proof H as H0.
  unfold post_order in H. cbn [wp] in H. rewrite Hg in H.
  destruct (wp_loop ord (wp ord g (wp_fuel g)) ps ([], []) false) as [[e' st']|] eqn:El; [|discriminate].
  cbn in H. injection H as <- <-.
  destruct (loop_top (fun k => exists r, In r ps /\ path E (key r) k)) with (ps := ps) (e := e') (st' := st')
    as [He [H1 [H2 [H3 [H4 H5]]]]]; auto.
  { intros a b [r [Hr Hp]] He. exists r. split; auto. eapply path_snoc; eauto. }
  { eapply get_procs_incl; eauto. }
  { intros p Hp. exists p. split; auto. constructor. }
  subst e'. exists (snd st'). split; auto. split; auto. split; auto. split; auto.
  intros k. split.
  - intros Hk. apply in_map_iff in Hk. destruct Hk as [p [<- Hp]]. now apply H4.
  - intros [r [Hr Hp]]. assert (Hk : In (key r) (keys (snd st'))) by now apply H5.
    clear Hr. induction Hp; auto. apply IHHp. eapply ordered_closed; eauto.
Qed.

Lemma post_order_sel_err r0 rr : get_procs ord g 0%N (r0 :: rr) = None ->
  post_order ord g (wp_fuel g) (r0 :: rr) = Some (true, []).
Proof. intros Hg. unfold post_order. cbn [wp]. rewrite Hg. reflexivity. Qed.

(* GetDependenciesOrderNames: every process that is to run, exactly once, after its dependencies *)
Theorem order_ok : exists o, dep_order ord g (wp_fuel g) = Some (false, o) /\
  NoDup o /\
  (forall k, In k o <-> exists p, In p g /\ key p = k /\ deferred p = false) /\
  (forall p q, In p g -> In q g -> In (key q) (deps p) -> deferred p = false -> deferred q = false ->
               precedes o (key q) (key p)).
Proof.
  destruct post_order_all as [post [H [H1 [H2 [H3 H4]]]]].
  exists (keys (filter (fun p => negb (deferred p)) post)). unfold dep_order. rewrite H. cbn.
  split; auto. split; [now apply NoDup_map_filter|]. split.
  - intros k. split.
    + intros Hk. apply in_map_iff in Hk. destruct Hk as [p [Hk Hp]]. apply filter_In in Hp.
      destruct Hp as [Hp Hd]. apply negb_true_iff in Hd. exists p. auto.
    + intros [p [Hp [Hk Hd]]]. apply in_map_iff. exists p. split; auto. apply filter_In.
      split; auto. now rewrite Hd.
  - intros p q Hp Hq Hdep Hdp Hdq.
    destruct (in_split _ _ (H4 p Hp)) as [l1 [l2 Hs]].
    assert (Hq1 : In q l1).
    { rewrite Hs in H2. destruct (ordered_split _ _ _ _ H2 _ Hdep) as [[]|X].
      apply in_map_iff in X. destruct X as [q' [Hk Hq']].
      assert (q' = q); [|now subst]. apply (wf_unique g); auto. apply H3. rewrite Hs. apply in_or_app. now left. }
    exists (keys (filter (fun p => negb (deferred p)) l1)), (keys (filter (fun p => negb (deferred p)) l2)).
    split.
    + rewrite Hs, filter_app. cbn [filter]. rewrite Hdp. cbn [negb]. now rewrite keys_app.
    + apply in_map. apply filter_In. split; auto. now rewrite Hdq.
Qed.

(* selectRunningProcesses: requested processes plus the transitive closure of their dependencies,
   minus foreground ones, are enabled; every other process is disabled *)
Theorem select_closure r0 rr ps : get_procs ord g 0%N (r0 :: rr) = Some ps ->
  exists sel, select ord (wp_fuel g) g (r0 :: rr) = Ok (map (fun p => set_dis (negb (mem (key p) sel)) p) g) /\
    forall k, In k sel <-> exists p, In p g /\ key p = k /\ fg p = false /\
                                     exists r, In r ps /\ path E (key r) k.
Proof.
  intros Hg. destruct (post_order_sel r0 rr ps Hg) as [post [H [H1 [H2 [H3 H4]]]]].
  exists (keys (filter (fun p => negb (fg p)) post)). unfold select. rewrite H. split; auto.
  intros k. split.
  - intros Hk. apply in_map_iff in Hk. destruct Hk as [p [Hk Hp]]. apply filter_In in Hp.
    destruct Hp as [Hp Hf]. apply negb_true_iff in Hf. exists p. repeat split; auto.
    apply H4. rewrite <- Hk. now apply in_map.
  - intros [p [Hp [Hk [Hf Hr]]]]. apply H4 in Hr. apply in_map_iff in Hr. destruct Hr as [p' [Hk' Hp']].
    assert (p' = p) by (apply (wf_unique g); auto; try congruence; apply H3; auto). subst p'.
    apply in_map_iff. exists p. split; auto. apply filter_In. split; auto. now rewrite Hf.
Qed.

Theorem select_unknown r0 rr : get_procs ord g 0%N (r0 :: rr) = None ->
  select ord (wp_fuel g) g (r0 :: rr) = Err.
Proof. intros Hg. unfold select. now rewrite post_order_sel_err. Qed.

End Top.

(* ================================================================ what Run() starts *)
Lemma run_set_sound ord g r : ord_ok ord -> run_set ord g (wp_fuel g) = Some r ->
  forall k, In k r -> exists p, In p g /\ key p = k /\ dis p = false /\ fg p = false.
Proof.
  intros Hord H k Hk. unfold run_set, dep_order in H.
  destruct (post_order_term ord g Hord []) as [e [post [Hp Hi]]]. rewrite Hp in H. cbn in H.
  injection H as <-. destruct e; [contradiction|].
  apply in_map_iff in Hk. destruct Hk as [p [Hpk Hpf]]. apply filter_In in Hpf. destruct Hpf as [Hpp Hd].
  exists p. unfold deferred in Hd. apply negb_true_iff, orb_false_iff in Hd. destruct Hd. auto.
Qed.

Lemma clone_In cfg p : In p (clone cfg) ->
  exists c, In c cfg /\ In (key p) (c_keys c) /\ pname p = c_name c /\ deps p = c_deps c /\
            dis p = c_dis c /\ fg p = c_fg c /\ ns p = c_ns c.
Proof.
  unfold clone. intros H. apply in_flat_map in H. destruct H as [c [Hc Hp]].
  apply in_map_iff in Hp. destruct Hp as [k [<- Hk]]. exists c. cbn. auto 10.
Qed.

Lemma clone_keys cfg k : In k (keys (clone cfg)) <-> exists c, In c cfg /\ In k (c_keys c).
Proof.
  split.
  - intros H. apply in_map_iff in H. destruct H as [p [<- Hp]]. apply clone_In in Hp.
    destruct Hp as [c [Hc [Hk _]]]. eauto.
  - intros [c [Hc Hk]]. apply in_map_iff.
    exists (mkProc k (c_name c) (c_deps c) (c_dis c) (c_fg c) (c_ns c)). split; auto.
    unfold clone. apply in_flat_map. exists c. split; auto. apply in_map_iff. eauto.
Qed.

Lemma ns_filter_In nss g p : In p (ns_filter nss g) -> In p g /\ (nss = [] \/ In (ns p) nss).
Proof.
  unfold ns_filter. destruct nss as [|a r]; [auto|]. intros H. apply filter_In in H. destruct H as [H1 H2].
  split; auto. right. now apply mem_In.
Qed.

Lemma select_In ord fuel g req g2 q : select ord fuel g req = Ok g2 -> In q g2 ->
  exists p, In p g /\ key q = key p /\ fg q = fg p /\ ns q = ns p /\ (req = [] -> q = p).
Proof.
  unfold select. destruct req as [|r0 rr].
  - intros H Hq. injection H as <-. exists q. auto.
  - destruct (post_order ord g fuel (r0 :: rr)) as [[[] post]|]; try discriminate.
    intros H Hq. injection H as <-. apply in_map_iff in Hq. destruct Hq as [p [<- Hp]].
    exists p. cbn. repeat split; auto. discriminate.
Qed.

Lemma select_nodeps_In g req q : In q (select_nodeps g req) ->
  exists p, In p g /\ key q = key p /\ fg q = fg p /\ ns q = ns p /\ (req = [] -> q = p).
Proof.
  unfold select_nodeps. destruct req as [|r0 rr].
  - intros Hq. exists q. auto.
  - intros Hq. apply in_map_iff in Hq. destruct Hq as [p [<- Hp]]. exists p.
    destruct (mem (pname p) (r0 :: rr) || mem (key p) (r0 :: rr)); cbn; repeat split; auto; discriminate.
Qed.

(* no-deps selection: exactly the processes whose Name or replica name was requested stay enabled,
   without dependencies *)
Theorem select_nodeps_spec g r0 rr q : In q (select_nodeps g (r0 :: rr)) ->
  (dis q = false <-> In (pname q) (r0 :: rr) \/ In (key q) (r0 :: rr)) /\ (dis q = false -> deps q = []) /\
  exists p, In p g /\ key q = key p /\ pname q = pname p /\ fg q = fg p.
Proof.
  unfold select_nodeps. intros Hq. apply in_map_iff in Hq. destruct Hq as [p [<- Hp]].
  destruct (mem (pname p) (r0 :: rr) || mem (key p) (r0 :: rr)) eqn:Em; cbn [clear_deps set_dis dis deps pname key fg].
  - apply orb_true_iff in Em. rewrite !mem_In in Em. split; [tauto|]. split; auto. exists p. auto.
  - apply orb_false_iff in Em. rewrite !mem_nIn in Em. split; [split; [discriminate|tauto]|].
    split; [discriminate|]. exists p. auto.
Qed.

(* whatever Run() hands to runProcess is an admitted, enabled, non-foreground process *)
Theorem never_started ord i g1 pl : ord_ok ord -> pipeline ord i = OPlan g1 pl ->
  forall k, In k (p_run pl) ->
  exists p, In p (p_project pl) /\ key p = k /\ dis p = false /\ fg p = false /\
            (i_nss i = [] \/ In (ns p) (i_nss i)) /\
            exists c, In c (i_cfg i) /\ In k (c_keys c) /\ c_fg c = false /\ c_ns c = ns p /\
                      (i_req i = [] -> c_dis c = false).
Proof.
  intros Hord H k Hk. unfold pipeline in H.
  destruct (validate ord (clone (i_cfg i)) (cyc_fuel (clone (i_cfg i))) (i_strict i)) as [[]|]; try discriminate.
  set (g0 := clone (i_cfg i)) in *. set (ga := ns_filter (i_nss i) g0) in *.
  assert (Hsel : forall g2 q, (if i_nodeps i then Ok (select_nodeps ga (i_req i)) else select ord (wp_fuel ga) ga (i_req i)) = Ok g2 ->
            In q g2 -> exists p, In p ga /\ key q = key p /\ fg q = fg p /\ ns q = ns p /\ (i_req i = [] -> q = p)).
  { intros g2 q Hs Hq. destruct (i_nodeps i).
    - injection Hs as <-. now apply select_nodeps_In.
    - eapply select_In; eauto. }
  destruct (if i_nodeps i then Ok (select_nodeps ga (i_req i)) else select ord (wp_fuel ga) ga (i_req i)) as [| |g2]; try discriminate.
  destruct (dep_order ord g2 (wp_fuel g2)) as [[e o]|] eqn:Ed; [|discriminate].
  destruct (run_set ord g2 (wp_fuel g2)) as [r|] eqn:Er; [|discriminate].
  injection H as <- <-. cbn [p_run p_project] in *.
  destruct (run_set_sound ord g2 r Hord Er k Hk) as [q [Hq [Hqk [Hqd Hqf]]]].
  destruct (Hsel g2 q eq_refl Hq) as [p [Hp [Hk1 [Hf1 [Hn1 Hreq]]]]].
  apply ns_filter_In in Hp. destruct Hp as [Hp0 Hns]. apply clone_In in Hp0.
  destruct Hp0 as [c [Hc [Hck [_ [_ [Hcd [Hcf Hcn]]]]]]].
  exists q. repeat split; auto.
  - rewrite Hn1. exact Hns.
  - exists c. repeat split; auto; try congruence.
    intros Hr. rewrite <- Hcd. rewrite <- (Hreq Hr). exact Hqd.
Qed.

(* ================================================================ finding F18 at configuration level *)
Definition cfg_defined (cfg : list cproc) (d : N) : Prop :=
  exists c, In c cfg /\ (d = c_name c \/ In d (c_keys c)).
Definition cfg_undefined (cfg : list cproc) : Prop :=
  exists c d, In c cfg /\ In d (c_deps c) /\ ~ cfg_defined cfg d.
(* no dependency names a process by a Name that is not one of its replica names *)
Definition no_base_dep (cfg : list cproc) : bool :=
  forallb (fun c => forallb (fun d => forallb (fun c' => negb (N.eqb d (c_name c')) || mem d (c_keys c')) cfg)
                            (c_deps c)) cfg.

Lemma dangling_cfg cfg : (forall c, In c cfg -> c_keys c <> []) -> no_base_dep cfg = true ->
  (dangling (clone cfg) <-> cfg_undefined cfg).
Proof.
  intros Hne Hnb. split.
  - intros [p [d [Hp [Hd Hn]]]]. apply clone_In in Hp.
    destruct Hp as [c [Hc [_ [_ [Hdeps _]]]]]. rewrite Hdeps in Hd.
    exists c, d. repeat split; auto. intros [c' [Hc' [Hx|Hx]]].
    + apply Hn. apply clone_keys. exists c'. split; auto.
      unfold no_base_dep in Hnb. rewrite forallb_forall in Hnb. specialize (Hnb c Hc).
      rewrite forallb_forall in Hnb. specialize (Hnb d Hd). rewrite forallb_forall in Hnb.
      specialize (Hnb c' Hc'). apply orb_true_iff in Hnb. destruct Hnb as [X|X].
      * apply negb_true_iff, N.eqb_neq in X. contradiction.
      * now apply mem_In.
    + apply Hn. apply clone_keys. eauto.
  - intros [c [d [Hc [Hd Hn]]]]. destruct (c_keys c) as [|k ks] eqn:Ek; [exfalso; eapply Hne; eauto|].
    exists (mkProc k (c_name c) (c_deps c) (c_dis c) (c_fg c) (c_ns c)), d. split; [|split; auto].
    + unfold clone. apply in_flat_map. exists c. split; auto. rewrite Ek. now left.
    + intros Hx. apply clone_keys in Hx. destruct Hx as [c' [Hc' Hk]]. apply Hn. exists c'. auto.
Qed.

Theorem load_partial ord cfg strict : ord_ok ord -> wf (clone cfg) ->
  (forall c, In c cfg -> c_keys c <> []) -> no_base_dep cfg = true ->
  exists v, validate ord (clone cfg) (cyc_fuel (clone cfg)) strict = Some v /\
    (v <> VOk <-> has_cycle (clone cfg) \/ cfg_undefined cfg \/ (strict = true /\ disabled_dep (clone cfg))).
Proof.
  intros Hord Hwf Hne Hnb. destruct (validate_iff ord (clone cfg) strict Hord Hwf) as [v [Hv Hiff]].
  exists v. split; auto. rewrite Hiff. rewrite (dangling_cfg cfg Hne Hnb). tauto.
Qed.

Definition f18_cfg : list cproc :=
  [mkCproc 1 [2%N] false false 0 [1%N]; mkCproc 2 [] false false 0 [3%N; 4%N]].

Theorem load_refuted : exists cfg, wf (clone cfg) /\ (forall c, In c cfg -> c_keys c <> []) /\
  ~ has_cycle (clone cfg) /\ ~ cfg_undefined cfg /\
  validate id_oracle (clone cfg) (cyc_fuel (clone cfg)) false = Some VUndefined.
Proof.
  exists f18_cfg. split; [|split; [|split; [|split]]].
  - unfold wf. cbn. repeat constructor; cbn; intuition discriminate.
  - intros c [<-|[<-|[]]]; discriminate.
  - intros [n [m [[p [Hp [Hk Hm]]] Hpath]]]. cbn in Hp.
    destruct Hp as [<-|[<-|[<-|[]]]]; cbn in Hm; try contradiction.
    destruct Hm as [<-|[]]. cbn in Hk. subst n. inversion Hpath; subst.
    destruct H as [q [Hq [Hqk Hqm]]]. cbn in Hq. destruct Hq as [<-|[<-|[<-|[]]]]; cbn in Hqk; discriminate.
  - intros [c [d [Hc [Hd Hn]]]]. cbn in Hc. destruct Hc as [<-|[<-|[]]]; cbn in Hd; try contradiction.
    destruct Hd as [<-|[]]. apply Hn. exists (mkCproc 2 [] false false 0 [3%N; 4%N]). split; [right; now left|now left].
  - vm_compute. reflexivity.
Qed.

(* ================================================================ non-vacuity *)
Definition ex_cfg : list cproc :=
  [mkCproc 1 [2%N; 3%N] false false 0 [1%N];      (* a -> b, c *)
   mkCproc 2 [3%N] true false 0 [2%N];            (* b -> c, disabled *)
   mkCproc 3 [] false false 0 [3%N];              (* c *)
   mkCproc 4 [3%N] false true 0 [4%N];            (* d -> c, foreground *)
   mkCproc 5 [] false false 7 [6%N; 7%N]].        (* e, two replicas, other namespace *)

Lemma ex_wf : wf (clone ex_cfg).
Proof. unfold wf. cbn. repeat constructor; cbn; intuition discriminate. Qed.

Lemma ex_closed : closed (clone ex_cfg).
Proof. apply not_dangling_closed. rewrite <- has_undefined_iff. vm_compute. discriminate. Qed.

Lemma ex_acyclic : ~ has_cycle (clone ex_cfg).
Proof.
  intros Hc.
  assert (H : is_cyclic id_oracle (clone ex_cfg) (cyc_fuel (clone ex_cfg)) = Some false) by (vm_compute; reflexivity).
  apply (is_cyclic_closed id_oracle _ id_oracle_ok ex_wf ex_closed _ _ H) in Hc. discriminate.
Qed.
