(* Model of the run plan of process-compose (property C07).  No proofs in this file.

   Go code modelled (pinned commit):
     cloneReplicas                      src/loader/mutators.go:98-123      [clone]
     validateNoCircularDependencies     src/loader/validators.go:73-84     [is_cyclic / cyc_roots]
     isCyclicHelper                     src/loader/validators.go:86-109    [cyc_helper / cyc_loop]
     validateHealthDependencyHasHealthCheck (only its "not defined" branch, strict mode) :111-140
     validateDependencyIsEnabled        src/loader/validators.go:151-169   [validate]
     admitProcesses + NamespaceAdmitter src/loader/loader.go:106-119, src/admitter/namespace.go  [ns_filter]
     Project.GetProcesses               src/types/project.go:69-95         [resolve1 / get_procs]
     Project.withProcesses              src/types/project.go:97-121        [wp / wp_loop]
     GetDependenciesOrderNames          src/types/project.go:38-49         [dep_order]
     selectRunningProcesses             src/app/project_runner.go:828-853  [select]
     selectRunningProcessesNoDeps       src/app/project_runner.go:855-877  [select_nodeps] (repaired: fixes/F34)
     ProcessConfig.IsDeferred           src/types/process.go:76-78         [deferred]
     NewProcessState                    src/types/process.go:184-206       [status_of]
     ProjectRunner.Run (run order)      src/app/project_runner.go:68-92    [run_set]

   Names (strings) are N identifiers; the harness keeps the table.  Every Go `range` over a map is an
   application of an ORACLE [ord site A l] that may return the list in any order; the site says which
   loop it is, so that different loops (and the same loop in different calls) are independent. *)
From Coq Require Import List Bool NArith Arith.
Import ListNotations.

(* one entry of Project.Processes after cloneReplicas: map key = ReplicaName *)
Record proc := mkProc {
  key   : N;          (* ReplicaName (the map key) *)
  pname : N;          (* Name *)
  deps  : list N;     (* keys of DependsOn *)
  dis   : bool;       (* Disabled *)
  fg    : bool;       (* IsForeground *)
  ns    : N           (* Namespace (after defaulting) *)
}.
Definition graph := list proc.

(* one process of the configuration file: c_keys = the replica names cloneReplicas gives it
   ([c_name] when replicas = 1, else name-0 .. name-(n-1); the harness supplies the identifiers) *)
Record cproc := mkCproc {
  c_name : N; c_deps : list N; c_dis : bool; c_fg : bool; c_ns : N; c_keys : list N
}.

Definition clone (cfg : list cproc) : graph :=
  flat_map (fun c => map (fun k => mkProc k (c_name c) (c_deps c) (c_dis c) (c_fg c) (c_ns c)) (c_keys c)) cfg.

Definition mem (x : N) (l : list N) : bool := existsb (N.eqb x) l.
Definition del (x : N) (l : list N) : list N := filter (fun y => negb (N.eqb y x)) l.
Definition keys (g : graph) : list N := map key g.
Definition is_key (g : graph) (n : N) : bool := mem n (keys g).
Definition find_key (g : graph) (k : N) : option proc := find (fun p => N.eqb (key p) k) g.
Definition by_name (g : graph) (n : N) : list proc := filter (fun p => N.eqb (pname p) n) g.
Definition deferred (p : proc) : bool := fg p || dis p.

(* NamespaceAdmitter: no namespaces selected = everything admitted *)
Definition ns_filter (nss : list N) (g : graph) : graph :=
  match nss with [] => g | _ => filter (fun p => mem (ns p) nss) g end.

Inductive site := SRoots | SProcs (caller n : N) | SDeps (caller k : N).
Definition oracle := site -> forall A : Type, list A -> list A.
Definition id_oracle : oracle := fun _ _ l => l.
Definition rev_oracle : oracle := fun _ A l => rev l.

Inductive res (A : Type) := Fuel | Err | Ok (a : A).
Arguments Fuel {A}. Arguments Err {A}. Arguments Ok {A} a.

(* VOther: any other load error; never produced by the model *)
Inductive verdict := VOk | VCycle | VUndefined | VDisabledDep | VOther.

Section Plan.
Context (ord : oracle) (g : graph).

(* GetProcesses(name) for one name: the map entry, else every process with that Name, else an error *)
Definition resolve1 (caller n : N) : option (list proc) :=
  match find_key g n with
  | Some p => Some [p]
  | None => match ord (SProcs caller n) proc (by_name g n) with [] => None | l => Some l end
  end.

(* GetProcesses(names...), names non-empty: error at the first name that does not resolve *)
Fixpoint get_procs (caller : N) (names : list N) : option (list proc) :=
  match names with
  | [] => Some []
  | n :: r => match resolve1 caller n, get_procs caller r with
              | Some ps, Some rest => Some (ps ++ rest)
              | _, _ => None
              end
  end.

(* ---- cycle check: visited and stack are the two Go maps (sets of names) ------------------- *)
Definition cstate := (list N * list N)%type.

Definition nbrs (n : N) (ps : list proc) : list N :=
  flat_map (fun q => ord (SDeps n (key q)) N (deps q)) ps.

Definition cyc_loop (rec : N -> cstate -> option (bool * cstate)) :=
  fix loop (l : list N) (st : cstate) : option (bool * cstate) :=
    match l with
    | [] => Some (false, st)
    | m :: r =>
      if negb (mem m (fst st)) then
        match rec m st with
        | None => None
        | Some (true, st') => Some (true, st')
        | Some (false, st') => loop r st'
        end
      else if mem m (snd st) then Some (true, st) else loop r st
    end.

(* None = out of fuel.  When GetProcesses fails the function returns false WITHOUT clearing the
   stack entry (validators.go:90-93) - modelled as it is. *)
Fixpoint cyc_helper (fuel : nat) (n : N) (st : cstate) : option (bool * cstate) :=
  match fuel with
  | 0 => None
  | S f =>
    let st1 := (n :: fst st, n :: snd st) in
    match resolve1 n n with
    | None => Some (false, st1)
    | Some ps =>
      match cyc_loop (cyc_helper f) (nbrs n ps) st1 with
      | None => None
      | Some (true, st') => Some (true, st')
      | Some (false, st') => Some (false, (fst st', del n (snd st')))
      end
    end
  end.

Fixpoint cyc_roots (fuel : nat) (l : list N) (st : cstate) : option bool :=
  match l with
  | [] => Some false
  | n :: r =>
    if mem n (fst st) then cyc_roots fuel r st else
    match cyc_helper fuel n st with
    | None => None
    | Some (true, _) => Some true
    | Some (false, st') => cyc_roots fuel r st'
    end
  end.

Definition universe : list N := keys g ++ flat_map deps g.
Definition cyc_fuel : nat := S (length universe).

Definition is_cyclic (fuel : nat) : option bool := cyc_roots fuel (ord SRoots N (keys g)) ([], []).

(* the two later validators; their verdict does not depend on the iteration order because an
   undefined dependency is always an error and is met before any "disabled" error can be returned
   (strict mode: validateHealthDependencyHasHealthCheck runs first and returns it) *)
Definition has_undefined : bool :=
  existsb (fun p => existsb (fun d => negb (is_key g d)) (deps p)) g.
Definition dep_disabled (p : proc) (d : N) : bool :=
  match find_key g d with Some q => dis q && negb (dis p) | None => false end.
Definition has_disabled_dep : bool :=
  existsb (fun p => existsb (dep_disabled p) (deps p)) g.

Definition validate (fuel : nat) (strict : bool) : option verdict :=
  match is_cyclic fuel with
  | None => None
  | Some true => Some VCycle
  | Some false => Some (if has_undefined then VUndefined
                        else if strict && has_disabled_dep then VDisabledDep else VOk)
  end.

(* ---- withProcesses: depth-first post-order with a done set --------------------------------- *)
Definition wstate := (list N * list proc)%type.     (* done, processes handed to fn so far *)

Definition wp_loop (rec : N -> list N -> wstate -> option (bool * wstate)) :=
  fix loop (ps : list proc) (st : wstate) (err : bool) : option (bool * wstate) :=
    match ps with
    | [] => Some (err, st)
    | p :: r =>
      if mem (key p) (fst st) then loop r st err else
      let d1 := key p :: fst st in
      match deps p with
      | [] => loop r (d1, snd st ++ [p]) err
      | _ :: _ =>
        match rec (key p) (ord (SDeps (key p) (key p)) N (deps p)) (d1, snd st) with
        | None => None
        | Some (true, st') => loop r st' true                       (* finalErr set; continue *)
        | Some (false, st') => loop r (fst st', snd st' ++ [p]) err
        end
      end
    end.

Fixpoint wp (fuel : nat) (caller : N) (names : list N) (st : wstate) : option (bool * wstate) :=
  match fuel with
  | 0 => None
  | S f => match get_procs caller names with
           | None => Some (true, st)
           | Some ps => wp_loop (wp f) ps st false
           end
  end.

Definition wp_fuel : nat := length g.

(* WithProcesses(names, fn): names = [] means every process (map order).
   Result: (error?, processes in the order fn saw them) *)
Definition post_order (fuel : nat) (roots : list N) : option (bool * list proc) :=
  match roots with
  | [] => option_map (fun r => (fst r, snd (snd r)))
                     (wp_loop (wp fuel) (ord SRoots proc g) ([], []) false)
  | _ => option_map (fun r => (fst r, snd (snd r))) (wp (S fuel) 0%N roots ([], []))
  end.

(* GetDependenciesOrderNames: (error?, names) *)
Definition dep_order (fuel : nat) : option (bool * list N) :=
  option_map (fun r => (fst r, map key (filter (fun p => negb (deferred p)) (snd r)))) (post_order fuel []).

(* Run(): the processes handed to runProcess; nothing at all when the order could not be built *)
Definition run_set (fuel : nat) : option (list N) :=
  option_map (fun r : bool * list N => if fst r then [] else snd r) (dep_order fuel).

End Plan.

Definition set_dis (b : bool) (p : proc) : proc := mkProc (key p) (pname p) (deps p) b (fg p) (ns p).
Definition clear_deps (p : proc) : proc := mkProc (key p) (pname p) [] false (fg p) (ns p).

(* selectRunningProcesses *)
Definition select (ord : oracle) (fuel : nat) (g : graph) (req : list N) : res graph :=
  match req with
  | [] => Ok g
  | _ => match post_order ord g fuel req with
         | None => Fuel
         | Some (true, _) => Err
         | Some (false, post) =>
             let sel := keys (filter (fun p => negb (fg p)) post) in
             Ok (map (fun p => set_dis (negb (mem (key p) sel)) p) g)
         end
  end.

(* selectRunningProcessesNoDeps AFTER the proposed repair fixes/F34-nodeps-replica-name.diff: a
   process is selected when its Name or its ReplicaName is requested (the unrepaired code compares the
   Name only, so that a requested replica name selects nothing); unknown names are ignored *)
Definition select_nodeps (g : graph) (req : list N) : graph :=
  match req with
  | [] => g
  | _ => map (fun p => if mem (pname p) req || mem (key p) req then clear_deps p else set_dis true p) g
  end.

Inductive status := StDisabled | StForeground | StPending.
Definition status_of (p : proc) : status :=
  if dis p then StDisabled else if fg p then StForeground else StPending.

(* ---- the whole pipeline: Load, NewProjectRunner, GetDependenciesOrderNames, Run -------------- *)
Record input := mkInput {
  i_cfg : list cproc; i_strict : bool; i_nss : list N; i_req : list N; i_nodeps : bool
}.

Record plan := mkPlan {
  p_project : graph;                 (* runner's project after selection *)
  p_order_err : bool;
  p_order : list N;
  p_run : list N
}.

Inductive outcome := OFuel | OLoadErr (v : verdict) | ORunnerErr (loaded : graph) | OPlan (loaded : graph) (p : plan).

Definition pipeline (ord : oracle) (i : input) : outcome :=
  let g0 := clone (i_cfg i) in
  match validate ord g0 (cyc_fuel g0) (i_strict i) with
  | None => OFuel
  | Some VOk =>
      let g1 := ns_filter (i_nss i) g0 in
      let sel := if i_nodeps i then Ok (select_nodeps g1 (i_req i))
                 else select ord (wp_fuel g1) g1 (i_req i) in
      match sel with
      | Fuel => OFuel
      | Err => ORunnerErr g1
      | Ok g2 =>
          match dep_order ord g2 (wp_fuel g2), run_set ord g2 (wp_fuel g2) with
          | Some (e, o), Some r => OPlan g1 (mkPlan g2 e o r)
          | _, _ => OFuel
          end
      end
  | Some v => OLoadErr v
  end.
