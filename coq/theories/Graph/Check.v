(* Correspondence checker (model_ok) and property monitor (holds_C07) for C07, evaluated by vm_compute on
   cases that the Go harness observed on the implementation.
   The monitor is written from the property text over the CONFIGURATION (process names, replica
   counts, depends_on names, markings); it uses breadth-first saturation for reachability and shares
   nothing with the depth-first functions of the model. *)
From Coq Require Import List Bool NArith Arith.
From PC.Base Require Import Util.
From PC.Graph Require Import Model.
Import ListNotations.

Record ocase := mkCase {
  c_in        : input;
  o_load      : verdict;               (* VOk, or the class of the error returned by loader.Load *)
  o_keys      : list N;                (* keys of project.Processes after a successful Load *)
  o_runner_ok : bool;                  (* NewProjectRunner returned no error *)
  o_status    : list (N * status);     (* GetProcessesState() before Run *)
  o_order_err : bool;                  (* GetDependenciesOrderNames() returned an error *)
  o_order     : list N;                (* ... and its list *)
  o_launched  : list N                 (* names of all commands launched by Run(), one entry per launch *)
}.

Definition verdict_eqb (a b : verdict) : bool :=
  match a, b with
  | VOk, VOk | VCycle, VCycle | VUndefined, VUndefined | VDisabledDep, VDisabledDep | VOther, VOther => true
  | _, _ => false
  end.
Definition status_eqb (a b : status) : bool :=
  match a, b with
  | StDisabled, StDisabled | StForeground, StForeground | StPending, StPending => true
  | _, _ => false
  end.

Fixpoint nodupb (l : list N) : bool :=
  match l with [] => true | x :: r => negb (mem x r) && nodupb r end.
Definition subset (l1 l2 : list N) : bool := forallb (fun x => mem x l2) l1.
Definition same_set (l1 l2 : list N) : bool :=
  Nat.eqb (length l1) (length l2) && subset l1 l2 && subset l2 l1.

Fixpoint lookup_status (k : N) (l : list (N * status)) : option status :=
  match l with [] => None | (k', s) :: r => if N.eqb k k' then Some s else lookup_status k r end.

Definition status_ok (g : graph) (obs : list (N * status)) : bool :=
  Nat.eqb (length g) (length obs) &&
  forallb (fun p => option_eqb status_eqb (lookup_status (key p) obs) (Some (status_of p))) g.

(* a dependency name that neither is a map key nor the Name of some process: isCyclicHelper leaks
   its stack entry on these, so the CLASS of the error (cycle / undefined) depends on map order *)
Definition has_unresolvable (g : graph) : bool :=
  existsb (fun p => existsb (fun d => negb (is_key g d) && match by_name g d with [] => true | _ => false end) (deps p)) g.

Definition is_load_err (v : verdict) : bool := negb (verdict_eqb v VOk).

Definition model_ok (c : ocase) : bool :=
  match pipeline id_oracle (c_in c) with
  | OFuel => false
  | OLoadErr v =>
      is_load_err (o_load c) &&
      (verdict_eqb v (o_load c) ||
       (has_unresolvable (clone (i_cfg (c_in c))) &&
        (verdict_eqb (o_load c) VCycle || verdict_eqb (o_load c) VUndefined)))
  | ORunnerErr g1 =>
      verdict_eqb (o_load c) VOk && nodupb (o_keys c) && same_set (o_keys c) (keys g1) && negb (o_runner_ok c)
  | OPlan g1 p =>
      verdict_eqb (o_load c) VOk && nodupb (o_keys c) && same_set (o_keys c) (keys g1) && o_runner_ok c &&
      status_ok (p_project p) (o_status c) &&
      Bool.eqb (o_order_err c) (p_order_err p) &&
      (p_order_err p || (nodupb (o_order c) && same_set (o_order c) (p_order p))) &&
      nodupb (o_launched c) && same_set (o_launched c) (p_run p)
  end.

(* ------------------------------------------------------------------------------------------- *)
(* the monitor                                                                                   *)
Section Spec.
Context (i : input).
Let cfg := i_cfg i.

Definition refers (d : N) (c : cproc) : bool := N.eqb d (c_name c) || mem d (c_keys c).
Definition defined (d : N) : bool := existsb (refers d) cfg.
Definition csucc (c : cproc) : list cproc := filter (fun c' => existsb (fun d => refers d c') (c_deps c)) cfg.
Definition cmem (c : cproc) (l : list cproc) : bool := existsb (fun c' => N.eqb (c_name c) (c_name c')) l.
Definition cadd (l1 l2 : list cproc) : list cproc :=
  fold_left (fun acc c => if cmem c acc then acc else acc ++ [c]) l1 l2.
Fixpoint csat (n : nat) (s : list cproc) : list cproc :=
  match n with 0 => s | S n' => csat n' (cadd (flat_map csucc s) s) end.
Definition spec_cycle : bool := existsb (fun c => cmem c (csat (length cfg) (csucc c))) cfg.
Definition spec_undefined : bool := existsb (fun c => existsb (fun d => negb (defined d)) (c_deps c)) cfg.
Definition spec_disabled_dep : bool :=
  existsb (fun c => negb (c_dis c) && existsb (fun c' => c_dis c') (csucc c)) cfg.
Definition spec_load_ok : bool :=
  negb spec_cycle && negb spec_undefined && negb (i_strict i && spec_disabled_dep).

(* a dependency that names a replicated process by its base name (finding F18) *)
Definition dep_on_replicated : bool :=
  existsb (fun c => existsb (fun d => existsb (fun c' => N.eqb d (c_name c') && negb (mem d (c_keys c'))) cfg) (c_deps c)) cfg.

(* ---- replica level, after admission ---- *)
Definition cadmitted (c : cproc) : bool := match i_nss i with [] => true | l => mem (c_ns c) l end.
Definition acfg : list cproc := filter cadmitted cfg.
Definition all_keys : list N := flat_map c_keys acfg.
Definition owner (k : N) : option cproc := find (fun c => mem k (c_keys c)) acfg.
(* keys a name stands for among the admitted processes *)
Definition keys_of_name (d : N) : list N :=
  flat_map (fun c => if mem d (c_keys c) then [d] else if N.eqb d (c_name c) then c_keys c else []) acfg.
Definition requested (k : N) : bool := existsb (fun r => mem k (keys_of_name r)) (i_req i).
(* the selection with no-deps drops the dependencies of what it selects *)
Definition eff_deps (k : N) : list N :=
  match owner k with
  | None => []
  | Some c => match i_req i with
              | [] => c_deps c
              | _ => if i_nodeps i then (if requested k then [] else c_deps c) else c_deps c
              end
  end.
Definition ksucc (k : N) : list N := flat_map keys_of_name (eff_deps k).
Definition kadd (l1 l2 : list N) : list N := fold_left (fun acc k => if mem k acc then acc else acc ++ [k]) l1 l2.
Fixpoint ksat (n : nat) (s : list N) : list N :=
  match n with 0 => s | S n' => ksat n' (kadd (flat_map ksucc s) s) end.
Definition closure (s : list N) : list N := ksat (length all_keys) (kadd s []).
(* some dependency of an admitted process in [ks] stands for no admitted process *)
Definition broken_dep (ks : list N) : bool :=
  existsb (fun k => existsb (fun d => match keys_of_name d with [] => true | _ => false end) (eff_deps k)) ks.
Definition kfg (k : N) : bool := match owner k with Some c => c_fg c | None => false end.
Definition kdis (k : N) : bool := match owner k with Some c => c_dis c | None => false end.

Definition req_keys : list N := flat_map keys_of_name (i_req i).
Definition unknown_request : bool := existsb (fun r => match keys_of_name r with [] => true | _ => false end) (i_req i).

(* the processes that are to be started *)
Definition enabled_set : list N :=
  match i_req i with
  | [] => filter (fun k => negb (kdis k)) all_keys
  | _ => if i_nodeps i then filter requested all_keys
         else let cl := closure req_keys in filter (fun k => mem k cl && negb (kfg k)) all_keys
  end.
(* [en] = enabled_set, [tr] = the processes to run, computed once by the caller *)
Definition spec_status (en : list N) (k : N) : status :=
  if negb (mem k en) then StDisabled else if kfg k then StForeground else StPending.

Fixpoint index_of (k : N) (l : list N) : nat :=
  match l with [] => 0 | x :: r => if N.eqb x k then 0 else S (index_of k r) end.

Definition order_valid (tr o : list N) : bool :=
  nodupb o && same_set o tr &&
  forallb (fun k => forallb (fun k' => negb (mem k' tr) || Nat.ltb (index_of k' o) (index_of k o)) (ksucc k)) o.

Definition load_clause (c : ocase) : bool := Bool.eqb (verdict_eqb (o_load c) VOk) spec_load_ok.
Definition kind_clause (c : ocase) : bool :=
  match o_load c with
  | VOk => true
  | VCycle => spec_cycle || spec_undefined
  | VUndefined => spec_undefined || dep_on_replicated
  | VDisabledDep => i_strict i && spec_disabled_dep
  | VOther => false
  end.

Definition plan_clause (c : ocase) : bool :=
  let ak := all_keys in
  nodupb (o_keys c) && same_set (o_keys c) ak &&
  if o_runner_ok c then
    let en := enabled_set in
    let tr := filter (fun k => negb (kfg k)) en in
    (* listed as disabled / started exactly as the text says *)
    Nat.eqb (length (o_status c)) (length ak) &&
    forallb (fun k => option_eqb status_eqb (lookup_status k (o_status c)) (Some (spec_status en k))) ak &&
    (if o_order_err c
     then broken_dep ak && match o_launched c with [] => true | _ => false end
     else order_valid tr (o_order c) && nodupb (o_launched c) && same_set (o_launched c) tr) &&
    (* never started: disabled, foreground, outside the namespaces *)
    forallb (fun k => mem k ak && negb (kfg k) && mem k en) (o_launched c)
  else
    (* refusing to build the runner needs a reason: a requested name that stands for nothing, or a
       dependency inside the requested closure that stands for no admitted process *)
    negb (i_nodeps i) && (unknown_request || broken_dep (closure req_keys)).

End Spec.

Definition holds_C07 (c : ocase) : bool :=
  let i := c_in c in
  load_clause i c && kind_clause i c &&
  (if verdict_eqb (o_load c) VOk then plan_clause i c else true).

(* classification of monitor failures that are listed findings *)
(* F18: acyclic, every name defined, not otherwise invalid, yet rejected as "not defined" *)
Definition is_f18 (c : ocase) : bool :=
  let i := c_in c in
  spec_load_ok i && dep_on_replicated i && verdict_eqb (o_load c) VUndefined.

Definition bad_model (cs : list ocase) : list nat := failing model_ok cs.
Definition bad_monitor (cs : list ocase) : list nat := failing holds_C07 cs.
Definition f18_cases (cs : list ocase) : list nat := failing (fun c => negb (is_f18 c)) cs.
