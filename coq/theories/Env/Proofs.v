(* Proofs about the Env model (property C17).  All statements are for arbitrary byte strings, mappings,
   token lists and environment lists; induction over lists, no bounds. *)
From Coq Require Import String.
From Coq Require Import List Arith NArith Bool Ascii Decimal Lia DecimalN DecimalPos.
From PC.Env Require Import Model.
Import ListNotations.
Open Scope list_scope.

(* ------------------------------------------------------------------ character classes *)
Lemma alnum_range : forall c, is_alnum c = true ->
  (c = 95 \/ (48 <= c <= 57) \/ (97 <= c <= 122) \/ (65 <= c <= 90))%N.
Proof.
  intros c H. unfold is_alnum, is_digit in H.
  rewrite !orb_true_iff, !andb_true_iff, N.eqb_eq, !N.leb_le in H. lia.
Qed.
Lemma letter_range : forall c, is_letter_ c = true ->
  (c = 95 \/ (97 <= c <= 122) \/ (65 <= c <= 90))%N.
Proof.
  intros c H. unfold is_letter_ in H. apply andb_true_iff in H. destruct H as [H1 H2].
  apply alnum_range in H1. apply negb_true_iff in H2. unfold is_digit in H2.
  rewrite andb_false_iff, !N.leb_gt in H2. lia.
Qed.
Lemma letter_not_special : forall c, is_letter_ c = true -> is_special c = false.
Proof.
  intros c H. apply letter_range in H. destruct (is_special c) eqn:E; auto. exfalso.
  unfold is_special, is_digit in E.
  rewrite !orb_true_iff, andb_true_iff, !N.eqb_eq, !N.leb_le in E. lia.
Qed.
Lemma letter_not_lbrace : forall c, is_letter_ c = true -> N.eqb c LBRACE = false.
Proof. intros c H. apply letter_range in H. apply N.eqb_neq. unfold LBRACE. lia. Qed.
Lemma letter_alnum : forall c, is_letter_ c = true -> is_alnum c = true.
Proof. intros c H. unfold is_letter_ in H. apply andb_true_iff in H. tauto. Qed.
Lemma letter_not_dollar : forall c, is_letter_ c = true -> N.eqb c DOLLAR = false.
Proof. intros c H. apply letter_range in H. apply N.eqb_neq. unfold DOLLAR. lia. Qed.
Lemma alnum_not_rbrace : forall c, is_alnum c = true -> N.eqb c RBRACE = false.
Proof. intros c H. apply alnum_range in H. apply N.eqb_neq. unfold RBRACE. lia. Qed.

Lemma str_eqb_refl : forall a, str_eqb a a = true.
Proof. induction a; simpl; auto. rewrite N.eqb_refl. auto. Qed.
Lemma str_eqb_eq : forall a c, str_eqb a c = true <-> a = c.
Proof.
  induction a as [|x r IH]; intros [|y q]; simpl; try (split; congruence).
  rewrite andb_true_iff, N.eqb_eq, IH. split; [intros [-> ->]; auto | intros E; inversion E; auto].
Qed.

(* ------------------------------------------------------------------------ the scanner *)
Lemma expand_go_skip : forall m s rest, expand_go m (length s) (s ++ rest) = expand_go m 0 rest.
Proof. intros m s. induction s as [|c r IH]; intros rest; simpl; auto. Qed.

Lemma expand_go_text : forall m s rest,
  no_dollar s = true -> expand_go m 0 (s ++ rest) = s ++ expand_go m 0 rest.
Proof.
  intros m s. induction s as [|c r IH]; intros rest H; simpl in *; auto.
  apply andb_true_iff in H. destruct H as [Hc Hr].
  destruct (N.eqb c DOLLAR); simpl in Hc; try discriminate. now rewrite IH.
Qed.

Lemma span_alnum_ident : forall n rest,
  forallb is_alnum n = true -> starts_alnum rest = false -> span_alnum (n ++ rest) = n.
Proof.
  induction n as [|c r IH]; intros rest Hn Hr; simpl in *.
  - destruct rest; simpl in *; auto. now rewrite Hr.
  - apply andb_true_iff in Hn. destruct Hn as [Hc Hn]. rewrite Hc. now rewrite IH.
Qed.

Lemma until_rbrace_ident : forall n rest,
  forallb is_alnum n = true -> until_rbrace (n ++ RBRACE :: rest) = Some n.
Proof.
  induction n as [|c r IH]; intros rest Hn; simpl in *.
  - reflexivity.
  - apply andb_true_iff in Hn. destruct Hn as [Hc Hn].
    rewrite (alnum_not_rbrace _ Hc). now rewrite IH.
Qed.

Lemma ident_inv : forall n, is_ident n = true ->
  exists c r, n = c :: r /\ is_letter_ c = true /\ forallb is_alnum r = true.
Proof.
  intros [|c r] H; simpl in H; try discriminate.
  apply andb_true_iff in H. destruct H. eauto.
Qed.

Lemma esc_mapping_ident : forall m n, is_ident n = true -> esc_mapping m n = m n.
Proof.
  intros m n H. destruct (ident_inv _ H) as (c & r & -> & Hc & _).
  unfold esc_mapping. simpl. rewrite (letter_not_dollar _ Hc). reflexivity.
Qed.

(* $$ *)
Lemma expand_esc : forall m rest,
  expand_go (esc_mapping m) 0 (DOLLAR :: DOLLAR :: rest) = DOLLAR :: expand_go (esc_mapping m) 0 rest.
Proof. intros. cbn. destruct rest; reflexivity. Qed.

Lemma expand_dollar_step : forall m c0 r0,
  expand_go m 0 (DOLLAR :: c0 :: r0) =
  match fst (get_shell_name (c0 :: r0)), snd (get_shell_name (c0 :: r0)) with
  | [], O => DOLLAR :: expand_go m 0 (c0 :: r0)
  | [], w => expand_go m w (c0 :: r0)
  | name, w => m name ++ expand_go m w (c0 :: r0)
  end.
Proof.
  intros.
  change (expand_go m 0 (DOLLAR :: c0 :: r0)) with
    (let '(name, w) := get_shell_name (c0 :: r0) in
     match name, w with
     | [], O => DOLLAR :: expand_go m 0 (c0 :: r0)
     | [], _ => expand_go m w (c0 :: r0)
     | _, _ => m name ++ expand_go m w (c0 :: r0)
     end).
  destruct (get_shell_name (c0 :: r0)) as [[|x n] [|w]]; reflexivity.
Qed.

(* $NAME *)
Lemma expand_var : forall m n rest,
  is_ident n = true -> starts_alnum rest = false ->
  expand_go m 0 (DOLLAR :: n ++ rest) = m n ++ expand_go m 0 rest.
Proof.
  intros m n rest Hn Hr. destruct (ident_inv _ Hn) as (c & r & -> & Hc & Hal).
  assert (Hsp : span_alnum ((c :: r) ++ rest) = c :: r).
  { apply span_alnum_ident; auto. simpl. now rewrite (letter_alnum _ Hc), Hal. }
  assert (Hg : get_shell_name (c :: r ++ rest) = (c :: r, length (c :: r))).
  { unfold get_shell_name. rewrite (letter_not_lbrace _ Hc), (letter_not_special _ Hc).
    change (c :: r ++ rest) with ((c :: r) ++ rest). now rewrite Hsp. }
  change (DOLLAR :: (c :: r) ++ rest) with (DOLLAR :: c :: r ++ rest).
  rewrite expand_dollar_step, Hg. cbn [fst snd length].
  change (c :: r ++ rest) with ((c :: r) ++ rest).
  change (S (length r)) with (length (c :: r)). now rewrite expand_go_skip.
Qed.

(* ${NAME} *)
Lemma expand_brace : forall m n rest,
  is_ident n = true ->
  expand_go m 0 (DOLLAR :: LBRACE :: n ++ RBRACE :: rest) = m n ++ expand_go m 0 rest.
Proof.
  intros m n rest Hn. destruct (ident_inv _ Hn) as (c & r & -> & Hc & Hal).
  assert (Hall : forallb is_alnum (c :: r) = true) by (simpl; now rewrite (letter_alnum _ Hc), Hal).
  assert (Hsc : brace_scan ((c :: r) ++ RBRACE :: rest) = (c :: r, length (c :: r) + 2)).
  { unfold brace_scan. now rewrite until_rbrace_ident. }
  assert (Hg : get_shell_name (LBRACE :: (c :: r) ++ RBRACE :: rest) = (c :: r, length (c :: r) + 2)).
  { unfold get_shell_name. rewrite N.eqb_refl, Hsc.
    change ((c :: r) ++ RBRACE :: rest) with (c :: (r ++ RBRACE :: rest)).
    destruct (r ++ RBRACE :: rest) as [|c2 q] eqn:E.
    - destruct r; discriminate.
    - now rewrite (letter_not_special _ Hc). }
  rewrite expand_dollar_step, Hg. cbn [fst snd].
  replace (length (c :: r) + 2) with (S (S (length r + 1))) by (simpl; lia).
  replace (LBRACE :: (c :: r) ++ RBRACE :: rest) with ((LBRACE :: (c :: r) ++ [RBRACE]) ++ rest)
    by (simpl; now rewrite <- app_assoc).
  replace (S (S (length r + 1))) with (length (LBRACE :: (c :: r) ++ [RBRACE]))
    by (simpl; rewrite app_length; simpl; lia).
  now rewrite expand_go_skip.
Qed.

(* the token theorem, in a form that composes: any continuation [rest] that does not start with a
   letter/digit/underscore when the token list ends in a $NAME *)
Lemma expand_tokens_rest : forall m toks,
  wf_tokens toks = true ->
  expand_go (esc_mapping m) 0 (print toks) = denote m toks.
Proof.
  intros m toks. induction toks as [|t r IH]; intros H.
  - reflexivity.
  - cbn [wf_tokens] in H. apply andb_true_iff in H. destruct H as [Ht Hr]. specialize (IH Hr).
    cbn [print denote]. destruct t as [s| |n|n]; cbn [print_tok denote_tok].
    + rewrite expand_go_text; auto. now rewrite IH.
    + change ([DOLLAR; DOLLAR] ++ print r) with (DOLLAR :: DOLLAR :: print r).
      rewrite expand_esc, IH. reflexivity.
    + apply andb_true_iff in Ht. destruct Ht as [Hn Hs]. apply negb_true_iff in Hs.
      change ((DOLLAR :: n) ++ print r) with (DOLLAR :: n ++ print r).
      rewrite expand_var; auto. rewrite IH. now rewrite esc_mapping_ident.
    + change ((DOLLAR :: LBRACE :: n ++ [RBRACE]) ++ print r)
        with (DOLLAR :: LBRACE :: (n ++ [RBRACE]) ++ print r).
      rewrite <- app_assoc. change ([RBRACE] ++ print r) with (RBRACE :: print r).
      rewrite expand_brace; auto. rewrite IH. now rewrite esc_mapping_ident.
Qed.

Theorem expand_tokens : forall (mapping : str -> str) (toks : list token),
  wf_tokens toks = true -> load_expand mapping (print toks) = denote mapping toks.
Proof. intros. unfold load_expand, expand. now apply expand_tokens_rest. Qed.

Theorem expand_disabled : forall mapping s, load_text true mapping s = s.
Proof. reflexivity. Qed.

Theorem expand_enabled : forall mapping toks,
  wf_tokens toks = true -> load_text false mapping (print toks) = denote mapping toks.
Proof. intros. unfold load_text. now apply expand_tokens. Qed.

(* text without '$' is left alone, and does not disturb what follows it *)
Theorem expand_plain_prefix : forall mapping pre s,
  no_dollar pre = true -> load_expand mapping (pre ++ s) = pre ++ load_expand mapping s.
Proof. intros. unfold load_expand, expand. now apply expand_go_text. Qed.

Theorem expand_plain : forall mapping s, no_dollar s = true -> load_expand mapping s = s.
Proof.
  intros. rewrite <- (app_nil_r s) at 1. rewrite expand_plain_prefix; auto. now rewrite app_nil_r.
Qed.

(* map keys: with expansion disabled exactly the raw key is loaded (repaired code) ... *)
Theorem disabled_keys : forall mapping key, loaded_keys true mapping key = [key].
Proof. reflexivity. Qed.
(* ... whereas the unchanged code also keeps the entry under the expanded key (finding F35) *)
Lemma disabled_keys_orig_refuted :
  exists (env : list (str * str)) (toks : list token),
    wf_tokens toks = true /\ loaded_keys_orig true (getenv env) (print toks) <> [print toks].
Proof.
  exists [(b "X"%string, b "val"%string)], [TText (b "p"%string); TVar (b "X"%string)].
  split; [reflexivity|]. vm_compute. discriminate.
Qed.

(* the value substituted for a name is the first definition in (process environment ++ .env files) *)
Lemma getenv_app : forall e1 e2 n,
  getenv (e1 ++ e2) n = if existsb (fun kv => str_eqb (fst kv) n) e1 then getenv e1 n else getenv e2 n.
Proof.
  induction e1 as [|[k v] r IH]; intros; simpl; auto.
  destruct (str_eqb k n); simpl; auto.
Qed.

(* the unchanged loader mangles a value that contains its placeholder text (finding F34) *)
Lemma sentinel_refuted :
  exists (env : list (str * str)) (toks : list token),
    wf_tokens toks = true /\
    load_expand_sentinel (getenv env) (print toks) <> denote (getenv env) toks.
Proof.
  exists [(b "X"%string, sentinel)], [TVar (b "X"%string)].
  split; [reflexivity|]. vm_compute. discriminate.
Qed.

(* ------------------------------------------------------------------ launch environment *)
Lemma lookup_last_app : forall k a c,
  lookup_last k (a ++ c) = match lookup_last k c with Some v => Some v | None => lookup_last k a end.
Proof.
  intros k a. induction a as [|kv r IH]; intros c; simpl.
  - destruct (lookup_last k c); reflexivity.
  - rewrite IH. destruct (lookup_last k c); auto.
Qed.

Theorem precedence : forall name num inh g p k,
  lookup_last k (launch_env name num inh g p) =
  first_some [lookup_last k (injected name num); lookup_last k p; lookup_last k g; lookup_last k inh].
Proof.
  intros. unfold launch_env. rewrite !lookup_last_app. cbn [first_some].
  destruct (lookup_last k (injected name num)); auto.
  destruct (lookup_last k p); auto.
  destruct (lookup_last k g); auto.
  destruct (lookup_last k inh); auto.
Qed.

Theorem precedence_orig : forall name num inh g p k,
  lookup_last k (launch_env_orig name num inh g p) =
  first_some [lookup_last k p; lookup_last k g; lookup_last k inh; lookup_last k (injected name num)].
Proof.
  intros. unfold launch_env_orig. rewrite !lookup_last_app. cbn [first_some].
  destruct (lookup_last k p); auto.
  destruct (lookup_last k g); auto.
  destruct (lookup_last k inh); auto.
  destruct (lookup_last k (injected name num)); auto.
Qed.

Lemma index_eq_app_noeq : forall pre rest,
  forallb (fun c => negb (N.eqb c EQUALS)) pre = true ->
  index_eq (pre ++ EQUALS :: rest) = Some (length pre).
Proof.
  induction pre as [|c r IH]; intros rest H; simpl in *.
  - reflexivity.
  - apply andb_true_iff in H. destruct H as [Hc Hr]. apply negb_true_iff in Hc.
    rewrite Hc. now rewrite IH.
Qed.

Lemma firstn_len_app : forall (k x : str), firstn (length k) (k ++ x) = k.
Proof. induction k; intros; simpl; auto. now rewrite IHk. Qed.
Lemma skipn_len_app : forall (k : str) e v, skipn (S (length k)) (k ++ e :: v) = v.
Proof. induction k; intros; simpl; auto. apply IHk. Qed.

(* an entry "K=V" with a non-empty key K that has no '=' : key K, value V (whatever V contains) *)
Lemma entry_kv : forall k v,
  k <> [] -> forallb (fun c => negb (N.eqb c EQUALS)) k = true ->
  entry_key (k ++ EQUALS :: v) = Some k /\ entry_val (k ++ EQUALS :: v) = Some v.
Proof.
  intros k v Hne Hk. unfold entry_key, entry_val, key_index.
  rewrite index_eq_app_noeq; auto.
  destruct (length k) eqn:E; [destruct k; simpl in E; congruence|]. rewrite <- E.
  now rewrite firstn_len_app, skipn_len_app.
Qed.

Lemma lookup_last_2 : forall k e1 e2,
  lookup_last k [e1; e2] =
  match (if has_key k e2 then entry_val e2 else None) with
  | Some v => Some v
  | None => if has_key k e1 then entry_val e1 else None
  end.
Proof. reflexivity. Qed.

Lemma injected_proc_name : forall name num, lookup_last K_PROC_NAME (injected name num) = Some name.
Proof.
  intros. unfold injected.
  destruct (entry_kv K_PROC_NAME name) as [E1 E2]; [discriminate|reflexivity|].
  destruct (entry_kv K_REPLICA_NUM (dec num)) as [E3 E4]; [discriminate|reflexivity|].
  rewrite lookup_last_2. unfold has_key. rewrite E3, E1, E2. reflexivity.
Qed.

Lemma injected_replica_num : forall name num, lookup_last K_REPLICA_NUM (injected name num) = Some (dec num).
Proof.
  intros. unfold injected.
  destruct (entry_kv K_REPLICA_NUM (dec num)) as [E3 E4]; [discriminate|reflexivity|].
  rewrite lookup_last_2. unfold has_key. rewrite E3, E4. reflexivity.
Qed.

Lemma injected_other : forall name num k,
  str_eqb k K_PROC_NAME = false -> str_eqb k K_REPLICA_NUM = false ->
  lookup_last k (injected name num) = None.
Proof.
  intros name num k H1 H2. unfold injected.
  destruct (entry_kv K_PROC_NAME name) as [E1 E2]; [discriminate|reflexivity|].
  destruct (entry_kv K_REPLICA_NUM (dec num)) as [E3 E4]; [discriminate|reflexivity|].
  rewrite lookup_last_2. unfold has_key. rewrite E3, E1.
  assert (S1 : str_eqb K_PROC_NAME k = false).
  { destruct (str_eqb K_PROC_NAME k) eqn:E; auto. apply str_eqb_eq in E. subst k. now rewrite str_eqb_refl in H1. }
  assert (S2 : str_eqb K_REPLICA_NUM k = false).
  { destruct (str_eqb K_REPLICA_NUM k) eqn:E; auto. apply str_eqb_eq in E. subst k. now rewrite str_eqb_refl in H2. }
  now rewrite S1, S2.
Qed.

(* every replica receives its own PC_PROC_NAME and PC_REPLICA_NUM, whatever the other layers define *)
Theorem injected_own : forall name num inh g p,
  lookup_last K_PROC_NAME (launch_env name num inh g p) = Some name /\
  lookup_last K_REPLICA_NUM (launch_env name num inh g p) = Some (dec num).
Proof.
  intros. rewrite !precedence, injected_proc_name, injected_replica_num. split; reflexivity.
Qed.

(* every other key: per-process over global over inherited *)
Theorem precedence_layers : forall name num inh g p k,
  str_eqb k K_PROC_NAME = false -> str_eqb k K_REPLICA_NUM = false ->
  lookup_last k (launch_env name num inh g p) =
  first_some [lookup_last k p; lookup_last k g; lookup_last k inh].
Proof. intros. rewrite precedence, injected_other; auto. Qed.

(* the unchanged code: refuted as soon as a layer defines one of the two names (finding F16) ... *)
Lemma injected_own_orig_refuted :
  exists name num inh g p,
    lookup_last K_PROC_NAME (launch_env_orig name num inh g p) <> Some name \/
    lookup_last K_REPLICA_NUM (launch_env_orig name num inh g p) <> Some (dec num).
Proof.
  exists (b "web"%string), 1%N, [b "PC_PROC_NAME=outer"%string; b "PC_REPLICA_NUM=7"%string], [], [].
  left. vm_compute. discriminate.
Qed.

(* ... and true of it exactly under the extra hypothesis that no layer defines them *)
Lemma injected_own_orig_partial : forall name num inh g p,
  lookup_last K_PROC_NAME (inh ++ g ++ p) = None ->
  lookup_last K_REPLICA_NUM (inh ++ g ++ p) = None ->
  lookup_last K_PROC_NAME (launch_env_orig name num inh g p) = Some name /\
  lookup_last K_REPLICA_NUM (launch_env_orig name num inh g p) = Some (dec num).
Proof.
  intros name num inh g p H1 H2. unfold launch_env_orig.
  rewrite (lookup_last_app K_PROC_NAME), (lookup_last_app K_REPLICA_NUM), H1, H2.
  now rewrite injected_proc_name, injected_replica_num.
Qed.

(* env_cmds results are appended to the global environment *)
Theorem envcmds_global : forall glob cmds k,
  lookup_last k (global_env glob cmds) =
  first_some [lookup_last k (map cmd_entry cmds); lookup_last k glob].
Proof.
  intros. unfold global_env. rewrite lookup_last_app. cbn [first_some].
  destruct (lookup_last k (map cmd_entry cmds)); auto. destruct (lookup_last k glob); auto.
Qed.

Lemma lookup_cmd_entry : forall k v cmds,
  k <> [] -> forallb (fun c => negb (N.eqb c EQUALS)) k = true ->
  lookup_last k (map cmd_entry (cmds ++ [(k, v)])) = Some v.
Proof.
  intros k v cmds Hne Hk. rewrite map_app, lookup_last_app. simpl.
  destruct (entry_kv k v Hne Hk) as [E1 E2]. unfold has_key, cmd_entry. simpl.
  now rewrite E1, E2, str_eqb_refl.
Qed.

Theorem launch_dir_unchanged : forall wd, launch_dir wd = wd.
Proof. reflexivity. Qed.

(* ----------------------------------------------------------- PC_REPLICA_NUM is a faithful numeral *)
Lemma bytes_uint_bytes : forall u, bytes_uint (uint_bytes u) = Some u.
Proof. induction u; simpl; try rewrite IHu; reflexivity. Qed.

Lemma uint_bytes_inj : forall u v, uint_bytes u = uint_bytes v -> u = v.
Proof.
  intros u v H. assert (E : bytes_uint (uint_bytes u) = bytes_uint (uint_bytes v)) by now rewrite H.
  rewrite !bytes_uint_bytes in E. congruence.
Qed.

Theorem dec_inj : forall n m, dec n = dec m -> n = m.
Proof.
  intros n m H. apply uint_bytes_inj in H.
  rewrite <- (DecimalN.Unsigned.of_to n), <- (DecimalN.Unsigned.of_to m). now rewrite H.
Qed.

Lemma dec_nonempty : forall n, dec n <> [].
Proof.
  intros n. unfold dec. destruct n as [|p]; simpl; [discriminate|].
  pose proof (DecimalPos.Unsigned.to_uint_nonnil p) as Hn.
  destruct (Pos.to_uint p); simpl; congruence.
Qed.

Theorem parse_dec_dec : forall n, parse_dec (dec n) = Some n.
Proof.
  intros n. unfold parse_dec. pose proof (dec_nonempty n) as Hn.
  destruct (dec n) eqn:E; [congruence|]. rewrite <- E. unfold dec.
  now rewrite bytes_uint_bytes, DecimalN.Unsigned.of_to.
Qed.

Theorem dec_faithful : forall n m : N, parse_dec (dec n) = Some n /\ (dec n = dec m -> n = m).
Proof. intros. split; [apply parse_dec_dec | apply dec_inj]. Qed.
