(* Model of the environment handling of process-compose (property C17).
   No proofs in this file: it must stay evaluable when a proof is broken.

   Go code modelled (line numbers of the pinned commit):
     os.Expand / getShellName / isShellSpecialVar / isAlphaNum     $GOROOT/src/os/env.go (go1.23.5)
     loadProjectFromFile: escaping + expansion, disable_env_expansion   src/loader/loader.go:121-166
        [load_expand_sentinel] = the unchanged code ("$$" -> sentinel, os.ExpandEnv, sentinel -> "$")
        [load_expand]          = the code after fixes/F34-escape-single-pass.diff (one os.Expand pass whose
                                 mapping returns "$" for the name "$")
     godotenv.Load(files...) (does not override what is set; earlier file wins)  -> [getenv] on env ++ files
     Process.getProcessEnvironment                                      src/app/process.go:273-282
        [launch_env_orig] = the unchanged code (injected variables FIRST)
        [launch_env]      = the code after fixes/F16-injected-env-last.diff (injected variables LAST)
     os/exec dedupEnv (last occurrence of a key wins, key = text before the first '=')  -> [lookup_last]
     ProjectRunner.prepareEnvCmds (appends NAME=trimmed output to Project.Environment)
                                                                        src/app/project_runner.go:1082-1094
     SetDir(procConf.WorkingDir)                                        src/app/process.go:213
   Byte strings are [list N]. *)
From Coq Require Import String.
From Coq Require Import List NArith Bool Ascii Decimal.
Import ListNotations.
Open Scope list_scope.

Definition str := list N.

Definition DOLLAR : N := 36.
Definition LBRACE : N := 123.
Definition RBRACE : N := 125.
Definition EQUALS : N := 61.

Fixpoint str_eqb (a b : str) : bool :=
  match a, b with
  | [], [] => true
  | x :: r, y :: q => N.eqb x y && str_eqb r q
  | _, _ => false
  end.

(* Coq string literal -> bytes (used for constants here and by the generated case files) *)
Fixpoint b (s : String.string) : str :=
  match s with
  | String.EmptyString => []
  | String.String c r => N_of_ascii c :: b r
  end.

(* ---------------------------------------------------------------------------------- os.Expand *)
(* isShellSpecialVar: * # $ @ ! ? - 0..9 *)
Definition is_digit (c : N) : bool := N.leb 48 c && N.leb c 57.
Definition is_special (c : N) : bool :=
  N.eqb c 42 || N.eqb c 35 || N.eqb c 36 || N.eqb c 64 || N.eqb c 33 || N.eqb c 63 || N.eqb c 45 || is_digit c.
(* isAlphaNum: _ 0..9 a..z A..Z *)
Definition is_alnum (c : N) : bool :=
  N.eqb c 95 || is_digit c || (N.leb 97 c && N.leb c 122) || (N.leb 65 c && N.leb c 90).

Fixpoint span_alnum (s : str) : str :=
  match s with
  | c :: r => if is_alnum c then c :: span_alnum r else []
  | [] => []
  end.

(* the bytes before the first '}' ; None when there is no '}' *)
Fixpoint until_rbrace (s : str) : option str :=
  match s with
  | [] => None
  | c :: r => if N.eqb c RBRACE then Some []
              else match until_rbrace r with Some n => Some (c :: n) | None => None end
  end.

(* [r] = what follows the '{' *)
Definition brace_scan (r : str) : str * nat :=
  match until_rbrace r with
  | Some [] => ([], 2)                       (* "${}"  bad syntax, eat it *)
  | Some n => (n, length n + 2)
  | None => ([], 1)                          (* no closing brace: eat "${" *)
  end.

(* getShellName(s) for non-empty s (Expand only calls it when j+1 < len(s)) *)
Definition get_shell_name (s : str) : str * nat :=
  match s with
  | [] => ([], 0)
  | c :: r =>
      if N.eqb c LBRACE then
        match r with
        | c1 :: c2 :: _ => if is_special c1 && N.eqb c2 RBRACE then ([c1], 3) else brace_scan r
        | _ => brace_scan r
        end
      else if is_special c then ([c], 1)
      else let n := span_alnum s in (n, length n)
  end.

(* The scanner loop of os.Expand.  [skip] = number of bytes still to be jumped over (the "j += w"). *)
Fixpoint expand_go (mapping : str -> str) (skip : nat) (s : str) : str :=
  match s with
  | [] => []
  | c :: r =>
      match skip with
      | S k => expand_go mapping k r
      | O =>
          if N.eqb c DOLLAR then
            match r with
            | [] => [c]                        (* '$' is the last byte: j+1 < len(s) fails, it is kept *)
            | _ :: _ =>
                let '(name, w) := get_shell_name r in
                match name, w with
                | [], O => c :: expand_go mapping 0 r          (* no name: keep the dollar *)
                | [], _ => expand_go mapping w r               (* invalid syntax: eat the characters *)
                | _, _ => mapping name ++ expand_go mapping w r
                end
            end
          else c :: expand_go mapping 0 r
      end
  end.

Definition expand (mapping : str -> str) (s : str) : str := expand_go mapping 0 s.

(* strings.ReplaceAll(s, old, new) for non-empty old: leftmost, non-overlapping *)
Fixpoint is_prefix (p s : str) : bool :=
  match p, s with
  | [], _ => true
  | x :: p', y :: s' => N.eqb x y && is_prefix p' s'
  | _ :: _, [] => false
  end.

Fixpoint replace_go (old new : str) (skip : nat) (s : str) : str :=
  match s with
  | [] => []
  | c :: r =>
      match skip with
      | S k => replace_go old new k r
      | O => if is_prefix old s then new ++ replace_go old new (length old - 1) r
             else c :: replace_go old new 0 r
      end
  end.
Definition replace_all (old new s : str) : str := replace_go old new 0 s.

Definition sentinel : str := b "##PC_ENV_ESCAPED##"%string.

(* the unchanged loader *)
Definition load_expand_sentinel (mapping : str -> str) (s : str) : str :=
  replace_all sentinel [DOLLAR] (expand mapping (replace_all [DOLLAR; DOLLAR] sentinel s)).

(* the loader after the repair F34 *)
Definition esc_mapping (mapping : str -> str) (name : str) : str :=
  if str_eqb name [DOLLAR] then [DOLLAR] else mapping name.
Definition load_expand (mapping : str -> str) (s : str) : str := expand (esc_mapping mapping) s.

(* disable_env_expansion: the raw text is what gets parsed *)
Definition load_text (disabled : bool) (mapping : str -> str) (s : str) : str :=
  if disabled then s else load_expand mapping s.
Definition load_text_sentinel (disabled : bool) (mapping : str -> str) (s : str) : str :=
  if disabled then s else load_expand_sentinel mapping s.

(* The keys that a map of the loaded project (processes, env_cmds, vars) holds for ONE key scalar of the file.
   Unchanged code: the raw text is decoded on top of the project that was decoded from the expanded text
   (yaml.v2 reuses a non-nil map), so with expansion disabled the entry under the expanded key survives
   next to the entry under the raw key whenever the two differ.
   After fixes/F35-disabled-expansion-fresh-project.diff the raw text is decoded into a fresh project. *)
Definition loaded_keys_orig (disabled : bool) (mapping : str -> str) (key : str) : list str :=
  let e := load_expand_sentinel mapping key in
  if disabled then (if str_eqb e key then [key] else [key; e]) else [e].
Definition loaded_keys (disabled : bool) (mapping : str -> str) (key : str) : list str :=
  [load_text disabled mapping key].

(* os.Getenv over the process environment followed by the .env files in the order given:
   the first definition of a name wins, an undefined name gives "" *)
Fixpoint getenv (env : list (str * str)) (name : str) : str :=
  match env with
  | [] => []
  | (k, v) :: r => if str_eqb k name then v else getenv r name
  end.

(* ------------------------------------------------------------------------------------ tokens *)
Inductive token :=
| TText (s : str)         (* plain text, no '$' *)
| TEsc                    (* $$ *)
| TVar (name : str)       (* $NAME *)
| TBrace (name : str).    (* ${NAME} *)

Definition print_tok (t : token) : str :=
  match t with
  | TText s => s
  | TEsc => [DOLLAR; DOLLAR]
  | TVar n => DOLLAR :: n
  | TBrace n => DOLLAR :: LBRACE :: n ++ [RBRACE]
  end.
Fixpoint print (ts : list token) : str :=
  match ts with
  | [] => []
  | t :: r => print_tok t ++ print r
  end.

Definition denote_tok (mapping : str -> str) (t : token) : str :=
  match t with
  | TText s => s
  | TEsc => [DOLLAR]
  | TVar n => mapping n
  | TBrace n => mapping n
  end.
Fixpoint denote (mapping : str -> str) (ts : list token) : str :=
  match ts with
  | [] => []
  | t :: r => denote_tok mapping t ++ denote mapping r
  end.

Definition no_dollar (s : str) : bool := forallb (fun c => negb (N.eqb c DOLLAR)) s.
Definition is_letter_ (c : N) : bool := is_alnum c && negb (is_digit c).
(* identifier: [A-Za-z_][A-Za-z0-9_]* *)
Definition is_ident (n : str) : bool :=
  match n with
  | [] => false
  | c :: r => is_letter_ c && forallb is_alnum r
  end.
Definition starts_alnum (s : str) : bool :=
  match s with
  | [] => false
  | c :: _ => is_alnum c
  end.
(* well-formed and well separated: a $NAME is not directly followed by a letter, digit or '_' *)
Fixpoint wf_tokens (ts : list token) : bool :=
  match ts with
  | [] => true
  | t :: r =>
      match t with
      | TText s => no_dollar s
      | TEsc => true
      | TVar n => is_ident n && negb (starts_alnum (print r))
      | TBrace n => is_ident n
      end && wf_tokens r
  end.

(* --------------------------------------------------------------------- launch environment *)
(* position of the first '=' *)
Fixpoint index_eq (s : str) : option nat :=
  match s with
  | [] => None
  | c :: r => if N.eqb c EQUALS then Some 0
              else match index_eq r with Some i => Some (S i) | None => None end
  end.

(* os/exec dedupEnv: i := Index(kv,"="); if i == 0 { i = Index(kv[1:],"=") + 1 }; i < 0 => not a pair *)
Definition key_index (kv : str) : option nat :=
  match index_eq kv with
  | None => None
  | Some O => match index_eq (tl kv) with Some j => Some (S j) | None => Some O end
  | Some i => Some i
  end.
Definition entry_key (kv : str) : option str :=
  match key_index kv with Some i => Some (firstn i kv) | None => None end.
Definition entry_val (kv : str) : option str :=
  match key_index kv with Some i => Some (skipn (S i) kv) | None => None end.
Definition has_key (k : str) (kv : str) : bool :=
  match entry_key kv with Some k' => str_eqb k' k | None => false end.

(* the value the child process sees for key k: the LAST entry with that key *)
Fixpoint lookup_last (k : str) (env : list str) : option str :=
  match env with
  | [] => None
  | kv :: r =>
      match lookup_last k r with
      | Some v => Some v
      | None => if has_key k kv then entry_val kv else None
      end
  end.

Fixpoint first_some {A} (l : list (option A)) : option A :=
  match l with
  | [] => None
  | Some x :: _ => Some x
  | None :: r => first_some r
  end.

(* strconv.Itoa of a non-negative int *)
Fixpoint uint_bytes (u : Decimal.uint) : str :=
  match u with
  | Nil => []
  | D0 r => 48%N :: uint_bytes r | D1 r => 49%N :: uint_bytes r | D2 r => 50%N :: uint_bytes r
  | D3 r => 51%N :: uint_bytes r | D4 r => 52%N :: uint_bytes r | D5 r => 53%N :: uint_bytes r
  | D6 r => 54%N :: uint_bytes r | D7 r => 55%N :: uint_bytes r | D8 r => 56%N :: uint_bytes r
  | D9 r => 57%N :: uint_bytes r
  end.
Definition dec (n : N) : str := uint_bytes (N.to_uint n).

(* inverse direction, used by the monitor: decimal digits -> number (None on a non-digit / empty) *)
Fixpoint bytes_uint (s : str) : option Decimal.uint :=
  match s with
  | [] => Some Nil
  | c :: r =>
      match bytes_uint r with
      | None => None
      | Some u =>
          if N.eqb c 48 then Some (D0 u) else if N.eqb c 49 then Some (D1 u) else
          if N.eqb c 50 then Some (D2 u) else if N.eqb c 51 then Some (D3 u) else
          if N.eqb c 52 then Some (D4 u) else if N.eqb c 53 then Some (D5 u) else
          if N.eqb c 54 then Some (D6 u) else if N.eqb c 55 then Some (D7 u) else
          if N.eqb c 56 then Some (D8 u) else if N.eqb c 57 then Some (D9 u) else None
      end
  end.
Definition parse_dec (s : str) : option N :=
  match s with
  | [] => None
  | _ => match bytes_uint s with Some u => Some (N.of_uint u) | None => None end
  end.

Definition K_PROC_NAME : str := b "PC_PROC_NAME"%string.
Definition K_REPLICA_NUM : str := b "PC_REPLICA_NUM"%string.

Definition injected (name : str) (num : N) : list str :=
  [ K_PROC_NAME ++ EQUALS :: name ; K_REPLICA_NUM ++ EQUALS :: dec num ].

(* the unchanged code: injected, os.Environ(), global, per-process *)
Definition launch_env_orig (name : str) (num : N) (inherited glob proc : list str) : list str :=
  injected name num ++ inherited ++ glob ++ proc.
(* after the repair F16: os.Environ(), global, per-process, injected *)
Definition launch_env (name : str) (num : N) (inherited glob proc : list str) : list str :=
  inherited ++ glob ++ proc ++ injected name num.

(* prepareEnvCmds: for every env_cmds entry whose command succeeded, NAME=strings.TrimSpace(output) is
   appended to the global environment ([cmds] carries the trimmed outputs, in the order of the Go map
   iteration, which is not fixed: the names are distinct map keys, so the order cannot change a lookup) *)
Definition cmd_entry (kc : str * str) : str := fst kc ++ EQUALS :: snd kc.
Definition global_env (glob : list str) (cmds : list (str * str)) : list str :=
  glob ++ map cmd_entry cmds.

(* command.SetDir(p.procConf.WorkingDir) *)
Definition launch_dir (working_dir : str) : str := working_dir.
