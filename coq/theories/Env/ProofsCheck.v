(* The monitor of Check.v accepts what the model produces (for every input): the connection between the
   model-level theorems and the decidable check that is evaluated on the implementation's output. *)
From Coq Require Import String.
From Coq Require Import List Arith NArith Bool.
From PC.Base Require Import Util.
From PC.Env Require Import Model Proofs Check.
Import ListNotations.
Open Scope list_scope.

Lemma has_key_val : forall k kv, has_key k kv = true -> exists v, entry_val kv = Some v.
Proof.
  intros k kv H. unfold has_key, entry_key in H. unfold entry_val.
  destruct (key_index kv); [eauto|discriminate].
Qed.

Lemma lookup_none_defines : forall k l, lookup_last k l = None <-> defines k l = false.
Proof.
  intros k l. unfold defines. induction l as [|kv r IH]; simpl; [tauto|].
  destruct (lookup_last k r) eqn:E.
  - split; [discriminate|]. intros H. apply orb_false_iff in H. destruct H as [_ H].
    apply IH in H. discriminate.
  - destruct (has_key k kv) eqn:Hk; simpl.
    + destruct (has_key_val _ _ Hk) as [v ->]. split; discriminate.
    + tauto.
Qed.

Lemma lookup_some_vals : forall k l v, lookup_last k l = Some v -> mem_str v (vals k l) = true.
Proof.
  intros k l. unfold mem_str, vals. induction l as [|kv r IH]; intros v H; simpl in *; [discriminate|].
  rewrite existsb_app. destruct (lookup_last k r) eqn:E.
  - inversion H; subst. rewrite (IH v eq_refl). apply orb_true_r.
  - destruct (has_key k kv); [|discriminate]. rewrite H. simpl. now rewrite str_eqb_refl.
Qed.

Lemma keys_defines : forall k l, In k (keys l) -> defines k l = true.
Proof.
  intros k l H. unfold keys in H. apply in_flat_map in H. destruct H as (e & He & Hk).
  unfold defines. apply existsb_exists. exists e. split; auto.
  unfold has_key. destruct (entry_key e); simpl in Hk; [|tauto].
  destruct Hk as [->|[]]. apply str_eqb_refl.
Qed.

Lemma defines_app : forall k a c, defines k (a ++ c) = defines k a || defines k c.
Proof. intros. unfold defines. apply existsb_app. Qed.

Lemma defined_lookup : forall k l, defines k l = true -> exists v, lookup_last k l = Some v.
Proof.
  intros k l H. destruct (lookup_last k l) eqn:E; eauto.
  apply lookup_none_defines in E. congruence.
Qed.

Lemma layer_ok_model : forall name num inh g p k,
  In k (keys (inh ++ g ++ p)) -> injected_key k = false ->
  layer_ok inh g p (launch_env name num inh g p) k = true.
Proof.
  intros name num inh g p k Hin Hinj. unfold injected_key in Hinj. apply orb_false_iff in Hinj.
  destruct Hinj as [H1 H2]. unfold layer_ok. rewrite precedence_layers; auto. cbn [first_some].
  apply keys_defines in Hin. rewrite !defines_app in Hin.
  destruct (defines k p) eqn:Dp.
  - destruct (defined_lookup _ _ Dp) as [v E]. rewrite E. now apply lookup_some_vals.
  - assert (Ep : lookup_last k p = None) by now apply lookup_none_defines. rewrite Ep.
    destruct (defines k g) eqn:Dg.
    + destruct (defined_lookup _ _ Dg) as [v E]. rewrite E. now apply lookup_some_vals.
    + assert (Eg : lookup_last k g = None) by now apply lookup_none_defines. rewrite Eg.
      rewrite !orb_false_r in Hin. destruct (defined_lookup _ _ Hin) as [v E]. rewrite E.
      now apply lookup_some_vals.
Qed.

Theorem model_monitor_launch :
  forall name num inh glob cmds proc wd,
    holds_C17 (CLaunch name num inh glob cmds proc wd false
                       (launch_env name num inh (global_env glob cmds) proc) (launch_dir wd)) = true.
Proof.
  intros. cbn [holds_C17]. destruct (injected_own name num inh (global_env glob cmds) proc) as [E1 E2].
  apply andb_true_iff; split; [apply andb_true_iff; split|].
  - unfold own_ok. rewrite E1, E2, parse_dec_dec. cbn. now rewrite str_eqb_refl, N.eqb_refl.
  - apply forallb_forall. intros k Hk. destruct (injected_key k) eqn:Hi; [reflexivity|].
    cbn [andb orb]. now apply layer_ok_model.
  - apply str_eqb_refl.
Qed.

Theorem model_monitor_load :
  forall dis env toks pre post,
    wf_tokens toks = true ->
    holds_C17 (CLoad dis env [SLit pre; STok toks (load_text dis (getenv env) (print toks)); SLit post] false) = true.
Proof.
  intros dis env toks pre post H. cbn [holds_C17 forallb negb]. rewrite H. cbn [andb].
  destruct dis.
  - rewrite expand_disabled. now rewrite str_eqb_refl.
  - rewrite expand_enabled; auto. now rewrite str_eqb_refl.
Qed.

(* the whole-file comparison of [model_ok] is the token theorem applied to the file: when every piece is
   skeleton text without '$' or a well-formed token list whose successor does not start with a letter,
   digit or '_', the file text is itself a printed token list *)
Fixpoint segs_tokens (segs : list seg) : option (list token) :=
  match segs with
  | [] => Some []
  | SLit s :: r => match segs_tokens r with Some t => Some (TText s :: t) | None => None end
  | STok toks _ :: r => match segs_tokens r with Some t => Some (toks ++ t) | None => None end
  | SKey toks _ :: r => match segs_tokens r with Some t => Some (toks ++ t) | None => None end
  | SRaw _ _ :: _ => None
  end.

Lemma print_app : forall a c, print (a ++ c) = print a ++ print c.
Proof. induction a; intros; simpl; auto. now rewrite IHa, app_assoc. Qed.

Lemma segs_tokens_print : forall segs t, segs_tokens segs = Some t -> print t = file_text segs.
Proof.
  unfold file_text. induction segs as [|g r IH]; intros t H; simpl in H.
  - inversion H. reflexivity.
  - destruct g; try discriminate; destruct (segs_tokens r) eqn:E; try discriminate; inversion H; subst;
      simpl; rewrite ?print_app; now rewrite (IH _ eq_refl).
Qed.

Theorem file_is_tokens : forall mapping segs t,
  segs_tokens segs = Some t -> wf_tokens t = true ->
  load_text false mapping (file_text segs) = denote mapping t.
Proof.
  intros mapping segs t H W. rewrite <- (segs_tokens_print _ _ H). now apply expand_enabled.
Qed.
