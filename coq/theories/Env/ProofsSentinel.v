(* The UNCHANGED loader ("$$" -> placeholder, os.ExpandEnv, placeholder -> "$") satisfies the token theorem
   under one extra hypothesis: no '#' (the first byte of the placeholder ##PC_ENV_ESCAPED##) in the plain text
   and in the values that get substituted.  Without it the statement is refuted (Proofs.sentinel_refuted). *)
From Coq Require Import String.
From Coq Require Import List Arith NArith Bool Lia.
From PC.Env Require Import Model Proofs.
Import ListNotations.
Open Scope list_scope.

Definition HASH : N := 35.
Definition no_hash (s : str) : bool := forallb (fun c => negb (N.eqb HASH c)) s.

(* decidable side condition, given the lookup function *)
Definition hash_free (mapping : str -> str) (toks : list token) : bool :=
  forallb (fun t => match t with
                    | TText s => no_hash s
                    | TEsc => true
                    | TVar n => no_hash (mapping n)
                    | TBrace n => no_hash (mapping n)
                    end) toks.

(* ------------------------------------------------------------------ strings.ReplaceAll *)
Lemma replace_go_skip : forall old new s rest,
  replace_go old new (length s) (s ++ rest) = replace_go old new 0 rest.
Proof. intros old new s. induction s as [|c r IH]; intros rest; simpl; auto. Qed.

Lemma replace_go_step0 : forall old new c r,
  replace_go old new 0 (c :: r) =
  if is_prefix old (c :: r) then new ++ replace_go old new (length old - 1) r
  else c :: replace_go old new 0 r.
Proof. reflexivity. Qed.

Lemma replace_go_nomatch : forall h t new s rest,
  forallb (fun c => negb (N.eqb h c)) s = true ->
  replace_go (h :: t) new 0 (s ++ rest) = s ++ replace_go (h :: t) new 0 rest.
Proof.
  intros h t new s. induction s as [|c r IH]; intros rest H; [reflexivity|].
  cbn [forallb] in H. apply andb_true_iff in H. destruct H as [Hc Hr]. apply negb_true_iff in Hc.
  change ((c :: r) ++ rest) with (c :: (r ++ rest)).
  rewrite replace_go_step0. cbn [is_prefix]. rewrite Hc. cbn [andb]. now rewrite IH.
Qed.

Lemma is_prefix_app : forall p rest, is_prefix p (p ++ rest) = true.
Proof. induction p; intros; simpl; auto. now rewrite N.eqb_refl, IHp. Qed.

Lemma replace_go_match : forall h t new rest,
  replace_go (h :: t) new 0 ((h :: t) ++ rest) = new ++ replace_go (h :: t) new 0 rest.
Proof.
  intros. change ((h :: t) ++ rest) with (h :: (t ++ rest)).
  cbn [replace_go]. change (h :: t ++ rest) with ((h :: t) ++ rest). rewrite is_prefix_app.
  replace (length (h :: t) - 1) with (length t) by (simpl; lia). now rewrite replace_go_skip.
Qed.

(* ------------------------------------------------------------------ step 1: "$$" -> placeholder *)
Definition print_tok_s (t : token) : str := match t with TEsc => sentinel | _ => print_tok t end.
Fixpoint print_s (ts : list token) : str :=
  match ts with [] => [] | t :: r => print_tok_s t ++ print_s r end.

Lemma alnum_no_dollar : forall n, forallb is_alnum n = true -> no_dollar n = true.
Proof.
  unfold no_dollar. induction n as [|c r IH]; intros H; [reflexivity|].
  cbn [forallb] in *. apply andb_true_iff in H. destruct H as [Hc Hr]. rewrite (IH Hr), andb_true_r.
  apply negb_true_iff, N.eqb_neq. apply alnum_range in Hc. unfold DOLLAR. lia.
Qed.

Lemma no_dollar_flip : forall s, no_dollar s = true -> forallb (fun c => negb (N.eqb DOLLAR c)) s = true.
Proof.
  unfold no_dollar. induction s as [|c r IH]; intros H; [reflexivity|].
  cbn [forallb] in *. apply andb_true_iff in H. destruct H as [Hc Hr]. rewrite (IH Hr), andb_true_r.
  now rewrite N.eqb_sym.
Qed.

(* a '$' followed by a non-'$' byte is not the start of "$$" *)
Lemma replace_dd_single : forall c body rest,
  N.eqb DOLLAR c = false -> no_dollar body = true ->
  replace_go [DOLLAR; DOLLAR] sentinel 0 (DOLLAR :: (c :: body) ++ rest) =
  DOLLAR :: (c :: body) ++ replace_go [DOLLAR; DOLLAR] sentinel 0 rest.
Proof.
  intros c body rest Hc Hb.
  change (DOLLAR :: (c :: body) ++ rest) with (DOLLAR :: c :: (body ++ rest)).
  rewrite replace_go_step0. cbn [is_prefix]. rewrite N.eqb_refl, Hc. cbn [andb].
  change (c :: body ++ rest) with ((c :: body) ++ rest).
  rewrite replace_go_nomatch; [reflexivity|].
  cbn [forallb]. rewrite Hc. cbn [negb andb]. now apply no_dollar_flip.
Qed.

Lemma step1 : forall toks, wf_tokens toks = true ->
  replace_all [DOLLAR; DOLLAR] sentinel (print toks) = print_s toks.
Proof.
  unfold replace_all. induction toks as [|t r IH]; intros H; [reflexivity|].
  cbn [wf_tokens] in H. apply andb_true_iff in H. destruct H as [Ht Hr]. specialize (IH Hr).
  cbn [print print_s]. destruct t as [s| |n|n]; cbn [print_tok print_tok_s].
  - rewrite replace_go_nomatch; [now rewrite IH | now apply no_dollar_flip].
  - rewrite replace_go_match. now rewrite IH.
  - apply andb_true_iff in Ht. destruct Ht as [Hn _].
    destruct (ident_inv _ Hn) as (c & q & -> & Hc & Hal).
    change ((DOLLAR :: c :: q) ++ print r) with (DOLLAR :: (c :: q) ++ print r).
    rewrite replace_dd_single; [now rewrite IH | | now apply alnum_no_dollar].
    rewrite N.eqb_sym. now apply letter_not_dollar.
  - destruct (ident_inv _ Ht) as (c & q & -> & Hc & Hal).
    change ((DOLLAR :: LBRACE :: (c :: q) ++ [RBRACE]) ++ print r)
      with (DOLLAR :: (LBRACE :: (c :: q) ++ [RBRACE]) ++ print r).
    rewrite replace_dd_single; [now rewrite IH | reflexivity |].
    unfold no_dollar. rewrite forallb_app. cbn [forallb]. rewrite (letter_not_dollar _ Hc).
    fold (no_dollar q). rewrite (alnum_no_dollar _ Hal). reflexivity.
Qed.

(* ------------------------------------------------------------------ step 2: os.Expand *)
Definition denote_tok_s (mapping : str -> str) (t : token) : str :=
  match t with TEsc => sentinel | _ => denote_tok mapping t end.
Fixpoint denote_s (mapping : str -> str) (ts : list token) : str :=
  match ts with [] => [] | t :: r => denote_tok_s mapping t ++ denote_s mapping r end.

Lemma starts_alnum_print_s : forall r, starts_alnum (print_s r) = starts_alnum (print r).
Proof.
  induction r as [|t r IH]; [reflexivity|]. cbn [print print_s].
  destruct t as [s| |n|n]; cbn [print_tok print_tok_s]; try reflexivity.
  destruct s; [exact IH | reflexivity].
Qed.

Lemma step2 : forall m toks, wf_tokens toks = true ->
  expand m (print_s toks) = denote_s m toks.
Proof.
  unfold expand. intros m toks. induction toks as [|t r IH]; intros H; [reflexivity|].
  cbn [wf_tokens] in H. apply andb_true_iff in H. destruct H as [Ht Hr]. specialize (IH Hr).
  cbn [print_s denote_s]. destruct t as [s| |n|n]; cbn [print_tok_s print_tok denote_tok_s denote_tok].
  - rewrite expand_go_text; auto. now rewrite IH.
  - rewrite expand_go_text; [now rewrite IH | reflexivity].
  - apply andb_true_iff in Ht. destruct Ht as [Hn Hs]. apply negb_true_iff in Hs.
    change ((DOLLAR :: n) ++ print_s r) with (DOLLAR :: n ++ print_s r).
    rewrite expand_var; auto; [now rewrite IH | now rewrite starts_alnum_print_s].
  - change ((DOLLAR :: LBRACE :: n ++ [RBRACE]) ++ print_s r)
      with (DOLLAR :: LBRACE :: (n ++ [RBRACE]) ++ print_s r).
    rewrite <- app_assoc. change ([RBRACE] ++ print_s r) with (RBRACE :: print_s r).
    rewrite expand_brace; auto. now rewrite IH.
Qed.

(* ------------------------------------------------------------------ step 3: placeholder -> "$" *)
Lemma replace_sent_nomatch : forall s rest, no_hash s = true ->
  replace_go sentinel [DOLLAR] 0 (s ++ rest) = s ++ replace_go sentinel [DOLLAR] 0 rest.
Proof. intros. change sentinel with (HASH :: tl sentinel). now apply replace_go_nomatch. Qed.

Lemma replace_sent_match : forall rest,
  replace_go sentinel [DOLLAR] 0 (sentinel ++ rest) = DOLLAR :: replace_go sentinel [DOLLAR] 0 rest.
Proof. intros. change sentinel with (HASH :: tl sentinel). now rewrite replace_go_match. Qed.

Lemma step3 : forall m toks, hash_free m toks = true ->
  replace_all sentinel [DOLLAR] (denote_s m toks) = denote m toks.
Proof.
  unfold replace_all. intros m toks. induction toks as [|t r IH]; intros H; [reflexivity|].
  cbn [hash_free forallb] in H. apply andb_true_iff in H. destruct H as [Ht Hr]. specialize (IH Hr).
  cbn [denote_s denote].
  destruct t as [s| |n|n]; cbn [denote_tok_s denote_tok].
  - rewrite replace_sent_nomatch; [now rewrite IH | exact Ht].
  - rewrite replace_sent_match. now rewrite IH.
  - rewrite replace_sent_nomatch; [now rewrite IH | exact Ht].
  - rewrite replace_sent_nomatch; [now rewrite IH | exact Ht].
Qed.

Theorem expand_tokens_sentinel_partial : forall (mapping : str -> str) (toks : list token),
  wf_tokens toks = true -> hash_free mapping toks = true ->
  load_expand_sentinel mapping (print toks) = denote mapping toks.
Proof.
  intros m toks W Hf. unfold load_expand_sentinel. now rewrite step1, step2, step3.
Qed.

(* hence, on such inputs, the repair F34 does not change what is loaded *)
Corollary repair_preserves : forall (mapping : str -> str) (toks : list token),
  wf_tokens toks = true -> hash_free mapping toks = true ->
  load_expand mapping (print toks) = load_expand_sentinel mapping (print toks).
Proof. intros. rewrite expand_tokens, expand_tokens_sentinel_partial; auto. Qed.
