(* Correspondence checker and property monitor for C17, evaluated by vm_compute on cases that the Go
   harness observed on the implementation (harness/cmd/c17). *)
From Coq Require Import String.
From Coq Require Import List NArith Bool Arith.
From PC.Base Require Import Util.
From PC.Env Require Import Model.
Import ListNotations.
Open Scope list_scope.

(* a piece of a generated configuration file *)
Inductive seg :=
| SLit (s : str)                          (* YAML skeleton text, written by the harness *)
| STok (toks : list token) (obs : str)    (* a scalar generated from a token list; the value the loader returned *)
| SRaw (raw obs : str)                    (* a scalar with arbitrary placements of $ { }; the value returned *)
| SKey (toks : list token) (obs : list str).
     (* a map KEY (process name / env_cmds name) "<unique prefix><tokens>"; obs = every key of that map
        that starts with the prefix: the one equal to the raw text first, then the others in order *)

Definition seg_raw (g : seg) : str :=
  match g with SLit s => s | STok t _ => print t | SRaw r _ => r | SKey t _ => print t end.
Definition seg_obs (g : seg) : str :=
  match g with
  | SLit s => s | STok _ o => o | SRaw _ o => o
  | SKey _ [o] => o
  | SKey _ _ => [0%N]          (* no key or several keys: a byte that never occurs in a file *)
  end.
Definition file_text (segs : list seg) : str := concat (map seg_raw segs).
(* the same text with every generated scalar replaced by the value the loader returned for it *)
Definition shape_text (segs : list seg) : str := concat (map seg_obs segs).

Inductive ocase :=
(* one configuration file loaded by loader.Load under a controlled process environment.
     env      : the process environment followed by the entries of the .env files, in lookup order
     segs     : the text of the file in pieces (all generated scalars are single-quoted YAML scalars free of
                quotes and line breaks, so YAML decoding is the identity on them)
     err      : loader.Load failed or a field was missing (never expected) *)
| CLoad (disabled : bool) (env : list (str * str)) (segs : list seg) (err : bool)
(* one launch of one replica.
     inh      : os.Environ() of the supervisor at launch time
     glob     : the project's `environment` list;  cmds : env_cmds names with the trimmed output of each command
     proc     : the process's `environment` list;  wd : the configured working_dir
     real     : false = Cmd.Env / Cmd.Dir captured at the commander seam (exact list);
                true  = what a real `env` child printed (deduplicated by os/exec; the shell adds/changes
                        _ SHLVL PWD OLDPWD, which are not compared) and its PWD *)
| CLaunch (name : str) (num : N) (inh glob : list str) (cmds : list (str * str)) (proc : list str) (wd : str)
          (real : bool) (obs_env : list str) (obs_dir : str).

Definition keys (l : list str) : list str :=
  flat_map (fun e => match entry_key e with Some k => [k] | None => [] end) l.
Definition defines (k : str) (l : list str) : bool := existsb (has_key k) l.
Definition vals (k : str) (l : list str) : list str :=
  flat_map (fun e => if has_key k e then match entry_val e with Some v => [v] | None => [] end else []) l.
Definition mem_str (v : str) (l : list str) : bool := existsb (str_eqb v) l.
Definition ostr_eqb := option_eqb str_eqb.

Definition shell_key (k : str) : bool :=
  str_eqb k (b "_"%string) || str_eqb k (b "SHLVL"%string) || str_eqb k (b "PWD"%string) ||
  str_eqb k (b "OLDPWD"%string).
Definition injected_key (k : str) : bool := str_eqb k K_PROC_NAME || str_eqb k K_REPLICA_NUM.

(* --- model agreement -------------------------------------------------------------------------- *)
Definition launch_agrees (model : list str) (ncmds : nat) (wd : str) (real : bool)
                         (obs_env : list str) (obs_dir : str) : bool :=
  str_eqb obs_dir (launch_dir wd) &&
  if real then
    forallb (fun k => shell_key k || ostr_eqb (lookup_last k obs_env) (lookup_last k model)) (keys model)
  else if Nat.leb ncmds 1 then list_eqb str_eqb obs_env model
  else Nat.eqb (length obs_env) (length model) &&
       forallb (fun k => ostr_eqb (lookup_last k obs_env) (lookup_last k model)) (keys (model ++ obs_env)).

(* the repaired code (fixes F16 and F34 applied) *)
Definition model_ok (c : ocase) : bool :=
  match c with
  | CLoad dis env segs err =>
      negb err && str_eqb (load_text dis (getenv env) (file_text segs)) (shape_text segs)
  | CLaunch name num inh glob cmds proc wd real oe od =>
      launch_agrees (launch_env name num inh (global_env glob cmds) proc) (length cmds) wd real oe od
  end.

(* the unchanged code: used only to classify a disagreement as one of the listed findings.
   With expansion disabled the unchanged loader decodes the raw text ON TOP of the project decoded from the
   expanded text, so a map entry whose key was changed by the expansion stays next to the raw one (F35). *)
Definition seg_obs_orig (dis : bool) (mapping : str -> str) (g : seg) : str :=
  match g with
  | SKey toks ((o1 :: _ :: _) as obs) =>
      if dis && list_eqb str_eqb obs (loaded_keys_orig dis mapping (print toks)) then o1 else [0%N]
  | _ => seg_obs g
  end.
Definition model_orig_ok (c : ocase) : bool :=
  match c with
  | CLoad dis env segs err =>
      negb err && str_eqb (load_text_sentinel dis (getenv env) (file_text segs))
                          (concat (map (seg_obs_orig dis (getenv env)) segs))
  | CLaunch name num inh glob cmds proc wd real oe od =>
      launch_agrees (launch_env_orig name num inh (global_env glob cmds) proc) (length cmds) wd real oe od
  end.

(* --- property monitor: the property text, evaluated on what the implementation produced; it uses the
       token denotation and the layer lists, not the scanner and not the list built by the model -------- *)
Definition layer_ok (inh glob proc obs : list str) (k : str) : bool :=
  match lookup_last k obs with
  | None => false
  | Some v => if defines k proc then mem_str v (vals k proc)
              else if defines k glob then mem_str v (vals k glob)
              else mem_str v (vals k inh)
  end.

Definition own_ok (name : str) (num : N) (obs : list str) : bool :=
  ostr_eqb (lookup_last K_PROC_NAME obs) (Some name) &&
  match lookup_last K_REPLICA_NUM obs with
  | Some v => option_eqb N.eqb (parse_dec v) (Some num)
  | None => false
  end.

Definition holds_C17 (c : ocase) : bool :=
  match c with
  | CLoad dis env segs err =>
      negb err &&
      forallb (fun g => match g with
                        | STok toks obs => wf_tokens toks &&
                                           str_eqb obs (if dis then print toks else denote (getenv env) toks)
                        | SKey toks obs => wf_tokens toks &&
                                           list_eqb str_eqb obs [if dis then print toks else denote (getenv env) toks]
                        | _ => true
                        end) segs
  | CLaunch name num inh glob cmds proc wd real oe od =>
      let g := global_env glob cmds in
      own_ok name num oe &&
      forallb (fun k => injected_key k || (real && shell_key k) || layer_ok inh g proc oe k)
              (keys (inh ++ g ++ proc)) &&
      str_eqb od wd
  end.

Definition bad_model (cs : list ocase) : list nat := failing model_ok cs.
Definition bad_model_orig (cs : list ocase) : list nat := failing model_orig_ok cs.
Definition bad_monitor (cs : list ocase) : list nat := failing holds_C17 cs.
