(* Model of the configuration merge of process-compose (property C15).
   No proofs in this file: it must stay evaluable when a proof is broken.

   Go code modelled (pinned commit, AFTER the proposed repairs fixes/F2-env-split.diff and
   fixes/F34-loglength-default.diff; the unrepaired variants are kept as [merge_env_unfixed] and
   [inject_loglen] so that the refutations can be stated):
     mergeProjects / mergeProcess / mergeProcesses     src/loader/merger.go:105-161
       = mergo.Merge(dst, src, WithAppendSlice, WithOverride, WithTransformers(...))   (mergo v1.0.1 deepMerge)
     toEnvVarMap / toEnvVarSlice / mergeSlice           src/loader/merger.go:38-88
     merge (left fold over LoaderOptions.projects)      src/loader/merger.go:90-103
     Load / loadExtendProject                            src/loader/loader.go:20-104
     copyWorkingDirToProcesses, assignDefaultProcessValues, copyWorkingDirToProbes, setDefaultShell
                                                         src/loader/mutators.go
     Probe.ValidateAndSetDefaults                        src/health/probe.go:44-89

   How Go values are represented
   * A struct is a finite map from FIELD IDs (N, table in harness/cmd/c15/schema.go) to values.  A scalar
     field that is absent from the map has its Go zero value ("" / 0 / false): that is exactly what the YAML
     decoder produces for an option the file does not mention.  An entry (f, zero) stands for a file that
     mentions the option with its zero value (`disabled: false`); Go cannot tell the two apart, and neither
     can [merge] - that is finding F28.
   * Non-pointer nested structs (availability, shutdown) are merged field by field by mergo, so they are
     flattened into the scalar map of the process (ids 20.., 30..).
   * Pointer-to-struct fields (probes, exec/http_get, log_configuration, rotation, shell) are finite maps from
     field id to the pointee; absent = nil pointer.
   * []string fields are merged with WithAppendSlice (entrypoint, fields_order): absent = nil = empty.
   * map[string]X fields (depends_on, vars, env_cmds): mergo replaces the value of every key of the later
     map (no zero test inside maps), keys only in the earlier map stay.
   * types.Environment has a transformer, but mergo calls a transformer only when dst is not nil:
     the environment is an [option]: None = nil slice, Some l = non-nil slice (yaml `environment: []` gives Some []).
   * Process names, variable names and dependency names are N identifiers (the harness keeps the table);
     environment entries and all string values are byte strings. *)
From Coq Require Import List ZArith Bool NArith.
Import ListNotations.

Definition bytes := list N.

Inductive scalar := SStr (s : bytes) | SInt (z : Z) | SBool (b : bool).

Definition is_zero (v : scalar) : bool :=
  match v with
  | SStr [] => true
  | SStr _ => false
  | SInt z => Z.eqb z 0
  | SBool b => negb b
  end.

(* ---------- finite maps as association lists, first match wins ---------------------------------- *)
Section Keyed.
Context {V : Type}.

Fixpoint lookup (k : N) (m : list (N * V)) : option V :=
  match m with
  | [] => None
  | (k', v) :: r => if N.eqb k' k then Some v else lookup k r
  end.

Definition has (k : N) (m : list (N * V)) : bool :=
  match lookup k m with Some _ => true | None => false end.

(* the shape of every by-key merge in merger.go / mergo: keys of the earlier map keep their place and are
   combined with f when the later map has them too; keys only in the later map are added *)
Definition merge_keyed (f : V -> V -> V) (b o : list (N * V)) : list (N * V) :=
  map (fun kv => (fst kv, match lookup (fst kv) o with Some vo => f (snd kv) vo | None => snd kv end)) b
  ++ filter (fun kv => negb (has (fst kv) b)) o.

Definition set_key (k : N) (v : V) (m : list (N * V)) : list (N * V) :=
  (k, v) :: filter (fun kv => negb (N.eqb (fst kv) k)) m.

Definition map_vals (g : V -> V) (m : list (N * V)) : list (N * V) :=
  map (fun kv => (fst kv, g (snd kv))) m.

Definition upd_key (k : N) (g : V -> V) (m : list (N * V)) : list (N * V) :=
  map (fun kv => if N.eqb (fst kv) k then (fst kv, g (snd kv)) else kv) m.
End Keyed.

(* ---------- scalars: mergo deepMerge, default case with Overwrite:  dst = src  iff src is not empty --- *)
Definition smap := list (N * scalar).

Definition pick (vb vo : scalar) : scalar := if is_zero vo then vb else vo.
Definition merge_smap (b o : smap) : smap := merge_keyed pick b o.

(* the Go value of a field: None = the zero value *)
Definition sget (f : N) (m : smap) : option scalar :=
  match lookup f m with
  | Some v => if is_zero v then None else Some v
  | None => None
  end.

Definition str_of (f : N) (m : smap) : bytes := match sget f m with Some (SStr s) => s | _ => [] end.
Definition int_of (f : N) (m : smap) : Z := match sget f m with Some (SInt z) => z | _ => 0%Z end.

(* ---------- []string with WithAppendSlice ----------------------------------------------------------- *)
Definition lmap := list (N * list bytes).
Definition merge_lmap (b o : lmap) : lmap := merge_keyed (@app bytes) b o.
Definition lget (f : N) (m : lmap) : list bytes := match lookup f m with Some l => l | None => [] end.

(* ---------- map[string]X: the later value replaces the earlier one, key by key ----------------------- *)
Definition kvmap := list (N * bytes).
Definition later {A} (_ o : A) : A := o.
Definition merge_kvmap (b o : kvmap) : kvmap := merge_keyed later b o.
Definition mmap := list (N * kvmap).                     (* field id -> map *)
Definition merge_mmap (b o : mmap) : mmap := merge_keyed merge_kvmap b o.
Definition mget (f : N) (m : mmap) : kvmap := match lookup f m with Some x => x | None => [] end.

(* ---------- structs ---------------------------------------------------------------------------------- *)
Record leaf := mkLeaf { l_scal : smap; l_lists : lmap }.
Definition merge_leaf (b o : leaf) : leaf :=
  mkLeaf (merge_smap (l_scal b) (l_scal o)) (merge_lmap (l_lists b) (l_lists o)).

(* pointer fields: src nil -> dst stays; dst nil -> dst = src; both -> merge the pointees *)
Record mid := mkMid { m_scal : smap; m_lists : lmap; m_ptrs : list (N * leaf) }.
Definition merge_mid (b o : mid) : mid :=
  mkMid (merge_smap (m_scal b) (m_scal o)) (merge_lmap (m_lists b) (m_lists o))
        (merge_keyed merge_leaf (m_ptrs b) (m_ptrs o)).

(* ---------- environment -------------------------------------------------------------------------------- *)
Definition env := option (list bytes).
Definition olist (e : env) : list bytes := match e with Some l => l | None => [] end.

Fixpoint bytes_eqb (a b : bytes) : bool :=
  match a, b with
  | [], [] => true
  | x :: r, y :: s => N.eqb x y && bytes_eqb r s
  | _, _ => false
  end.

(* Go string order = lexicographic on bytes *)
Fixpoint bytes_leb (a b : bytes) : bool :=
  match a, b with
  | [], _ => true
  | _ :: _, [] => false
  | x :: r, y :: s => if N.ltb x y then true else if N.eqb x y then bytes_leb r s else false
  end.

Definition eq_sign : N := 61.

(* strings.Cut(e, "="): the part before the FIRST '=' (the whole entry if there is none) *)
Fixpoint key_of (e : bytes) : bytes :=
  match e with
  | [] => []
  | c :: r => if N.eqb c eq_sign then [] else c :: key_of r
  end.

(* m[key] = entry on a Go map, kept as a list of entries with pairwise distinct keys *)
Fixpoint env_put (e : bytes) (m : list bytes) : list bytes :=
  match m with
  | [] => [e]
  | x :: r => if bytes_eqb (key_of x) (key_of e) then e :: r else x :: env_put e r
  end.

Definition env_map (l : list bytes) (m0 : list bytes) : list bytes :=
  fold_left (fun m e => env_put e m) l m0.

(* the entry stored under a key in the Go map *)
Fixpoint find_key (k : bytes) (m : list bytes) : option bytes :=
  match m with
  | [] => None
  | x :: r => if bytes_eqb (key_of x) k then Some x else find_key k r
  end.

(* the last entry of a YAML list with a given key: later entries of the same list shadow earlier ones *)
Fixpoint last_with_key (k : bytes) (l : list bytes) : option bytes :=
  match l with
  | [] => None
  | e :: r => match last_with_key k r with
              | Some x => Some x
              | None => if bytes_eqb (key_of e) k then Some e else None
              end
  end.

Fixpoint insert_sorted (e : bytes) (l : list bytes) : list bytes :=
  match l with
  | [] => [e]
  | x :: r => if bytes_leb e x then e :: x :: r else x :: insert_sorted e r
  end.
Definition sort_bytes (l : list bytes) : list bytes := fold_right insert_sorted [] l.

(* mergeSlice(toEnvVarMap, toEnvVarSlice) when dst is not nil; plain AppendSlice when dst is nil
   (reflect.AppendSlice(nil, empty) stays nil). *)
Definition merge_env (b o : env) : env :=
  match b with
  | None => match o with Some (_ :: _) => o | _ => None end
  | Some bl =>
      match env_map (olist o) (env_map bl []) with
      | [] => None                                  (* var s types.Environment; no append: nil *)
      | m => Some (sort_bytes m)
      end
  end.

(* --- the UNREPAIRED transformer (finding F2): strings.Split(v, "=") and len(kv) == 2 ------------------ *)
Definition count_eq (e : bytes) : nat := length (filter (N.eqb eq_sign) e).
Definition splittable (e : bytes) : bool := Nat.eqb (count_eq e) 1.
Definition merge_env_unfixed (b o : env) : env :=
  match b with
  | None => match o with Some (_ :: _) => o | _ => None end
  | Some bl =>
      match env_map (filter splittable (olist o)) (env_map (filter splittable bl) []) with
      | [] => None
      | m => Some (sort_bytes m)
      end
  end.

(* ---------- process and project -------------------------------------------------------------------------- *)
Record proc := mkProc {
  p_scal : smap; p_lists : lmap; p_env : env; p_maps : mmap; p_ptrs : list (N * mid) }.

Definition merge_proc (b o : proc) : proc :=
  mkProc (merge_smap (p_scal b) (p_scal o)) (merge_lmap (p_lists b) (p_lists o))
         (merge_env (p_env b) (p_env o)) (merge_mmap (p_maps b) (p_maps o))
         (merge_keyed merge_mid (p_ptrs b) (p_ptrs o)).

Record project := mkProject {
  g_scal : smap; g_env : env; g_maps : mmap;
  g_leafs : list (N * leaf);            (* shell *)
  g_mids : list (N * mid);              (* log_configuration *)
  g_procs : list (N * proc) }.

(* mergeProcesses: a process of the later file that the earlier one lacks is copied as it is *)
Definition merge_procs (b o : list (N * proc)) : list (N * proc) := merge_keyed merge_proc b o.

Definition merge (b o : project) : project :=
  mkProject (merge_smap (g_scal b) (g_scal o)) (merge_env (g_env b) (g_env o))
            (merge_mmap (g_maps b) (g_maps o))
            (merge_keyed merge_leaf (g_leafs b) (g_leafs o))
            (merge_keyed merge_mid (g_mids b) (g_mids o))
            (merge_procs (g_procs b) (g_procs o)).

(* merge(opts): base := projects[0]; for each later project: mergeProjects(base, p) *)
Definition merge_all (ps : list project) : option project :=
  match ps with
  | [] => None
  | b :: os => Some (fold_left merge os b)
  end.

(* ---------- field ids used by the loader's own post-processing ---------------------------------------- *)
Definition F_WD : N := 7.          (* process working_dir *)
Definition F_NS : N := 8.          (* process namespace *)
Definition F_REPLICAS : N := 9.
Definition F_LAUNCH_TO : N := 13.
Definition G_LOGLEN : N := 4.      (* project log_length *)
Definition P_LIVE : N := 1.        (* process pointer fields *)
Definition P_READY : N := 2.
Definition PR_EXEC : N := 1.       (* probe pointer fields *)
Definition PR_HTTP : N := 2.
Definition G_SHELL : N := 1.

Definition slash : N := 47.

(* copyWorkingDirToProcesses(project, dir) - only for a project reached through `extends`.
   filepath.Join(dir, wd) is modelled for relative paths that are already Clean (no ".", "..", "//",
   trailing "/"): then Join = dir + "/" + wd.  The harness generates only such paths. *)
Definition resolve_wd_proc (dir : bytes) (p : proc) : proc :=
  let wd := str_of F_WD (p_scal p) in
  let wd' := match wd with
             | [] => dir
             | c :: _ => if N.eqb c slash then wd else dir ++ slash :: wd
             end in
  mkProc (set_key F_WD (SStr wd') (p_scal p)) (p_lists p) (p_env p) (p_maps p) (p_ptrs p).

Definition resolve_wd (dir : bytes) (g : project) : project :=
  mkProject (g_scal g) (g_env g) (g_maps g) (g_leafs g) (g_mids g)
            (map_vals (resolve_wd_proc dir) (g_procs g)).

(* ---------- files, extends --------------------------------------------------------------------------------- *)
(* a configuration file: its (absolute, cleaned) name as an identifier, its directory, what it says.
   `extends` chains are linear, so a file named on the command line comes with the list of the files it
   extends: parent, grandparent, ... (nearest first) *)
Record cfile := mkFile { f_name : N; f_dir : bytes; f_cfg : project }.
Definition xfile := (cfile * list cfile)%type.

Definition insert_at {A} (i : nat) (x : A) (l : list A) : list A := firstn i l ++ x :: skipn i l.
Definition memN (x : N) (l : list N) : bool := existsb (N.eqb x) l.

Definition resolve_file (c : cfile) : cfile := mkFile (f_name c) (f_dir c) (resolve_wd (f_dir c) (f_cfg c)).

(* loadExtendProject(p, opts, file, index) along the chain of ancestors;
   None = "project ... is already specified in files to load" *)
Fixpoint load_extends (anc : list cfile) (index : nat) (st : list N * list project)
  : option (list N * list project) :=
  match anc with
  | [] => Some st
  | par :: r =>
      if memN (f_name par) (fst st) then None
      else load_extends r index
             (insert_at index (f_name par) (fst st),
              insert_at index (f_cfg (resolve_file par)) (snd st))
  end.

(* the loop of Load over the ORIGINAL file list; idx counts positions of that list *)
Fixpoint load_loop (files : list xfile) (idx : nat) (st : list N * list project)
  : option (list N * list project) :=
  match files with
  | [] => Some st
  | (f, anc) :: r =>
      match load_extends anc idx st with
      | None => None
      | Some (names, projs) => load_loop r (S idx) (names, projs ++ [f_cfg f])
      end
  end.

Definition load_projects (files : list xfile) : option (list project) :=
  match load_loop files 0 (map (fun x => f_name (fst x)) files, []) with
  | Some (_, ps) => Some ps
  | None => None
  end.

(* ---------- what Load does to the merged project afterwards (only the modelled fields) ---------------- *)
Definition is_space (c : N) : bool :=
  N.eqb c 32 || N.eqb c 9 || N.eqb c 10 || N.eqb c 11 || N.eqb c 12 || N.eqb c 13.
Definition blank (s : bytes) : bool := forallb is_space s.

Definition s_default : bytes := [100;101;102;97;117;108;116]%N.            (* "default" *)
Definition s_localhost : bytes := [49;50;55;46;48;46;48;46;49]%N.          (* "127.0.0.1" *)
Definition s_http : bytes := [104;116;116;112]%N.                          (* "http" *)

Definition default_int (f : N) (bad : Z -> bool) (d : Z) (m : smap) : smap :=
  if bad (int_of f m) then set_key f (SInt d) m else m.
Definition default_str (f : N) (d : bytes) (m : smap) : smap :=
  if blank (str_of f m) then set_key f (SStr d) m else m.

(* HttpProbe.validateAndSetHttpDefaults: 1 host, 2 path, 3 scheme (num_port is recomputed, not modelled) *)
Definition post_http (h : leaf) : leaf :=
  mkLeaf (default_str 2 [slash] (default_str 3 s_http (default_str 1 s_localhost (l_scal h)))) (l_lists h).

(* copyWorkingDirToProbes: exec.working_dir (field 2) = process working_dir when empty *)
Definition post_exec (wd : bytes) (e : leaf) : leaf :=
  match str_of 2 (l_scal e) with
  | [] => mkLeaf (set_key 2 (SStr wd) (l_scal e)) (l_lists e)
  | _ => e
  end.

(* Probe.ValidateAndSetDefaults: 1 initial_delay, 2 period, 3 timeout, 4 success_threshold, 5 failure_threshold *)
Definition post_probe (wd : bytes) (p : mid) : mid :=
  let s := default_int 1 (fun z => Z.ltb z 0) 0 (m_scal p) in
  let s := default_int 2 (fun z => Z.ltb z 1) 10 s in
  let s := default_int 3 (fun z => Z.ltb z 1) 1 s in
  let s := default_int 4 (fun z => Z.ltb z 1) 1 s in
  let s := default_int 5 (fun z => Z.ltb z 1) 3 s in
  mkMid s (m_lists p) (upd_key PR_HTTP post_http (upd_key PR_EXEC (post_exec wd) (m_ptrs p))).

(* assignDefaultProcessValues + copyWorkingDirToProbes + renderProbe *)
Definition post_proc (p : proc) : proc :=
  let s := match str_of F_NS (p_scal p) with
           | [] => set_key F_NS (SStr s_default) (p_scal p)
           | _ => p_scal p
           end in
  let s := default_int F_REPLICAS (fun z => Z.eqb z 0) 1 s in
  let s := default_int F_LAUNCH_TO (fun z => Z.ltb z 1) 5 s in
  let wd := str_of F_WD (p_scal p) in
  mkProc s (p_lists p) (p_env p) (p_maps p)
         (upd_key P_READY (post_probe wd) (upd_key P_LIVE (post_probe wd) (p_ptrs p))).

(* setDefaultShell: 3 elevated_shell_command, 4 elevated_shell_argument *)
Definition post_shell (defshell : leaf) (ls : list (N * leaf)) : list (N * leaf) :=
  match lookup G_SHELL ls with
  | None => set_key G_SHELL defshell ls
  | Some sh =>
      match str_of 3 (l_scal sh), str_of 4 (l_scal sh) with
      | _ :: _, _ :: _ => ls
      | _, _ =>
          set_key G_SHELL
            (mkLeaf (set_key 3 (SStr (str_of 3 (l_scal defshell)))
                      (set_key 4 (SStr (str_of 4 (l_scal defshell))) (l_scal sh))) (l_lists sh)) ls
      end
  end.

Definition default_loglen : Z := 1000.

Definition post (defshell : leaf) (g : project) : project :=
  mkProject (default_int G_LOGLEN (fun z => Z.eqb z 0) default_loglen (g_scal g))
            (g_env g) (g_maps g) (post_shell defshell (g_leafs g)) (g_mids g)
            (map_vals post_proc (g_procs g)).

(* Load, projected to the modelled fields.  None: an error before the merge (extends of a file that is
   already in the list). *)
Definition load (defshell : leaf) (files : list xfile) : option project :=
  match load_projects files with
  | Some ps => match merge_all ps with Some g => Some (post defshell g) | None => None end
  | None => None
  end.

(* --- the UNREPAIRED default of log_length (finding F34): every parsed file starts with LogLength = 1000,
       so a later file that does not mention log_length carries the non-zero 1000 into the merge ------------ *)
Definition inject_loglen (g : project) : project :=
  mkProject (if has G_LOGLEN (g_scal g) then g_scal g else g_scal g ++ [(G_LOGLEN, SInt default_loglen)])
            (g_env g) (g_maps g) (g_leafs g) (g_mids g) (g_procs g).
